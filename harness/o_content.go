package main

// Oracle `c03content` (C03): mailbox contents follow the reference semantics of the message commands.
//
// A whole server (NewSys) over TCP, 1–3 long-lived sessions, three mailboxes (INBOX, mb1, mb2).  A run is a
// sequence of steps; every session command runs after a barrier (every session has applied every update
// queued so far) and, unless the step says `stale`, after a NOOP of the issuing session, so that the
// authoritative state and the session's view are well defined.  The harness reads the session's view
// (UID SEARCH ALL / UID SEARCH DELETED), resolves the command's message set against it (in item order, each
// message once — what C16 proves about gluon; COPY and MOVE then work in ascending UID order, as mailbox.go does
// since 071c9b5) and records the UIDs the command names.
//
// Protocol state: sessions open mailboxes with SELECT (read-write) and EXAMINE (read-only), SELECT / EXAMINE of names
// that cannot be opened, COPY / MOVE into mailboxes that do not exist and STOREs naming \Recent fail in between; the
// judge and the model keep the protocol state of every session themselves (Spec/MailboxRefProto.lean: the open mailbox
// is in the mode of the command that opened it whatever failed since; read-only: STORE / EXPUNGE / MOVE refused, CLOSE
// removes nothing; Model/SelState.lean: State.Select / State.Examine / the handlers' checks) — words `W:<i>` (whose
// commands follow) and `O:<sel|exa>:<mb>:<ans>:<kept|dropped|none>`.
//
// At every CHECK (and at the end) a FRESH session EXAMINEs every mailbox and does
// FETCH 1:* (UID FLAGS BODY.PEEK[]).  The whole run is then handed, as one line, to
//
//	judge-c03-content   the REFERENCE model (Spec/MailboxRef.lean) on the same commands: answers, UIDs in
//	                    order, flags (without \Recent, case-insensitive), \Deleted, bytes (FNV-1a digest of the
//	                    literal without the X-Pm-Gluon-Id line), UIDNEXT                    -> property verdict
//	c03-model           the MODEL (Model/Actions.lean) on the same commands                 -> tie of the model
//
// EXPUNGE / UID EXPUNGE / CLOSE: the session's view only says WHICH messages the command names (all the session
// sees, or those of them the UID set names); which of them are \Deleted is decided by the REFERENCE (the
// authoritative per-mailbox \Deleted), never by what the session believes — a session that has lost or gained a
// \Deleted through a flag change made in ANOTHER mailbox removes the wrong messages and the next checkpoint
// differs.  What the view shows as \Deleted is handed on as well: the MODEL of the code (Mailbox.Expunge works
// from the snapshot) runs on it, and the judge names the first EXPUNGE at which the two differ.
//
// Connector: the Dummy echoes every client action as an update at its next Flush, and those echoes carry only
// \Seen / \Flagged (a fixture artefact: they would wipe \Answered, \Draft and keywords).  Mode `echo=drop`
// (default) discards the echoes before every barrier; mode `echo=flush` delivers them and restricts the flags
// to \Seen, \Flagged, \Deleted, for which the echoes are faithful.
//
//	vh oracle c03content -seed S -out result.json -replaydir DIR [-n N] [-steps K] [-bulk a,b,…]
//	vh oracle c03content -replay FILE
//
// Step lines (replay / corpus files, after the line `oracle c03content`):
//
//	opt echo=drop|flush            label <cause-label>        (directed case: label reported if it fails)
//	S<i> LOGIN | S<i> SELECT <mb> | S<i> EXAMINE <mb>     any name: one that does not exist, the \Noselect parent `par`,
//	                               `-` = the command without an argument (BAD); a refused SELECT / EXAMINE is followed by
//	                               a probe (UID SEARCH ALL) that tells whether the server kept the old mailbox open
//	S<i> APPEND <mb> <flags|-> <marker>
//	S<i> STORE <sync|stale> <uid|seq> <set> <+FLAGS|-FLAGS|FLAGS>[.SILENT] <flags|->
//	S<i> COPY|MOVE <sync|stale> <uid|seq> <set> <dst>
//	S<i> EXPUNGE <sync|stale> | S<i> UIDEXPUNGE <sync|stale> <set> | S<i> CLOSE <sync|stale>
//	BULK <mb> <n> <flags|->        n messages through the connector's MessagesCreated batch path
//	CHECK
//	                               STORE … CLOSE in a session without an open mailbox are sent as they are (refused)
//	FAULT2 <session step>          the command runs with the transaction that queues its state updates failing
//	                               (harness/interpose.go: error injected at the command's second Client.Write)

import (
	"context"
	"encoding/hex"
	"flag"
	"fmt"
	"hash/fnv"
	"os"
	"path/filepath"
	"regexp"
	"sort"
	"strconv"
	"strings"
	"time"

	"github.com/ProtonMail/gluon/imap"
)

var (
	c03ReSearch  = regexp.MustCompile(`^\* SEARCH(.*)$`)
	c03ReExists  = regexp.MustCompile(`^\* (\d+) EXISTS$`)
	c03ReUIDNext = regexp.MustCompile(`\[UIDNEXT (\d+)\]`)
	c03ReLit     = regexp.MustCompile(`BODY\[\] \{(\d+)\}\r\n`)
	c03ReSeq     = regexp.MustCompile(`^\* (\d+) FETCH \(`)
	c03ReGluonID = regexp.MustCompile(`(?im)^X-Pm-Gluon-Id:[^\r\n]*\r\n`)
)

var c03Mailboxes = []string{"INBOX", "mb1", "mb2"}

const c03ChunkLimit = 1000 // db.ChunkLimit; the facts translator regenerates the value the proofs use

type c03Sess struct {
	c        *Client
	id       int
	selected string
	ro       bool // the mailbox was opened with EXAMINE
}

type c03Run struct {
	ip         *Interposer // only for sequences with a FAULT2 step
	faultNext  bool
	faultSteps []string
	faultFired bool
	sys        *Sys
	sess       map[int]*c03Sess
	echo       string
	words      []string // the judge / model line
	answers    []string
	dumps      []string
	steps      []string // executed step lines
	markerN    int
	stats      map[string]int
	bulk       bool
	profile    string         // generation profile: "" (general) or "cross"
	queue      []string       // cross profile: the steps of the prefix still to come
	homes      map[int]string // cross profile: the mailbox each session stays in
}

func c03NewRun(echo string, fault *Fault) (*c03Run, error) {
	opts := SysOpts{}
	var ip *Interposer
	if fault != nil {
		ip = NewInterposer(*fault)
		opts.DB = NewIPDB(ip)
	}
	sys, err := NewSys(opts)
	if err != nil {
		return nil, err
	}
	o := &c03Run{sys: sys, ip: ip, sess: map[int]*c03Sess{}, echo: echo, stats: map[string]int{}}
	for _, m := range c03Mailboxes[1:] {
		fl := imap.NewFlagSet(imap.FlagSeen, imap.FlagFlagged, imap.FlagDeleted, imap.FlagAnswered, imap.FlagDraft)
		if err := sys.Conn.MailboxCreated(imap.Mailbox{ID: imap.MailboxID(m), Name: []string{m}, Flags: fl, PermanentFlags: fl, Attributes: imap.NewFlagSet()}); err != nil {
			sys.Close(true)
			return nil, err
		}
	}
	// `par` exists only as the \Noselect parent of par/kid: SELECT par is refused (never dumped, never holds a message)
	if err := sys.Conn.MailboxCreated(imap.Mailbox{ID: imap.MailboxID("par-kid"), Name: []string{"par", "kid"}, Flags: imap.NewFlagSet(), PermanentFlags: imap.NewFlagSet(), Attributes: imap.NewFlagSet()}); err != nil {
		sys.Close(true)
		return nil, err
	}
	if err := sys.Barrier(); err != nil {
		sys.Close(true)
		return nil, err
	}
	return o, nil
}

func (o *c03Run) close() {
	for _, s := range o.sess {
		s.c.Close()
	}
	o.sys.Close(true)
}

// barrier: connector echoes dropped (or delivered), every session has applied every queued update
func (o *c03Run) barrier() error {
	if o.echo != "flush" {
		o.sys.Conn.ClearUpdates()
	}
	return o.sys.Barrier()
}

func c03Message(marker string) []byte { return SimpleMessage(marker, "body of "+marker) }

func c03Digest(lit []byte) string {
	h := fnv.New64a()
	_, _ = h.Write(lit)
	return strconv.FormatUint(h.Sum64(), 10)
}

func c03FlagsWord(f string) string {
	if f == "" {
		return "-"
	}
	return f
}

func c03Status(rep Reply) string {
	switch rep.Status {
	case "OK":
		return "ok"
	case "NO":
		return "no"
	case "BAD":
		return "bad"
	}
	return "lost"
}

func c03ParseSearch(rep Reply) []int {
	var out []int
	for _, u := range rep.Untagged {
		if m := c03ReSearch.FindStringSubmatch(u); m != nil {
			for _, f := range strings.Fields(m[1]) {
				n, _ := strconv.Atoi(f)
				out = append(out, n)
			}
		}
	}
	sort.Ints(out)
	return out
}

// view: the UIDs of the session's snapshot in order, and which of them it shows as \Deleted
func (o *c03Run) view(s *c03Sess, sync bool) ([]int, map[int]bool, error) {
	if sync {
		if rep := s.c.Cmd("NOOP"); rep.Err != nil {
			return nil, nil, rep.Err
		}
	} else {
		// pending EXISTS / flag changes are applied when a command ends, removals only when it permits them
		if rep := s.c.Cmd("UID SEARCH ALL"); rep.Err != nil {
			return nil, nil, rep.Err
		}
	}
	rep := s.c.Cmd("UID SEARCH ALL")
	if rep.Err != nil || rep.Status != "OK" {
		return nil, nil, fmt.Errorf("UID SEARCH ALL: %s %v", rep.Tagged, rep.Err)
	}
	uids := c03ParseSearch(rep)
	rep = s.c.Cmd("UID SEARCH DELETED")
	if rep.Err != nil || rep.Status != "OK" {
		return nil, nil, fmt.Errorf("UID SEARCH DELETED: %s %v", rep.Tagged, rep.Err)
	}
	del := map[int]bool{}
	for _, u := range c03ParseSearch(rep) {
		del[u] = true
	}
	return uids, del, nil
}

// resolve a set text against a view: item by item, ranges ascending, every message once (first occurrence)
func c03Resolve(view []int, kind, text string) ([]int, bool) {
	var out []int
	seen := map[int]bool{}
	add := func(u int) {
		if !seen[u] {
			seen[u] = true
			out = append(out, u)
		}
	}
	n := len(view)
	maxUID := 0
	if n > 0 {
		maxUID = view[n-1]
	}
	num := func(s string) (int, bool) {
		if s == "*" {
			if kind == "seq" {
				return n, n > 0
			}
			return maxUID, true
		}
		v, err := strconv.Atoi(s)
		return v, err == nil && v > 0
	}
	for _, it := range strings.Split(text, ",") {
		p := strings.Split(it, ":")
		lo, ok := num(p[0])
		if !ok {
			return nil, false
		}
		hi := lo
		if len(p) == 2 {
			if hi, ok = num(p[1]); !ok {
				return nil, false
			}
		}
		if lo > hi {
			lo, hi = hi, lo
		}
		if kind == "seq" {
			if hi > n {
				return nil, false
			}
			for k := lo; k <= hi; k++ {
				add(view[k-1])
			}
		} else {
			if n == 0 {
				continue
			}
			for _, u := range view {
				if u >= lo && u <= hi {
					add(u)
				}
			}
		}
	}
	return out, true
}

func c03Ints(l []int) string {
	if len(l) == 0 {
		return "-"
	}
	p := make([]string, len(l))
	for i, v := range l {
		p[i] = strconv.Itoa(v)
	}
	return strings.Join(p, ",")
}

func (o *c03Run) record(word, ans string) {
	if ans == "no" && o.faultFired {
		// a NO the harness provoked (the transaction that queues the state updates failed): legitimate
		o.words = append(o.words, word+":nofault")
		o.faultFired = false
	} else {
		o.words = append(o.words, word+":"+ans)
	}
	o.answers = append(o.answers, ans)
}

// recordS: a command of session s (the judge and the model keep a protocol state per session)
func (o *c03Run) recordS(s *c03Sess, word, ans string) {
	o.words = append(o.words, fmt.Sprintf("W:%d", s.id))
	o.record(word, ans)
}

// cmd sends the command of a step; inside a FAULT2 step the storage steps of exactly this command are recorded
// and the configured fault is live
func (o *c03Run) cmd(s *c03Sess, line string) Reply {
	if !o.faultNext || o.ip == nil {
		return s.c.Cmd(line)
	}
	o.faultNext = false
	if err := o.ip.Arm(); err != nil {
		return Reply{Err: err}
	}
	rep := s.c.Cmd(line)
	o.faultSteps = o.ip.Disarm()
	o.faultFired = o.ip.Fired()
	return rep
}

// check: a FRESH session looks at every mailbox
func (o *c03Run) check() error {
	if err := o.barrier(); err != nil {
		return err
	}
	nStates := len(o.sys.Server.VerifStates(o.sys.UserID))
	c, err := o.sys.Dial("fresh")
	if err != nil {
		return err
	}
	c.Timeout = 120 * time.Second
	defer func() {
		c.Cmd("LOGOUT")
		c.Close()
		for k := 0; k < 800 && len(o.sys.Server.VerifStates(o.sys.UserID)) > nStates; k++ {
			time.Sleep(5 * time.Millisecond)
		}
	}()
	if rep := c.Login("user"); rep.Status != "OK" {
		return fmt.Errorf("fresh login: %s %v", rep.Tagged, rep.Err)
	}
	var parts []string
	for _, mb := range c03Mailboxes {
		rep := c.Cmd("EXAMINE " + mb)
		if rep.Status != "OK" {
			return fmt.Errorf("EXAMINE %s: %s %v", mb, rep.Tagged, rep.Err)
		}
		exists, uidNext := 0, 0
		for _, u := range append(append([]string{}, rep.Untagged...), rep.Tagged) {
			if m := c03ReExists.FindStringSubmatch(u); m != nil {
				exists, _ = strconv.Atoi(m[1])
			}
			if m := c03ReUIDNext.FindStringSubmatch(u); m != nil {
				uidNext, _ = strconv.Atoi(m[1])
			}
		}
		type ent struct {
			seq int
			s   string
		}
		var ents []ent
		if exists > 0 {
			rep = c.Cmd("FETCH 1:* (UID FLAGS BODY.PEEK[])")
			if rep.Status != "OK" {
				return fmt.Errorf("FETCH in %s: %s %v", mb, rep.Tagged, rep.Err)
			}
			for _, u := range rep.Untagged {
				ms := c03ReSeq.FindStringSubmatch(u)
				if ms == nil {
					continue
				}
				loc := c03ReLit.FindStringSubmatchIndex(u)
				if loc == nil {
					return fmt.Errorf("FETCH answer without BODY[] literal in %s: %.80q", mb, u)
				}
				n, _ := strconv.Atoi(u[loc[2]:loc[3]])
				if loc[1]+n > len(u) {
					return fmt.Errorf("short literal in %s", mb)
				}
				lit := []byte(u[loc[1] : loc[1]+n])
				rest := u[:loc[0]] + u[loc[1]+n:]
				seq, _ := strconv.Atoi(ms[1])
				uid := -1
				if m := reUID.FindStringSubmatch(rest); m != nil {
					uid, _ = strconv.Atoi(m[1])
				}
				var fl []string
				del := "0"
				if m := reFlags.FindStringSubmatch(rest); m != nil {
					for _, f := range strings.Fields(m[1]) {
						lf := strings.ToLower(f)
						switch lf {
						case `\recent`:
						case `\deleted`:
							del = "1"
						default:
							fl = append(fl, lf)
						}
					}
				}
				sort.Strings(fl)
				fw := "-"
				if len(fl) > 0 {
					fw = strings.Join(fl, ",")
				}
				stripped := c03ReGluonID.ReplaceAll(lit, nil)
				ents = append(ents, ent{seq, fmt.Sprintf("%d/%s/%s/%s", uid, fw, del, c03Digest(stripped))})
			}
			if len(ents) != exists {
				return fmt.Errorf("%s: EXISTS %d but %d messages fetched", mb, exists, len(ents))
			}
			// FETCH answers are produced in parallel: order by sequence number (= the order of the mailbox)
			sort.SliceStable(ents, func(i, j int) bool { return ents[i].seq < ents[j].seq })
			for i, e := range ents {
				if e.seq != i+1 {
					return fmt.Errorf("%s: sequence numbers not 1..n", mb)
				}
			}
		}
		es := make([]string, len(ents))
		for i, e := range ents {
			es[i] = e.s
		}
		parts = append(parts, fmt.Sprintf("%s@%d=%s", mb, uidNext, strings.Join(es, "|")))
		c.Cmd("UNSELECT")
	}
	d := strings.Join(parts, ";")
	o.words = append(o.words, "K:"+d)
	o.dumps = append(o.dumps, d)
	o.stats["checkpoints"]++
	return nil
}

func (o *c03Run) newMarker() string {
	o.markerN++
	return fmt.Sprintf("m%d", o.markerN)
}

// exec runs one step line; the returned error is a harness problem, not a verdict
func (o *c03Run) exec(step string) error {
	o.steps = append(o.steps, step)
	f := strings.Fields(step)
	if len(f) == 0 {
		return nil
	}
	if f[0] == "FAULT2" {
		// the next command runs with its second transaction (the one that queues the state updates) failing
		o.faultNext = true
		f = f[1:]
		if len(f) == 0 {
			return fmt.Errorf("bad step %q", step)
		}
	}
	switch {
	case f[0] == "CHECK":
		return o.check()
	case f[0] == "BULK":
		if len(f) != 4 {
			return fmt.Errorf("bad step %q", step)
		}
		mb, n := f[1], atoi(f[2])
		flags := imap.NewFlagSet()
		if f[3] != "-" {
			flags = imap.NewFlagSet(strings.Split(f[3], ",")...)
		}
		o.sys.Conn.ClearUpdates()
		msgs := make([]imap.Message, n)
		lits := make([][]byte, n)
		mbs := make([][]imap.MailboxID, n)
		ds := make([]string, n)
		for i := 0; i < n; i++ {
			marker := o.newMarker()
			msgs[i] = imap.Message{ID: imap.MessageID("c-" + marker), Flags: flags, Date: time.Unix(1136214245, 0).UTC()}
			lits[i] = c03Message(marker)
			mbs[i] = []imap.MailboxID{mboxID(mb)}
			ds[i] = c03Digest(lits[i])
		}
		if err := o.sys.Conn.MessagesCreated(msgs, lits, mbs); err != nil {
			return err
		}
		o.sys.Conn.Flush()
		ctx, c := context.WithTimeout(context.Background(), 120*time.Second)
		defer c()
		if err := o.sys.Server.VerifBarrier(ctx, o.sys.UserID); err != nil {
			return err
		}
		o.record(fmt.Sprintf("B:%s:%s:%s", mb, f[3], strings.Join(ds, ",")), "ok")
		o.stats["bulk"]++
		o.bulk = true
		return nil
	case strings.HasPrefix(f[0], "S") && len(f) >= 2:
		i := atoi(f[0][1:])
		if f[1] == "LOGIN" {
			c, err := o.sys.Dial(fmt.Sprintf("s%dx", i))
			if err != nil {
				return err
			}
			c.Timeout = 120 * time.Second
			if rep := c.Login("user"); rep.Status != "OK" {
				return fmt.Errorf("login: %s %v", rep.Tagged, rep.Err)
			}
			o.sess[i] = &c03Sess{c: c, id: i}
			return nil
		}
		s := o.sess[i]
		if s == nil {
			return fmt.Errorf("step %q: session not logged in", step)
		}
		if err := o.barrier(); err != nil {
			return err
		}
		return o.execSession(s, f[1], f[2:], step)
	}
	return fmt.Errorf("bad step %q", step)
}

func (o *c03Run) execSession(s *c03Sess, op string, a []string, step string) error {
	bad := fmt.Errorf("bad step %q", step)
	o.stats["cmd."+op]++
	switch op {
	case "SELECT", "EXAMINE":
		if len(a) != 1 {
			return bad
		}
		line := op + " " + a[0]
		if a[0] == "-" {
			line = op // without an argument: BAD
		}
		had := s.selected
		rep := s.c.Cmd(line)
		if rep.Err != nil {
			return rep.Err
		}
		kind := map[string]string{"SELECT": "sel", "EXAMINE": "exa"}[op]
		after := "none"
		if rep.Status == "OK" {
			s.selected, s.ro = a[0], op == "EXAMINE"
		} else {
			o.stats["failed-open"]++
			if had != "" {
				// what did the server do with the mailbox that was open?  (gluon keeps it, RFC 3501 6.3.1 drops it)
				after = "kept"
				if p := s.c.Cmd("UID SEARCH ALL"); p.Err != nil {
					return p.Err
				} else if p.Status != "OK" {
					after = "dropped"
					s.selected, s.ro = "", false
				}
				o.stats["failed-open-with-mailbox-open"]++
			}
		}
		o.recordS(s, fmt.Sprintf("O:%s:%s", kind, a[0]), c03Status(rep))
		o.words[len(o.words)-1] += ":" + after
		return nil
	case "APPEND":
		if len(a) != 3 {
			return bad
		}
		lit := c03Message(a[2])
		flags := ""
		if a[1] != "-" {
			flags = strings.ReplaceAll(a[1], ",", " ")
		}
		rep := s.c.Append(a[0], flags, lit)
		if rep.Err != nil {
			return rep.Err
		}
		o.record(fmt.Sprintf("A:%s:%s:%s", a[0], a[1], hex.EncodeToString(lit)), c03Status(rep))
		return nil
	}
	if len(a) < 1 || (a[0] != "sync" && a[0] != "stale") {
		return bad
	}
	if s.selected == "" {
		return o.execUnselected(s, op, a, step)
	}
	if s.ro {
		o.stats["read-only-cmd"]++
	}
	if a[0] == "stale" {
		o.stats["stale-view"]++
	}
	view, del, err := o.view(s, a[0] == "sync")
	if err != nil {
		return err
	}
	pfx := func(kind string) string {
		if kind == "uid" {
			return "UID "
		}
		return ""
	}
	switch op {
	case "STORE":
		if len(a) != 5 {
			return bad
		}
		sel, ok := c03Resolve(view, a[1], a[2])
		if !ok {
			return fmt.Errorf("step %q: set does not fit the view (%d messages)", step, len(view))
		}
		flags := ""
		if a[4] != "-" {
			flags = strings.ReplaceAll(a[4], ",", " ")
		}
		rep := o.cmd(s, fmt.Sprintf("%sSTORE %s %s (%s)", pfx(a[1]), a[2], a[3], flags))
		if rep.Err != nil {
			return rep.Err
		}
		opw := map[byte]string{'+': "add", '-': "rem", 'F': "set"}[a[3][0]]
		o.recordS(s, fmt.Sprintf("S:%s:%s:%s:%s", s.selected, opw, a[4], c03Ints(sel)), c03Status(rep))
		o.stats[fmt.Sprintf("size.%s", c03SizeClass(len(sel)))]++
	case "COPY", "MOVE":
		if len(a) != 4 {
			return bad
		}
		sel, ok := c03Resolve(view, a[1], a[2])
		if !ok {
			return fmt.Errorf("step %q: set does not fit the view (%d messages)", step, len(view))
		}
		// Mailbox.Copy / Mailbox.Move hand the selected messages on in ascending UID order whatever the order of
		// the set (gluon 071c9b5: COPYUID pairs sorted sets)
		sort.Ints(sel)
		rep := o.cmd(s, fmt.Sprintf("%s%s %s %s", pfx(a[1]), op, a[2], a[3]))
		if rep.Err != nil {
			return rep.Err
		}
		o.recordS(s, fmt.Sprintf("%s:%s:%s:%s", op[:1], s.selected, a[3], c03Ints(sel)), c03Status(rep))
		o.stats[fmt.Sprintf("size.%s", c03SizeClass(len(sel)))]++
		if a[3] == s.selected {
			o.stats["same-mailbox"]++
		}
	case "EXPUNGE", "CLOSE", "UIDEXPUNGE":
		// named: the messages of the view the command speaks about; sel: those of them the view shows as \Deleted
		named, what := view, "all"
		cmd := op
		if op == "CLOSE" {
			what = "close"
		}
		if op == "UIDEXPUNGE" {
			if len(a) != 2 {
				return bad
			}
			var ok bool
			if named, ok = c03Resolve(view, "uid", a[1]); !ok {
				return bad
			}
			sort.Ints(named)
			what = "set"
			cmd = "UID EXPUNGE " + a[1]
		}
		var sel []int
		for _, u := range named {
			if del[u] {
				sel = append(sel, u)
			}
		}
		rep := o.cmd(s, cmd)
		if rep.Err != nil {
			return rep.Err
		}
		o.recordS(s, fmt.Sprintf("X:%s:%s:%s:%s:%s", s.selected, a[0], what, c03Ints(named), c03Ints(sel)), c03Status(rep))
		o.stats[fmt.Sprintf("size.%s", c03SizeClass(len(sel)))]++
		if op == "CLOSE" && rep.Status == "OK" {
			s.selected, s.ro = "", false
		}
	default:
		return bad
	}
	return nil
}

// a command of the selected state in a session that has no mailbox open: sent as it is, names nothing
func (o *c03Run) execUnselected(s *c03Sess, op string, a []string, step string) error {
	bad := fmt.Errorf("bad step %q", step)
	o.stats["unselected-cmd"]++
	pfx := func(kind string) string {
		if kind == "uid" {
			return "UID "
		}
		return ""
	}
	var line, word string
	switch op {
	case "STORE":
		if len(a) != 5 {
			return bad
		}
		flags := ""
		if a[4] != "-" {
			flags = strings.ReplaceAll(a[4], ",", " ")
		}
		line = fmt.Sprintf("%sSTORE %s %s (%s)", pfx(a[1]), a[2], a[3], flags)
		word = fmt.Sprintf("S:-:%s:%s:-", map[byte]string{'+': "add", '-': "rem", 'F': "set"}[a[3][0]], a[4])
	case "COPY", "MOVE":
		if len(a) != 4 {
			return bad
		}
		line = fmt.Sprintf("%s%s %s %s", pfx(a[1]), op, a[2], a[3])
		word = fmt.Sprintf("%s:-:%s:-", op[:1], a[3])
	case "EXPUNGE", "CLOSE":
		line = op
		word = fmt.Sprintf("X:-:%s:%s:-:-", a[0], map[string]string{"EXPUNGE": "all", "CLOSE": "close"}[op])
	case "UIDEXPUNGE":
		if len(a) != 2 {
			return bad
		}
		line = "UID EXPUNGE " + a[1]
		word = fmt.Sprintf("X:-:%s:set:-:-", a[0])
	default:
		return bad
	}
	rep := o.cmd(s, line)
	if rep.Err != nil {
		return rep.Err
	}
	o.recordS(s, word, c03Status(rep))
	return nil
}

func c03SizeClass(n int) string {
	switch {
	case n == 0:
		return "0"
	case n == 1:
		return "1"
	case n < 10:
		return "2-9"
	case n < c03ChunkLimit/2:
		return "10-499"
	case n <= c03ChunkLimit:
		return "500-1000"
	default:
		return ">1000"
	}
}

// ---- generation ---------------------------------------------------------------------------

var c03FlagPool = []string{`\Seen`, `\Flagged`, `\Answered`, `\Draft`, `kw1`, `$Label2`}
var c03FlagPoolEcho = []string{`\Seen`, `\Flagged`}
var c03DeletedSpellings = []string{`\Deleted`, `\deleted`, `\DELETED`, `\DeLeTeD`}

func (o *c03Run) genFlags(r *Rng, withDeleted int) string {
	pool := c03FlagPool
	if o.echo == "flush" {
		pool = c03FlagPoolEcho
	}
	var fl []string
	for _, f := range pool {
		if r.Chance(1, 4) {
			// flags are case-insensitive: any spelling, whatever spelling the index holds (gluon 45f4598)
			switch r.Intn(4) {
			case 0:
				f = strings.ToUpper(f)
			case 1:
				f = strings.ToLower(f)
			}
			fl = append(fl, f)
		}
	}
	if r.Chance(1, 8) && len(fl) > 0 { // a flag named twice
		fl = append(fl, fl[0])
	}
	if r.Chance(withDeleted, 8) {
		fl = append(fl, Pick(r, c03DeletedSpellings))
	}
	r2 := fl
	for i := len(r2) - 1; i > 0; i-- { // order of the list is free
		j := r.Intn(i + 1)
		r2[i], r2[j] = r2[j], r2[i]
	}
	if len(r2) == 0 {
		return "-"
	}
	return strings.Join(r2, ",")
}

// genSet: a set text over a view of n messages with the given UIDs; returns kind and text
func c03GenSet(r *Rng, view []int) (string, string) {
	n := len(view)
	kind := Pick(r, []string{"seq", "uid"})
	if n == 0 {
		return "uid", Pick(r, []string{"1:*", "1", "3:7"})
	}
	num := func() string {
		if kind == "seq" {
			return strconv.Itoa(r.Range(1, n))
		}
		if r.Chance(1, 6) {
			return strconv.Itoa(r.Range(1, view[n-1]+2)) // possibly a UID the mailbox does not have
		}
		return strconv.Itoa(view[r.Intn(n)])
	}
	switch r.Intn(8) {
	case 0:
		return kind, "1:*"
	case 1:
		return kind, "*"
	case 2:
		return kind, num() + ":" + num()
	case 3:
		return kind, num() + "," + num()
	case 4:
		return kind, num() + ":" + num() + "," + num()
	case 5:
		// `n:*` with n above the highest UID is the case C16 excludes (gluon selects nothing, RFC 3501 the last message)
		if kind == "seq" {
			return kind, num() + ":*"
		}
		return kind, strconv.Itoa(view[r.Intn(n)]) + ":*"
	default:
		return kind, num()
	}
}

// the view the next command of the session will run against (same barrier / NOOP discipline as exec); used for
// generation only, the verdict never depends on it
func (o *c03Run) peek(s *c03Sess, mode string) []int {
	if err := o.barrier(); err != nil {
		return nil
	}
	v, _, _ := o.view(s, mode == "sync")
	return v
}

func (o *c03Run) genStep(r *Rng, nsess int) string {
	if o.profile == "cross" {
		return o.genStepCross(r, nsess)
	}
	if len(o.queue) > 0 {
		st := o.queue[0]
		o.queue = o.queue[1:]
		return st
	}
	for i := 0; i < nsess; i++ {
		if o.sess[i] == nil {
			return fmt.Sprintf("S%d LOGIN", i)
		}
	}
	// population first: a few messages in every mailbox (in one sequence out of four a few dozen through the connector)
	if o.markerN == 0 && r.Chance(1, 4) {
		fl := "-"
		if r.Bool() {
			fl = Pick(r, c03FlagPoolEcho)
		}
		return fmt.Sprintf("BULK %s %d %s", Pick(r, c03Mailboxes), r.Range(20, 120), fl)
	}
	if o.markerN < 3*len(c03Mailboxes) {
		return fmt.Sprintf("S0 APPEND %s %s %s", c03Mailboxes[o.markerN%len(c03Mailboxes)], o.genFlags(r, 1), o.newMarker())
	}
	i := r.Intn(nsess)
	s := o.sess[i]
	if s.selected == "" {
		switch {
		case r.Chance(1, 10):
			return o.genFailingOpen(r, i) // … with nothing open
		case r.Chance(1, 10):
			// a command of the selected state without an open mailbox (refused)
			return fmt.Sprintf("S%d %s", i, Pick(r, []string{`STORE sync uid 1:* +FLAGS \Deleted`, "EXPUNGE sync", "CLOSE sync", "COPY sync seq 1 mb1", "MOVE sync uid 1:* mb2", "UIDEXPUNGE sync 1:*"}))
		}
		return o.genOpen(r, i)
	}
	if s.ro && r.Chance(1, 5) {
		return o.genOpen(r, i) // a read-only session does not stay for ever
	}
	if !s.ro && r.Chance(1, 14) {
		if q := o.genReadd(r, nsess, i); len(q) > 0 {
			o.queue = q[1:]
			return q[0]
		}
	}
	mode := "sync"
	c := r.Intn(100)
	if len(o.peek(s, "sync")) == 0 && c >= 20 && c < 85 && r.Chance(3, 4) {
		// nothing to work on here: add a message or look elsewhere
		if r.Bool() {
			c = 0
		} else {
			c = 90
		}
	}
	dst := func() string {
		if r.Chance(1, 10) {
			return "nosuch" // refused (TRYCREATE)
		}
		return Pick(r, c03Mailboxes)
	}
	switch {
	case c < 20:
		mb := s.selected
		if r.Chance(1, 3) {
			mb = Pick(r, c03Mailboxes)
		}
		return fmt.Sprintf("S%d APPEND %s %s %s", i, mb, o.genFlags(r, 1), o.newMarker())
	case c < 45:
		if o.echo != "flush" && r.Chance(1, 5) {
			mode = "stale"
		}
		kind, set := c03GenSet(r, o.peek(s, mode))
		op := Pick(r, []string{"+FLAGS", "-FLAGS", "FLAGS", "+FLAGS.SILENT", "-FLAGS.SILENT", "FLAGS.SILENT"})
		fl := o.genFlags(r, 3)
		if r.Chance(1, 14) { // refused: \Recent cannot be stored
			if fl == "-" {
				fl = `\Recent`
			} else {
				fl += `,\Recent`
			}
		}
		return fmt.Sprintf("S%d STORE %s %s %s %s %s", i, mode, kind, set, op, fl)
	case c < 57:
		if o.echo != "flush" && r.Chance(1, 5) {
			mode = "stale"
		}
		kind, set := c03GenSet(r, o.peek(s, mode))
		return fmt.Sprintf("S%d COPY %s %s %s %s", i, mode, kind, set, dst())
	case c < 68:
		if o.echo != "flush" && r.Chance(1, 5) {
			mode = "stale"
		}
		kind, set := c03GenSet(r, o.peek(s, mode))
		return fmt.Sprintf("S%d MOVE %s %s %s %s", i, mode, kind, set, dst())
	case c < 76:
		if o.echo != "flush" && r.Chance(1, 5) {
			mode = "stale"
		}
		return fmt.Sprintf("S%d EXPUNGE %s", i, mode)
	case c < 80:
		_, set := c03GenSet(r, o.peek(s, "sync"))
		return fmt.Sprintf("S%d UIDEXPUNGE sync %s", i, set)
	case c < 83:
		return fmt.Sprintf("S%d CLOSE sync", i)
	case c < 88:
		return o.genFailingOpen(r, i) // the open mailbox must stay open in the mode it was opened in
	case c < 93:
		return o.genOpen(r, i)
	default:
		return "CHECK"
	}
}

// A message the views show as \Deleted is copied / moved onto its own mailbox — removed and added again under a new UID,
// not \Deleted — and then a session that still shows the OLD instance (its removal is pending there: EXPUNGE responses
// wait for a command that permits them) issues EXPUNGE / UID EXPUNGE / CLOSE: the new instance must stay (the index knows
// a message by its id only; gluon 9c5a27f).  The expunging session is the one that copied, or another one in the mailbox.
func (o *c03Run) genReadd(r *Rng, nsess, i int) []string {
	s := o.sess[i]
	if o.echo == "flush" || s == nil || s.selected == "" || s.ro {
		return nil
	}
	view := o.peek(s, "sync")
	if len(view) == 0 {
		return nil
	}
	var q []string
	j := i
	if nsess > 1 && r.Bool() {
		for j == i {
			j = r.Intn(nsess)
		}
		if o.profile == "cross" {
			if t := o.sess[j]; t == nil || t.selected != s.selected || t.ro {
				j = i // the sessions of this profile stay where they are
			}
		} else if t := o.sess[j]; t == nil || t.selected != s.selected || t.ro {
			q = append(q, fmt.Sprintf("S%d SELECT %s", j, s.selected))
		}
	}
	kind, set := c03GenSet(r, view)
	if r.Bool() {
		kind, set = "uid", strconv.Itoa(view[r.Intn(len(view))])
	}
	q = append(q, fmt.Sprintf("S%d STORE sync %s %s %s %s", j, kind, set, Pick(r, []string{"+FLAGS", "+FLAGS.SILENT", "FLAGS"}), Pick(r, c03DeletedSpellings)))
	q = append(q, fmt.Sprintf("S%d %s sync %s %s %s", i, Pick(r, []string{"COPY", "COPY", "MOVE"}), kind, set, s.selected))
	switch r.Intn(3) {
	case 0:
		q = append(q, fmt.Sprintf("S%d EXPUNGE stale", j))
	case 1:
		q = append(q, fmt.Sprintf("S%d CLOSE stale", j))
	default:
		q = append(q, fmt.Sprintf("S%d UIDEXPUNGE stale 1:*", j))
	}
	o.stats["readd-then-expunge"]++
	return append(q, "CHECK")
}

// SELECT (three times out of four) or EXAMINE of one of the mailboxes
func (o *c03Run) genOpen(r *Rng, i int) string {
	op := "SELECT"
	if r.Chance(1, 4) {
		op = "EXAMINE"
	}
	return fmt.Sprintf("S%d %s %s", i, op, Pick(r, c03Mailboxes))
}

// a SELECT / EXAMINE that is refused: a name that does not exist, a child that does not exist, the \Noselect parent
// `par`, the command without its argument
func (o *c03Run) genFailingOpen(r *Rng, i int) string {
	return fmt.Sprintf("S%d %s %s", i, Pick(r, []string{"SELECT", "EXAMINE"}), Pick(r, []string{"nosuch", "nosuch", "INBOX/x", "par", "-"}))
}

// Profile `cross`: \Deleted is kept per mailbox while every other flag is kept per message, so a flag change made
// in one mailbox reaches the sessions that have ANOTHER mailbox of the same message selected, and must leave their
// \Deleted alone.  The prefix puts the same messages into two or three mailboxes (COPY), every session selects its own
// mailbox and STAYS there (no SELECT in between; after a CLOSE the same mailbox again); then mostly STOREs naming
// \Deleted (alone and with other flags, all six modes) from every session, interleaved with EXPUNGE / UID EXPUNGE /
// CLOSE of the sessions that were selected all along, a few COPY / MOVE / APPEND to keep messages shared.
func (o *c03Run) crossPrefix(r *Rng, nsess int) []string {
	var q []string
	for i := 0; i < nsess; i++ {
		q = append(q, fmt.Sprintf("S%d LOGIN", i))
	}
	mbs := append([]string{}, c03Mailboxes...)
	for i := len(mbs) - 1; i > 0; i-- {
		j := r.Intn(i + 1)
		mbs[i], mbs[j] = mbs[j], mbs[i]
	}
	n := r.Range(2, 5)
	for k := 0; k < n; k++ {
		q = append(q, fmt.Sprintf("S0 APPEND %s %s %s", mbs[0], o.genFlags(r, 2), o.newMarker()))
	}
	q = append(q, "S0 SELECT "+mbs[0])
	q = append(q, fmt.Sprintf("S0 COPY sync seq 1:* %s", mbs[1]))
	if r.Bool() {
		q = append(q, fmt.Sprintf("S0 COPY sync seq %s %s", Pick(r, []string{"1:*", "1", "*", "2:*"}), mbs[2]))
	}
	for i := 0; i < nsess; i++ {
		home := mbs[i%2] // sessions 0 and 1 always look at two different mailboxes of the same messages
		if i == 2 {
			home = Pick(r, mbs)
		}
		if i > 0 || home != mbs[0] {
			q = append(q, fmt.Sprintf("S%d SELECT %s", i, home))
		}
	}
	return q
}

func (o *c03Run) genStepCross(r *Rng, nsess int) string {
	if len(o.steps) == 0 {
		o.queue = o.crossPrefix(r, nsess)
	}
	if len(o.queue) > 0 {
		st := o.queue[0]
		o.queue = o.queue[1:]
		if f := strings.Fields(st); len(f) == 3 && f[1] == "SELECT" {
			// remembered before the step runs: exec creates the session at its LOGIN step
			o.homeOf(atoi(f[0][1:]), f[2])
		}
		return st
	}
	i := r.Intn(nsess)
	s := o.sess[i]
	if s.selected == "" {
		return fmt.Sprintf("S%d SELECT %s", i, o.homes[i]) // after CLOSE: the same mailbox again
	}
	mode := "sync"
	stale := func() {
		if o.echo != "flush" && r.Chance(1, 6) {
			mode = "stale"
		}
	}
	others := func() []string {
		var l []string
		for _, m := range c03Mailboxes {
			if m != s.selected {
				l = append(l, m)
			}
		}
		return l
	}
	if r.Chance(1, 16) {
		if q := o.genReadd(r, nsess, i); len(q) > 0 {
			o.queue = q[1:]
			return q[0]
		}
	}
	c := r.Intn(100)
	if len(o.peek(s, "sync")) == 0 && c < 80 {
		c = 95 // nothing here any more: bring a message in
	}
	switch {
	case c < 46:
		stale()
		kind, set := c03GenSet(r, o.peek(s, mode))
		if r.Chance(1, 3) {
			kind, set = "seq", "1:*"
		}
		op := Pick(r, []string{"+FLAGS", "-FLAGS", "FLAGS", "+FLAGS.SILENT", "-FLAGS.SILENT", "FLAGS.SILENT"})
		return fmt.Sprintf("S%d STORE %s %s %s %s %s", i, mode, kind, set, op, o.genFlags(r, 6))
	case c < 60:
		stale()
		return fmt.Sprintf("S%d EXPUNGE %s", i, mode)
	case c < 68:
		_, set := c03GenSet(r, o.peek(s, "sync"))
		return fmt.Sprintf("S%d UIDEXPUNGE sync %s", i, set)
	case c < 73:
		return fmt.Sprintf("S%d CLOSE sync", i)
	case c < 82:
		kind, set := c03GenSet(r, o.peek(s, mode))
		return fmt.Sprintf("S%d COPY %s %s %s %s", i, mode, kind, set, Pick(r, others()))
	case c < 86:
		kind, set := c03GenSet(r, o.peek(s, mode))
		return fmt.Sprintf("S%d MOVE %s %s %s %s", i, mode, kind, set, Pick(r, c03Mailboxes))
	case c < 89:
		// a refused SELECT / EXAMINE: the session stays in its mailbox, in the mode it opened it in
		return o.genFailingOpen(r, i)
	case c < 93:
		return "CHECK"
	default:
		return fmt.Sprintf("S%d APPEND %s %s %s", i, Pick(r, c03Mailboxes), o.genFlags(r, 2), o.newMarker())
	}
}

func (o *c03Run) homeOf(i int, mb string) {
	if o.homes == nil {
		o.homes = map[int]string{}
	}
	o.homes[i] = mb
}

// boundary sequence: n messages through the connector's batch path, then every bulk statement of the index on
// all of them (message lists on both sides of db.ChunkLimit and db.ChunkLimit/2)
func c03BoundarySteps(n int) []string {
	return []string{
		"S0 LOGIN", "S1 LOGIN",
		fmt.Sprintf("BULK INBOX %d -", n),
		"S0 SELECT INBOX", "S1 SELECT mb2",
		`S0 STORE sync seq 1:* +FLAGS.SILENT \Flagged,kw1`,
		`S0 STORE sync uid 1:* FLAGS.SILENT \Seen,\Answered`,
		"CHECK",
		"S0 COPY sync seq 1:* mb1",
		`S0 STORE sync seq 1:* -FLAGS.SILENT \Seen`,
		"S0 MOVE sync uid 1:* mb2",
		"CHECK",
		"S1 COPY sync seq 1:* mb1", // mb1 already holds every message: remove + re-add under new UIDs
		`S1 STORE sync seq 2:* +FLAGS.SILENT \Deleted`,
		"S1 EXPUNGE sync",
		`S1 STORE sync seq 1:* FLAGS.SILENT \Deleted`, // nothing but \Deleted: the other flags are cleared
		"S0 SELECT mb1",
		"S0 MOVE sync seq 1:* mb1", // onto itself
		"CHECK",
	}
}

// ---- running a sequence and judging it -----------------------------------------------------

type c03Outcome struct {
	steps   []string
	judge   string
	model   string // "" = agrees
	noModel bool   // the sequence was cut short: c03-model was not run
	harness string // harness problem
	stats   map[string]int
	words   int
}

func c03Header(echo, label string) string {
	t := "oracle c03content\nopt echo=" + echo + "\n"
	if label != "" {
		t += "label " + label + "\n"
	}
	return t
}

// run the given steps (gen == nil) or generate nsteps steps online
func c03RunSequence(echo string, fixed []string, r *Rng, nsess, nsteps int) c03Outcome {
	return c03RunSequenceP(echo, "", fixed, r, nsess, nsteps)
}

// … with a generation profile ("" = general, "cross" = shared messages, sessions that stay in different mailboxes)
func c03RunSequenceP(echo, profile string, fixed []string, r *Rng, nsess, nsteps int) c03Outcome {
	out := c03Outcome{}
	var fault *Fault
	for _, st := range fixed {
		if strings.HasPrefix(st, "FAULT2 ") {
			// pass 1: record the storage steps of the marked command, find the second Client.Write
			fault = &Fault{At: -1}
			o1, err := c03NewRun(echo, fault)
			if err != nil {
				out.harness = "NewSys: " + err.Error()
				return out
			}
			for _, st1 := range fixed {
				if err := o1.exec(st1); err != nil {
					o1.close()
					out.harness = "fault pass 1: " + err.Error()
					return out
				}
				if o1.faultSteps != nil {
					break
				}
			}
			at, seen := -1, 0
			for i, x := range o1.faultSteps {
				if x == "tx.begin" {
					seen++
					if seen == 2 {
						at = i
					}
				}
			}
			o1.close()
			if at < 0 {
				out.harness = "fault pass 1: the marked command has no second transaction: " + strings.Join(o1.faultSteps, " ")
				return out
			}
			fault = &Fault{Mode: "err", At: at}
			break
		}
	}
	o, err := c03NewRun(echo, fault)
	if err != nil {
		out.harness = "NewSys: " + err.Error()
		return out
	}
	defer o.close()
	o.profile = profile
	fail := func(err error) c03Outcome {
		out.steps = o.steps
		out.harness = err.Error()
		if p := o.sys.Panics.Take(); len(p) > 0 {
			out.harness += " (server goroutine panicked: " + p[0] + ")"
			return out
		}
		// a step that cannot be carried out (its set no longer fits the view, …) is often the consequence of an earlier
		// command that did what it should not have done: the verdict on what was executed so far comes first
		if len(o.answers) > 0 {
			if ans, jerr := leanJudge([]string{"judge-c03-content " + strings.Join(c03Mailboxes, ",") + " " + strings.Join(o.words, " ")}); jerr == nil && len(ans) == 1 && strings.HasPrefix(ans[0], "violation") {
				out.judge, out.harness = ans[0]+" (then: "+err.Error()+")", ""
				out.noModel = true
				out.stats, out.words = o.stats, len(o.answers)
			}
		}
		return out
	}
	if fixed != nil {
		for _, st := range fixed {
			if err := o.exec(st); err != nil {
				return fail(err)
			}
		}
	} else {
		for k := 0; k < nsteps; k++ {
			if err := o.exec(o.genStep(r, nsess)); err != nil {
				return fail(err)
			}
		}
	}
	if len(o.steps) == 0 || o.steps[len(o.steps)-1] != "CHECK" {
		if err := o.exec("CHECK"); err != nil {
			return fail(err)
		}
	}
	out.steps = o.steps
	out.stats = o.stats
	out.words = len(o.answers)
	if p := o.sys.Panics.Take(); len(p) > 0 {
		out.judge = "violation cause=panic " + strings.ReplaceAll(p[0], "\n", " ")
		return out
	}
	mbs := strings.Join(c03Mailboxes, ",")
	ans, err := leanJudge([]string{
		"judge-c03-content " + mbs + " " + strings.Join(o.words, " "),
		"c03-model " + mbs + " " + strings.Join(o.words, " "),
	})
	if err != nil || len(ans) != 2 {
		out.harness = fmt.Sprintf("lean driver: %v (%d answers)", err, len(ans))
		return out
	}
	out.judge = ans[0]
	as := "-"
	if len(o.answers) > 0 {
		as = strings.Join(o.answers, ",")
	}
	observed := strings.Join(append([]string{as}, o.dumps...), " ")
	if ans[1] != observed {
		out.model = c03FirstDiff(observed, ans[1])
	}
	return out
}

func c03FirstDiff(observed, model string) string {
	a, b := strings.Split(observed, " "), strings.Split(model, " ")
	if len(a) != len(b) {
		return fmt.Sprintf("server gave %d words, model %d", len(a), len(b))
	}
	for i := range a {
		if a[i] != b[i] {
			if i == 0 {
				return "answers: server " + a[i] + " model " + b[i]
			}
			x, y := strings.Split(a[i], ";"), strings.Split(b[i], ";")
			for k := range x {
				if k < len(y) && x[k] != y[k] {
					ex, ey := strings.Split(x[k], "|"), strings.Split(y[k], "|")
					for j := range ex {
						if j >= len(ey) || ex[j] != ey[j] {
							my := "<none>"
							if j < len(ey) {
								my = ey[j]
							}
							return fmt.Sprintf("checkpoint %d mailbox %d entry %d: server %.120s model %.120s", i, k, j+1, ex[j], my)
						}
					}
					return fmt.Sprintf("checkpoint %d mailbox %d: server has %d entries, model %d", i, k, len(ex), len(ey))
				}
			}
			return fmt.Sprintf("checkpoint %d differs", i)
		}
	}
	return ""
}

// localise: rerun the steps with a CHECK after every command and cut after the first failing checkpoint
func c03Localise(echo string, steps []string) []string {
	wordless := func(st string) bool { return strings.HasSuffix(st, "LOGIN") }
	opens := func(st string) bool { return strings.Contains(st, " SELECT ") || strings.Contains(st, " EXAMINE ") }
	var dense []string
	for _, st := range steps {
		if st == "CHECK" {
			continue
		}
		dense = append(dense, st)
		if !wordless(st) && !opens(st) {
			dense = append(dense, "CHECK")
		}
	}
	res := c03RunSequence(echo, dense, nil, 0, 0)
	if res.harness != "" || !strings.HasPrefix(res.judge, "violation") {
		return steps
	}
	// the judge names the failing word (commands, SELECT / EXAMINE and checkpoints count); keep the steps up to it
	m := regexp.MustCompile(`step=(\d+)`).FindStringSubmatch(res.judge)
	if m == nil {
		return steps
	}
	bad, _ := strconv.Atoi(m[1])
	var cut []string
	words := 0
	for _, st := range dense {
		if !wordless(st) {
			words++
		}
		if st != "CHECK" || words == bad {
			cut = append(cut, st)
		}
		if words == bad {
			break
		}
	}
	if len(cut) == 0 || cut[len(cut)-1] != "CHECK" {
		cut = append(cut, "CHECK")
	}
	return cut
}

func c03ParseFile(text string) (echo, label string, steps []string) {
	echo = "drop"
	for _, l := range strings.Split(text, "\n") {
		l = strings.TrimSpace(l)
		switch {
		case l == "" || strings.HasPrefix(l, "#") || strings.HasPrefix(l, "oracle "):
		case strings.HasPrefix(l, "opt echo="):
			echo = strings.TrimPrefix(l, "opt echo=")
		case strings.HasPrefix(l, "label "):
			label = strings.TrimPrefix(l, "label ")
		default:
			steps = append(steps, l)
		}
	}
	return
}

func c03ClassOf(judge string) string {
	cause, class := "", ""
	for _, w := range strings.Fields(judge) {
		if strings.HasPrefix(w, "cause=") {
			cause = strings.TrimPrefix(w, "cause=")
		}
		if strings.HasPrefix(w, "class=") {
			class = strings.TrimPrefix(w, "class=")
		}
	}
	if class != "" {
		return cause + "-" + class
	}
	return cause
}

func runC03ContentOracle(args []string) int {
	fs := flag.NewFlagSet("c03content", flag.ExitOnError)
	seed := fs.Uint64("seed", 1, "")
	outp := fs.String("out", "", "")
	replayDir := fs.String("replaydir", ".", "")
	replay := fs.String("replay", "", "")
	n := fs.Int("n", 12, "random sequences")
	nsteps := fs.Int("steps", 28, "steps per random sequence")
	bulk := fs.String("bulk", "seed", "boundary sizes: `seed` = one chosen by the seed, `all`, `none`, or a list a,b,…")
	ncross := fs.Int("cross", 8, "random sequences of the profile `cross` (shared messages, sessions staying in different mailboxes)")
	_ = fs.Parse(args)
	if os.Getenv("VERIF_DRIVER") == "" {
		if exe, err := os.Executable(); err == nil {
			p := filepath.Join(filepath.Dir(filepath.Dir(exe)), "lean", ".lake", "build", "bin", "gluon_model_driver")
			if _, err := os.Stat(p); err == nil {
				os.Setenv("VERIF_DRIVER", p)
			}
		}
	}
	res := &OracleResult{Stats: map[string]int{}}
	seenClass := map[string]bool{}
	nontrivial := 0
	report := func(kind, echo, label string, steps []string, desc, note string) {
		class := kind + " " + desc
		if i := strings.Index(class, " ("); i >= 0 { // one report per class, whatever sequence showed it
			class = class[:i]
		}
		if seenClass[class] {
			res.Stats["violations-not-reported-same-class"]++
			return
		}
		seenClass[class] = true
		text := c03Header(echo, label) + strings.Join(steps, "\n") + "\n"
		text += fmt.Sprintf("# property C03: %s\n# %s\n# replay: ./check C03 --replay <this file>\n", desc, note)
		name := filepath.Join(*replayDir, fmt.Sprintf("C03-content-%d-%d.txt", *seed, len(res.Violations)))
		_ = os.MkdirAll(*replayDir, 0o755)
		_ = os.WriteFile(name, []byte(text), 0o644)
		res.Violations = append(res.Violations, OracleViol{Desc: "C03 content: " + desc, Replay: name})
	}
	handle := func(tag, echo, label string, out c03Outcome, localise bool) {
		res.Evaluations += out.words
		for k, v := range out.stats {
			res.Stats[k] += v
		}
		if out.harness != "" {
			report("harness", echo, label, out.steps, "cause=harness oracle could not run "+tag+": "+out.harness, "no verdict")
			return
		}
		w := strings.Fields(out.judge)
		key := w[0]
		if len(w) > 1 {
			key += ":" + w[1]
		}
		res.Stats["judge."+key]++
		if len(res.Samples) < 3 {
			res.Samples = append(res.Samples, map[string]string{"oracle": "c03content", "case": tag, "steps": strconv.Itoa(len(out.steps)), "judge": out.judge})
		}
		if strings.HasPrefix(out.judge, "ok nontrivial") {
			nontrivial++
		}
		if !strings.HasPrefix(out.judge, "ok") {
			steps := out.steps
			if localise {
				steps = c03Localise(echo, steps)
			}
			cause := "cause=" + c03ClassOf(out.judge)
			if label != "" {
				cause = "cause=" + label + " class=" + c03ClassOf(out.judge)
			}
			agree := "the Lean model of the code (c03-model) predicts exactly what the server did"
			if out.model != "" {
				agree = "the Lean model of the code (c03-model) differs from the server, too: " + out.model
			} else if out.noModel {
				agree = "the sequence was cut short, the Lean model of the code (c03-model) was not compared"
			}
			report("judge", echo, label, steps, cause+" ("+tag+")", "reference judge (judge-c03-content): "+c03Truncate(out.judge, 400)+"\n# "+agree)
			return
		}
		if out.model != "" {
			report("model", echo, label, out.steps, "cause=model-disagreement ("+tag+")", "the reference agrees with the server, the Lean model of the code (c03-model) does not: "+out.model)
		}
	}

	if *replay != "" {
		b, err := os.ReadFile(*replay)
		if err != nil {
			fmt.Fprintln(os.Stderr, err)
			return 2
		}
		echo, label, steps := c03ParseFile(string(b))
		out := c03RunSequence(echo, steps, nil, 0, 0)
		handle("replay", echo, label, out, false)
		if *outp == "" {
			fmt.Println("judge:", out.judge, "| model:", out.model, "| harness:", out.harness)
		}
	} else {
		// (1) directed cases
		if dir := os.Getenv("VERIF_CORPUS"); dir != "" {
			files, _ := filepath.Glob(filepath.Join(dir, "*.content"))
			sort.Strings(files)
			for _, fn := range files {
				b, err := os.ReadFile(fn)
				if err != nil {
					continue
				}
				echo, label, steps := c03ParseFile(string(b))
				res.Stats["directed"]++
				handle("corpus:"+filepath.Base(fn), echo, label, c03RunSequence(echo, steps, nil, 0, 0), false)
			}
		}
		// (2) boundary sizes
		all := []int{c03ChunkLimit/2 - 1, c03ChunkLimit/2 + 1, c03ChunkLimit - 1, c03ChunkLimit + 1, 2*c03ChunkLimit - 1, 2*c03ChunkLimit + 1}
		var sizes []int
		switch *bulk {
		case "none":
		case "all":
			sizes = all
		case "seed":
			sizes = []int{all[int(*seed%uint64(len(all)))]}
		default:
			for _, x := range strings.Split(*bulk, ",") {
				sizes = append(sizes, atoi(x))
			}
		}
		for _, sz := range sizes {
			res.Stats[fmt.Sprintf("boundary.%d", sz)]++
			handle(fmt.Sprintf("boundary-%d", sz), "drop", "", c03RunSequence("drop", c03BoundarySteps(sz), nil, 0, 0), false)
		}
		// (3) random sequences
		r := NewRng(*seed).Fork()
		for k := 0; k < *n; k++ {
			echo := "drop"
			if k%4 == 3 {
				echo = "flush"
			}
			nsess := r.Range(1, 3)
			rr := r.Fork()
			res.Stats["random.echo-"+echo]++
			res.Stats[fmt.Sprintf("random.sessions-%d", nsess)]++
			handle(fmt.Sprintf("random-%d", k), echo, "", c03RunSequence(echo, nil, rr, nsess, *nsteps), true)
		}
		// (4) random sequences of the profile `cross`
		rc := NewRng(*seed ^ 0xc03c705).Fork()
		for k := 0; k < *ncross; k++ {
			echo := "drop"
			if k%4 == 3 {
				echo = "flush"
			}
			nsess := rc.Range(2, 3)
			rr := rc.Fork()
			res.Stats["cross.echo-"+echo]++
			res.Stats[fmt.Sprintf("cross.sessions-%d", nsess)]++
			handle(fmt.Sprintf("cross-%d", k), echo, "", c03RunSequenceP(echo, "cross", nil, rr, nsess, *nsteps), true)
		}
	}
	res.DistinctNontrivial = nontrivial
	if *outp != "" {
		writeResult(*outp, res)
	} else {
		for _, v := range res.Violations {
			fmt.Println("VIOL", v.Desc, v.Replay)
		}
		fmt.Println("evaluations", res.Evaluations, "nontrivial", nontrivial, res.Stats)
	}
	return 0
}

func c03Truncate(s string, n int) string {
	if len(s) > n {
		return s[:n] + "…"
	}
	return s
}

func init() { RegisterOracle(&Oracle{Name: "c03content", Run: runC03ContentOracle}) }
