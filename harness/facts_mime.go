package main

// Facts/Mime.lean (C12): the control skeleton — every `if` condition, loop header and simple statement,
// in source order — of the functions that make the section tree (rfc822/parser.go: Section.Children,
// Section.load, Section.Walk, Section.Part, parse) and of the two functions that turn it into
// BODY / BODYSTRUCTURE (imap/structure.go: structure, childStructures, singlePartStructure). The Lean model
// (Model/MimeScan.lean `children` / `walk`, Model/Structure.lean `structCalls`) follows these functions
// statement by statement; the theorem `section_tree_source_shape` (Theorems/C12.lean) pins the skeleton, so
// that a statement the model does not have — a limit on the nesting depth, on the number of parts, an early
// return — makes the proof obligation fail whatever its constant is, also beyond what the generators reach.

import (
	"fmt"
	"go/ast"
	"strings"
)

func c12FuncSkeleton(c *factsCtx, fd *ast.FuncDecl) []string {
	var out []string
	ast.Inspect(fd.Body, func(n ast.Node) bool {
		switch x := n.(type) {
		case *ast.IfStmt:
			s := "if "
			if x.Init != nil {
				s += c.render(x.Init) + "; "
			}
			out = append(out, s+c.render(x.Cond))
			// the init statement is part of the line above
			ast.Inspect(x.Body, func(m ast.Node) bool { return c12SkeletonVisit(c, m, &out) })
			if x.Else != nil {
				out = append(out, "else")
				ast.Inspect(x.Else, func(m ast.Node) bool { return c12SkeletonVisit(c, m, &out) })
			}
			return false
		}
		return c12SkeletonVisit(c, n, &out)
	})
	return out
}

func c12SkeletonVisit(c *factsCtx, n ast.Node, out *[]string) bool {
	switch x := n.(type) {
	case *ast.IfStmt:
		s := "if "
		if x.Init != nil {
			s += c.render(x.Init) + "; "
		}
		*out = append(*out, s+c.render(x.Cond))
		ast.Inspect(x.Body, func(m ast.Node) bool { return c12SkeletonVisit(c, m, out) })
		if x.Else != nil {
			*out = append(*out, "else")
			ast.Inspect(x.Else, func(m ast.Node) bool { return c12SkeletonVisit(c, m, out) })
		}
		return false
	case *ast.ForStmt:
		s := "for "
		if x.Init != nil {
			s += c.render(x.Init)
		}
		s += "; "
		if x.Cond != nil {
			s += c.render(x.Cond)
		}
		s += "; "
		if x.Post != nil {
			s += c.render(x.Post)
		}
		*out = append(*out, s)
		ast.Inspect(x.Body, func(m ast.Node) bool { return c12SkeletonVisit(c, m, out) })
		return false
	case *ast.RangeStmt:
		s := "range " + c.render(x.X)
		if x.Key != nil {
			s = "for " + c.render(x.Key)
			if x.Value != nil {
				s += ", " + c.render(x.Value)
			}
			s += " := range " + c.render(x.X)
		}
		*out = append(*out, s)
		ast.Inspect(x.Body, func(m ast.Node) bool { return c12SkeletonVisit(c, m, out) })
		return false
	case *ast.SwitchStmt, *ast.TypeSwitchStmt, *ast.SelectStmt, *ast.GoStmt, *ast.DeferStmt, *ast.LabeledStmt, *ast.BranchStmt:
		*out = append(*out, "other: "+c.render(x))
		return false
	case *ast.AssignStmt, *ast.ExprStmt, *ast.ReturnStmt, *ast.IncDecStmt, *ast.DeclStmt, *ast.SendStmt:
		*out = append(*out, c.render(x))
		return false
	}
	return true
}

func c12FactsMime(c *factsCtx, outdir string) error {
	type want struct {
		dir, recv, name string
	}
	wants := []want{
		{"rfc822", "Section", "Children"}, {"rfc822", "Section", "load"}, {"rfc822", "Section", "Walk"},
		{"rfc822", "Section", "Part"}, {"rfc822", "", "parse"}, {"rfc822", "", "Parse"},
		{"imap", "", "structure"}, {"imap", "", "childStructures"}, {"imap", "", "singlePartStructure"},
	}
	var b strings.Builder
	b.WriteString("namespace Gluon.Facts\n\n")
	b.WriteString("/-- control skeleton (every `if` condition with its init statement, `else`, loop header and simple\n    statement, in source order) of the functions that make the section tree and walk it into\n    BODY / BODYSTRUCTURE; `[\"missing\"]` = function not found -/\n")
	b.WriteString("def mimeTreeSkeleton : List (String × List String) := [\n")
	for i, w := range wants {
		skel := []string{"missing"}
		for _, f := range c.parseDir(w.dir) {
			for _, d := range f.Decls {
				fd, ok := d.(*ast.FuncDecl)
				if !ok || fd.Body == nil || fd.Name.Name != w.name {
					continue
				}
				recv := ""
				if fd.Recv != nil && len(fd.Recv.List) == 1 {
					t := fd.Recv.List[0].Type
					if st, ok := t.(*ast.StarExpr); ok {
						t = st.X
					}
					recv = identLit(t)
				}
				if recv != w.recv {
					continue
				}
				skel = c12FuncSkeleton(c, fd)
			}
		}
		name := w.name
		if w.recv != "" {
			name = w.recv + "." + w.name
		}
		sep := ","
		if i == len(wants)-1 {
			sep = ""
		}
		fmt.Fprintf(&b, "  (%s, [\n", leanStr(w.dir+"."+name))
		for j, s := range skel {
			e := ","
			if j == len(skel)-1 {
				e = ""
			}
			fmt.Fprintf(&b, "    %s%s\n", leanStr(s), e)
		}
		fmt.Fprintf(&b, "  ])%s\n", sep)
	}
	b.WriteString("]\n\nend Gluon.Facts\n")
	return writeLean(outdir, "Mime.lean", b.String())
}

func init() { factGens = append(factGens, factGen{"Mime", c12FactsMime}) }
