package main

// Oracle `c11session` (property C11, session-loop part): arbitrary client byte streams against a whole
// gluon server running in a CHILD process (`vh oracle c11child`, o_session_child.go), so that a crash, a
// fatal stack overflow, a spin or unbounded growth of the server is observed, not suffered.
//
// Per stream: a fresh connection; the stream is written in one go (no waiting for `+`), the write side is
// closed ("cut off by a disconnect"), everything the server writes is read to the end. Observed:
//
//   - the completion results, in order (`<tag> OK|NO|BAD …`; the first word may be EMPTY (a defect repaired by /repo
//     6e0070e) or `*` for BAD / NO: the answer to a line without a parsable tag; `* BYE IMAP session state is
//     inconsistent…` is the completion of the invalid-state close). They are judged against the Lean
//     session-loop model by dialect `judge-c11-session` (lean/GluonModel/Driver/DSessionLoop.lean): exactly
//     one completion per complete line, with the right tag; the model's lines, tags, classes of parse errors /
//     IDLE / LOGOUT and the place where the session ends must all agree with what was written.
//   - a watchdog: no progress (bytes read or written) for 2 s = hang. The child is then asked (SIGUSR1) for the
//     stacks of all its goroutines (runtime.Stack), which name what was running (label
//     `cause=search-nesting-quadratic-time` when it is `SanitizedString` of a nested SEARCH key, `cause=hang`
//     otherwise), and ended; the verdict stands only if a fresh child, given three times the watchdog, does not
//     get through the same stream either.
//   - resident set of the child (/proc/<pid>/status, peak reset per stream through clear_refs): growth of more
//     than 200 MB caused by a stream of less than 1 MB is flagged (`cause=search-nesting-memory-growth` for the
//     nesting streams, `cause=memory-growth` otherwise); above the cap the child is killed (`cause=memory-cap`).
//   - the child's life: a death during a stream is a violation (`cause=search-nesting-stack-overflow` when the
//     runtime reports a stack overflow under parseSearchKey, `cause=panic` / `cause=child-died` otherwise);
//     at the end the child must exit with status 0.
//   - a SECOND, authenticated session on the same server that issues NOOP all the time and must be answered
//     within 2 s (`cause=canary-unanswered`).
//
// The search-nesting-* causes were found with this oracle and repaired by /repo c30e930 (SEARCH keys nest at most 64
// levels deep); the labels stay as regression detectors, like late-error-empty-tag / untagged-line-empty-tag /
// starttls-without-tls-drops (repaired by d36bee1 / 6e0070e / d270f6a) in the judge.
//
// Streams: the malformed-command generators of d_parse_gen.go (mutations of valid commands) joined to multi-line
// streams, before and after LOGIN / SELECT; cuts at every offset of a command (mid-token, mid-string,
// mid-literal) followed by the disconnect; NUL / 8-bit / bare CR / LF; 1 MB lines; 19 / 20 / 21 / 40 erroneous
// lines in a row with and without a well-formed line in between; IDLE with DONE / another command / garbage;
// STARTTLS, TLS record headers, LOGOUT, DONE outside IDLE, literals; nesting bombs (10^5 levels; 9·10^5 and
// 2·10^7 in the thorough tier — the latter are judged against the model's answer for the same shape at 200 levels).

import (
	"bufio"
	"bytes"
	"encoding/hex"
	"encoding/json"
	"flag"
	"fmt"
	"io"
	"net"
	"os"
	"os/exec"
	"path/filepath"
	"regexp"
	"sort"
	"strconv"
	"strings"
	"sync"
	"sync/atomic"
	"syscall"
	"time"
)

// ---- child process ------------------------------------------------------------------------------

type c11sChild struct {
	cmd    *exec.Cmd
	stdin  io.WriteCloser
	addr   string
	dir    string
	errBuf *c11sSyncBuf
	done   chan struct{}
	werr   error
	ctl    chan string // answers of the child's side channel (STATS / SITES, see o_session_child.go)
}

type c11sSyncBuf struct {
	mu sync.Mutex
	b  bytes.Buffer
}

func (s *c11sSyncBuf) Write(p []byte) (int, error) {
	s.mu.Lock()
	defer s.mu.Unlock()
	if s.b.Len() < 64<<20 {
		s.b.Write(p)
	}
	return len(p), nil
}

func (s *c11sSyncBuf) String() string {
	s.mu.Lock()
	defer s.mu.Unlock()
	return s.b.String()
}

func c11sStartChild(self string, asLimitMB int, extraArgs ...string) (*c11sChild, error) {
	dir, err := os.MkdirTemp("", "vh-c11s-")
	if err != nil {
		return nil, err
	}
	cmd := exec.Command(self, append([]string{"oracle", "c11child", "-dir", dir, "-aslimit", strconv.Itoa(asLimitMB)}, extraArgs...)...)
	// crash: on SIGQUIT / a fatal error also the goroutines running on other threads are dumped
	cmd.Env = append(os.Environ(), "GOTRACEBACK=crash")
	stdin, err := cmd.StdinPipe()
	if err != nil {
		return nil, err
	}
	stdout, err := cmd.StdoutPipe()
	if err != nil {
		return nil, err
	}
	c := &c11sChild{cmd: cmd, stdin: stdin, dir: dir, errBuf: &c11sSyncBuf{}, done: make(chan struct{}), ctl: make(chan string, 16)}
	cmd.Stderr = c.errBuf
	if err := cmd.Start(); err != nil {
		_ = os.RemoveAll(dir)
		return nil, err
	}
	go func() {
		c.werr = cmd.Wait()
		close(c.done)
	}()
	lineCh := make(chan string, 1)
	go func() {
		r := bufio.NewReaderSize(stdout, 1<<16)
		l, _ := r.ReadString('\n')
		lineCh <- l
		for {
			l, err := r.ReadString('\n')
			if l != "" {
				select {
				case c.ctl <- strings.TrimSpace(l):
				default:
				}
			}
			if err != nil {
				return
			}
		}
	}()
	select {
	case l := <-lineCh:
		f := strings.Fields(l)
		if len(f) != 2 || f[0] != "ADDR" {
			c.kill()
			return nil, fmt.Errorf("child did not announce its address: %q %s", l, c11sTail(c.errBuf.String(), 400))
		}
		c.addr = f[1]
	case <-time.After(60 * time.Second):
		c.kill()
		return nil, fmt.Errorf("child did not start within 60 s")
	}
	return c, nil
}

func (c *c11sChild) alive() bool {
	select {
	case <-c.done:
		return false
	default:
		return true
	}
}

func (c *c11sChild) kill() {
	_ = c.cmd.Process.Kill()
	<-c.done
	_ = os.RemoveAll(c.dir)
}

// stop asks the child to exit (stdin closed) and reports how it ended: "" = exit status 0.
func (c *c11sChild) stop() string {
	_ = c.stdin.Close()
	select {
	case <-c.done:
	case <-time.After(10 * time.Second):
		c.kill()
		return "did not exit within 10 s after its stdin was closed"
	}
	_ = os.RemoveAll(c.dir)
	if c.werr != nil {
		return c.werr.Error()
	}
	return ""
}

// quitDump asks the child for the stacks of all its goroutines (SIGUSR1, answered by the child itself with
// runtime.Stack; SIGQUIT — the Go runtime's own dump — if it does not answer), ends it, and returns stderr.
func (c *c11sChild) quitDump() string {
	_ = c.cmd.Process.Signal(syscall.SIGUSR1)
	for k := 0; k < 500 && c.alive() && !strings.Contains(c.errBuf.String(), "=== C11S STACKS END ==="); k++ {
		time.Sleep(10 * time.Millisecond)
	}
	if strings.Contains(c.errBuf.String(), "=== C11S STACKS END ===") {
		_ = c.cmd.Process.Kill()
	} else {
		_ = c.cmd.Process.Signal(syscall.SIGQUIT)
	}
	select {
	case <-c.done:
	case <-time.After(20 * time.Second):
		_ = c.cmd.Process.Kill()
		<-c.done
	}
	_ = os.RemoveAll(c.dir)
	return c.errBuf.String()
}

// mem returns VmRSS and VmHWM of the child in KiB (0, 0 when it is gone).
func (c *c11sChild) mem() (rss, hwm int) {
	b, err := os.ReadFile(fmt.Sprintf("/proc/%d/status", c.cmd.Process.Pid))
	if err != nil {
		return 0, 0
	}
	for _, l := range strings.Split(string(b), "\n") {
		f := strings.Fields(l)
		if len(f) >= 2 {
			switch f[0] {
			case "VmRSS:":
				rss, _ = strconv.Atoi(f[1])
			case "VmHWM:":
				hwm, _ = strconv.Atoi(f[1])
			}
		}
	}
	return
}

// resetPeak resets VmHWM to the current VmRSS (clear_refs 5); false when the kernel refuses.
func (c *c11sChild) resetPeak() bool {
	return os.WriteFile(fmt.Sprintf("/proc/%d/clear_refs", c.cmd.Process.Pid), []byte("5"), 0) == nil
}

func c11sTail(s string, n int) string {
	if len(s) > n {
		return "…" + s[len(s)-n:]
	}
	return s
}

// ---- one stream -----------------------------------------------------------------------------------

type c11sStream struct {
	Kind  string
	Data  []byte
	Judge []byte // what the Lean judge is given (nil = Data); differs for the streams too big for it
	Named string // non-empty: the stream is regenerated by name on replay instead of being stored in hex
}

type c11sObs struct {
	Completions []string // "<tag hex or ~>:<ok|no|bad|bye>"
	Untagged    int
	Conts       int
	Unparsable  []string
	End         string // eof | reset | hang | dial-failed | no-greeting
	Raw         []byte
	Dur         time.Duration
	GrowthMB    int
	ChildDied   bool
}

const c11sByeInconsistent = "* BYE IMAP session state is inconsistent"

var c11sReLit = regexp.MustCompile(`\{(\d+)\}$`)

// c11sParseResponses splits what the server wrote into responses (literals inlined) and classifies them.
func c11sParseResponses(buf []byte, o *c11sObs) {
	first := true
	for len(buf) > 0 {
		i := bytes.Index(buf, []byte("\r\n"))
		if i < 0 {
			o.Unparsable = append(o.Unparsable, "unterminated: "+c11sQuote(buf, 80))
			return
		}
		line := buf[:i]
		buf = buf[i+2:]
		head := append([]byte(nil), line...)
		// literals announced at the end of a physical line belong to the same response
		for {
			m := c11sReLit.FindSubmatch(line)
			if m == nil {
				break
			}
			n, _ := strconv.Atoi(string(m[1]))
			if n > len(buf) {
				o.Unparsable = append(o.Unparsable, "literal cut short: "+c11sQuote(head, 80))
				return
			}
			buf = buf[n:]
			j := bytes.Index(buf, []byte("\r\n"))
			if j < 0 {
				o.Unparsable = append(o.Unparsable, "unterminated after literal: "+c11sQuote(head, 80))
				return
			}
			line = buf[:j]
			buf = buf[j+2:]
		}
		s := string(head)
		if first {
			first = false
			if !strings.HasPrefix(s, "* OK ") {
				o.Unparsable = append(o.Unparsable, "greeting: "+c11sQuote(head, 80))
			}
			continue
		}
		switch {
		case strings.HasPrefix(s, c11sByeInconsistent):
			o.Completions = append(o.Completions, hexB([]byte("*"))+":bye")
		case strings.HasPrefix(s, "* BAD ") || s == "* BAD" || strings.HasPrefix(s, "* NO ") || s == "* NO":
			// the untagged form of a completion: the answer to a line without a parsable tag (gluon writes no
			// other untagged BAD / NO)
			o.Completions = append(o.Completions, hexB([]byte("*"))+":"+strings.ToLower(strings.Fields(s)[1]))
		case strings.HasPrefix(s, "* "):
			o.Untagged++
		case strings.HasPrefix(s, "+"):
			o.Conts++
		default:
			sp := strings.IndexByte(s, ' ')
			if sp < 0 {
				o.Unparsable = append(o.Unparsable, c11sQuote(head, 80))
				continue
			}
			tag, rest := s[:sp], s[sp+1:]
			word := rest
			if k := strings.IndexByte(rest, ' '); k >= 0 {
				word = rest[:k]
			}
			switch word {
			case "OK", "NO", "BAD":
				o.Completions = append(o.Completions, hexB([]byte(tag))+":"+strings.ToLower(word))
			default:
				o.Unparsable = append(o.Unparsable, c11sQuote(head, 80))
			}
		}
	}
}

func c11sQuote(b []byte, n int) string {
	if len(b) > n {
		return fmt.Sprintf("%q…(%d bytes)", b[:n], len(b))
	}
	return fmt.Sprintf("%q", b)
}

// c11sRunStream: connect, greeting, write everything, half-close, read to the end; watchdog on progress.
func c11sRunStream(addr string, data []byte, watchdog time.Duration) *c11sObs {
	o := &c11sObs{}
	t0 := time.Now()
	defer func() { o.Dur = time.Since(t0) }()
	conn, err := net.DialTimeout("tcp", addr, watchdog)
	if err != nil {
		o.End = "dial-failed"
		return o
	}
	defer conn.Close()
	tcp := conn.(*net.TCPConn)
	var progress atomic.Int64
	progress.Store(time.Now().UnixNano())
	var mu sync.Mutex
	var out []byte
	readDone := make(chan string, 1)
	gotGreeting := make(chan struct{})
	go func() {
		buf := make([]byte, 1<<16)
		greeted := false
		for {
			n, err := conn.Read(buf)
			if n > 0 {
				mu.Lock()
				out = append(out, buf[:n]...)
				if !greeted && bytes.Contains(out, []byte("\r\n")) {
					greeted = true
					close(gotGreeting)
				}
				mu.Unlock()
				progress.Store(time.Now().UnixNano())
			}
			if err != nil {
				if err == io.EOF {
					readDone <- "eof"
				} else if ne, ok := err.(net.Error); ok && ne.Timeout() {
					readDone <- "hang"
				} else {
					readDone <- "reset"
				}
				return
			}
		}
	}()
	finish := func(end string) *c11sObs {
		o.End = end
		mu.Lock()
		o.Raw = append([]byte(nil), out...)
		mu.Unlock()
		c11sParseResponses(o.Raw, o)
		return o
	}
	select {
	case <-gotGreeting:
	case end := <-readDone:
		_ = end
		return finish("no-greeting")
	case <-time.After(watchdog):
		_ = conn.SetReadDeadline(time.Now())
		<-readDone
		return finish("no-greeting")
	}
	// writer
	writeDone := make(chan error, 1)
	go func() {
		for off := 0; off < len(data); {
			end := off + (1 << 16)
			if end > len(data) {
				end = len(data)
			}
			_ = conn.SetWriteDeadline(time.Now().Add(watchdog))
			n, err := conn.Write(data[off:end])
			off += n
			if n > 0 {
				progress.Store(time.Now().UnixNano())
			}
			if err != nil {
				writeDone <- err
				return
			}
		}
		_ = tcp.CloseWrite()
		progress.Store(time.Now().UnixNano())
		writeDone <- nil
	}()
	tick := time.NewTicker(10 * time.Millisecond)
	defer tick.Stop()
	for {
		select {
		case end := <-readDone:
			return finish(end)
		case <-tick.C:
			if time.Since(time.Unix(0, progress.Load())) > watchdog {
				_ = conn.SetReadDeadline(time.Now())
				<-readDone
				return finish("hang")
			}
		}
	}
}

// ---- canary: the second session ---------------------------------------------------------------------

type c11sCanary struct {
	stop     chan struct{}
	done     chan struct{}
	mu       sync.Mutex
	failures []string
	noops    int
}

func c11sStartCanary(addr string, watchdog time.Duration, cur *atomic.Int64) *c11sCanary {
	cn := &c11sCanary{stop: make(chan struct{}), done: make(chan struct{})}
	fail := func(s string) {
		cn.mu.Lock()
		if len(cn.failures) < 20 {
			cn.failures = append(cn.failures, fmt.Sprintf("stream#%d: %s", cur.Load(), s))
		}
		cn.mu.Unlock()
	}
	go func() {
		defer close(cn.done)
		var conn net.Conn
		var r *bufio.Reader
		n := 0
		pending := ""
		cmd := func(line string) error {
			n++
			tag := fmt.Sprintf("cn%d", n)
			_ = conn.SetDeadline(time.Now().Add(watchdog))
			if _, err := conn.Write([]byte(tag + " " + line + "\r\n")); err != nil {
				return err
			}
			for {
				l, err := r.ReadString('\n')
				if err != nil {
					return err
				}
				if strings.HasPrefix(l, tag+" ") {
					if !strings.HasPrefix(l, tag+" OK") {
						return fmt.Errorf("answered %q", strings.TrimSpace(l))
					}
					return nil
				}
			}
		}
		for {
			select {
			case <-cn.stop:
				if conn != nil {
					conn.Close()
				}
				return
			default:
			}
			if conn == nil {
				c, err := net.DialTimeout("tcp", addr, watchdog)
				if err != nil {
					fail("canary cannot connect: " + err.Error())
					time.Sleep(100 * time.Millisecond)
					continue
				}
				conn, r = c, bufio.NewReader(c)
				_ = conn.SetDeadline(time.Now().Add(watchdog))
				if _, err := r.ReadString('\n'); err != nil {
					fail("canary got no greeting: " + err.Error())
					conn.Close()
					conn = nil
					continue
				}
				if err := cmd("LOGIN user " + sysPassword); err != nil {
					fail("canary LOGIN: " + err.Error())
					conn.Close()
					conn = nil
					continue
				}
			}
			if err := cmd("NOOP"); err != nil {
				// one slow answer on a loaded machine is not a finding; two in a row (the second on a new connection) are
				conn.Close()
				conn = nil
				if pending != "" {
					fail("canary NOOP not answered within the watchdog, twice in a row: " + pending + "; " + err.Error())
					pending = ""
				} else {
					pending = err.Error()
				}
				continue
			}
			pending = ""
			cn.mu.Lock()
			cn.noops++
			cn.mu.Unlock()
			time.Sleep(5 * time.Millisecond)
		}
	}()
	return cn
}

func (cn *c11sCanary) halt() (failures []string, noops int) {
	close(cn.stop)
	<-cn.done
	cn.mu.Lock()
	defer cn.mu.Unlock()
	return cn.failures, cn.noops
}

// ---- results ---------------------------------------------------------------------------------------

type c11sFinding struct {
	idx    int
	cause  string // stable label, `cause=…`
	desc   string
	stream *c11sStream
}

type c11sOutcome struct {
	idx       int
	stream    *c11sStream
	obs       *c11sObs
	findings  []c11sFinding // Go-level findings (crash, hang, growth, …)
	skipJudge bool
}

func c11sIsNest(kind string) bool { return strings.HasPrefix(kind, "nest") }

// c11sClassifyDeath names the cause of a child that died, from its stderr.
func c11sClassifyDeath(stderr string, werr error) (cause, detail string) {
	first := ""
	for _, l := range strings.Split(stderr, "\n") {
		if strings.HasPrefix(l, "panic:") || strings.HasPrefix(l, "fatal error:") || strings.HasPrefix(l, "runtime: goroutine stack exceeds") {
			first = l
			break
		}
	}
	status := "exit status unknown"
	if werr != nil {
		status = werr.Error()
	}
	switch {
	case strings.Contains(stderr, "stack overflow") && strings.Contains(stderr, "parseSearchKey"):
		return "cause=search-nesting-stack-overflow", "the server process died (" + status + "): " + first + " — goroutine stack exhausted in the recursion parseSearchKey / parseSearchKeyList"
	case strings.Contains(stderr, "stack overflow"):
		return "cause=stack-overflow", "the server process died (" + status + "): " + first
	case strings.HasPrefix(first, "panic:"):
		return "cause=panic", "the server process died (" + status + "): " + first
	case strings.Contains(stderr, "out of memory") || strings.Contains(stderr, "cannot allocate memory"):
		return "cause=out-of-memory", "the server process died (" + status + "): " + first
	}
	return "cause=child-died", "the server process died (" + status + "): " + c11sTail(strings.TrimSpace(stderr), 300)
}

// c11sClassifyHang names what a hung server was doing, from the goroutine dump after SIGQUIT.
func c11sClassifyHang(dump string) (cause, detail string) {
	// the goroutine that is running (not parked) inside gluon code
	var frames []string
	blocks := strings.Split(dump, "\n\n")
	// the goroutine inside the command rendering first, if there is one; otherwise the running ones
	var pick []string
	for _, g := range blocks {
		if strings.Contains(g, "SanitizedString") {
			pick = append(pick, g)
		}
	}
	for _, g := range blocks {
		if strings.Contains(g, "[running]") || strings.Contains(g, "[runnable]") {
			if !strings.Contains(g, "c11sRunChild") {
				pick = append(pick, g)
			}
		}
	}
	for _, g := range pick {
		for _, l := range strings.Split(g, "\n") {
			if strings.HasPrefix(l, "github.com/ProtonMail/gluon") {
				fn := l
				if k := strings.LastIndexByte(fn, '('); k > 0 {
					fn = fn[:k]
				}
				fn = strings.TrimPrefix(fn, "github.com/ProtonMail/gluon/")
				if len(frames) == 0 || frames[len(frames)-1] != fn {
					frames = append(frames, fn)
				}
				if len(frames) >= 6 {
					break
				}
			}
		}
		if len(frames) > 0 {
			break
		}
	}
	top := strings.Join(frames, " < ")
	if strings.Contains(dump, "SanitizedString") && (strings.Contains(dump, "SearchKey") || strings.Contains(dump, "command.Search")) {
		// who asked for the rendering: the first frame below the SanitizedString frames that is outside imap/command
		caller := "?"
		for _, g := range blocks {
			if !strings.Contains(g, "SanitizedString") {
				continue
			}
			lines := strings.Split(g, "\n")
			seen := false
			for i, l := range lines {
				if strings.Contains(l, "SanitizedString") {
					seen = true
					continue
				}
				if seen && strings.HasPrefix(l, "github.com/ProtonMail/gluon/") && !strings.Contains(l, "/imap/command.") {
					fn := l
					if k := strings.LastIndexByte(fn, '('); k > 0 {
						fn = fn[:k]
					}
					caller = strings.TrimPrefix(fn, "github.com/ProtonMail/gluon/")
					if i+1 < len(lines) {
						loc := strings.Fields(strings.TrimSpace(lines[i+1]))
						if len(loc) > 0 {
							caller += " (" + strings.TrimPrefix(loc[0], "/repo/") + ")"
						}
					}
					break
				}
			}
			break
		}
		return "cause=search-nesting-quadratic-time", "a goroutine of the session is rendering the parsed command for a log line (cmd.SanitizedString(), evaluated whether or not the line is logged), called from " + caller + ": every nesting level of a SEARCH key formats all levels below it, time grows with the square of the nesting depth; running: " + top
	}
	if top == "" {
		top = "(no running gluon goroutine in the dump)"
	}
	return "cause=hang", "running: " + top
}

// ---- worker ------------------------------------------------------------------------------------------

type c11sWorker struct {
	self     string
	watchdog time.Duration
	capMB    int
	asMB     int
	child    *c11sChild
	canary   *c11sCanary
	cur      atomic.Int64
	stats    map[string]int
	extra    []c11sFinding // findings not tied to the judged observation (canary, exit status, idle order)
	noIdle   bool
}

func (w *c11sWorker) start() error {
	c, err := c11sStartChild(w.self, w.asMB)
	if err != nil {
		return err
	}
	w.child = c
	w.stats["children"]++
	// the idle-order scenario, once per child (before the canary and the streams: the timing belongs to it alone)
	if !w.noIdle {
		if cause, desc := c11sIdleOrder(c.addr, w.stats["children"], w.stats); cause != "" {
			w.extra = append(w.extra, c11sFinding{idx: -1, cause: cause, desc: desc})
		} else if desc != "" {
			w.stats["idle.scenario-error"]++
		}
	}
	w.canary = c11sStartCanary(c.addr, w.watchdog, &w.cur)
	return nil
}

func (w *c11sWorker) haltCanary(st *c11sStream, idx int, expectFailures bool) {
	if w.canary == nil {
		return
	}
	fails, noops := w.canary.halt()
	w.canary = nil
	w.stats["canary.noops"] += noops
	if !expectFailures && len(fails) > 0 {
		w.extra = append(w.extra, c11sFinding{idx: idx, cause: "cause=canary-unanswered", stream: st,
			desc: "the second session (authenticated, NOOP in a loop) was not answered: " + strings.Join(fails, "; ")})
	}
}

func (w *c11sWorker) run(idx int, st *c11sStream) *c11sOutcome { return w.runOnce(idx, st, 1, false) }

// runOnce: wdFactor scales the watchdog; retry = this is the second attempt after a watchdog expiry
func (w *c11sWorker) runOnce(idx int, st *c11sStream, wdFactor int, retry bool) *c11sOutcome {
	oc := &c11sOutcome{idx: idx, stream: st}
	if w.child == nil || !w.child.alive() {
		if w.child != nil {
			w.haltCanary(st, idx, true)
			w.child.kill()
		}
		if err := w.start(); err != nil {
			oc.obs = &c11sObs{End: "dial-failed"}
			oc.skipJudge = true
			oc.findings = append(oc.findings, c11sFinding{idx: idx, cause: "cause=harness", stream: st, desc: "cannot start the server child: " + err.Error()})
			return oc
		}
	}
	w.cur.Store(int64(idx))
	rss0, hwm0 := w.child.mem()
	reset := w.child.resetPeak()
	// memory watch while the stream runs
	stopWatch := make(chan struct{})
	capped := make(chan int, 1)
	go func() {
		t := time.NewTicker(20 * time.Millisecond)
		defer t.Stop()
		for {
			select {
			case <-stopWatch:
				return
			case <-t.C:
				if rss, _ := w.child.mem(); rss > w.capMB*1024 {
					_ = w.child.cmd.Process.Kill()
					capped <- rss / 1024
					return
				}
			}
		}
	}()
	wd := w.watchdog * time.Duration(wdFactor)
	if len(st.Data) > 4<<20 {
		// 2 s per line, and time to get a very long line across at all (1 MB/s is far below loopback speed)
		wd += time.Duration(len(st.Data)/(1<<20)) * time.Second
	}
	obs := c11sRunStream(w.child.addr, st.Data, wd)
	close(stopWatch)
	oc.obs = obs
	w.stats["end."+obs.End]++
	// did the child survive?
	time.Sleep(time.Millisecond)
	select {
	case mb := <-capped:
		<-w.child.done
		obs.ChildDied = true
		oc.skipJudge = true
		w.haltCanary(st, idx, true)
		cause := "cause=memory-cap"
		if c11sIsNest(st.Kind) {
			cause = "cause=search-nesting-memory-growth"
		}
		oc.findings = append(oc.findings, c11sFinding{idx: idx, cause: cause, stream: st,
			desc: fmt.Sprintf("resident set of the server reached %d MB (cap %d MB) while it was given a stream of %d bytes; the harness killed it", mb, w.capMB, len(st.Data))})
		w.child.kill()
		w.child = nil
		return oc
	default:
	}
	if obs.End != "eof" && obs.End != "hang" {
		// give a dying process a moment to be reaped
		select {
		case <-w.child.done:
		case <-time.After(300 * time.Millisecond):
		}
	}
	if !w.child.alive() {
		obs.ChildDied = true
		oc.skipJudge = true
		w.haltCanary(st, idx, true)
		cause, detail := c11sClassifyDeath(w.child.errBuf.String(), w.child.werr)
		oc.findings = append(oc.findings, c11sFinding{idx: idx, cause: cause, stream: st, desc: detail + fmt.Sprintf(" (stream of %d bytes, every other session on the server is gone with it)", len(st.Data))})
		_ = os.RemoveAll(w.child.dir)
		w.child = nil
		return oc
	}
	switch obs.End {
	case "hang", "no-greeting", "dial-failed":
		oc.skipJudge = true
		w.haltCanary(st, idx, obs.End != "hang")
		dump := w.child.quitDump()
		if d := os.Getenv("C11S_DUMPDIR"); d != "" {
			_ = os.WriteFile(filepath.Join(d, fmt.Sprintf("dump-%d.txt", idx)), []byte(dump), 0o644)
		}
		cause, detail := c11sClassifyHang(dump)
		what := fmt.Sprintf("no progress for %v after the stream (%d bytes) was written and the write side closed: the server neither answered nor closed the connection", wd, len(st.Data))
		if obs.End != "hang" {
			what = "the server did not greet a new connection (" + obs.End + ")"
		}
		w.child = nil
		// a loaded machine is not a hung server: the verdict stands only if a fresh server, given three times
		// the watchdog, does not get through the stream either
		if !retry {
			w.stats["hang.retried"]++
			oc2 := w.runOnce(idx, st, 3, true)
			if oc2.obs != nil && oc2.obs.End == "eof" && !oc2.obs.ChildDied {
				w.stats["hang.slow-not-hung"]++
				return oc2
			}
		}
		oc.findings = append(oc.findings, c11sFinding{idx: idx, cause: cause, stream: st,
			desc: what + fmt.Sprintf("; completions so far %v; %s", obs.Completions, detail)})
		return oc
	}
	rss1, hwm1 := w.child.mem()
	growth := hwm1 - hwm0
	if reset {
		growth = hwm1 - rss0
	}
	_ = rss1
	obs.GrowthMB = growth / 1024
	if obs.GrowthMB > w.stats["max.growth.mb"] {
		w.stats["max.growth.mb"] = obs.GrowthMB
	}
	if obs.GrowthMB > 200 && len(st.Data) < 1<<20 {
		cause := "cause=memory-growth"
		if c11sIsNest(st.Kind) {
			cause = "cause=search-nesting-memory-growth"
		}
		oc.findings = append(oc.findings, c11sFinding{idx: idx, cause: cause, stream: st,
			desc: fmt.Sprintf("a stream of %d bytes made the server's resident set grow by %d MB (peak %d MB)", len(st.Data), obs.GrowthMB, hwm1/1024)})
	}
	if len(obs.Unparsable) > 0 {
		oc.findings = append(oc.findings, c11sFinding{idx: idx, cause: "cause=unparsable-response", stream: st,
			desc: "the server wrote something that is neither an untagged response, a continuation request nor a completion result: " + strings.Join(obs.Unparsable, " | ")})
	}
	return oc
}

func (w *c11sWorker) finish() {
	if w.child == nil {
		return
	}
	alive := w.child.alive()
	w.haltCanary(nil, -1, !alive)
	if !alive {
		cause, detail := c11sClassifyDeath(w.child.errBuf.String(), w.child.werr)
		w.extra = append(w.extra, c11sFinding{idx: -1, cause: cause, desc: detail + " (between streams)"})
		_ = os.RemoveAll(w.child.dir)
		return
	}
	if s := w.child.stop(); s != "" {
		w.extra = append(w.extra, c11sFinding{idx: -1, cause: "cause=child-exit-status", desc: "the server child " + s + "; stderr: " + c11sTail(w.child.errBuf.String(), 300)})
	}
}

// ---- the oracle -----------------------------------------------------------------------------------------

func c11sReplayLine(st *c11sStream) string {
	if st.Named != "" {
		return "named " + st.Named
	}
	return "stream " + st.Kind + " " + hexB(st.Data)
}

func c11sRunOracle(args []string) int {
	fs := flag.NewFlagSet("c11session", flag.ExitOnError)
	seed := fs.Uint64("seed", 1, "")
	out := fs.String("out", "", "")
	replayDir := fs.String("replaydir", ".", "")
	replay := fs.String("replay", "", "")
	n := fs.Int("n", 1500, "number of generated streams (besides the fixed ones)")
	workers := fs.Int("workers", 4, "server children running at the same time")
	big := fs.Int("big", 0, "0 = quick (nesting 10^5), 1 = thorough (also 9·10^5 levels, 1 MB lines in every position, 2·10^7 levels)")
	wdMs := fs.Int("watchdog", 2000, "watchdog in ms")
	capMB := fs.Int("rsscap", 3072, "kill the child above this resident set (MB)")
	asMB := fs.Int("aslimit", 16384, "RLIMIT_AS of the child (MB, 0 = none)")
	dump := fs.Bool("dump", false, "print every stream's observation and verdict")
	noIdle := fs.Bool("noidle", false, "skip the idle-order scenario")
	_ = fs.Parse(args)
	self, err := os.Executable()
	if err != nil {
		fmt.Fprintln(os.Stderr, err)
		return 1
	}
	res := &OracleResult{Stats: map[string]int{}}
	var streams []*c11sStream
	// readFile: the `stream` / `named` lines of a replay (or corpus) file
	readFile := func(path string, setSeed bool) error {
		b, err := os.ReadFile(path)
		if err != nil {
			return err
		}
		for _, l := range strings.Split(string(b), "\n") {
			f := strings.Fields(l)
			switch {
			case len(f) >= 3 && f[0] == "stream":
				data, err := hex.DecodeString(strings.Replace(f[2], "~", "", 1))
				if err != nil {
					return fmt.Errorf("%s: bad stream line: %v", path, err)
				}
				streams = append(streams, &c11sStream{Kind: f[1], Data: data})
			case len(f) == 2 && f[0] == "named":
				st := c11sNamedStream(f[1])
				if st == nil {
					return fmt.Errorf("%s: unknown named stream %s", path, f[1])
				}
				streams = append(streams, st)
			case len(f) >= 3 && f[0] == "oracle" && setSeed:
				for i := 2; i+1 < len(f); i++ {
					if f[i] == "-seed" {
						fmt.Sscan(f[i+1], seed)
					}
				}
			}
		}
		return nil
	}
	if *replay != "" {
		if err := readFile(*replay, true); err != nil {
			fmt.Fprintln(os.Stderr, err)
			return 1
		}
		*workers = 1
	} else {
		// past failures first: $VERIF_CORPUS/c11session*.txt (replay-file format)
		if dir := os.Getenv("VERIF_CORPUS"); dir != "" {
			files, _ := filepath.Glob(filepath.Join(dir, "c11session*.txt"))
			sort.Strings(files)
			for _, f := range files {
				if err := readFile(f, false); err != nil {
					fmt.Fprintln(os.Stderr, err)
					return 1
				}
			}
			res.Stats["gen.corpus"] = len(streams)
		}
		streams = append(streams, c11sGenStreams(NewRng(*seed), *n, *big > 0, res.Stats)...)
	}
	if *workers < 1 {
		*workers = 1
	}
	if *workers > len(streams) {
		*workers = len(streams)
	}
	outcomes := make([]*c11sOutcome, len(streams))
	var wg sync.WaitGroup
	var mu sync.Mutex
	var extra []c11sFinding
	for wi := 0; wi < *workers; wi++ {
		wg.Add(1)
		go func(wi int) {
			defer wg.Done()
			w := &c11sWorker{self: self, watchdog: time.Duration(*wdMs) * time.Millisecond, capMB: *capMB, asMB: *asMB, stats: map[string]int{}, noIdle: *noIdle || *replay != ""}
			for i := wi; i < len(streams); i += *workers {
				outcomes[i] = w.run(i, streams[i])
			}
			w.finish()
			mu.Lock()
			for k, v := range w.stats {
				if strings.HasPrefix(k, "max.") {
					if v > res.Stats[k] {
						res.Stats[k] = v
					}
				} else {
					res.Stats[k] += v
				}
			}
			extra = append(extra, w.extra...)
			mu.Unlock()
		}(wi)
	}
	wg.Wait()

	// the Lean judge on every complete observation
	var jl []string
	var jidx []int
	for i, oc := range outcomes {
		if oc == nil || oc.skipJudge {
			continue
		}
		data := oc.stream.Judge
		if data == nil {
			data = oc.stream.Data
		}
		obs := "-"
		if len(oc.obs.Completions) > 0 {
			obs = strings.Join(oc.obs.Completions, ";")
		}
		jl = append(jl, "judge-c11-session 0 "+hexB(data)+" => "+obs)
		jidx = append(jidx, i)
	}
	verdict := map[int]string{}
	if len(jl) > 0 {
		ans, err := leanJudge(jl)
		if err != nil || len(ans) != len(jl) {
			path := filepath.Join(*replayDir, "C11-c11session-judge.txt")
			_ = os.MkdirAll(*replayDir, 0o755)
			_ = os.WriteFile(path, []byte(fmt.Sprintf("oracle c11session -seed %d\n# the Lean judge could not be run: %v (%d answers for %d lines)\n", *seed, err, len(ans), len(jl))), 0o644)
			res.Violations = append(res.Violations, OracleViol{Desc: fmt.Sprintf("C11 c11session: the Lean judge (VERIF_DRIVER) could not be run: %v", err), Replay: path})
		} else {
			for k, a := range ans {
				verdict[jidx[k]] = a
			}
		}
	}
	var all []c11sFinding
	classes := map[string]bool{}
	for i, oc := range outcomes {
		if oc == nil {
			continue
		}
		res.Evaluations++
		all = append(all, oc.findings...)
		v, judged := verdict[i]
		if *dump {
			fmt.Printf("#%d %s %s end=%s obs=%v growth=%dMB dur=%v verdict=%q\n", i, oc.stream.Kind, c11sQuote(oc.stream.Data, 60), oc.obs.End, oc.obs.Completions, oc.obs.GrowthMB, oc.obs.Dur.Round(time.Millisecond), v)
		}
		if !judged {
			continue
		}
		f := strings.Fields(v)
		switch {
		case len(f) >= 1 && f[0] == "ok":
			if len(f) >= 3 {
				for _, ft := range strings.Split(f[2], ",") {
					res.Stats["judge.feature."+ft]++
				}
				if f[1] != "lines=0" {
					classes[oc.stream.Kind+"|"+f[1]+"|"+f[2]] = true
					res.Stats["judge.ok.nontrivial"]++
				} else {
					res.Stats["judge.ok.no-complete-line"]++
				}
			}
		case len(f) >= 2 && f[0] == "violation":
			detail := v
			if k := strings.Index(v, "|"); k >= 0 {
				detail = strings.TrimSpace(v[k+1:])
			}
			for _, cause := range strings.Split(f[1], ",") {
				all = append(all, c11sFinding{idx: i, cause: cause, stream: oc.stream,
					desc: detail + fmt.Sprintf(" — stream %s; the server wrote %v", c11sQuote(oc.stream.Data, 120), oc.obs.Completions)})
			}
		default:
			all = append(all, c11sFinding{idx: i, cause: "cause=judge-answer", stream: oc.stream, desc: "unexpected judge answer: " + v})
		}
	}
	all = append(all, extra...)
	res.DistinctNontrivial = len(classes)
	// report: per cause the first two findings (lowest stream index) get a replay file, all are counted
	sort.SliceStable(all, func(i, j int) bool {
		if all[i].cause != all[j].cause {
			return all[i].cause < all[j].cause
		}
		a, b := all[i].idx, all[j].idx
		if (a < 0) != (b < 0) {
			return b < 0
		}
		if a != b {
			return a < b
		}
		return all[i].desc < all[j].desc
	})
	perCause := map[string]int{}
	for _, f := range all {
		res.Stats["violation."+strings.TrimPrefix(f.cause, "cause=")]++
		perCause[f.cause]++
		if perCause[f.cause] > 2 {
			continue
		}
		name := fmt.Sprintf("C11-c11session-%s-%d-s%d.txt", strings.TrimPrefix(f.cause, "cause="), perCause[f.cause], *seed)
		path := filepath.Join(*replayDir, name)
		var text strings.Builder
		fmt.Fprintf(&text, "oracle c11session -seed %d\n", *seed)
		if f.stream != nil {
			text.WriteString(c11sReplayLine(f.stream) + "\n")
			fmt.Fprintf(&text, "# kind %s, %d bytes: %s\n", f.stream.Kind, len(f.stream.Data), c11sQuote(f.stream.Data, 300))
		}
		fmt.Fprintf(&text, "# property C11 %s: %s\n# replay: ./check C11 --replay <this file>\n", f.cause, strings.ReplaceAll(f.desc, "\n", "\n# "))
		_ = os.MkdirAll(*replayDir, 0o755)
		_ = os.WriteFile(path, []byte(text.String()), 0o644)
		res.Violations = append(res.Violations, OracleViol{Desc: "C11 c11session " + f.cause + ": " + f.desc, Replay: path})
	}
	for _, oc := range outcomes {
		if oc != nil && len(res.Samples) < 6 && len(oc.obs.Completions) > 1 {
			res.Samples = append(res.Samples, map[string]any{"kind": oc.stream.Kind, "stream": c11sQuote(oc.stream.Data, 100), "completions": oc.obs.Completions, "verdict": verdict[oc.idx]})
		}
	}
	if *out != "" {
		writeResult(*out, res)
	} else {
		b, _ := json.MarshalIndent(res, "", " ")
		fmt.Println(string(b))
	}
	return 0
}

func init() {
	RegisterOracle(&Oracle{Name: "c11session", Run: c11sRunOracle})
}
