package main

// Dialect `c15-unfold <header block hex>` (property C15): rfc822.NewHeader + Header.Entries on the real code — the keyed
// fields in order, name as written, merged ("unfolded") value, which is what SEARCH's header-string keys look at
// (Header.Get = merged value of the first entry of a name) — against the Lean model Search.headerOf
// (GluonModel/Model/SearchHeader.lean: C13's entry parser + Search.unfold = mergeMultiline + bytes.TrimSpace).
//
//	answer: err | ok - | ok name=value,…   (hex, ~ = empty)
//
// Generated blocks: fields built by c15BuildValue (the fold shapes of the search oracle), then byte-level damage:
// bare LF line breaks, CR without LF, white space of every kind next to the breaks (tab, VT, FF, U+0085, U+00A0,
// U+2003, U+3000, ill-formed look-alikes), empty values, lines without colon, a missing closing line break.

import (
	"fmt"
	"io"
	"strings"

	"github.com/ProtonMail/gluon/rfc822"
)

func c15ImplUnfold(args []string) (out string) {
	if len(args) != 1 {
		return "bad-op"
	}
	defer func() {
		if r := recover(); r != nil {
			out = "panic"
		}
	}()
	h, err := rfc822.NewHeader(c15UnhexOrTilde(args[0]))
	if err != nil {
		return "err"
	}
	var parts []string
	h.Entries(func(k, v string) { parts = append(parts, c15HexOrTilde([]byte(k))+"="+c15HexOrTilde([]byte(v))) })
	if len(parts) == 0 {
		return "ok -"
	}
	return "ok " + strings.Join(parts, ",")
}

var (
	c15UnfoldNames = []string{"Subject", "From", "To", "Cc", "Bcc", "X-Tag", "Received", "References", "subject", "X"}
	c15UnfoldWords = []string{"for", "the", "northern", "region", "a", "b", "report", "café", "na\xefve", "日本", "x:y", "=?UTF-8?Q?a?=", "<id@x>", "q"}
	// white space as bytes.TrimSpace sees it, and byte strings that only look like it
	c15UnfoldSpace = []string{" ", "\t", "\v", "\f", "\u0085", "\u00a0", "\u1680", "\u2000", "\u2003", "\u200a", "\u2028", "\u2029", "\u202f", "\u205f", "\u3000",
		"\xc2", "\xa0", "\xe2\x80", "\u200b", "\u180e", "\xe3\x80", "\x80\x80", "\xc2\x86", "\xe2\x80\x80\x80", "\xe2"}
	c15UnfoldBreaks = []string{"\r\n ", "\r\n\t", "\n ", "\n\t", "\r\n  ", " \r\n ", "\r\n \r\n ", "\n \n ", "\r\n", "\n", "\r", "\r\r\n "}
)

func c15GenUnfoldHeader(r *Rng, st *Stats) []byte {
	var b []byte
	nf := Pick(r, []int{0, 1, 1, 1, 2, 2, 3, 4})
	damaged := false
	for i := 0; i < nf; i++ {
		name := Pick(r, c15UnfoldNames)
		var toks []string
		for j, n := 0, r.Range(0, 5); j < n; j++ {
			toks = append(toks, Pick(r, c15UnfoldWords))
		}
		v := c15BuildValue(r, toks, 40, true, true)
		raw := v.raw
		if r.Chance(1, 3) {
			// damage: white space of every kind / other line breaks at random places of the value
			damaged = true
			body := strings.TrimSuffix(raw, "\r\n")
			for k, n := 0, r.Range(1, 3); k < n; k++ {
				at := r.Intn(len(body) + 1)
				ins := Pick(r, c15UnfoldSpace)
				if r.Chance(1, 3) {
					ins = Pick(r, c15UnfoldBreaks)
				}
				if r.Chance(1, 3) {
					// right next to a line break
					if j := strings.Index(body, "\n"); j >= 0 {
						at = j + r.Intn(2)
						if r.Bool() && j > 0 && body[j-1] == '\r' {
							at = j - 1
						}
					}
				}
				body = body[:at] + ins + body[at:]
			}
			raw = body + Pick(r, []string{"\r\n", "\r\n", "\n", ""})
		}
		b = append(b, name...)
		if !r.Chance(1, 25) {
			b = append(b, ':')
		}
		b = append(b, raw...)
	}
	if !r.Chance(1, 6) {
		b = append(b, "\r\n"...)
	}
	switch {
	case damaged:
		st.Inc("damaged")
	case strings.Contains(string(b), "\r\n ") || strings.Contains(string(b), "\r\n\t"):
		st.Inc("folded")
	default:
		st.Inc("plain")
	}
	return b
}

func c15GenUnfold(r *Rng, n int, w io.Writer, st *Stats) {
	for i := 0; i < n; i++ {
		fmt.Fprintf(w, "c15-unfold %s\n", c15HexOrTilde(c15GenUnfoldHeader(r, st)))
	}
}

func init() { Register(&Dialect{Name: "c15-unfold", Impl: c15ImplUnfold, Gen: c15GenUnfold}) }
