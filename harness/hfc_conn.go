package main

// hfc — the ERROR-PATH dimension of the history oracle `hist` (hist.go, o_hist.go): a connector whose NEXT call of a
// chosen kind fails on request.
//
// hfcFailConn embeds *connector.Dummy (the remote the histories run against anyway: it echoes what it is told) and
// overrides every call gluon makes on behalf of a client command.  `arm(kind, n)` makes the n-th call of that kind
// from now on fail once (n = 1: the very next one); a failing call has no effect on the remote side and returns a
// plain error, which gluon turns into a tagged NO.  Calls that are not armed delegate to the Dummy.  The connector's
// own pushes (C CREATE / C REMOVE … steps: Dummy.MessageCreated etc.) do not pass through these methods.
//
// Kinds: create (CreateMessage: APPEND), add (AddMessagesToMailbox: COPY, APPEND of a known message), remove
// (RemoveMessagesFromMailbox: EXPUNGE, UID EXPUNGE, CLOSE, MOVE without connector-side move, COPY onto the same
// mailbox), move (MoveMessages: MOVE), seen / flagged / forwarded (MarkMessages…: STORE, non-PEEK body FETCH),
// mkbox / rename / rmbox (CreateMailbox / UpdateMailboxName / DeleteMailbox), any (whichever mutating call comes
// next).
//
// The server is built by c20NewSysConn (conn_fail.go), which takes the connector as an interface.

import (
	"context"
	"errors"
	"sync"
	"time"

	"github.com/ProtonMail/gluon/connector"
	"github.com/ProtonMail/gluon/imap"
)

var hfcErrInjected = errors.New("hfc: injected connector failure")

var hfcKinds = []string{"create", "add", "remove", "move", "seen", "flagged", "forwarded", "mkbox", "rename", "rmbox", "any"}

func hfcKnownKind(k string) bool {
	for _, x := range hfcKinds {
		if x == k {
			return true
		}
	}
	return false
}

type hfcFailConn struct {
	*connector.Dummy

	mu     sync.Mutex
	armed  map[string]int // kind -> calls of that kind still to go until the failing one (1 = the next call fails)
	Failed []string       // kinds of the calls that were made to fail, in order
	Calls  map[string]int // calls seen per kind
}

func hfcNewFailConn(d *connector.Dummy) *hfcFailConn {
	return &hfcFailConn{Dummy: d, armed: map[string]int{}, Calls: map[string]int{}}
}

// arm: the n-th call of `kind` from now on fails (once).
func (c *hfcFailConn) arm(kind string, n int) {
	if n < 1 {
		n = 1
	}
	c.mu.Lock()
	defer c.mu.Unlock()
	c.armed[kind] = n
}

// disarm drops what is still armed; it returns the kinds that were.
func (c *hfcFailConn) disarm() []string {
	c.mu.Lock()
	defer c.mu.Unlock()
	var out []string
	for _, k := range hfcKinds {
		if c.armed[k] > 0 {
			out = append(out, k)
		}
	}
	c.armed = map[string]int{}
	return out
}

// takeFailed returns and clears the list of injected failures.
func (c *hfcFailConn) takeFailed() []string {
	c.mu.Lock()
	defer c.mu.Unlock()
	out := c.Failed
	c.Failed = nil
	return out
}

// hit is called at the start of every overridden call: nil = go ahead, error = this call fails.
func (c *hfcFailConn) hit(kind string) error {
	c.mu.Lock()
	defer c.mu.Unlock()
	c.Calls[kind]++
	for _, k := range []string{kind, "any"} {
		if n := c.armed[k]; n > 0 {
			c.armed[k] = n - 1
			if n == 1 {
				delete(c.armed, k)
				c.Failed = append(c.Failed, kind)
				return hfcErrInjected
			}
		}
	}
	return nil
}

func (c *hfcFailConn) CreateMailbox(ctx context.Context, w connector.IMAPStateWrite, name []string) (imap.Mailbox, error) {
	if err := c.hit("mkbox"); err != nil {
		return imap.Mailbox{}, err
	}
	return c.Dummy.CreateMailbox(ctx, w, name)
}

func (c *hfcFailConn) UpdateMailboxName(ctx context.Context, w connector.IMAPStateWrite, mboxID imap.MailboxID, newName []string) error {
	if err := c.hit("rename"); err != nil {
		return err
	}
	return c.Dummy.UpdateMailboxName(ctx, w, mboxID, newName)
}

func (c *hfcFailConn) DeleteMailbox(ctx context.Context, w connector.IMAPStateWrite, mboxID imap.MailboxID) error {
	if err := c.hit("rmbox"); err != nil {
		return err
	}
	return c.Dummy.DeleteMailbox(ctx, w, mboxID)
}

func (c *hfcFailConn) CreateMessage(ctx context.Context, w connector.IMAPStateWrite, mboxID imap.MailboxID, literal []byte, flags imap.FlagSet, date time.Time) (imap.Message, []byte, error) {
	if err := c.hit("create"); err != nil {
		return imap.Message{}, nil, err
	}
	return c.Dummy.CreateMessage(ctx, w, mboxID, literal, flags, date)
}

func (c *hfcFailConn) AddMessagesToMailbox(ctx context.Context, w connector.IMAPStateWrite, ids []imap.MessageID, mboxID imap.MailboxID) error {
	if err := c.hit("add"); err != nil {
		return err
	}
	return c.Dummy.AddMessagesToMailbox(ctx, w, ids, mboxID)
}

func (c *hfcFailConn) RemoveMessagesFromMailbox(ctx context.Context, w connector.IMAPStateWrite, ids []imap.MessageID, mboxID imap.MailboxID) error {
	if err := c.hit("remove"); err != nil {
		return err
	}
	return c.Dummy.RemoveMessagesFromMailbox(ctx, w, ids, mboxID)
}

func (c *hfcFailConn) MoveMessages(ctx context.Context, w connector.IMAPStateWrite, ids []imap.MessageID, from, to imap.MailboxID) (bool, error) {
	if err := c.hit("move"); err != nil {
		return false, err
	}
	return c.Dummy.MoveMessages(ctx, w, ids, from, to)
}

func (c *hfcFailConn) MarkMessagesSeen(ctx context.Context, w connector.IMAPStateWrite, ids []imap.MessageID, seen bool) error {
	if err := c.hit("seen"); err != nil {
		return err
	}
	return c.Dummy.MarkMessagesSeen(ctx, w, ids, seen)
}

func (c *hfcFailConn) MarkMessagesFlagged(ctx context.Context, w connector.IMAPStateWrite, ids []imap.MessageID, flagged bool) error {
	if err := c.hit("flagged"); err != nil {
		return err
	}
	return c.Dummy.MarkMessagesFlagged(ctx, w, ids, flagged)
}

func (c *hfcFailConn) MarkMessagesForwarded(ctx context.Context, w connector.IMAPStateWrite, ids []imap.MessageID, fwd bool) error {
	if err := c.hit("forwarded"); err != nil {
		return err
	}
	return c.Dummy.MarkMessagesForwarded(ctx, w, ids, fwd)
}
