package main

// splitmix64: every random choice of the harness derives from one state seeded by VERIF_SEED.
type Rng struct{ s uint64 }

// NewRng hashes the seed first: consecutive seeds must not give shifted copies of one stream.
func NewRng(seed uint64) *Rng {
	z := (seed ^ 0xD1B54A32D192ED03) * 0xFF51AFD7ED558CCD
	z = (z ^ (z >> 33)) * 0xC4CEB9FE1A85EC53
	return &Rng{s: z ^ (z >> 29)}
}

func (r *Rng) U64() uint64 {
	r.s += 0x9E3779B97F4A7C15
	z := r.s
	z = (z ^ (z >> 30)) * 0xBF58476D1CE4E5B9
	z = (z ^ (z >> 27)) * 0x94D049BB133111EB
	return z ^ (z >> 31)
}

// Intn returns a value in [0,n).
func (r *Rng) Intn(n int) int {
	if n <= 0 {
		return 0
	}
	return int(r.U64() % uint64(n))
}

// Range returns a value in [lo,hi].
func (r *Rng) Range(lo, hi int) int { return lo + r.Intn(hi-lo+1) }

func (r *Rng) Bool() bool { return r.U64()&1 == 1 }

// Chance returns true with probability num/den.
func (r *Rng) Chance(num, den int) bool { return r.Intn(den) < num }

func Pick[T any](r *Rng, xs []T) T { return xs[r.Intn(len(xs))] }

// Fork derives an independent generator (for sub-streams) without disturbing determinism.
func (r *Rng) Fork() *Rng { return &Rng{s: r.U64()} }
