package main

// Dialect `dispatch` (C18): the real Session.handleCommand / handleIdle on a session that has not
// authenticated (hook verifhooks.DispatchUnauth, /repo/internal/session/verif_export_dispatch.go)
// for every payload type of imap/command, against the facts-driven Lean model.

import (
	"fmt"
	"io"
	"sort"
	"strings"

	"github.com/ProtonMail/gluon/imap/command"
	"github.com/ProtonMail/gluon/verifhooks"
)

var dispatchPayloads = map[string]func() command.Payload{
	"Append":      func() command.Payload { return &command.Append{} },
	"Capability":  func() command.Payload { return &command.Capability{} },
	"Check":       func() command.Payload { return &command.Check{} },
	"Close":       func() command.Payload { return &command.Close{} },
	"Copy":        func() command.Payload { return &command.Copy{} },
	"Create":      func() command.Payload { return &command.Create{} },
	"Delete":      func() command.Payload { return &command.Delete{} },
	"Done":        func() command.Payload { return &command.Done{} },
	"Examine":     func() command.Payload { return &command.Examine{} },
	"Expunge":     func() command.Payload { return &command.Expunge{} },
	"Fetch":       func() command.Payload { return &command.Fetch{} },
	"IDGet":       func() command.Payload { return &command.IDGet{} },
	"IDSet":       func() command.Payload { return &command.IDSet{} },
	"Idle":        func() command.Payload { return &command.Idle{} },
	"LSub":        func() command.Payload { return &command.LSub{} },
	"List":        func() command.Payload { return &command.List{} },
	"Login":       func() command.Payload { return &command.Login{UserID: "nobody", Password: "wrong"} },
	"Logout":      func() command.Payload { return &command.Logout{} },
	"Move":        func() command.Payload { return &command.Move{} },
	"Noop":        func() command.Payload { return &command.Noop{} },
	"Rename":      func() command.Payload { return &command.Rename{} },
	"Search":      func() command.Payload { return &command.Search{} },
	"Select":      func() command.Payload { return &command.Select{} },
	"StartTLS":    func() command.Payload { return &command.StartTLS{} },
	"Status":      func() command.Payload { return &command.Status{} },
	"Store":       func() command.Payload { return &command.Store{} },
	"Subscribe":   func() command.Payload { return &command.Subscribe{} },
	"UID":         func() command.Payload { return &command.UID{Command: &command.Fetch{}} },
	"UIDExpunge":  func() command.Payload { return &command.UIDExpunge{} },
	"Unselect":    func() command.Payload { return &command.Unselect{} },
	"Unsubscribe": func() command.Payload { return &command.Unsubscribe{} },
}

func implDispatch(args []string) string {
	if len(args) != 1 {
		return "bad-op"
	}
	mk, ok := dispatchPayloads[args[0]]
	if !ok {
		return "no-such-type"
	}
	r := verifhooks.DispatchUnauth(mk())
	switch {
	case strings.HasPrefix(r, "handled"):
		return "handled"
	case r == "panic":
		return "reached-body"
	}
	return r
}

func genDispatch(r *Rng, n int, w io.Writer, st *Stats) {
	var names []string
	for k := range dispatchPayloads {
		names = append(names, k)
	}
	sort.Strings(names)
	names = append(names, "Authenticate", "Bogus", "Xatom")
	// the unit is stateless and the input space finite: every type exactly once (n only caps the list)
	for i := 0; i < n && i < len(names); i++ {
		fmt.Fprintf(w, "dispatch %s\n", names[i])
		st.Inc("type:" + names[i])
	}
	_ = r
}

func init() {
	Register(&Dialect{Name: "dispatch", Impl: implDispatch, Gen: genDispatch})
}
