package main

// Dialect `limits` (C17): the public package github.com/ProtonMail/gluon/limits against the Lean
// model GluonModel/Model/Limits.lean, with boundary values around the maxima, 2^31, 2^32, 2^63.

import (
	"errors"
	"fmt"
	"io"
	"math"
	"strconv"
	"strings"

	"github.com/ProtonMail/gluon/imap"
	"github.com/ProtonMail/gluon/limits"
)

func showLimitErr(err error) string {
	switch {
	case err == nil:
		return "ok"
	case !limits.IsIMAPLimitErr(err):
		return "err not-a-limit-error"
	case errors.Is(err, limits.ErrMaxMailboxCountReached):
		return "err mailbox-count"
	case errors.Is(err, limits.ErrMaxMailboxMessageCountReached):
		return "err message-count"
	case errors.Is(err, limits.ErrMaxUIDReached):
		return "err uid"
	case errors.Is(err, limits.ErrMaxUIDValidityReached):
		return "err uidvalidity"
	}
	return "err other"
}

func implLimits(args []string) string {
	if strconv.IntSize != 64 {
		return "unsupported-platform-int-is-not-64-bit"
	}
	u32 := func(s string) uint32 {
		v, err := strconv.ParseUint(s, 10, 32)
		if err != nil {
			panic("bad uint32 " + s)
		}
		return uint32(v)
	}
	i := func(s string) int {
		v, err := strconv.ParseInt(s, 10, 64)
		if err != nil {
			panic("bad int " + s)
		}
		return int(v)
	}
	if len(args) == 0 {
		return "bad-op"
	}
	switch {
	case args[0] == "mb" && len(args) == 3:
		return showLimitErr(limits.NewIMAPLimits(u32(args[1]), 0, 0, 0).CheckMailBoxCount(i(args[2])))
	case args[0] == "msg" && len(args) == 4:
		return showLimitErr(limits.NewIMAPLimits(0, u32(args[1]), 0, 0).CheckMailBoxMessageCount(i(args[2]), i(args[3])))
	case args[0] == "uid" && len(args) == 4:
		return showLimitErr(limits.NewIMAPLimits(0, 0, imap.UID(u32(args[1])), 0).CheckUIDCount(imap.UID(u32(args[2])), i(args[3])))
	case args[0] == "uidv" && len(args) == 3:
		return showLimitErr(limits.NewIMAPLimits(0, 0, 0, imap.UID(u32(args[1]))).CheckUIDValidity(imap.UID(u32(args[2]))))
	case args[0] == "dmb" && len(args) == 2:
		return showLimitErr(limits.DefaultLimits().CheckMailBoxCount(i(args[1])))
	case args[0] == "dmsg" && len(args) == 3:
		return showLimitErr(limits.DefaultLimits().CheckMailBoxMessageCount(i(args[1]), i(args[2])))
	case args[0] == "duid" && len(args) == 3:
		return showLimitErr(limits.DefaultLimits().CheckUIDCount(imap.UID(u32(args[1])), i(args[2])))
	case args[0] == "duidv" && len(args) == 2:
		return showLimitErr(limits.DefaultLimits().CheckUIDValidity(imap.UID(u32(args[1]))))
	}
	return "bad-op"
}

func genLimits(r *Rng, n int, w io.Writer, st *Stats) {
	maxes := []uint32{0, 1, 2, 3, 4, 100, 1000, math.MaxInt32 - 1, math.MaxInt32, math.MaxInt32 + 1, math.MaxUint32 - 1, math.MaxUint32}
	clamp32 := func(v int64) uint32 {
		if v < 0 {
			return 0
		}
		if v > math.MaxUint32 {
			return math.MaxUint32
		}
		return uint32(v)
	}
	// an int64 around interesting points, relative to mx
	pick := func(mx int64) int64 {
		base := []int64{0, 1, mx - 1, mx, mx + 1, mx / 2, math.MaxInt32, math.MaxInt32 + 1, math.MaxUint32, math.MaxUint32 + 1,
			math.MaxInt64, math.MaxInt64 - 1, math.MinInt64, math.MinInt64 + 1, -1, -2, 1 << 62}
		v := Pick(r, base)
		if r.Chance(1, 3) {
			d := int64(r.Range(-2, 2))
			if (d > 0 && v <= math.MaxInt64-d) || (d < 0 && v >= math.MinInt64-d) {
				v += d
			}
		}
		if r.Chance(1, 8) {
			v = int64(r.U64())
		}
		return v
	}
	// distinct op lines only (the evidence counts non-trivial cases; a repeated line is not a new case)
	seen := map[string]bool{}
	inner := w
	emitted := 0
	w = limitsWriterFunc(func(p []byte) (int, error) {
		if seen[string(p)] {
			st.Inc("duplicate-skipped")
			return len(p), nil
		}
		seen[string(p)] = true
		emitted++
		if f := strings.Fields(string(p)); len(f) > 1 {
			st.Inc("op:" + f[1])
		}
		return inner.Write(p)
	})
	for k := 0; emitted < n && k < 4*n; k++ {
		def := r.Chance(1, 6)
		mx := Pick(r, maxes)
		if r.Chance(1, 6) {
			mx = uint32(r.U64())
		}
		m64 := int64(mx)
		if def {
			m64 = math.MaxUint32
		}
		switch r.Intn(4) {
		case 0:
			c := pick(m64)
			if def {
				fmt.Fprintf(w, "limits dmb %d\n", c)
			} else {
				fmt.Fprintf(w, "limits mb %d %d\n", mx, c)
			}
		case 1:
			e := pick(m64)
			var nw int64
			switch r.Intn(4) {
			case 0: // land exactly around the maximum (wrapping subtraction is fine: any int64 is a legal argument)
				nw = m64 - e + int64(r.Range(-1, 1))
			case 1: // land around the int64 ceiling
				if e > 0 {
					nw = math.MaxInt64 - e + int64(r.Range(0, 2))
				} else {
					nw = int64(r.Range(0, 3))
				}
			default:
				nw = pick(m64)
			}
			if def {
				fmt.Fprintf(w, "limits dmsg %d %d\n", e, nw)
			} else {
				fmt.Fprintf(w, "limits msg %d %d %d\n", mx, e, nw)
			}
		case 2:
			u := clamp32(pick(m64))
			var nw int64
			switch r.Intn(3) {
			case 0:
				nw = m64 - int64(u) + int64(r.Range(-1, 1))
			case 1:
				nw = math.MaxInt64 - int64(u) + int64(r.Range(0, 2))
			default:
				nw = pick(m64)
			}
			if def {
				fmt.Fprintf(w, "limits duid %d %d\n", u, nw)
			} else {
				fmt.Fprintf(w, "limits uid %d %d %d\n", mx, u, nw)
			}
		default:
			u := clamp32(pick(m64))
			if def {
				fmt.Fprintf(w, "limits duidv %d\n", u)
			} else {
				fmt.Fprintf(w, "limits uidv %d %d\n", mx, u)
			}
		}
	}
}

type limitsWriterFunc func(p []byte) (int, error)

func (f limitsWriterFunc) Write(p []byte) (int, error) { return f(p) }

func init() {
	Register(&Dialect{Name: "limits", Impl: implLimits, Gen: genLimits})
}
