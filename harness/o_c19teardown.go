package main

// Oracle `c19teardown` (C19): the teardown protocol on the real server (public API only).
//
//	vh oracle c19teardown -seed S -out result.json -replaydir DIR [-n N]
//	vh oracle c19teardown -replay FILE
//
// Scenario `teardown`: a server with one user; k sessions are brought into assorted protocol states
// (not authenticated, authenticated, selected, IDLE, in the middle of an APPEND literal, abruptly
// disconnected), some keep issuing NOOP while the teardown runs; then RemoveUser and/or Server.Close
// under a watchdog. Must hold (theorem teardown_completes: its assumptions are met here): the call
// returns; afterwards the goroutine count is back at the baseline taken before gluon.New.
// Scenario `ctxcancel` (regression for the hang repaired by 630a898): as above with one selected session,
// but the context given to Server.Serve is cancelled first, so the DB read and the DB write of
// removeState fail. Close must return (theorem teardown_ctxcancel_now_completes; a hang is reported as
// `c19teardown ctxcancel-hang`) and leave no goroutine: removeState closes the state also when its DB
// write fails (0873710; theorems teardown_safe, teardown_writefail_now_clean; a goroutine left is
// reported as `c19teardown #13d`).
// Scenario `snaprace` (only with -snaprace, meant for the -race build, see o_c19race.go): sessions A and
// B select the same mailbox; B keeps deleting+expunging and logging out while A keeps issuing
// commands: removeState(B) reads A's snapshot (other.HasMessage) from B's goroutine (finding #13b).
// Session states (how each session got where it is when the teardown starts), beyond the basic ones:
// every way a session can END, in every protocol state. `big` = a mailbox of c19BigCount messages of
// c19BigSize bytes filled through the connector; the client of a `fetch-*` session has a 4 KiB receive
// buffer and stops reading after 16 bytes, so the server's socket buffer and the command's response
// channel (8 slots) fill while most FETCH responses are still to be produced:
//
//	idle-done / idle-garbage / idle-othercmd   IDLE left by DONE / by a malformed line (NO) / by another command (BAD); then NOOP
//	idle-garbage-idle                           IDLE left by a malformed line, IDLE entered again and kept
//	idle-fin / idle-rst                         IDLE left by the client closing / resetting the connection
//	idle-done-rst / idle-enter-rst              reset right behind DONE / right behind the IDLE command (write failure around IDLE)
//	midliteral-fin / midliteral-rst             connection closed / reset inside an APPEND literal
//	fetch-drain                                 FETCH 1:* (BODY.PEEK[]) of `big` read to its tagged OK (every command completes)
//	fetch-stall                                 the same FETCH, client not reading, still connected when the teardown starts
//	fetch-stall-rst / fetch-stall-fin           ... then the connection is reset / closed with unread data
//	fetch-logout                                FETCH + LOGOUT pipelined, everything read: must end with the tagged OK of LOGOUT and EOF
//	fetch-logout-stall-rst                      FETCH + LOGOUT pipelined, client not reading, reset
//
// `ctxcancel` takes the same session states: the Serve context is cancelled in every one of them.
// Scenario `updrace` (meant for the -race build): a goroutine feeds connector updates (MessageCreated, no
// Flush) while sessions of that user log in, NOOP and log out / drop: the session bookkeeping (user.states)
// is shared between the update goroutine and the session goroutines.
// After every scenario: RemoveUser / Close returned within the watchdog, and the goroutines are back at the
// baseline; what is left is reported as `count x first gluon frame`, baseline goroutines subtracted.
// Scenario `errch`: three unauthenticated sessions, Serve context cancelled, nobody reads GetErrorCh:
// Server.Close must not leave the serveErrCh consumer goroutine (214c4ac: CloseAndDiscardQueued; theorem
// server_errch_close_classified; a goroutine left is reported as `c19teardown #13a-errch`).

import (
	"bufio"
	"context"
	"encoding/json"
	"flag"
	"fmt"
	"io"
	"net"
	"os"
	"runtime"
	"strings"
	"sync"
	"syscall"
	"time"

	"github.com/ProtonMail/gluon"
	"github.com/ProtonMail/gluon/connector"
	"github.com/ProtonMail/gluon/imap"
	"github.com/sirupsen/logrus"
)

const (
	c19BigCount = 128      // messages in the mailbox `big`
	c19BigSize  = 64 << 10 // bytes per message: 8 MiB in all, more than a loopback socket takes (tcp_wmem max 4 MiB)
)

type tdClient struct {
	c net.Conn
	r *bufio.Reader
}

func tdDial(addr string) (*tdClient, error) { return tdDialBuf(addr, 0) }

// tdDialBuf: rcvbuf > 0 sets SO_RCVBUF before connecting (small window, no receive-buffer autotuning).
func tdDialBuf(addr string, rcvbuf int) (*tdClient, error) {
	d := net.Dialer{Timeout: 5 * time.Second}
	if rcvbuf > 0 {
		d.Control = func(_, _ string, rc syscall.RawConn) error {
			return rc.Control(func(fd uintptr) {
				_ = syscall.SetsockoptInt(int(fd), syscall.SOL_SOCKET, syscall.SO_RCVBUF, rcvbuf)
			})
		}
	}
	c, err := d.Dial("tcp", addr)
	if err != nil {
		return nil, err
	}
	cl := &tdClient{c: c, r: bufio.NewReader(c)}
	if _, err := cl.line(); err != nil {
		return nil, err
	}
	return cl, nil
}

func (cl *tdClient) line() (string, error) {
	_ = cl.c.SetReadDeadline(time.Now().Add(10 * time.Second))
	return cl.r.ReadString('\n')
}

// cmd sends a tagged command and reads until the tagged reply (or a continuation request).
func (cl *tdClient) cmd(tag, text string) (string, error) {
	if _, err := fmt.Fprintf(cl.c, "%s %s\r\n", tag, text); err != nil {
		return "", err
	}
	return cl.until(tag)
}

// until reads until the reply tagged `tag` (or a continuation request).
func (cl *tdClient) until(tag string) (string, error) {
	for {
		l, err := cl.line()
		if err != nil {
			return "", err
		}
		if strings.HasPrefix(l, tag+" ") || strings.HasPrefix(l, "+") {
			return strings.TrimSpace(l), nil
		}
	}
}

// rst closes the connection abruptly: the peer's pending and next writes fail (ECONNRESET / EPIPE).
func (cl *tdClient) rst() {
	if t, ok := cl.c.(*net.TCPConn); ok {
		_ = t.SetLinger(0)
	}
	_ = cl.c.Close()
}

// the basic states (as before) ...
var tdStates = []string{"preauth", "auth", "selected", "idle", "midliteral", "dropped", "noop-loop"}

// ... the ways out of IDLE / of a literal (cheap) ...
var tdEndStates = []string{
	"idle-done", "idle-garbage", "idle-othercmd", "idle-garbage-idle", "idle-fin", "idle-rst", "idle-done-rst", "idle-enter-rst",
	"midliteral-fin", "midliteral-rst",
}

// ... and the ones around a multi-response command whose client does not read (need the mailbox `big`).
var tdBigStates = []string{"fetch-drain", "fetch-stall", "fetch-stall-rst", "fetch-stall-fin", "fetch-logout", "fetch-logout-stall-rst"}

func tdKnownState(st string) bool {
	for _, xs := range [][]string{tdStates, tdEndStates, tdBigStates} {
		for _, x := range xs {
			if x == st {
				return true
			}
		}
	}
	return false
}

type tdScenario struct {
	kind     string // teardown | ctxcancel | errch | snaprace | updrace
	sessions []string
	how      string // close | removeuser+close
}

func (sc tdScenario) String() string {
	return fmt.Sprintf("%s how=%s sessions=%s", sc.kind, sc.how, strings.Join(sc.sessions, ","))
}

type tdOutcome struct {
	returned   bool
	err        string
	goroutines int
	baseline   int
	leftover   string
	setupErr   string
	incomplete string // a command that did not complete although its client kept reading
}

// tdFrameCounts: goroutines by their first gluon frame (else their top frame).
func tdFrameCounts() map[string]int {
	buf := make([]byte, 4<<20)
	n := runtime.Stack(buf, true)
	counts := map[string]int{}
	for _, g := range strings.Split(string(buf[:n]), "\n\n") {
		lines := strings.Split(g, "\n")
		if len(lines) < 2 || strings.Contains(lines[0], "running") {
			continue
		}
		// first gluon frame (a frame of the helper package `async` is followed by its gluon caller), else first frame
		strip := func(l string) string {
			l = strings.TrimSpace(l)
			if i := strings.LastIndex(l, "("); i > 0 {
				l = l[:i]
			}
			return strings.TrimPrefix(l, "github.com/ProtonMail/gluon/")
		}
		frame := strip(lines[1])
		for k, l := range lines[1:] {
			if strings.Contains(l, "ProtonMail/gluon") && !strings.HasPrefix(l, "\t") && !strings.HasPrefix(l, "created by") {
				frame = strip(l)
				if strings.HasPrefix(frame, "async.") {
					for _, m := range lines[k+2:] {
						if strings.Contains(m, "ProtonMail/gluon") && !strings.HasPrefix(m, "\t") && !strings.HasPrefix(m, "created by") && !strings.HasPrefix(strip(m), "async.") {
							frame += " < " + strip(m)
							break
						}
					}
				}
				break
			}
		}
		counts[frame]++
	}
	return counts
}

// tdTopFrames: what is there now beyond `base` (nil: everything), as `count x frame; ...`.
func tdTopFrames(base map[string]int) string {
	var xs []string
	for k, v := range tdFrameCounts() {
		if v -= base[k]; v > 0 {
			xs = append(xs, fmt.Sprintf("%dx %s", v, k))
		}
	}
	sortStrings(xs)
	return strings.Join(xs, "; ")
}

func sortStrings(xs []string) {
	for i := range xs {
		for j := i + 1; j < len(xs); j++ {
			if xs[j] < xs[i] {
				xs[i], xs[j] = xs[j], xs[i]
			}
		}
	}
}

func tdMessage(size int) []byte {
	var b strings.Builder
	b.WriteString("From: a@example.com\r\nTo: b@example.com\r\nDate: Mon, 02 Jan 2006 15:04:05 +0000\r\nSubject: s\r\n\r\n")
	for b.Len() < size {
		b.WriteString("0123456789012345678901234567890123456789012345678901234567890123456789\r\n")
	}
	return []byte(b.String())
}

func tdMailbox(conn *connector.Dummy, id, name string) error {
	return conn.MailboxCreated(imap.Mailbox{ID: imap.MailboxID(id), Name: []string{name}, Flags: imap.NewFlagSet(`\Seen`), PermanentFlags: imap.NewFlagSet(`\Seen`), Attributes: imap.NewFlagSet()})
}

// tdMakeBig fills the mailbox `big` through the connector.
func tdMakeBig(conn *connector.Dummy) error {
	if err := tdMailbox(conn, "c19big", "big"); err != nil {
		return err
	}
	lit := tdMessage(c19BigSize)
	for i := 0; i < c19BigCount; i++ {
		if err := conn.MessageCreated(imap.Message{ID: imap.MessageID(fmt.Sprintf("c19big-%d", i)), Flags: imap.NewFlagSet(), Date: time.Unix(1136214245, 0).UTC()}, lit, []imap.MailboxID{"c19big"}); err != nil {
			return err
		}
	}
	conn.Flush()
	return nil
}

type tdEnv struct {
	addr       string
	stopLoops  chan struct{}
	loopsDone  chan struct{}
	loops      int
	clients    []*tdClient
	incomplete []string
}

const tdFetchBig = "FETCH 1:* (BODY.PEEK[])"

// stall: the client reads 16 bytes of the answer and then nothing for a while: the server ends up blocked in
// write(2) with the producers of the command queued on its response channel.
func (cl *tdClient) stall() {
	_ = cl.c.SetReadDeadline(time.Now().Add(10 * time.Second))
	_, _ = io.ReadFull(cl.r, make([]byte, 16))
	time.Sleep(300 * time.Millisecond)
}

// enter brings session i into state st.
func (e *tdEnv) enter(i int, st string) error {
	big := strings.HasPrefix(st, "fetch-")
	rcvbuf := 0
	if big && st != "fetch-drain" && st != "fetch-logout" {
		rcvbuf = 4096
	}
	cl, err := tdDialBuf(e.addr, rcvbuf)
	if err != nil {
		return fmt.Errorf("dial: %w", err)
	}
	e.clients = append(e.clients, cl)
	if st == "preauth" {
		return nil
	}
	if r, err := cl.cmd("a", "LOGIN user pass"); err != nil || !strings.HasPrefix(r, "a OK") {
		return fmt.Errorf("login: %v %q", err, r)
	}
	if st == "auth" {
		return nil
	}
	box := fmt.Sprintf("box%d", i)
	if big {
		box = "big"
	} else {
		_, _ = cl.cmd("b", "CREATE "+box)
	}
	if r, err := cl.cmd("c", "SELECT "+box); err != nil || !strings.HasPrefix(r, "c OK") {
		return fmt.Errorf("select: %v %q", err, r)
	}
	send := func(text string) { _, _ = cl.c.Write([]byte(text)) }
	// completes: the client keeps reading, so the command tagged `tag` must complete
	completes := func(tag, what string) {
		if r, err := cl.until(tag); err != nil {
			e.incomplete = append(e.incomplete, fmt.Sprintf("session %d (%s): no tagged reply to %s: %v", i, st, what, err))
		} else if strings.HasPrefix(r, "+") {
			e.incomplete = append(e.incomplete, fmt.Sprintf("session %d (%s): continuation request instead of the reply to %s", i, st, what))
		}
	}
	switch st {
	case "selected":
	case "idle":
		_, _ = cl.cmd("d", "IDLE")
	case "midliteral", "midliteral-fin", "midliteral-rst":
		_, _ = cl.cmd("d", "APPEND "+box+" {100}")
		send("From: a@b\r\n")
		if st == "midliteral-fin" {
			_ = cl.c.Close()
		} else if st == "midliteral-rst" {
			cl.rst()
		}
	case "dropped":
		_ = cl.c.Close()
	case "noop-loop":
		e.loops++
		go func(cl *tdClient) {
			defer func() { e.loopsDone <- struct{}{} }()
			for k := 0; ; k++ {
				select {
				case <-e.stopLoops:
					return
				default:
				}
				if _, err := cl.cmd(fmt.Sprintf("n%d", k), "NOOP"); err != nil {
					return
				}
			}
		}(cl)
	case "idle-done":
		_, _ = cl.cmd("d", "IDLE")
		send("DONE\r\n")
		completes("d", "IDLE ... DONE")
		_, _ = cl.cmd("e", "NOOP")
	case "idle-garbage", "idle-garbage-idle":
		_, _ = cl.cmd("d", "IDLE")
		send("g THIS-IS-NOT-DONE\r\n")
		completes("d", "IDLE ... <malformed line>")
		if r, err := cl.cmd("e", "NOOP"); err != nil || !strings.HasPrefix(r, "e OK") {
			e.incomplete = append(e.incomplete, fmt.Sprintf("session %d (%s): NOOP after the failed IDLE: %v %q", i, st, err, r))
		}
		if st == "idle-garbage-idle" {
			_, _ = cl.cmd("h", "IDLE")
		}
	case "idle-othercmd":
		_, _ = cl.cmd("d", "IDLE")
		send("g NOOP\r\n")
		completes("d", "IDLE ... NOOP")
		_, _ = cl.cmd("e", "NOOP")
	case "idle-fin":
		_, _ = cl.cmd("d", "IDLE")
		_ = cl.c.Close()
	case "idle-rst":
		_, _ = cl.cmd("d", "IDLE")
		cl.rst()
	case "idle-done-rst":
		_, _ = cl.cmd("d", "IDLE")
		send("DONE\r\n")
		cl.rst()
	case "idle-enter-rst":
		send("d IDLE\r\n")
		cl.rst()
	case "fetch-drain":
		send("f " + tdFetchBig + "\r\n")
		completes("f", tdFetchBig)
	case "fetch-stall":
		send("f " + tdFetchBig + "\r\n")
		cl.stall()
	case "fetch-stall-rst":
		send("f " + tdFetchBig + "\r\n")
		cl.stall()
		cl.rst()
	case "fetch-stall-fin":
		send("f " + tdFetchBig + "\r\n")
		cl.stall()
		_ = cl.c.Close()
	case "fetch-logout":
		send("f " + tdFetchBig + "\r\nz LOGOUT\r\n")
		completes("f", tdFetchBig)
		completes("z", "LOGOUT pipelined behind "+tdFetchBig)
		if _, err := cl.line(); err != io.EOF {
			e.incomplete = append(e.incomplete, fmt.Sprintf("session %d (%s): connection not closed after LOGOUT: %v", i, st, err))
		}
	case "fetch-logout-stall-rst":
		send("f " + tdFetchBig + "\r\nz LOGOUT\r\n")
		cl.stall()
		cl.rst()
	default:
		return fmt.Errorf("unknown session state %q", st)
	}
	return nil
}

func runTeardown(sc tdScenario, watchdog time.Duration) tdOutcome {
	var out tdOutcome
	runtime.GC()
	out.baseline = runtime.NumGoroutine()
	baseFrames := tdFrameCounts()
	dir, err := os.MkdirTemp("", "c19td")
	if err != nil {
		out.setupErr = err.Error()
		return out
	}
	defer os.RemoveAll(dir)
	srv, err := gluon.New(gluon.WithDataDir(dir+"/data"), gluon.WithDatabaseDir(dir+"/db"))
	if err != nil {
		out.setupErr = err.Error()
		return out
	}
	ctx := context.Background()
	conn := connector.NewDummy([]string{"user"}, []byte("pass"), time.Hour, imap.NewFlagSet(`\Seen`), imap.NewFlagSet(`\Seen`), imap.NewFlagSet())
	var gconn connector.Connector = conn
	var inflight *c19InflightConn
	inflightAfter, inflightUpd := 1, "noop"
	if sc.kind == "inflight" {
		// sessions = after=<k>,upd=<kind>,<session states...>
		var rest []string
		for _, w := range sc.sessions {
			switch {
			case strings.HasPrefix(w, "after="):
				fmt.Sscan(strings.TrimPrefix(w, "after="), &inflightAfter)
			case strings.HasPrefix(w, "upd="):
				inflightUpd = strings.TrimPrefix(w, "upd=")
			case w != "" && w != "-":
				rest = append(rest, w)
			}
		}
		sc.sessions = rest
		inflight = c19NewInflightConn(conn)
		gconn = inflight
		defer inflight.halt()
	}
	uid, err := srv.AddUser(ctx, gconn, []byte("passphrase"))
	if err != nil {
		out.setupErr = err.Error()
		return out
	}
	l, err := net.Listen("tcp", "127.0.0.1:0")
	if err != nil {
		out.setupErr = err.Error()
		return out
	}
	sctx, cancel := context.WithCancel(ctx)
	defer cancel()
	if err := srv.Serve(sctx, l); err != nil {
		out.setupErr = err.Error()
		return out
	}
	switch sc.kind {
	case "snaprace":
		rounds := 5
		fmt.Sscan(sc.sessions[0], &rounds)
		if err := tdSnapRace(l.Addr().String(), rounds, conn); err != nil {
			out.setupErr = "snaprace: " + err.Error()
		}
		sc.sessions = nil
	case "updrace":
		rounds := 20
		fmt.Sscan(sc.sessions[0], &rounds)
		if err := tdUpdRace(l.Addr().String(), rounds, conn); err != nil {
			out.setupErr = "updrace: " + err.Error()
		}
		sc.sessions = nil
	}
	for _, st := range sc.sessions {
		if strings.HasPrefix(st, "fetch-") {
			if err := tdMakeBig(conn); err != nil {
				out.setupErr = "big: " + err.Error()
			}
			break
		}
	}
	env := &tdEnv{addr: l.Addr().String(), stopLoops: make(chan struct{}), loopsDone: make(chan struct{}, len(sc.sessions))}
	for i, st := range sc.sessions {
		if out.setupErr != "" {
			break
		}
		if err := env.enter(i, st); err != nil {
			out.setupErr = err.Error()
		}
	}
	out.incomplete = strings.Join(env.incomplete, "; ")
	if sc.kind == "ctxcancel" || sc.kind == "errch" {
		cancel()
		time.Sleep(300 * time.Millisecond)
	}
	if inflight != nil && out.setupErr == "" {
		// the connector publishes updates without pause on its unbuffered channel; the teardown starts the moment
		// the `after`-th send has returned (the injector's forwarder has taken that update) and the producer goes on
		reached := make(chan struct{})
		inflight.produce(inflightUpd, inflightAfter, reached)
		select {
		case <-reached:
		case <-time.After(10 * time.Second):
			out.setupErr = fmt.Sprintf("inflight: update %d was not taken off the connector channel within 10 s", inflightAfter)
		}
	}
	done := make(chan error, 1)
	go func() {
		if sc.how == "removeuser+close" {
			if err := srv.RemoveUser(ctx, uid, false); err != nil {
				done <- err
				return
			}
		}
		done <- srv.Close(ctx)
	}()
	select {
	case err := <-done:
		out.returned = true
		if err != nil {
			out.err = err.Error()
		}
	case <-time.After(watchdog):
		out.returned = false
		out.leftover = tdTopFrames(baseFrames)
	}
	close(env.stopLoops)
	if inflight != nil {
		inflight.halt()
	}
	_ = l.Close()
	for _, cl := range env.clients {
		_ = cl.c.Close()
	}
	for ; env.loops > 0; env.loops-- {
		<-env.loopsDone
	}
	if out.returned {
		if !waitGoroutines(out.baseline, 5*time.Second) {
			out.leftover = tdTopFrames(baseFrames)
		}
	}
	out.goroutines = runtime.NumGoroutine()
	return out
}

// c19InflightConn: the dummy connector with its update stream re-published on an UNBUFFERED channel (as a
// connector that hands over updates one by one does), plus a producer that keeps that channel busy: while the
// user's update goroutine applies update k, the injector's forwarder already holds update k+1. RemoveUser /
// Server.Close in that situation stop the update goroutine first and the forwarder second (user.close): every
// blocking hand-over of the forwarder must watch the channel its Close closes.
type c19InflightConn struct {
	*connector.Dummy
	ch       chan imap.Update
	stop     chan struct{}
	stopOnce sync.Once
	wg       sync.WaitGroup
}

func c19NewInflightConn(d *connector.Dummy) *c19InflightConn {
	c := &c19InflightConn{Dummy: d, ch: make(chan imap.Update), stop: make(chan struct{})}
	src := d.GetUpdates()
	c.wg.Add(1)
	go func() {
		defer c.wg.Done()
		for {
			select {
			case u, ok := <-src:
				if !ok {
					return
				}
				select {
				case c.ch <- u:
				case <-c.stop:
					return
				}
			case <-c.stop:
				return
			}
		}
	}()
	return c
}

func (c *c19InflightConn) GetUpdates() <-chan imap.Update { return c.ch }

// produce publishes updates of the given kind until halt(); closes reached when the after-th send has returned.
func (c *c19InflightConn) produce(kind string, after int, reached chan struct{}) {
	c.wg.Add(1)
	go func() {
		defer c.wg.Done()
		for i := 1; ; i++ {
			var u imap.Update = imap.NewNoop()
			if kind == "mailbox" || (kind == "mixed" && i%2 == 1) {
				u = imap.NewMailboxCreated(imap.Mailbox{ID: imap.MailboxID(fmt.Sprintf("c19fl-%d", i)), Name: []string{fmt.Sprintf("fl%d", i)},
					Flags: imap.NewFlagSet(`\Seen`), PermanentFlags: imap.NewFlagSet(`\Seen`), Attributes: imap.NewFlagSet()})
			}
			select {
			case c.ch <- u:
			case <-c.stop:
				return
			}
			if i == after {
				close(reached)
			}
		}
	}()
}

func (c *c19InflightConn) halt() {
	c.stopOnce.Do(func() { close(c.stop) })
	c.wg.Wait()
}

// tdInflight: the directed in-flight scenarios (run on every seed) - both teardown paths, with and without
// sessions, after the 1st / 2nd / 3rd / 8th / 50th update, cheap (Noop) and DB-writing (MailboxCreated) updates.
var tdInflight = []tdScenario{
	{kind: "inflight", how: "removeuser+close", sessions: []string{"after=1", "upd=noop"}},
	{kind: "inflight", how: "close", sessions: []string{"after=2", "upd=mailbox", "selected"}},
	{kind: "inflight", how: "removeuser+close", sessions: []string{"after=3", "upd=mixed", "idle", "selected"}},
	{kind: "inflight", how: "close", sessions: []string{"after=8", "upd=noop", "idle"}},
	{kind: "inflight", how: "removeuser+close", sessions: []string{"after=50", "upd=mailbox"}},
}

// tdUpdRace: connector updates are applied (MessageCreated + Flush from a feeder goroutine) while sessions
// of the same user log in, NOOP, and leave (LOGOUT / plain disconnect / disconnect with a selected mailbox).
func tdUpdRace(addr string, rounds int, conn *connector.Dummy) error {
	if err := tdMailbox(conn, "c19upd", "upd"); err != nil {
		return err
	}
	conn.Flush()
	msg := tdMessage(200)
	stop := make(chan struct{})
	done := make(chan error, 1)
	go func() {
		for k := 0; ; k++ {
			select {
			case <-stop:
				done <- nil
				return
			default:
			}
			if err := conn.MessageCreated(imap.Message{ID: imap.MessageID(fmt.Sprintf("c19upd-%d", k)), Flags: imap.NewFlagSet(), Date: time.Unix(1136214245, 0).UTC()}, msg, []imap.MailboxID{"c19upd"}); err != nil {
				done <- err
				return
			}
			conn.Flush()
		}
	}()
	var first error
	for r := 0; r < rounds && first == nil; r++ {
		cl, err := tdDial(addr)
		if err != nil {
			first = err
			break
		}
		if rep, err := cl.cmd("a", "LOGIN user pass"); err != nil || !strings.HasPrefix(rep, "a OK") {
			first = fmt.Errorf("login: %v %q", err, rep)
		}
		switch r % 3 {
		case 0:
			_, _ = cl.cmd("b", "NOOP")
			_, _ = cl.cmd("z", "LOGOUT")
		case 1:
			_, _ = cl.cmd("b", "SELECT upd")
			_, _ = cl.cmd("c", "NOOP")
		}
		_ = cl.c.Close()
	}
	close(stop)
	if err := <-done; err != nil && first == nil {
		first = err
	}
	return first
}

// tdSnapRace: A and B select the same mailbox; the connector deletes messages (they get marked as
// deleted in the DB and expunge updates go to A and B); B logs out at once while A is busy.
func tdSnapRace(addr string, rounds int, conn *connector.Dummy) error {
	if err := conn.MailboxCreated(imap.Mailbox{ID: "c19shared", Name: []string{"shared"}, Flags: imap.NewFlagSet(`\Seen`), PermanentFlags: imap.NewFlagSet(`\Seen`), Attributes: imap.NewFlagSet()}); err != nil {
		return err
	}
	conn.Flush()
	a, err := tdDial(addr)
	if err != nil {
		return err
	}
	defer a.c.Close()
	if r, err := a.cmd("a", "LOGIN user pass"); err != nil || !strings.HasPrefix(r, "a OK") {
		return fmt.Errorf("login A: %v %q", err, r)
	}
	if r, err := a.cmd("c", "SELECT shared"); err != nil || !strings.HasPrefix(r, "c OK") {
		return fmt.Errorf("select A: %v %q", err, r)
	}
	msg := []byte("From: a@example.com\r\nTo: b@example.com\r\nDate: Mon, 02 Jan 2006 15:04:05 +0000\r\nSubject: s\r\n\r\nbody\r\n")
	for round := 0; round < rounds; round++ {
		var ids []imap.MessageID
		for i := 0; i < 12; i++ {
			id := imap.MessageID(fmt.Sprintf("c19-%d-%d", round, i))
			if err := conn.MessageCreated(imap.Message{ID: id, Flags: imap.NewFlagSet(), Date: time.Unix(1136214245, 0).UTC()}, msg, []imap.MailboxID{"c19shared"}); err != nil {
				return err
			}
			ids = append(ids, id)
		}
		conn.Flush()
		b, err := tdDial(addr)
		if err != nil {
			return err
		}
		if r, err := b.cmd("a", "LOGIN user pass"); err != nil || !strings.HasPrefix(r, "a OK") {
			return fmt.Errorf("login B: %v %q", err, r)
		}
		if r, err := b.cmd("c", "SELECT shared"); err != nil || !strings.HasPrefix(r, "c OK") {
			return fmt.Errorf("select B: %v %q", err, r)
		}
		stop := make(chan struct{})
		done := make(chan struct{})
		go func() {
			defer close(done)
			for k := 0; ; k++ {
				select {
				case <-stop:
					return
				default:
				}
				if _, err := a.cmd(fmt.Sprintf("n%d", k), Pick(NewRng(uint64(k)), []string{"NOOP", "FETCH 1:* (FLAGS)", "CHECK"})); err != nil {
					return
				}
			}
		}()
		for _, id := range ids {
			_ = conn.MessageDeleted(id)
		}
		conn.Flush()
		_, _ = b.cmd("f", "LOGOUT")
		_ = b.c.Close()
		time.Sleep(30 * time.Millisecond)
		close(stop)
		<-done
	}
	return nil
}

// tdDirected: run on every seed, before the random scenarios - every way a session can end, in every state.
var tdDirected = []tdScenario{
	{kind: "teardown", how: "removeuser+close", sessions: []string{"fetch-stall-rst"}},
	{kind: "teardown", how: "close", sessions: []string{"fetch-stall-fin", "fetch-logout-stall-rst", "selected"}},
	{kind: "teardown", how: "removeuser+close", sessions: []string{"fetch-drain", "fetch-logout"}},
	{kind: "teardown", how: "close", sessions: []string{"fetch-stall", "idle"}},
	{kind: "teardown", how: "removeuser+close", sessions: []string{"idle-garbage", "idle-done", "idle-othercmd", "idle-garbage-idle"}},
	{kind: "teardown", how: "close", sessions: []string{"idle-garbage"}},
	{kind: "teardown", how: "close", sessions: []string{"idle-fin", "idle-rst", "idle-done-rst", "idle-enter-rst"}},
	{kind: "teardown", how: "removeuser+close", sessions: []string{"idle-done-rst", "idle-enter-rst", "idle-rst", "idle-fin"}},
	{kind: "teardown", how: "removeuser+close", sessions: []string{"midliteral-fin", "midliteral-rst", "midliteral"}},
	{kind: "ctxcancel", how: "close", sessions: []string{"idle", "midliteral", "selected", "preauth", "noop-loop"}},
	{kind: "ctxcancel", how: "removeuser+close", sessions: []string{"idle", "idle-done"}},
	{kind: "ctxcancel", how: "close", sessions: []string{"fetch-stall", "idle-garbage"}},
}

func tdRandomSessions(r *Rng) []string {
	var xs []string
	bigs := 0
	for k := r.Range(2, 6); k > 0; k-- {
		switch d := r.Intn(10); {
		case d < 5:
			xs = append(xs, Pick(r, tdStates))
		case d < 9 || bigs >= 2:
			xs = append(xs, Pick(r, tdEndStates))
		default:
			bigs++
			xs = append(xs, Pick(r, tdBigStates))
		}
	}
	return xs
}

// tdStalledWriter: RemoveUser (not only Close) with a client that is connected and not reading.
func tdStalledWriter(sc tdScenario) bool {
	if sc.kind != "teardown" || sc.how != "removeuser+close" {
		return false
	}
	for _, st := range sc.sessions {
		if st == "fetch-stall" {
			return true
		}
	}
	return false
}

func tdParseScenario(line string) (tdScenario, bool) {
	w := strings.Fields(line)
	if len(w) != 3 || !strings.HasPrefix(w[1], "how=") || !strings.HasPrefix(w[2], "sessions=") {
		return tdScenario{}, false
	}
	switch w[0] {
	case "teardown", "ctxcancel", "errch", "snaprace", "updrace", "inflight":
	default:
		return tdScenario{}, false
	}
	return tdScenario{kind: w[0], how: strings.TrimPrefix(w[1], "how="), sessions: strings.Split(strings.TrimPrefix(w[2], "sessions="), ",")}, true
}

func runOracleTeardown(args []string) int {
	fs := flag.NewFlagSet("c19teardown", flag.ExitOnError)
	seed := fs.Uint64("seed", 1, "seed")
	outPath := fs.String("out", "", "result json")
	replayDir := fs.String("replaydir", "replay", "where replay files go")
	replay := fs.String("replay", "", "replay file")
	n := fs.Int("n", 6, "number of random teardown scenarios")
	snaprace := fs.Int("snaprace", 0, "rounds of the snapshot-race scenario (for the -race build)")
	updrace := fs.Int("updrace", 0, "rounds of the updates-vs-login/logout scenario (for the -race build)")
	noHang := fs.Bool("nohang", false, "skip the ctxcancel / errch scenarios")
	noDirected := fs.Bool("nodirected", false, "skip the directed scenarios")
	nInflight := fs.Int("inflight", 3, "number of random in-flight-update teardown scenarios (besides the directed ones)")
	stalled := fs.Bool("stalled", false, "also RemoveUser while a client that does not read is still connected (label `c19teardown stalled-writer`)")
	_ = fs.Parse(args)
	logrus.SetLevel(logrus.PanicLevel)
	res := &oracleResult{Stats: map[string]int{}, Samples: []map[string]any{}, Violations: []oracleViolation{}}
	var scs []tdScenario
	if *replay != "" {
		data, err := os.ReadFile(*replay)
		if err != nil {
			fmt.Fprintln(os.Stderr, err)
			return 2
		}
		for _, line := range strings.Split(string(data), "\n") {
			if sc, ok := tdParseScenario(line); ok {
				scs = append(scs, sc)
			}
		}
	} else {
		r := NewRng(*seed)
		if !*noDirected {
			for _, sc := range tdDirected {
				if *noHang && sc.kind == "ctxcancel" {
					continue
				}
				scs = append(scs, sc)
			}
		}
		if !*noDirected {
			scs = append(scs, tdInflight...)
		}
		rf := NewRng(*seed ^ 0xc19f11)
		for i := 0; i < *nInflight; i++ {
			sc := tdScenario{kind: "inflight", how: Pick(rf, []string{"close", "removeuser+close"})}
			sc.sessions = []string{fmt.Sprintf("after=%d", rf.Range(1, 40)), "upd=" + Pick(rf, []string{"noop", "mailbox", "mixed"})}
			for k := rf.Intn(3); k > 0; k-- {
				sc.sessions = append(sc.sessions, Pick(rf, []string{"selected", "idle", "auth", "noop-loop", "idle-rst", "dropped"}))
			}
			scs = append(scs, sc)
		}
		for i := 0; i < *n; i++ {
			sc := tdScenario{kind: "teardown", how: Pick(r, []string{"close", "removeuser+close"})}
			sc.sessions = tdRandomSessions(r)
			if !*noHang && r.Chance(1, 4) {
				sc.kind = "ctxcancel"
			}
			if sc.kind == "teardown" && tdStalledWriter(sc) {
				// RemoveUser waits for a session that is blocked in write(2) for as long as its client neither reads
				// nor disconnects (nothing closes the connection before Server.Close): only with -stalled
				sc.how = "close"
			}
			scs = append(scs, sc)
		}
		if *snaprace > 0 {
			scs = append(scs, tdScenario{kind: "snaprace", how: "close", sessions: []string{fmt.Sprint(*snaprace)}})
		}
		if *updrace > 0 {
			scs = append(scs, tdScenario{kind: "updrace", how: "removeuser+close", sessions: []string{fmt.Sprint(*updrace)}})
		}
		if *stalled {
			scs = append(scs, tdScenario{kind: "teardown", how: "removeuser+close", sessions: []string{"fetch-stall"}})
		}
		if !*noHang {
			scs = append(scs, tdScenario{kind: "errch", how: "close", sessions: []string{"preauth", "preauth", "preauth"}})
			// the regression scenario of 630a898 / 0873710
			scs = append(scs, tdScenario{kind: "ctxcancel", how: "close", sessions: []string{"selected"}})
		}
	}
	hangs, leaks := 0, 0
	for idx, sc := range scs {
		if hangs >= 2 || leaks >= 3 {
			// every hang costs a watchdog period and leaves a wedged server behind in this process, every leak
			// 5 s of waiting for the goroutines: the class of defect is established by then
			res.Stats["not-run-after-2-hangs-or-3-leaks"]++
			continue
		}
		regression := sc.kind == "ctxcancel" && len(sc.sessions) == 1 && sc.sessions[0] == "selected"
		wd := 20 * time.Second
		if regression || tdStalledWriter(sc) {
			wd = 5 * time.Second
		}
		if sc.kind == "inflight" {
			wd = 10 * time.Second
		}
		o := runTeardown(sc, wd)
		res.Evaluations++
		if o.setupErr != "" {
			res.Stats["setup-error"]++
			res.Samples = append(res.Samples, map[string]any{"oracle": "c19teardown", "scenario": sc.String(), "setup_error": o.setupErr})
			continue
		}
		res.Stats[fmt.Sprintf("%s.returned=%v", sc.kind, o.returned)]++
		for _, st := range sc.sessions {
			if tdKnownState(st) {
				res.Stats["session."+st]++
			}
		}
		if len(res.Samples) < 3 {
			res.Samples = append(res.Samples, map[string]any{"oracle": "c19teardown", "scenario": sc.String(), "returned": o.returned, "goroutines_after": o.goroutines, "baseline": o.baseline, "left": o.leftover})
		}
		replayText := func(what string) string {
			return fmt.Sprintf("oracle c19teardown\n# %s\n# goroutines blocked / left (count x first gluon frame, baseline subtracted): %s\n# replay: ./check C19 --replay <this file>\n%s\n", what, o.leftover, sc.String())
		}
		file := func(what string) string { return fmt.Sprintf("C19-c19teardown-%s-%d-%d.txt", what, *seed, idx) }
		if o.incomplete != "" {
			what := "a command did not complete although its client kept reading (no teardown running yet): " + o.incomplete
			res.Violations = append(res.Violations, oracleViolation{Desc: "c19teardown command-incomplete: " + what, Replay: writeReplay(*replayDir, file("incomplete"), replayText(what))})
		}
		switch {
		case !o.returned && regression:
			res.DistinctNontrivial++
			what := "REGRESSION of 630a898: Server.Close does not return after the context passed to Server.Serve was cancelled while a logged-in session existed (removeState must reach statesWG.Done() even if its DB read fails; theorem teardown_ctxcancel_now_completes)"
			res.Violations = append(res.Violations, oracleViolation{Desc: "c19teardown ctxcancel-hang: " + what, Replay: writeReplay(*replayDir, "C19-c19teardown-ctxcancel.txt", replayText(what))})
		case !o.returned && tdStalledWriter(sc) && strings.Contains(o.leftover, "(*Session).WriteResponse"):
			res.Stats["stalled-writer"]++
			what := "RemoveUser did not return within 5 s: a session of the user is blocked in Session.WriteResponse (conn.Write without deadline; its client is connected but does not read the answer of a large FETCH) and user.close waits in statesWG.Wait() - under Backend.usersLock - for as long as that client likes (hypothesis hObservesDone of teardown_completes is not met by a session blocked in write(2)); Server.Close alone is not affected, it closes the connections first"
			res.Violations = append(res.Violations, oracleViolation{Desc: "c19teardown stalled-writer: " + what + "; blocked: " + o.leftover, Replay: writeReplay(*replayDir, "C19-c19teardown-stalled-writer.txt", replayText(what))})
		case !o.returned && sc.kind == "inflight":
			hangs++
			what := "RemoveUser/Server.Close did not return within 10 s while the connector kept publishing updates on its (unbuffered) channel: the teardown started when the `after`-th update had been taken by the update injector's forwarder; user.close stops the goroutine that reads updateInjector.GetUpdates() BEFORE it closes the injector, so every blocking hand-over of the forwarder has to watch forwardQuitCh (theorems backend_loops_watch_quit, forwarder_close_returns; without it forwarder_unwatched_send_stuck_witness)"
			res.Violations = append(res.Violations, oracleViolation{Desc: "c19teardown inflight-hang: " + what + "; blocked: " + o.leftover, Replay: writeReplay(*replayDir, file("inflight-hang"), replayText(what))})
		case !o.returned:
			hangs++
			what := "RemoveUser/Server.Close did not return within 20 s (sessions were brought into the listed states first; every session loop can observe Done / its closed connection, the assumption of teardown_completes)"
			res.Violations = append(res.Violations, oracleViolation{Desc: "c19teardown hang: " + what + "; blocked: " + o.leftover, Replay: writeReplay(*replayDir, file("hang"), replayText(what))})
		case o.leftover != "" && regression:
			res.DistinctNontrivial++
			res.Stats["ctxcancel.state-not-closed"]++
			what := "REGRESSION of 0873710: Server.Close returned, but a goroutine is left after the Serve context was cancelled with a logged-in session (removeState must close the state even if its DB write fails, otherwise the state's update-queue goroutine sleeps in QueuedChannel.pop for ever; theorems teardown_safe, teardown_writefail_now_clean)"
			res.Violations = append(res.Violations, oracleViolation{Desc: "c19teardown #13d: " + what, Replay: writeReplay(*replayDir, "C19-c19teardown-13d.txt", replayText(what))})
		case o.leftover != "" && sc.kind == "errch":
			res.DistinctNontrivial++
			res.Stats["errch.consumer-goroutine-left"]++
			what := "REGRESSION of 214c4ac: Server.Close returned, but a goroutine is left: three sessions ended with `context canceled`, nobody reads Server.GetErrorCh (Server.Close must use serveErrCh.CloseAndDiscardQueued(); theorem server_errch_close_classified)"
			res.Violations = append(res.Violations, oracleViolation{Desc: "c19teardown #13a-errch: " + what, Replay: writeReplay(*replayDir, "C19-c19teardown-13a-errch.txt", replayText(what))})
		case o.leftover != "":
			leaks++
			what := fmt.Sprintf("goroutines left behind after Server.Close returned: baseline %d, now %d", o.baseline, o.goroutines)
			res.Violations = append(res.Violations, oracleViolation{Desc: "c19teardown leak: " + what + ": " + o.leftover, Replay: writeReplay(*replayDir, file("leak"), replayText(what))})
		default:
			res.DistinctNontrivial++
		}
	}
	b, _ := json.MarshalIndent(res, "", " ")
	if *outPath != "" {
		_ = os.WriteFile(*outPath, b, 0o644)
	} else {
		fmt.Println(string(b))
	}
	return 0
}

func init() {
	RegisterOracle(&Oracle{Name: "c19teardown", Run: runOracleTeardown})
}
