package main

// Oracle `c19teardown` (C19): the teardown protocol on the real server (public API only).
//
//	vh oracle c19teardown -seed S -out result.json -replaydir DIR [-n N]
//	vh oracle c19teardown -replay FILE
//
// Scenario `teardown`: a server with one user; k sessions are brought into assorted protocol states
// (not authenticated, authenticated, selected, IDLE, in the middle of an APPEND literal, abruptly
// disconnected), some keep issuing NOOP while the teardown runs; then RemoveUser and/or Server.Close
// under a watchdog. Must hold (theorem teardown_completes: its assumptions are met here): the call
// returns; afterwards the goroutine count is back at the baseline taken before gluon.New.
// Scenario `ctxcancel` (regression for the hang repaired by 630a898): as above with one selected session,
// but the context given to Server.Serve is cancelled first, so the DB read and the DB write of
// removeState fail. Close must return (theorem teardown_ctxcancel_now_completes; a hang is reported as
// `c19teardown ctxcancel-hang`) and leave no goroutine: removeState closes the state also when its DB
// write fails (0873710; theorems teardown_safe, teardown_writefail_now_clean; a goroutine left is
// reported as `c19teardown #13d`).
// Scenario `snaprace` (only with -snaprace, meant for the -race build, see o_c19race.go): sessions A and
// B select the same mailbox; B keeps deleting+expunging and logging out while A keeps issuing
// commands: removeState(B) reads A's snapshot (other.HasMessage) from B's goroutine (finding #13b).
// Scenario `errch`: three unauthenticated sessions, Serve context cancelled, nobody reads GetErrorCh:
// Server.Close must not leave the serveErrCh consumer goroutine (214c4ac: CloseAndDiscardQueued; theorem
// server_errch_close_classified; a goroutine left is reported as `c19teardown #13a-errch`).

import (
	"bufio"
	"context"
	"encoding/json"
	"flag"
	"fmt"
	"net"
	"os"
	"runtime"
	"strings"
	"time"

	"github.com/ProtonMail/gluon"
	"github.com/ProtonMail/gluon/connector"
	"github.com/ProtonMail/gluon/imap"
	"github.com/sirupsen/logrus"
)

type tdClient struct {
	c net.Conn
	r *bufio.Reader
}

func tdDial(addr string) (*tdClient, error) {
	c, err := net.DialTimeout("tcp", addr, 5*time.Second)
	if err != nil {
		return nil, err
	}
	cl := &tdClient{c: c, r: bufio.NewReader(c)}
	if _, err := cl.line(); err != nil {
		return nil, err
	}
	return cl, nil
}

func (cl *tdClient) line() (string, error) {
	_ = cl.c.SetReadDeadline(time.Now().Add(10 * time.Second))
	return cl.r.ReadString('\n')
}

// cmd sends a tagged command and reads until the tagged reply (or a continuation request).
func (cl *tdClient) cmd(tag, text string) (string, error) {
	if _, err := fmt.Fprintf(cl.c, "%s %s\r\n", tag, text); err != nil {
		return "", err
	}
	for {
		l, err := cl.line()
		if err != nil {
			return "", err
		}
		if strings.HasPrefix(l, tag+" ") || strings.HasPrefix(l, "+") {
			return strings.TrimSpace(l), nil
		}
	}
}

var tdStates = []string{"preauth", "auth", "selected", "idle", "midliteral", "dropped", "noop-loop"}

type tdScenario struct {
	kind     string // teardown | ctxcancel | errch
	sessions []string
	how      string // close | removeuser+close
}

func (sc tdScenario) String() string {
	return fmt.Sprintf("%s how=%s sessions=%s", sc.kind, sc.how, strings.Join(sc.sessions, ","))
}

type tdOutcome struct {
	returned   bool
	err        string
	goroutines int
	baseline   int
	leftover   string
	setupErr   string
}

func tdTopFrames() string {
	buf := make([]byte, 1<<20)
	n := runtime.Stack(buf, true)
	counts := map[string]int{}
	for _, g := range strings.Split(string(buf[:n]), "\n\n") {
		lines := strings.Split(g, "\n")
		if len(lines) < 2 || strings.Contains(lines[0], "running") {
			continue
		}
		// first gluon frame, else first frame
		frame := strings.TrimSpace(lines[1])
		for _, l := range lines[1:] {
			if strings.Contains(l, "ProtonMail/gluon") && !strings.HasPrefix(l, "\t") {
				frame = strings.TrimSpace(l)
				break
			}
		}
		if i := strings.LastIndex(frame, "("); i > 0 {
			frame = frame[:i]
		}
		counts[frame]++
	}
	var xs []string
	for k, v := range counts {
		xs = append(xs, fmt.Sprintf("%dx %s", v, k))
	}
	sortStrings(xs)
	return strings.Join(xs, "; ")
}

func sortStrings(xs []string) {
	for i := range xs {
		for j := i + 1; j < len(xs); j++ {
			if xs[j] < xs[i] {
				xs[i], xs[j] = xs[j], xs[i]
			}
		}
	}
}

func runTeardown(sc tdScenario, watchdog time.Duration) tdOutcome {
	var out tdOutcome
	runtime.GC()
	out.baseline = runtime.NumGoroutine()
	dir, err := os.MkdirTemp("", "c19td")
	if err != nil {
		out.setupErr = err.Error()
		return out
	}
	defer os.RemoveAll(dir)
	srv, err := gluon.New(gluon.WithDataDir(dir+"/data"), gluon.WithDatabaseDir(dir+"/db"))
	if err != nil {
		out.setupErr = err.Error()
		return out
	}
	ctx := context.Background()
	conn := connector.NewDummy([]string{"user"}, []byte("pass"), time.Hour, imap.NewFlagSet(`\Seen`), imap.NewFlagSet(`\Seen`), imap.NewFlagSet())
	uid, err := srv.AddUser(ctx, conn, []byte("passphrase"))
	if err != nil {
		out.setupErr = err.Error()
		return out
	}
	l, err := net.Listen("tcp", "127.0.0.1:0")
	if err != nil {
		out.setupErr = err.Error()
		return out
	}
	sctx, cancel := context.WithCancel(ctx)
	defer cancel()
	if err := srv.Serve(sctx, l); err != nil {
		out.setupErr = err.Error()
		return out
	}
	var clients []*tdClient
	if sc.kind == "snaprace" {
		rounds := 5
		fmt.Sscan(sc.sessions[0], &rounds)
		if err := tdSnapRace(l.Addr().String(), rounds, conn); err != nil {
			out.setupErr = "snaprace: " + err.Error()
		}
		sc.sessions = nil
	}
	stopLoops := make(chan struct{})
	loopsDone := make(chan struct{}, len(sc.sessions))
	loops := 0
	for i, st := range sc.sessions {
		cl, err := tdDial(l.Addr().String())
		if err != nil {
			out.setupErr = "dial: " + err.Error()
			break
		}
		clients = append(clients, cl)
		if st == "preauth" {
			continue
		}
		if r, err := cl.cmd("a", "LOGIN user pass"); err != nil || !strings.HasPrefix(r, "a OK") {
			out.setupErr = fmt.Sprintf("login: %v %q", err, r)
			break
		}
		if st == "auth" {
			continue
		}
		box := fmt.Sprintf("box%d", i)
		_, _ = cl.cmd("b", "CREATE "+box)
		if r, err := cl.cmd("c", "SELECT "+box); err != nil || !strings.HasPrefix(r, "c OK") {
			out.setupErr = fmt.Sprintf("select: %v %q", err, r)
			break
		}
		switch st {
		case "idle":
			_, _ = cl.cmd("d", "IDLE")
		case "midliteral":
			_, _ = cl.cmd("d", "APPEND "+box+" {100}")
			_, _ = cl.c.Write([]byte("From: a@b\r\n"))
		case "dropped":
			_ = cl.c.Close()
		case "noop-loop":
			loops++
			go func(cl *tdClient) {
				defer func() { loopsDone <- struct{}{} }()
				for k := 0; ; k++ {
					select {
					case <-stopLoops:
						return
					default:
					}
					if _, err := cl.cmd(fmt.Sprintf("n%d", k), "NOOP"); err != nil {
						return
					}
				}
			}(cl)
		}
	}
	if sc.kind == "ctxcancel" || sc.kind == "errch" {
		cancel()
		time.Sleep(300 * time.Millisecond)
	}
	done := make(chan error, 1)
	go func() {
		if sc.how == "removeuser+close" {
			if err := srv.RemoveUser(ctx, uid, false); err != nil {
				done <- err
				return
			}
		}
		done <- srv.Close(ctx)
	}()
	select {
	case err := <-done:
		out.returned = true
		if err != nil {
			out.err = err.Error()
		}
	case <-time.After(watchdog):
		out.returned = false
		out.leftover = tdTopFrames()
	}
	close(stopLoops)
	_ = l.Close()
	for _, cl := range clients {
		_ = cl.c.Close()
	}
	for ; loops > 0; loops-- {
		<-loopsDone
	}
	if out.returned {
		if !waitGoroutines(out.baseline, 5*time.Second) {
			out.leftover = tdTopFrames()
		}
	}
	out.goroutines = runtime.NumGoroutine()
	return out
}

// tdSnapRace: A and B select the same mailbox; the connector deletes messages (they get marked as
// deleted in the DB and expunge updates go to A and B); B logs out at once while A is busy.
func tdSnapRace(addr string, rounds int, conn *connector.Dummy) error {
	if err := conn.MailboxCreated(imap.Mailbox{ID: "c19shared", Name: []string{"shared"}, Flags: imap.NewFlagSet(`\Seen`), PermanentFlags: imap.NewFlagSet(`\Seen`), Attributes: imap.NewFlagSet()}); err != nil {
		return err
	}
	conn.Flush()
	a, err := tdDial(addr)
	if err != nil {
		return err
	}
	defer a.c.Close()
	if r, err := a.cmd("a", "LOGIN user pass"); err != nil || !strings.HasPrefix(r, "a OK") {
		return fmt.Errorf("login A: %v %q", err, r)
	}
	if r, err := a.cmd("c", "SELECT shared"); err != nil || !strings.HasPrefix(r, "c OK") {
		return fmt.Errorf("select A: %v %q", err, r)
	}
	msg := []byte("From: a@example.com\r\nTo: b@example.com\r\nDate: Mon, 02 Jan 2006 15:04:05 +0000\r\nSubject: s\r\n\r\nbody\r\n")
	for round := 0; round < rounds; round++ {
		var ids []imap.MessageID
		for i := 0; i < 12; i++ {
			id := imap.MessageID(fmt.Sprintf("c19-%d-%d", round, i))
			if err := conn.MessageCreated(imap.Message{ID: id, Flags: imap.NewFlagSet(), Date: time.Unix(1136214245, 0).UTC()}, msg, []imap.MailboxID{"c19shared"}); err != nil {
				return err
			}
			ids = append(ids, id)
		}
		conn.Flush()
		b, err := tdDial(addr)
		if err != nil {
			return err
		}
		if r, err := b.cmd("a", "LOGIN user pass"); err != nil || !strings.HasPrefix(r, "a OK") {
			return fmt.Errorf("login B: %v %q", err, r)
		}
		if r, err := b.cmd("c", "SELECT shared"); err != nil || !strings.HasPrefix(r, "c OK") {
			return fmt.Errorf("select B: %v %q", err, r)
		}
		stop := make(chan struct{})
		done := make(chan struct{})
		go func() {
			defer close(done)
			for k := 0; ; k++ {
				select {
				case <-stop:
					return
				default:
				}
				if _, err := a.cmd(fmt.Sprintf("n%d", k), Pick(NewRng(uint64(k)), []string{"NOOP", "FETCH 1:* (FLAGS)", "CHECK"})); err != nil {
					return
				}
			}
		}()
		for _, id := range ids {
			_ = conn.MessageDeleted(id)
		}
		conn.Flush()
		_, _ = b.cmd("f", "LOGOUT")
		_ = b.c.Close()
		time.Sleep(30 * time.Millisecond)
		close(stop)
		<-done
	}
	return nil
}

func runOracleTeardown(args []string) int {
	fs := flag.NewFlagSet("c19teardown", flag.ExitOnError)
	seed := fs.Uint64("seed", 1, "seed")
	outPath := fs.String("out", "", "result json")
	replayDir := fs.String("replaydir", "replay", "where replay files go")
	replay := fs.String("replay", "", "replay file")
	n := fs.Int("n", 6, "number of teardown scenarios")
	snaprace := fs.Int("snaprace", 0, "rounds of the snapshot-race scenario (for the -race build)")
	noHang := fs.Bool("nohang", false, "skip the ctxcancel / errch scenarios")
	_ = fs.Parse(args)
	logrus.SetLevel(logrus.PanicLevel)
	res := &oracleResult{Stats: map[string]int{}, Samples: []map[string]any{}, Violations: []oracleViolation{}}
	var scs []tdScenario
	if *replay != "" {
		data, err := os.ReadFile(*replay)
		if err != nil {
			fmt.Fprintln(os.Stderr, err)
			return 2
		}
		for _, line := range strings.Split(string(data), "\n") {
			w := strings.Fields(line)
			if len(w) == 3 && (w[0] == "teardown" || w[0] == "ctxcancel" || w[0] == "errch" || w[0] == "snaprace") {
				scs = append(scs, tdScenario{kind: w[0], how: strings.TrimPrefix(w[1], "how="), sessions: strings.Split(strings.TrimPrefix(w[2], "sessions="), ",")})
			}
		}
	} else {
		r := NewRng(*seed)
		for i := 0; i < *n; i++ {
			sc := tdScenario{kind: "teardown", how: Pick(r, []string{"close", "removeuser+close"})}
			for k := r.Range(2, 6); k > 0; k-- {
				sc.sessions = append(sc.sessions, Pick(r, tdStates))
			}
			scs = append(scs, sc)
		}
		if *snaprace > 0 {
			scs = append(scs, tdScenario{kind: "snaprace", how: "close", sessions: []string{fmt.Sprint(*snaprace)}})
		}
		if !*noHang {
			scs = append(scs, tdScenario{kind: "errch", how: "close", sessions: []string{"preauth", "preauth", "preauth"}})
			// last: it wedges the server it runs on
			scs = append(scs, tdScenario{kind: "ctxcancel", how: "close", sessions: []string{"selected"}})
		}
	}
	for _, sc := range scs {
		wd := 20 * time.Second
		if sc.kind == "ctxcancel" {
			wd = 5 * time.Second
		}
		o := runTeardown(sc, wd)
		res.Evaluations++
		if o.setupErr != "" {
			res.Stats["setup-error"]++
			res.Samples = append(res.Samples, map[string]any{"oracle": "c19teardown", "scenario": sc.String(), "setup_error": o.setupErr})
			continue
		}
		res.Stats[fmt.Sprintf("%s.returned=%v", sc.kind, o.returned)]++
		if len(res.Samples) < 3 {
			res.Samples = append(res.Samples, map[string]any{"oracle": "c19teardown", "scenario": sc.String(), "returned": o.returned, "goroutines_after": o.goroutines, "baseline": o.baseline, "left": o.leftover})
		}
		replayText := func(what string) string {
			return fmt.Sprintf("oracle c19teardown\n# %s\n# goroutines blocked / left (count x first gluon frame): %s\n# replay: ./check C19 --replay <this file>\n%s\n", what, o.leftover, sc.String())
		}
		switch {
		case !o.returned && sc.kind == "ctxcancel":
			res.DistinctNontrivial++
			what := "REGRESSION of 630a898: Server.Close does not return after the context passed to Server.Serve was cancelled while a logged-in session existed (removeState must reach statesWG.Done() even if its DB read fails; theorem teardown_ctxcancel_now_completes)"
			res.Violations = append(res.Violations, oracleViolation{Desc: "c19teardown ctxcancel-hang: " + what, Replay: writeReplay(*replayDir, "C19-c19teardown-ctxcancel.txt", replayText(what))})
		case !o.returned:
			what := "RemoveUser/Server.Close did not return within 20 s although every session observes Done and no context was cancelled (assumptions of teardown_completes are met)"
			res.Violations = append(res.Violations, oracleViolation{Desc: "c19teardown hang: " + what, Replay: writeReplay(*replayDir, fmt.Sprintf("C19-c19teardown-hang-%d.txt", *seed), replayText(what))})
		case o.leftover != "" && sc.kind == "ctxcancel":
			res.DistinctNontrivial++
			res.Stats["ctxcancel.state-not-closed"]++
			what := "REGRESSION of 0873710: Server.Close returned, but a goroutine is left after the Serve context was cancelled with a logged-in session (removeState must close the state even if its DB write fails, otherwise the state's update-queue goroutine sleeps in QueuedChannel.pop for ever; theorems teardown_safe, teardown_writefail_now_clean)"
			res.Violations = append(res.Violations, oracleViolation{Desc: "c19teardown #13d: " + what, Replay: writeReplay(*replayDir, "C19-c19teardown-13d.txt", replayText(what))})
		case o.leftover != "" && sc.kind == "errch":
			res.DistinctNontrivial++
			res.Stats["errch.consumer-goroutine-left"]++
			what := "REGRESSION of 214c4ac: Server.Close returned, but a goroutine is left: three sessions ended with `context canceled`, nobody reads Server.GetErrorCh (Server.Close must use serveErrCh.CloseAndDiscardQueued(); theorem server_errch_close_classified)"
			res.Violations = append(res.Violations, oracleViolation{Desc: "c19teardown #13a-errch: " + what, Replay: writeReplay(*replayDir, "C19-c19teardown-13a-errch.txt", replayText(what))})
		case o.leftover != "" && sc.kind == "teardown":
			what := fmt.Sprintf("goroutines left behind after Server.Close returned: baseline %d, now %d", o.baseline, o.goroutines)
			res.Violations = append(res.Violations, oracleViolation{Desc: "c19teardown leak: " + what, Replay: writeReplay(*replayDir, fmt.Sprintf("C19-c19teardown-leak-%d.txt", *seed), replayText(what))})
		default:
			res.DistinctNontrivial++
		}
	}
	b, _ := json.MarshalIndent(res, "", " ")
	if *outPath != "" {
		_ = os.WriteFile(*outPath, b, 0o644)
	} else {
		fmt.Println(string(b))
	}
	return 0
}

func init() {
	RegisterOracle(&Oracle{Name: "c19teardown", Run: runOracleTeardown})
}
