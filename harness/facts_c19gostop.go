package main

// Facts/GoStop.lean (C19): the goroutines a session starts per command / per IDLE / per connection, and
// whether the statement that makes each of them stop is reached on ALL exits of the function that is
// responsible for it (the `defer` shapes), read off the syntax tree of internal/session and internal/state:
//
//	spawn                                      stopped by                                fact
//	handleIdle: async.GoAnnotated (forwarder)  close(state.idleCh) in State.endIdle      idleEndDeferred, endIdleClosesCh,
//	                                                                                      idleForwarderStopsOnClose
//	handleOther: handleWG.Go (command)         runs to its end: needs a receiver on      commandClosesRespCh, respChCap,
//	                                           resCh until close(resCh)                  sendFailDrains
//	serve: go func (drain after a failed Send) close(resCh) by the command goroutine     sendFailDrains
//	startCommandReader: async.GoAnnotated      conn.Close() in Session.done / cancel()   readerStops, serveDefersDoneAndWait
//
// Every other goroutine start in the two packages is listed in `unknownSpawns` (the theorem demands []).
// A shape the translator does not know is `none`, never the good case; `some false` = the known bad shape.

import (
	"fmt"
	"go/ast"
	"go/token"
	"path/filepath"
	"sort"
	"strings"
)

func init() { factGens = append(factGens, factGen{"GoStop", c19FactsGoStop}) }

func c19Method(files []*ast.File, recvType, name string) *ast.FuncDecl {
	for _, f := range files {
		for _, d := range f.Decls {
			fd, ok := d.(*ast.FuncDecl)
			if !ok || fd.Body == nil || fd.Name.Name != name {
				continue
			}
			if recvType == "" {
				if fd.Recv == nil {
					return fd
				}
				continue
			}
			if fd.Recv == nil || len(fd.Recv.List) != 1 {
				continue
			}
			t := fd.Recv.List[0].Type
			if st, ok := t.(*ast.StarExpr); ok {
				t = st.X
			}
			if id, ok := t.(*ast.Ident); ok && id.Name == recvType {
				return fd
			}
		}
	}
	return nil
}

func c19RecvName(fd *ast.FuncDecl) string {
	if fd.Recv != nil && len(fd.Recv.List) == 1 && len(fd.Recv.List[0].Names) == 1 {
		return fd.Recv.List[0].Names[0].Name
	}
	return ""
}

// c19CallsTo counts the calls whose rendered function expression is `fun` below n.
func c19CallsTo(c *factsCtx, n ast.Node, fun string) int {
	k := 0
	ast.Inspect(n, func(x ast.Node) bool {
		if call, ok := x.(*ast.CallExpr); ok && c.render(call.Fun) == fun {
			k++
		}
		return true
	})
	return k
}

// c19IsErrReturn: `if err != nil { return ... }` without init and else.
func c19IsErrReturn(c *factsCtx, st ast.Stmt) bool {
	is, ok := st.(*ast.IfStmt)
	if !ok || is.Init != nil || is.Else != nil || c.render(is.Cond) != "err != nil" || len(is.Body.List) != 1 {
		return false
	}
	_, ok = is.Body.List[0].(*ast.ReturnStmt)
	return ok
}

// c19Leaves: does the statement list contain a way out of the enclosing loop / function?
func c19Leaves(list []ast.Stmt) bool {
	found := false
	for _, st := range list {
		ast.Inspect(st, func(x ast.Node) bool {
			switch y := x.(type) {
			case *ast.FuncLit:
				return false
			case *ast.ReturnStmt:
				found = true
			case *ast.BranchStmt:
				if y.Tok == token.BREAK || y.Tok == token.GOTO {
					found = true
				}
			}
			return true
		})
	}
	return found
}

// c19RangesOver: `for [..] := range <ch> { body without break / return / goto }`
func c19RangesOver(st ast.Stmt, ch string) bool {
	rs, ok := st.(*ast.RangeStmt)
	if !ok {
		return false
	}
	id, ok := rs.X.(*ast.Ident)
	return ok && id.Name == ch && !c19Leaves(rs.Body.List)
}

// c19IdleDeferred: State.Idle. some true: [x, err := recv.beginIdle(..); if err != nil {return ..};
// defer recv.endIdle(); ... fn(.., recv.idleCh) ...] with endIdle called nowhere else.
func c19IdleDeferred(c *factsCtx, files []*ast.File) (string, []string) {
	fd := c19Method(files, "State", "Idle")
	if fd == nil {
		return "unknown", []string{"State.Idle not found"}
	}
	recv := c19RecvName(fd)
	fnName := ""
	for _, p := range fd.Type.Params.List {
		if _, ok := p.Type.(*ast.FuncType); ok && len(p.Names) == 1 {
			fnName = p.Names[0].Name
		}
	}
	var shape []string
	for _, st := range fd.Body.List {
		shape = append(shape, c.render(st))
	}
	list := fd.Body.List
	endCalls := c19CallsTo(c, fd.Body, recv+".endIdle")
	if fnName == "" || recv == "" || endCalls == 0 {
		return "unknown", shape
	}
	iDefer, iFn := -1, -1
	for i, st := range list {
		if ds, ok := st.(*ast.DeferStmt); ok && iDefer < 0 && c.render(ds.Call) == recv+".endIdle()" {
			iDefer = i
		}
		if iFn < 0 && c19CallsTo(c, st, fnName) > 0 {
			iFn = i
		}
	}
	fnGetsCh := false
	ast.Inspect(fd.Body, func(x ast.Node) bool {
		if call, ok := x.(*ast.CallExpr); ok && c.render(call.Fun) == fnName {
			for _, a := range call.Args {
				if c.render(a) == recv+".idleCh" {
					fnGetsCh = true
				}
			}
		}
		return true
	})
	good := len(list) >= 4 && c19CallsTo(c, list[0], recv+".beginIdle") == 1 && c19IsErrReturn(c, list[1]) &&
		iDefer == 2 && iFn > iDefer && endCalls == 1 && fnGetsCh
	if good {
		return "true", shape
	}
	if iDefer < 0 || iDefer > iFn {
		// endIdle is called, but not by a defer placed before the callback runs
		return "false", shape
	}
	return "unknown", shape
}

// c19EndIdleCloses: State.endIdle has the top-level statement close(recv.idleCh).
func c19EndIdleCloses(c *factsCtx, files []*ast.File) string {
	fd := c19Method(files, "State", "endIdle")
	if fd == nil {
		return "unknown"
	}
	recv := c19RecvName(fd)
	for _, st := range fd.Body.List {
		if es, ok := st.(*ast.ExprStmt); ok && c.render(es.X) == "close("+recv+".idleCh)" {
			return "true"
		}
	}
	if c19CallsTo(c, fd.Body, "close") == 0 {
		return "false"
	}
	return "unknown"
}

// c19SelectLoopStopsOnClose: func F(.., <param k>, ..) { ...; for { select { case x, ok := <-P: if !ok { ...; return } ... } } }
func c19SelectLoopStopsOnClose(c *factsCtx, fd *ast.FuncDecl, argIdx int) bool {
	var params []string
	for _, p := range fd.Type.Params.List {
		for _, n := range p.Names {
			params = append(params, n.Name)
		}
	}
	if argIdx >= len(params) || len(fd.Body.List) == 0 {
		return false
	}
	p := params[argIdx]
	loop, ok := fd.Body.List[len(fd.Body.List)-1].(*ast.ForStmt)
	if !ok || loop.Cond != nil || loop.Init != nil || loop.Post != nil || len(loop.Body.List) != 1 {
		return false
	}
	sel, ok := loop.Body.List[0].(*ast.SelectStmt)
	if !ok {
		return false
	}
	for _, cc := range sel.Body.List {
		cl := cc.(*ast.CommClause)
		as, ok := cl.Comm.(*ast.AssignStmt)
		if !ok || len(as.Lhs) != 2 || len(as.Rhs) != 1 || c.render(as.Rhs[0]) != "<-"+p || len(cl.Body) == 0 {
			continue
		}
		is, ok := cl.Body[0].(*ast.IfStmt)
		if !ok || c.render(is.Cond) != "!"+c.render(as.Lhs[1]) || len(is.Body.List) == 0 {
			continue
		}
		if _, ok := is.Body.List[len(is.Body.List)-1].(*ast.ReturnStmt); ok {
			return true
		}
	}
	return false
}

// c19IdleForwarder: handleIdle hands State.Idle a literal func(pending, resCh) whose FIRST statement starts
// the forwarder goroutine; every branch of the goroutine's body either ranges over resCh or calls a function
// of the package whose select loop returns when resCh is closed.
func c19IdleForwarder(c *factsCtx, files []*ast.File) (string, []string) {
	fd := c19Method(files, "Session", "handleIdle")
	if fd == nil {
		return "unknown", []string{"Session.handleIdle not found"}
	}
	var cb *ast.FuncLit
	ast.Inspect(fd.Body, func(x ast.Node) bool {
		if call, ok := x.(*ast.CallExpr); ok && cb == nil && strings.HasSuffix(c.render(call.Fun), ".state.Idle") {
			for _, a := range call.Args {
				if fl, ok := a.(*ast.FuncLit); ok {
					cb = fl
				}
			}
		}
		return true
	})
	if cb == nil || len(cb.Type.Params.List) != 2 || len(cb.Type.Params.List[1].Names) != 1 || len(cb.Body.List) == 0 {
		return "unknown", []string{"callback of State.Idle not found"}
	}
	ch := cb.Type.Params.List[1].Names[0].Name
	// the goroutine is started by the first statement of the callback — after, at most, plain assignments of
	// literals / identifiers to local variables (`senderStarted = true`, /repo 072b3ea), which cannot block or return
	var prologue []string
	first := 0
	for first < len(cb.Body.List)-1 {
		as, ok := cb.Body.List[first].(*ast.AssignStmt)
		if !ok || len(as.Lhs) != 1 || len(as.Rhs) != 1 {
			break
		}
		if _, ok := as.Lhs[0].(*ast.Ident); !ok {
			break
		}
		switch as.Rhs[0].(type) {
		case *ast.Ident, *ast.BasicLit:
		default:
			ok = false
		}
		if !ok {
			break
		}
		prologue = append(prologue, "assign "+c.render(as))
		first++
	}
	es, ok := cb.Body.List[first].(*ast.ExprStmt)
	if !ok {
		return "unknown", []string{c.render(cb.Body.List[first])}
	}
	call, ok := es.X.(*ast.CallExpr)
	if !ok || c.render(call.Fun) != "async.GoAnnotated" {
		return "unknown", []string{c.render(es.X)}
	}
	var body *ast.FuncLit
	for _, a := range call.Args {
		if fl, ok := a.(*ast.FuncLit); ok {
			body = fl
		}
	}
	if body == nil {
		return "unknown", []string{"goroutine body is not a literal"}
	}
	var shape []string
	var branches [][]ast.Stmt
	var split func(list []ast.Stmt)
	split = func(list []ast.Stmt) {
		if len(list) == 1 {
			if is, ok := list[0].(*ast.IfStmt); ok && is.Else != nil {
				split(is.Body.List)
				switch e := is.Else.(type) {
				case *ast.BlockStmt:
					split(e.List)
				default:
					split([]ast.Stmt{e})
				}
				return
			}
		}
		branches = append(branches, list)
	}
	// leading `defer close(<ident>)` statements of the goroutine (it reports its own exit, /repo 072b3ea) do not
	// change when it ends
	goBody := body.Body.List
	for len(goBody) > 1 {
		ds, ok := goBody[0].(*ast.DeferStmt)
		if !ok || c.render(ds.Call.Fun) != "close" || len(ds.Call.Args) != 1 {
			break
		}
		if _, ok := ds.Call.Args[0].(*ast.Ident); !ok {
			break
		}
		prologue = append(prologue, "defer "+c.render(ds.Call))
		goBody = goBody[1:]
	}
	split(goBody)
	shape = append(shape, prologue...)
	all := true
	for _, br := range branches {
		okBranch := false
		if len(br) == 1 {
			if c19RangesOver(br[0], ch) {
				okBranch = true
				shape = append(shape, "range "+ch)
			} else if es, ok := br[0].(*ast.ExprStmt); ok {
				if call, ok := es.X.(*ast.CallExpr); ok {
					if id, ok := call.Fun.(*ast.Ident); ok {
						for k, a := range call.Args {
							if c.render(a) == ch {
								if callee := c19Method(files, "", id.Name); callee != nil && c19SelectLoopStopsOnClose(c, callee, k) {
									okBranch = true
									shape = append(shape, id.Name+": select loop returns on closed "+ch)
								}
							}
						}
					}
				}
			}
		}
		if !okBranch {
			all = false
			var parts []string
			for _, st := range br {
				parts = append(parts, c.render(st))
			}
			shape = append(shape, "?? "+strings.Join(parts, "; "))
		}
	}
	if all && len(branches) > 0 {
		return "true", shape
	}
	return "unknown", shape
}

// c19SendFail: Session.serve, the loop `for res := range respCh` over the channel handleOther returned: what
// the failed-Send branch does before it returns. some true: it starts `go func() { ...; for range respCh {} }()`;
// some false: it returns and nothing receives from respCh any more.
func c19SendFail(c *factsCtx, files []*ast.File) (string, []string) {
	fd := c19Method(files, "Session", "serve")
	if fd == nil {
		return "unknown", []string{"Session.serve not found"}
	}
	ch := ""
	ast.Inspect(fd.Body, func(x ast.Node) bool {
		if as, ok := x.(*ast.AssignStmt); ok && len(as.Lhs) == 1 && len(as.Rhs) == 1 {
			if call, ok := as.Rhs[0].(*ast.CallExpr); ok && strings.HasSuffix(c.render(call.Fun), ".handleOther") {
				ch = c.render(as.Lhs[0])
			}
		}
		return true
	})
	if ch == "" {
		return "unknown", []string{"no `x := s.handleOther(...)`"}
	}
	var loops []*ast.RangeStmt
	ast.Inspect(fd.Body, func(x ast.Node) bool {
		if rs, ok := x.(*ast.RangeStmt); ok && c.render(rs.X) == ch {
			loops = append(loops, rs)
			return false
		}
		return true
	})
	if len(loops) != 1 || len(loops[0].Body.List) != 1 {
		return "unknown", []string{fmt.Sprintf("%d range loops over %s", len(loops), ch)}
	}
	is, ok := loops[0].Body.List[0].(*ast.IfStmt)
	if !ok || is.Init == nil || !strings.HasSuffix(c.render(is.Init), ".Send(s)") || c.render(is.Cond) != "err != nil" || is.Else != nil {
		return "unknown", []string{c.render(loops[0].Body.List[0])}
	}
	var shape []string
	drains, returns, other := false, false, false
	for i, st := range is.Body.List {
		switch x := st.(type) {
		case *ast.GoStmt:
			fl, ok := x.Call.Fun.(*ast.FuncLit)
			ranged := false
			if ok {
				for _, inner := range fl.Body.List {
					if _, isDefer := inner.(*ast.DeferStmt); isDefer {
						continue
					}
					if c19RangesOver(inner, ch) {
						ranged = true
					} else {
						other = true
					}
				}
			}
			if ranged && !returns {
				drains = true
				shape = append(shape, "go { for range "+ch+" }")
			} else {
				other = true
				shape = append(shape, "go ??")
			}
		case *ast.ReturnStmt:
			returns = true
			shape = append(shape, "return")
			if i != len(is.Body.List)-1 {
				other = true
			}
		default:
			// anything else (cancel(), logging ...) does not receive from the channel; a receive would be unknown
			if strings.Contains(c.render(st), ch) {
				other = true
			}
			shape = append(shape, c.render(st))
		}
	}
	switch {
	case other || !returns:
		return "unknown", shape
	case drains:
		return "true", shape
	default:
		return "false", shape
	}
}

// c19HandleOther: resCh := make(chan response.Response, N); the command goroutine's literal that calls
// handleCommand starts with `defer close(resCh)`.
func c19HandleOther(c *factsCtx, files []*ast.File) (capacity string, closes string) {
	capacity, closes = "none", "unknown"
	fd := c19Method(files, "Session", "handleOther")
	if fd == nil {
		return
	}
	ch := ""
	ast.Inspect(fd.Body, func(x ast.Node) bool {
		if as, ok := x.(*ast.AssignStmt); ok && len(as.Lhs) == 1 && len(as.Rhs) == 1 && ch == "" {
			if call, ok := as.Rhs[0].(*ast.CallExpr); ok && c.render(call.Fun) == "make" && len(call.Args) == 2 {
				if _, ok := call.Args[0].(*ast.ChanType); ok {
					ch = c.render(as.Lhs[0])
					if lit, ok := call.Args[1].(*ast.BasicLit); ok && lit.Kind == token.INT {
						capacity = "(some " + lit.Value + ")"
					}
				}
			}
		}
		return true
	})
	if ch == "" {
		return
	}
	ast.Inspect(fd.Body, func(x ast.Node) bool {
		if fl, ok := x.(*ast.FuncLit); ok && len(fl.Body.List) > 0 {
			direct := false
			for _, st := range fl.Body.List {
				ast.Inspect(st, func(y ast.Node) bool {
					if _, ok := y.(*ast.FuncLit); ok {
						return false
					}
					if call, ok := y.(*ast.CallExpr); ok && strings.HasSuffix(c.render(call.Fun), ".handleCommand") {
						direct = true
					}
					return true
				})
			}
			if direct {
				if ds, ok := fl.Body.List[0].(*ast.DeferStmt); ok && c.render(ds.Call) == "close("+ch+")" {
					closes = "true"
				} else {
					closes = "false"
				}
			}
		}
		return true
	})
	return
}

// c19Reader: serve starts with `ctx, cancel := context.WithCancel(ctx); defer cancel()`; the command reader
// hands commands over by `select { case cmdCh <- ..: case <-ctx.Done(): return }` and closes cmdCh by defer;
// Session.done closes the connection (which ends the reader's blocking read).
func c19Reader(c *factsCtx, files []*ast.File) string {
	serve := c19Method(files, "Session", "serve")
	reader := c19Method(files, "Session", "startCommandReader")
	done := c19Method(files, "Session", "done")
	if serve == nil || reader == nil || done == nil || len(serve.Body.List) < 2 {
		return "unknown"
	}
	if c.render(serve.Body.List[0]) != "ctx, cancel := context.WithCancel(ctx)" || c.render(serve.Body.List[1]) != "defer cancel()" {
		return "false"
	}
	closesConn := false
	for _, st := range done.Body.List {
		if strings.Contains(c.render(st), c19RecvName(done)+".conn.Close()") {
			closesConn = true
		}
	}
	if !closesConn {
		return "false"
	}
	sends, guarded, deferClose := 0, 0, false
	ast.Inspect(reader.Body, func(x ast.Node) bool {
		switch y := x.(type) {
		case *ast.SendStmt:
			sends++
		case *ast.SelectStmt:
			hasSend, hasDone, leaves := false, false, false
			for _, cc := range y.Body.List {
				cl := cc.(*ast.CommClause)
				if _, ok := cl.Comm.(*ast.SendStmt); ok {
					hasSend = true
				}
				if es, ok := cl.Comm.(*ast.ExprStmt); ok && c.render(es.X) == "<-ctx.Done()" {
					hasDone = true
					leaves = len(cl.Body) == 1 && c.render(cl.Body[0]) == "return"
				}
			}
			if hasSend && hasDone && leaves {
				guarded++
			}
		case *ast.DeferStmt:
			if c.render(y.Call) == "close(cmdCh)" {
				deferClose = true
			}
		}
		return true
	})
	if sends == 1 && guarded == 1 && deferClose {
		return "true"
	}
	return "unknown"
}

// c19ServeDefers: Session.Serve starts with `defer s.done(ctx)` and `defer s.handleWG.Wait()`.
func c19ServeDefers(c *factsCtx, files []*ast.File) string {
	fd := c19Method(files, "Session", "Serve")
	if fd == nil || len(fd.Body.List) < 2 {
		return "unknown"
	}
	r := c19RecvName(fd)
	if c.render(fd.Body.List[0]) == "defer "+r+".done(ctx)" && c.render(fd.Body.List[1]) == "defer "+r+".handleWG.Wait()" {
		return "true"
	}
	return "unknown"
}

// c19Spawns: every goroutine start in the given packages as "<dir>/<file>:<function>:<how>".
func c19Spawns(c *factsCtx, dirs []string) []string {
	var out []string
	for _, dir := range dirs {
		for _, f := range c.parseDir(dir) {
			file := filepath.Base(c.fset.Position(f.Pos()).Filename)
			for _, d := range f.Decls {
				fd, ok := d.(*ast.FuncDecl)
				if !ok || fd.Body == nil {
					continue
				}
				ast.Inspect(fd.Body, func(x ast.Node) bool {
					how := ""
					switch y := x.(type) {
					case *ast.GoStmt:
						how = "go"
					case *ast.CallExpr:
						fun := c.render(y.Fun)
						if strings.HasPrefix(fun, "async.Go") || strings.HasSuffix(fun, ".Go") {
							how = fun
						}
					}
					if how != "" {
						out = append(out, fmt.Sprintf("%s/%s:%s:%s", dir, file, fd.Name.Name, how))
					}
					return true
				})
			}
		}
	}
	sort.Strings(out)
	return out
}

var c19KnownSpawns = map[string]bool{
	"internal/session/handle_idle.go:handleIdle:async.GoAnnotated":     true,
	"internal/session/handle.go:handleOther:s.handleWG.Go":             true,
	"internal/session/session.go:serve:go":                             true,
	"internal/session/command.go:startCommandReader:async.GoAnnotated": true,
}

func c19FactsGoStop(c *factsCtx, outdir string) error {
	stateFiles := c.parseDir("internal/state")
	sessFiles := c.parseDir("internal/session")
	list := func(xs []string) string {
		var ys []string
		for _, x := range xs {
			ys = append(ys, leanStr(x))
		}
		return "[" + strings.Join(ys, ", ") + "]"
	}
	idle, idleShape := c19IdleDeferred(c, stateFiles)
	fwd, fwdShape := c19IdleForwarder(c, sessFiles)
	drain, drainShape := c19SendFail(c, sessFiles)
	capacity, closes := c19HandleOther(c, sessFiles)
	spawns := c19Spawns(c, []string{"internal/session", "internal/state"})
	var unknown, missing []string
	seen := map[string]bool{}
	for _, s := range spawns {
		seen[s] = true
		if !c19KnownSpawns[s] {
			unknown = append(unknown, s)
		}
	}
	for k := range c19KnownSpawns {
		if !seen[k] {
			missing = append(missing, k)
		}
	}
	sort.Strings(missing)
	var b strings.Builder
	b.WriteString("namespace Gluon.Facts\n\n")
	b.WriteString("/-- State.Idle (internal/state/state.go), statement by statement -/\n")
	fmt.Fprintf(&b, "def idleShape : List String := %s\n\n", list(idleShape))
	b.WriteString("/-- some true: `x, err := s.beginIdle(..); if err != nil {return}; defer s.endIdle(); .. fn(.., s.idleCh)` and no other endIdle call: the per-IDLE forwarder's stop signal is issued on every exit; some false: endIdle is not deferred before the callback runs; none: unknown shape -/\n")
	fmt.Fprintf(&b, "def idleEndDeferred : Option Bool := %s\n\n", leanOptBool(idle))
	b.WriteString("/-- State.endIdle closes state.idleCh -/\n")
	fmt.Fprintf(&b, "def endIdleClosesCh : Option Bool := %s\n\n", leanOptBool(c19EndIdleCloses(c, stateFiles)))
	b.WriteString("/-- the branches of the forwarder goroutine handleIdle starts (first statement of the callback) -/\n")
	fmt.Fprintf(&b, "def idleForwarderShape : List String := %s\n\n", list(fwdShape))
	b.WriteString("/-- some true: every branch of the forwarder ends when its channel is closed (range loop / select loop returning on !ok) -/\n")
	fmt.Fprintf(&b, "def idleForwarderStopsOnClose : Option Bool := %s\n\n", leanOptBool(fwd))
	b.WriteString("/-- Session.serve: the failed-Send branch inside `for res := range respCh` -/\n")
	fmt.Fprintf(&b, "def sendFailShape : List String := %s\n\n", list(drainShape))
	b.WriteString("/-- some true: a goroutine keeps receiving from respCh until it is closed; some false: serve returns and nothing receives any more; none: unknown shape -/\n")
	fmt.Fprintf(&b, "def sendFailDrains : Option Bool := %s\n\n", leanOptBool(drain))
	b.WriteString("/-- capacity of the per-command response channel (handleOther) -/\n")
	fmt.Fprintf(&b, "def respChCap : Option Nat := %s\n\n", capacity)
	b.WriteString("/-- the command goroutine closes the response channel by a defer placed first -/\n")
	fmt.Fprintf(&b, "def commandClosesRespCh : Option Bool := %s\n\n", leanOptBool(closes))
	b.WriteString("/-- the command reader stops: serve defers cancel(), the reader's hand-over selects on ctx.Done() and it closes cmdCh by defer, Session.done closes the connection -/\n")
	fmt.Fprintf(&b, "def readerStops : Option Bool := %s\n\n", leanOptBool(c19Reader(c, sessFiles)))
	b.WriteString("/-- Session.Serve starts with `defer s.done(ctx)`, `defer s.handleWG.Wait()` -/\n")
	fmt.Fprintf(&b, "def serveDefersDoneAndWait : Option Bool := %s\n\n", leanOptBool(c19ServeDefers(c, sessFiles)))
	b.WriteString("/-- every goroutine start in internal/session and internal/state -/\n")
	fmt.Fprintf(&b, "def sessionSpawns : List String := %s\n\n", list(spawns))
	b.WriteString("/-- goroutine starts without a stop obligation in Model/ConcCmd.lean (must be []) -/\n")
	fmt.Fprintf(&b, "def unknownSpawns : List String := %s\n\n", list(unknown))
	b.WriteString("/-- modelled goroutine starts that are no longer in the source (must be []) -/\n")
	fmt.Fprintf(&b, "def missingSpawns : List String := %s\n\nend Gluon.Facts\n", list(missing))
	return writeLean(outdir, "GoStop.lean", b.String())
}
