package main

// Header field NAMES for the C13 dialects (rfc822-hdr, fetch-sect, and every message r8genMsg builds).
//
// RFC 5322 allows every printable US-ASCII byte except the colon in a field name (33..126 without 58) and
// gluon's header parser accepts exactly these; matching a requested name against the names of a header is
// case-insensitive on the ASCII letters and exact on every other byte.  The generators here therefore
//   - draw the names of the fields of a message from that whole set, with emphasis on names that are not
//     RFC 7230 tokens (`/ ( ) < > @ , ; \ " [ ] ? = { }`), names with digits, names with punctuation in
//     front / at the end, names that differ from another field of the same header only in letter case, and
//     names that are equal to another one up to a single non-letter byte (in particular the byte pairs
//     32 positions apart: `@`/backquote, `[`/`{`, `\`/`|`, `]`/`}`, `^`/`~`, `-`/`M`, `/`/`O` ...);
//   - draw the REQUESTED names as case variants (upper, lower, swapped, random per-letter flips) of names
//     that are present, of near misses of present names, of absent names, of prefixes / extensions, and —
//     rarely — as non-ASCII look-alikes (U+212A KELVIN SIGN for k, U+0130 for i, U+017F for s, U+0131
//     for i, ill-formed UTF-8, caseless runes).

import (
	"bytes"
	"fmt"
)

// r8c13Cur: the field names used so far in the message under construction (reset by r8genMsg);
// r8c13Stats: where the name generators count what they drew (set by r8genMsg).
var r8c13Cur []string
var r8c13Stats *Stats

var r8c13NonToken = []byte("/()<>@,;\\\"[]?={}")
var r8c13TokenPunct = []byte("!#$%&'*+-.^_`|~")

// curated names a careful tester would try
var r8c13Special = []string{
	"X-Spam/Score", "X-List(Id)", "X@Y", "To,Cc", "A;B", "K=V", "X[1]", "What?", "\"Quoted\"", "<Angle>",
	"Back\\Slash", "{Brace}", "X-{a}", "[]", "@", "/", "?", "=", "X-a/b/C", "x-SPAM/score", "Resent/To",
	"2Fast", "007", "X-1", "1", "X-Mailer2", "3d-Secure",
	"-Lead", "Trail-", ".dot", "_x_", "!bang", "~", "*", "X--Y", "X-", "-", "A.", "a+b", "100%", "it's", "`tick`",
	"A", "a", "Z", "z", "Ab", "aB", "K", "k", "I", "i", "S", "s", "Kiss", "KISS", "sKi",
	"X-Spam-Score", "X-Spam_Score", "X-SpamOScore", "X@y", "X`Y", "x[1}", "X{1]", "Back|Slash", "^caret", "~caret",
}

func r8c13IsLetter(c byte) bool { return (c >= 'a' && c <= 'z') || (c >= 'A' && c <= 'Z') }

func r8c13NameByteOK(c byte) bool { return c >= 33 && c <= 126 && c != ':' }

func r8c13Flip(c byte) byte {
	if r8c13IsLetter(c) {
		return c ^ 0x20
	}
	return c
}

func r8c13Upper(s string) string {
	b := []byte(s)
	for i, c := range b {
		if c >= 'a' && c <= 'z' {
			b[i] = c - 32
		}
	}
	return string(b)
}

func r8c13Lower(s string) string {
	b := []byte(s)
	for i, c := range b {
		if c >= 'A' && c <= 'Z' {
			b[i] = c + 32
		}
	}
	return string(b)
}

// r8c13CaseVariant: the same name in another letter case (ASCII letters only; every other byte is kept).
func r8c13CaseVariant(r *Rng, s string) string {
	switch r.Intn(6) {
	case 0:
		return r8c13Upper(s)
	case 1:
		return r8c13Lower(s)
	case 2: // every letter swapped
		b := []byte(s)
		for i := range b {
			b[i] = r8c13Flip(b[i])
		}
		return string(b)
	case 3, 4: // random flips (at least one when there is a letter)
		b := []byte(s)
		var letters []int
		for i, c := range b {
			if r8c13IsLetter(c) {
				letters = append(letters, i)
				if r.Chance(1, 3) {
					b[i] = c ^ 0x20
				}
			}
		}
		if len(letters) > 0 && string(b) == s {
			i := Pick(r, letters)
			b[i] ^= 0x20
		}
		return string(b)
	}
	return s
}

// r8c13NearMiss: a name that is NOT the same field name but close to it: one non-letter byte replaced (by the
// byte 32 positions away where that is a legal name byte, else by another punctuation byte / digit), one
// letter replaced by its neighbour, the last / first byte dropped, or one byte added.
func r8c13NearMiss(r *Rng, s string) string {
	b := []byte(s)
	if len(b) == 0 {
		return "X"
	}
	var nonLetters []int
	for i, c := range b {
		if !r8c13IsLetter(c) {
			nonLetters = append(nonLetters, i)
		}
	}
	switch c := r.Intn(10); {
	case c < 5 && len(nonLetters) > 0:
		i := Pick(r, nonLetters)
		var cands []byte
		for _, d := range []int{int(b[i]) ^ 0x20, int(b[i]) + 0x20, int(b[i]) - 0x20} {
			if d >= 0 && d < 256 && r8c13NameByteOK(byte(d)) && byte(d) != b[i] {
				cands = append(cands, byte(d))
			}
		}
		if len(cands) == 0 || r.Chance(1, 3) {
			for _, d := range []byte("-_/.@0") {
				if d != b[i] {
					cands = append(cands, d)
				}
			}
		}
		b[i] = Pick(r, cands)
	case c < 7:
		i := r.Intn(len(b))
		if r8c13IsLetter(b[i]) {
			// neighbour letter in the same case (z -> y)
			if b[i] == 'z' || b[i] == 'Z' {
				b[i]--
			} else {
				b[i]++
			}
		} else {
			b[i] = Pick(r, []byte("-_/.@0x"))
			if string(b) == s {
				b[i] = 'q'
			}
		}
	case c == 7 && len(b) > 1:
		if r.Bool() {
			b = b[:len(b)-1]
		} else {
			b = b[1:]
		}
	default:
		extra := Pick(r, []byte("-/x0_.@s"))
		if r.Bool() {
			b = append(b, extra)
		} else {
			b = append([]byte{extra}, b...)
		}
	}
	return string(b)
}

// r8c13FreshName: a field name from the whole RFC 5322 range.
func r8c13FreshName(r *Rng) string {
	letters := func(n int) []byte {
		b := make([]byte, n)
		for i := range b {
			b[i] = byte('a' + r.Intn(26))
			if r.Chance(1, 3) {
				b[i] -= 32
			}
		}
		return b
	}
	switch c := r.Intn(10); {
	case c < 3:
		return Pick(r, r8c13Special)
	case c < 6:
		// words joined by a non-token / token punctuation byte: X-Spam/Score, List(Id), a@b
		var b []byte
		if r.Chance(1, 2) {
			b = append(b, "X-"...)
		}
		n := r.Range(1, 3)
		for i := 0; i < n; i++ {
			if i > 0 {
				if r.Chance(2, 3) {
					b = append(b, Pick(r, r8c13NonToken))
				} else {
					b = append(b, Pick(r, r8c13TokenPunct))
				}
			}
			b = append(b, letters(r.Range(1, 5))...)
			if r.Chance(1, 6) {
				b = append(b, byte('0'+r.Intn(10)))
			}
		}
		if r.Chance(1, 6) {
			b = append(b, Pick(r, r8c13NonToken))
		}
		if r.Chance(1, 6) {
			b = append([]byte{Pick(r, r8c13NonToken)}, b...)
		}
		return string(b)
	case c < 8:
		// any legal bytes, letters favoured so that case variants exist
		n := Pick(r, []int{1, 1, 2, 3, 4, 6, 10})
		b := make([]byte, n)
		for i := range b {
			switch {
			case r.Chance(1, 2):
				b[i] = letters(1)[0]
			case r.Chance(1, 6):
				b[i] = byte('0' + r.Intn(10))
			default:
				for {
					b[i] = byte(r.Range(33, 126))
					if b[i] != ':' {
						break
					}
				}
			}
		}
		return string(b)
	case c == 8:
		// digits and punctuation only: no letter at all (case folding must leave it alone)
		n := r.Range(1, 5)
		b := make([]byte, n)
		for i := range b {
			if r.Bool() {
				b[i] = byte('0' + r.Intn(10))
			} else {
				b[i] = Pick(r, append(append([]byte{}, r8c13NonToken...), r8c13TokenPunct...))
			}
		}
		return string(b)
	}
	return Pick(r, r8fieldNames)
}

// r8c13FieldName: the name of the next field of the message under construction.
func r8c13FieldName(r *Rng, st *Stats) string {
	var name, how string
	switch c := r.Intn(20); {
	case c < 7:
		name, how = Pick(r, r8fieldNames), "common"
	case c < 10 && len(r8c13Cur) > 0:
		name, how = r8c13CaseVariant(r, Pick(r, r8c13Cur)), "case-variant-of-earlier"
	case c < 12 && len(r8c13Cur) > 0:
		name, how = r8c13NearMiss(r, Pick(r, r8c13Cur)), "near-miss-of-earlier"
	default:
		name, how = r8c13FreshName(r), "fresh"
	}
	for i := 0; i < len(name); i++ {
		if !r8c13NameByteOK(name[i]) {
			panic(fmt.Sprintf("r8c13FieldName: illegal name %q (%s)", name, how))
		}
	}
	if name == "" {
		name, how = "X", "common"
	}
	if st != nil {
		st.Inc("name.field=" + how)
		if r8c13HasNonToken(name) {
			st.Inc("name.field.nontoken")
		}
	}
	if len(r8c13Cur) < 64 {
		r8c13Cur = append(r8c13Cur, name)
	}
	return name
}

func r8c13HasNonToken(s string) bool {
	for i := 0; i < len(s); i++ {
		for _, c := range r8c13NonToken {
			if s[i] == c {
				return true
			}
		}
	}
	return false
}

// r8c13PresentNames: the field names at the start of the physical lines of b (bytes 33..126 up to the first
// colon of a line that does not start with white space); with headerOnly the scan stops at the first blank line.
func r8c13PresentNames(b []byte, headerOnly bool) []string {
	var out []string
	seen := map[string]bool{}
	for len(b) > 0 && len(out) < 48 {
		line := b
		if i := bytes.IndexByte(b, '\n'); i >= 0 {
			line, b = b[:i+1], b[i+1:]
		} else {
			b = nil
		}
		if headerOnly && (string(line) == "\r\n" || string(line) == "\n") {
			break
		}
		if line[0] == ' ' || line[0] == '\t' {
			continue
		}
		k := bytes.IndexByte(line, ':')
		if k <= 0 {
			continue
		}
		ok := true
		for _, c := range line[:k] {
			if c < 33 || c > 126 {
				ok = false
				break
			}
		}
		if ok && !seen[string(line[:k])] {
			seen[string(line[:k])] = true
			out = append(out, string(line[:k]))
		}
	}
	return out
}

// r8c13NonASCII: a look-alike of the name with non-ASCII bytes (the requested names are arbitrary client
// strings: a literal may carry any byte).  Only runes whose case mapping the model has (the four with an ASCII
// image, ill-formed bytes, caseless runes).
func r8c13NonASCII(r *Rng, s string) string {
	b := []byte(s)
	var out []byte
	changed := false
	for _, c := range b {
		switch {
		case (c == 'k' || c == 'K') && r.Chance(2, 3):
			out = append(out, 0xE2, 0x84, 0xAA) // U+212A KELVIN SIGN: ToLower = k
			changed = true
		case (c == 'i' || c == 'I') && r.Chance(1, 2):
			if r.Chance(2, 3) {
				out = append(out, 0xC4, 0xB0) // U+0130: ToLower = i
			} else {
				out = append(out, 0xC4, 0xB1) // U+0131: ToUpper = I, ToLower = itself
			}
			changed = true
		case (c == 's' || c == 'S') && r.Chance(1, 2):
			out = append(out, 0xC5, 0xBF) // U+017F LONG S: ToUpper = S, ToLower = itself
			changed = true
		default:
			out = append(out, c)
		}
	}
	if !changed || r.Chance(1, 4) {
		extra := Pick(r, [][]byte{
			{0xFF}, {0x80}, {0xC0, 0xAF}, {0xE2, 0x84}, {0xED, 0xA0, 0x80}, {0xF4, 0x90, 0x80, 0x80}, {0xC2},
			{0xC2, 0xA0}, {0xE4, 0xB8, 0xAD}, {0xF0, 0x9F, 0x98, 0x80}, {0xEF, 0xBF, 0xBD}, {0xE2, 0x84, 0xAA}, {0xC4, 0xB0},
		})
		// at a rune boundary only: splitting one of the sequences above could make a rune with a case pair
		pos := r.Intn(len(out) + 1)
		for pos < len(out) && out[pos] >= 0x80 && out[pos] <= 0xBF {
			pos++
		}
		out = append(out[:pos], append(append([]byte{}, extra...), out[pos:]...)...)
	}
	return string(out)
}

// r8c13Requested: the field list of a HEADER.FIELDS / HEADER.FIELDS.NOT request against a header that has the
// names `present`.
func r8c13Requested(r *Rng, present []string, st *Stats) [][]byte {
	n := Pick(r, []int{0, 1, 1, 1, 2, 2, 3, 4})
	var out [][]byte
	for i := 0; i < n; i++ {
		var name, how string
		c := r.Intn(100)
		switch {
		case c < 42 && len(present) > 0:
			name, how = r8c13CaseVariant(r, Pick(r, present)), "present-case-variant"
		case c < 54 && len(present) > 0:
			name, how = r8c13CaseVariant(r, r8c13NearMiss(r, Pick(r, present))), "present-near-miss"
		case c < 60 && len(present) > 0:
			name, how = r8c13NonASCII(r, r8c13CaseVariant(r, Pick(r, present))), "present-non-ascii"
		case c < 63 && len(out) > 0:
			// the same name once more, in another case
			name, how = r8c13CaseVariant(r, string(out[r.Intn(len(out))])), "repeated"
		case c < 78:
			name, how = r8c13CaseVariant(r, r8c13FreshName(r)), "absent-fresh"
		case c < 90:
			name, how = r8c13CaseVariant(r, Pick(r, r8fieldNames)), "common"
		case c < 93:
			name, how = r8c13NonASCII(r, Pick(r, r8fieldNames)), "common-non-ascii"
		case c < 96:
			// bytes no field name can have: colon, space, parenthesis (a quoted string / literal may carry them)
			base := "X"
			if len(present) > 0 {
				base = Pick(r, present)
			}
			name, how = Pick(r, []string{base + ":", base + " ", " " + base, "(" + base + ")", base + ": v", ""}), "illegal-bytes"
		default:
			name, how = r8c13FreshName(r), "absent-fresh"
		}
		if st != nil {
			st.Inc("name.requested=" + how)
		}
		out = append(out, []byte(name))
	}
	return out
}

// r8c13ClusterHeader: a small header all of whose field names are relatives of one base name (case variants,
// near misses, the name itself), and a request for relatives of the same base name.
func r8c13ClusterHeader(r *Rng, nl string, st *Stats) ([]byte, [][]byte) {
	base := r8c13FreshName(r)
	rel := func() string {
		switch r.Intn(4) {
		case 0:
			return base
		case 1, 2:
			return r8c13CaseVariant(r, base)
		}
		return r8c13CaseVariant(r, r8c13NearMiss(r, base))
	}
	var h []byte
	nf := r.Range(1, 5)
	var present []string
	for i := 0; i < nf; i++ {
		name := rel()
		if r.Chance(1, 5) {
			name = Pick(r, r8fieldNames)
		}
		present = append(present, name)
		h = append(h, name...)
		h = append(h, ':')
		h = append(h, r8value(r, nl, false)...)
		h = append(h, nl...)
	}
	if !r.Chance(1, 6) {
		h = append(h, nl...)
	}
	var names [][]byte
	nn := r.Range(1, 3)
	for i := 0; i < nn; i++ {
		switch r.Intn(8) {
		case 0:
			names = append(names, []byte(r8c13NonASCII(r, rel())))
		case 1:
			names = append(names, []byte(Pick(r, present)))
		default:
			names = append(names, []byte(rel()))
		}
	}
	if st != nil {
		st.Inc("name.cluster")
	}
	return h, names
}
