package main

// Dialect `db` (C08), part 3: every way the SQLite client can be configured and used.
//
//   * client variants.  sqlite3.NewBuilder takes the options Debug() (every SQL text goes through
//     utils.DebugQueryWrapper / DebugStmtWrapper) and Trace() (every db.ReadOnly / db.Transaction call goes
//     through utils.ReadTracer / WriteTracer).  The option constructors live in an internal package; the
//     harness reaches the two switches of the builder that verifhooks.NewSQLiteDB returns (fields `debug`,
//     `trace` of *sqlite3.Builder, found by reflection), and checks on the client that comes out of
//     Builder.New that they arrived.  Token `client:<variant>` closes the client and opens the same database
//     with that variant (plain | debug | trace | debug+trace); the log level is Trace with the output
//     discarded, so that the arguments of every log line are really evaluated.
//
//   * pool growth.  Client.db is a database/sql pool.  A strictly sequential session only ever uses the first
//     connection of the pool; what is configured per connection (PRAGMA foreign_keys, busy timeout, ...) is only
//     seen on the connections the pool opens later, and it opens them when Client.Read calls overlap (readers
//     share the lock).  Token `grow:<k>` runs k goroutines that enter Client.Read together (barrier) and issue
//     the argument-less lookups of db.ReadOnly a few times each; they change nothing, so the model answers
//     `ok`, and every goroutine must read exactly what a sequential Read reads at that point.  database/sql
//     keeps two idle connections and hands out the most recently returned one: after `grow` the sequential
//     rest of the session runs on whichever connection came back last, usually not the first one.
//     Where the pool (*sql.DB, the field of that type in *sqlite3.Client) is reachable, `grow` repeats rounds
//     until the pool has really grown, and then asks every idle connection of the pool for the per-connection
//     setting the model relies on: `PRAGMA foreign_keys` (Model/DB.lean models FOREIGN KEY checks and ON DELETE
//     CASCADE / SET NULL on every statement).  Answer `ok`, `err:read` (a concurrent lookup failed),
//     `err:diverged` (a concurrent lookup answered differently from the sequential one), `fk-off:<n>/<m>`
//     (n of the m idle pooled connections do not enforce foreign keys).

import (
	"context"
	"database/sql"
	"fmt"
	"os"
	"reflect"
	"strconv"
	"strings"
	"sync"
	"time"
	"unsafe"

	"github.com/ProtonMail/gluon/db"
	"github.com/ProtonMail/gluon/verifhooks"
	"github.com/sirupsen/logrus"
)

var dbxcVariants = []string{"plain", "debug", "trace", "debug+trace"}

func dbxcVariantFlags(v string) (debug, trace, ok bool) {
	switch v {
	case "", "plain":
		return false, false, true
	case "debug":
		return true, false, true
	case "trace":
		return false, true, true
	case "debug+trace":
		return true, true, true
	}
	return false, false, false
}

// dbxcBoolField: the addressable bool field `name` of the struct p points to (unexported fields included).
func dbxcBoolField(p any, name string) (reflect.Value, error) {
	v := reflect.ValueOf(p)
	if v.Kind() != reflect.Pointer || v.Elem().Kind() != reflect.Struct {
		return reflect.Value{}, fmt.Errorf("%T is not a pointer to a struct", p)
	}
	f := v.Elem().FieldByName(name)
	if !f.IsValid() || f.Kind() != reflect.Bool || !f.CanAddr() {
		return reflect.Value{}, fmt.Errorf("%T has no bool field %q", p, name)
	}
	return reflect.NewAt(f.Type(), unsafe.Pointer(f.UnsafeAddr())).Elem(), nil
}

// dbxcBuilder: the db.ClientInterface sqlite3.NewBuilder(options...) returns for the variant.
func dbxcBuilder(variant string) (db.ClientInterface, error) {
	debug, trace, ok := dbxcVariantFlags(variant)
	if !ok {
		return nil, fmt.Errorf("unknown client variant %q", variant)
	}
	ci := verifhooks.NewSQLiteDB()
	if !debug && !trace {
		return ci, nil
	}
	for _, sw := range []struct {
		name string
		on   bool
	}{{"debug", debug}, {"trace", trace}} {
		f, err := dbxcBoolField(ci, sw.name)
		if err != nil {
			return nil, fmt.Errorf("cannot configure the %s client: %v", variant, err)
		}
		f.SetBool(sw.on)
	}
	return ci, nil
}

// dbxcCheckClient: the switches arrived in the client Builder.New made.
func dbxcCheckClient(c db.Client, variant string) error {
	debug, trace, _ := dbxcVariantFlags(variant)
	for _, sw := range []struct {
		name string
		on   bool
	}{{"debug", debug}, {"trace", trace}} {
		f, err := dbxcBoolField(c, sw.name)
		if err != nil {
			if !debug && !trace {
				continue // the plain client needs no switch
			}
			return err
		}
		if f.Bool() != sw.on {
			return fmt.Errorf("client built for variant %s has %s=%v", variant, sw.name, f.Bool())
		}
	}
	return nil
}

// dbxcPool: the database/sql pool inside the client (the field of type *sql.DB), nil if there is none.
func dbxcPool(c db.Client) *sql.DB {
	if os.Getenv("VERIF_C08_NOPOOL") != "" {
		return nil // test switch: behave as if the pool were out of reach (no growth feedback, no per-connection question)
	}
	v := reflect.ValueOf(c)
	if v.Kind() != reflect.Pointer || v.IsNil() || v.Elem().Kind() != reflect.Struct {
		return nil
	}
	e := v.Elem()
	want := reflect.TypeOf((*sql.DB)(nil))
	for i := 0; i < e.NumField(); i++ {
		f := e.Field(i)
		if f.Type() == want && f.CanAddr() {
			p, _ := reflect.NewAt(f.Type(), unsafe.Pointer(f.UnsafeAddr())).Elem().Interface().(*sql.DB)
			return p
		}
	}
	return nil
}

// logrus: count what the variants write (level Trace, output discarded by dbxNewSession)
type dbxcLogCounter struct {
	mu sync.Mutex
	n  map[logrus.Level]int
}

func (h *dbxcLogCounter) Levels() []logrus.Level { return logrus.AllLevels }
func (h *dbxcLogCounter) Fire(e *logrus.Entry) error {
	h.mu.Lock()
	h.n[e.Level]++
	h.mu.Unlock()
	return nil
}
func (h *dbxcLogCounter) count(l logrus.Level) int {
	h.mu.Lock()
	defer h.mu.Unlock()
	return h.n[l]
}

var dbxcLog = &dbxcLogCounter{n: map[logrus.Level]int{}}
var dbxcLogOnce sync.Once

func dbxcLogSetup() {
	dbxcLogOnce.Do(func() {
		logrus.SetLevel(logrus.TraceLevel)
		logrus.AddHook(dbxcLog)
	})
}

// the argument-less lookups of db.ReadOnly the concurrent readers issue
var dbxcGrowReads = []string{"GetAllMailboxesWithAttr", "GetTotalMessageCount", "GetAllMailboxesAsRemoteIDs", "GetMailboxCount",
	"GetAllMessagesIDsAsMap", "GetMessageIDsMarkedAsDelete", "GetAllMailboxesNameAndRemoteID", "GetDeletedSubscriptionSet", "GetConnectorSettings"}

const dbxcGrowMaxK = 32

// growRound: k goroutines enter Client.Read together and issue `per` lookups each.
func (s *dbxSession) dbxcGrowRound(k, per int, want []string) (readErr, diverged bool) {
	ctx := context.Background()
	var ready, done sync.WaitGroup
	start := make(chan struct{})
	var mu sync.Mutex
	ready.Add(k)
	done.Add(k)
	for g := 0; g < k; g++ {
		go func(g int) {
			defer done.Done()
			entered := false
			err := func() (err error) {
				defer func() {
					if p := recover(); p != nil {
						err = fmt.Errorf("panic: %v", p)
					}
				}()
				return s.client.Read(ctx, func(ctx context.Context, r db.ReadOnly) error {
					entered = true
					ready.Done()
					<-start
					for i := 0; i < per; i++ {
						j := (g + i) % len(dbxcGrowReads)
						out, e, _ := s.readCall(ctx, r, dbxcGrowReads[j], nil)
						if e != nil {
							return e
						}
						if out != want[j] {
							mu.Lock()
							diverged = true
							mu.Unlock()
						}
					}
					return nil
				})
			}()
			if !entered {
				ready.Done()
			}
			if err != nil {
				mu.Lock()
				readErr = true
				mu.Unlock()
			}
		}(g)
	}
	// all readers inside Client.Read at the same time; a client that serialises readers never gets there: go on after 2 s
	all := make(chan struct{})
	go func() { ready.Wait(); close(all) }()
	select {
	case <-all:
	case <-time.After(2 * time.Second):
		mu.Lock()
		s.counts["~grow.readers-not-concurrent"]++
		mu.Unlock()
	}
	close(start)
	done.Wait()
	return
}

// dbxcIdleSettings: asks every idle connection of the pool for `PRAGMA foreign_keys`; the connections go back in
// the order they had (the pool is a stack).  Returns (#connections asked, #without foreign keys).
func dbxcIdleSettings(pool *sql.DB) (asked, off int) {
	ctx := context.Background()
	n := pool.Stats().Idle
	var held []*sql.Conn
	for i := 0; i < n; i++ {
		c, err := pool.Conn(ctx)
		if err != nil {
			break
		}
		held = append(held, c)
		var v int
		if err := c.QueryRowContext(ctx, "PRAGMA foreign_keys").Scan(&v); err != nil {
			continue
		}
		asked++
		if v != 1 {
			off++
		}
	}
	for i := len(held) - 1; i >= 0; i-- {
		_ = held[i].Close()
	}
	return
}

// grow: token `grow:<k>`.
func (s *dbxSession) dbxcGrow(arg string) string {
	k, err := strconv.Atoi(arg)
	if err != nil || k < 0 || k > dbxcGrowMaxK || strconv.Itoa(k) != arg {
		return "bad"
	}
	s.counts["~grow"]++
	ctx := context.Background()
	// what a sequential Read answers now
	want := make([]string, len(dbxcGrowReads))
	if err := s.client.Read(ctx, func(ctx context.Context, r db.ReadOnly) error {
		for j, m := range dbxcGrowReads {
			out, e, _ := s.readCall(ctx, r, m, nil)
			if e != nil {
				return e
			}
			want[j] = out
		}
		return nil
	}); err != nil {
		return "err:read"
	}
	pool := dbxcPool(s.client)
	res := "ok"
	if k >= 2 {
		target := 2 // database/sql keeps at most two idle connections
		for round := 0; round < 25; round++ {
			readErr, diverged := s.dbxcGrowRound(k, 6, want)
			if readErr {
				res = "err:read"
				break
			}
			if diverged {
				res = "err:diverged"
				break
			}
			if pool == nil {
				if round >= 3 {
					break
				}
				continue
			}
			if pool.Stats().OpenConnections >= target {
				break
			}
		}
	}
	if pool == nil {
		s.counts["~grow.pool-unreachable"]++
		return res
	}
	open := pool.Stats().OpenConnections
	s.counts[fmt.Sprintf("~grow.k%d.open%d", k, min(open, 2))]++
	asked, off := dbxcIdleSettings(pool)
	s.counts["~grow.connections-asked"] += asked
	if off > 0 && res == "ok" {
		res = fmt.Sprintf("fk-off:%d/%d", off, asked)
	}
	return res
}

// setClient: token `client:<variant>`.
func (s *dbxSession) dbxcSetClient(v string) string {
	if _, _, ok := dbxcVariantFlags(v); !ok || v == "" {
		return "bad"
	}
	s.variant = v
	return s.reopen()
}

// growToken / clientToken of the generator
func dbxcGrowTok(k int) string      { return "grow:" + strconv.Itoa(k) }
func dbxcClientTok(v string) string { return "client:" + v }
func dbxcIsGrow(tok string) bool    { return strings.HasPrefix(tok, "grow:") }
func dbxcIsClient(tok string) bool  { return strings.HasPrefix(tok, "client:") }
func dbxcTokArg(tok string) string  { return tok[strings.Index(tok, ":")+1:] }
