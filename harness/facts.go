package main

func runFacts(repo, outdir string) int { return 0 }
