package main

// Oracle `c04uids` (property C04): whole-server histories with restarts; every UID / UIDNEXT /
// UIDVALIDITY / APPENDUID / COPYUID the wire shows is logged, keyed by a per-message marker header,
// and the Lean judge `judge-c04-uids` (GluonModel/Driver/DJudgeUids.lean, spec
// GluonModel/Spec/UidHistory.lean) decides whether the log is a history the property allows.
//
// Step syntax (one per line in a replay file; the first line is `oracle c04uids`):
//
//	S<i> LOGIN                       (re)connect session i and log in (an earlier connection is dropped)
//	S<i> SELECT|EXAMINE <mb>         S<i> CLOSE
//	S<i> APPEND <mb> <marker>        APPENDUID -> event A
//	S<i> APPENDBAD <mb>              a literal without header/body separator: refused by the server
//	S<i> REAPPEND <mb> <srcmb> <uid> APPEND of the literal fetched from <srcmb> (carries X-Pm-Gluon-Id: same message again)
//	S<i> COPY|UIDCOPY|MOVE|UIDMOVE <set> <mb>      COPYUID -> event P
//	S<i> DELTOP                      STORE * +FLAGS.SILENT (\Deleted), EXPUNGE: the highest UID goes
//	S<i> DELALL                      STORE 1:* ..., EXPUNGE: the mailbox becomes empty
//	S<i> VIEW                        FETCH 1:* (UID + marker) in the acting session -> event V
//	S<i> STATUS <mb>                 S<i> CREATE|DELETE <mb>       S<i> RENAME <a> <b>
//	C NEW <marker> <mb>[,<mb>]       connector MessageCreated
//	C BATCH <m1,m2,..> <mb>          connector MessagesCreated (one update)
//	C ADD <marker> <mb>              connector MessageAdded (an existing message into one more mailbox)
//	C MBCREATE|MBDELETE <mb>         connector mailbox created / deleted
//	C BUMP                           connector UIDValidityBumped
//	X RESTART [sync] [drop]          server closed and reopened on the same directories (sync: the connector
//	                                 re-announces everything; drop: client connections are cut without LOGOUT)
//	X CLOCKWAIT                      wait until the generator's clock is beyond every UIDVALIDITY seen so far
//	                                 (the named hypothesis ClockAhead of Theorems/C04.lean; the generated
//	                                 histories always do this before the first creation after a restart,
//	                                 the directed replay of DESIGN #12 does not)
//	X FAILCOMMIT <n>                 the next n database write transactions run completely and are then rolled back
//	X FAILCONN create|add|move       the next connector call of that kind fails
//	X CHECK                          full checkpoint
//	X LIMITS <mailboxes> <messages>  server closed and reopened with gluon.WithIMAPLimits (mailbox count, messages per mailbox;
//	                                 kept over later restarts): commands then fail because a limit is reached
//	S<i> DEL <uidset>                UID STORE <set> +FLAGS.SILENT (\Deleted), UID EXPUNGE <set>: chosen messages go
//	S<i> BUSY fetch|search|store     a command that delivers no EXPUNGE (the session stays behind other sessions' expunges)
//	C REMOVE <marker> <mb>           connector MessageRemoved (the message leaves one mailbox)
//	C DELMSG <marker>                connector MessageDeleted (the message leaves every mailbox)
//	X FAILCONN mbcreate              the connector's next CreateMailbox fails (CREATE, RENAME creating superiors)
//	(a `+` in the name of CREATE stands for a space: `Recovered+Messages/x`)
//	X FIXTURE <name>                 (first step only) the server is opened on a scratch copy of the upgrade fixture
//	                                 $VERIF_CORPUS/fixtures/<name> and the history recorded there is continued (o_uids_fixture.go)
//	S<i> RACE <p>|rec <command> // <second party's step>
//	                                 <command> runs with the second party's step executed after exactly <p> database
//	                                 calls of the command (o_uids_race.go)
//
// Flags: -n histories, -steps per history, -par concurrent histories, -genbudget (Generate() calls per history,
// bounds the CLOCKWAIT), -directed <list|none>, -ascending, -catchup always|never|mixed, -log, -fixtures all|none|<list>,
// -fxsteps, -race default|none|<list>, -raceall, -mkfixture DIR; directed scenarios, $VERIF_CORPUS/*.c04uids, the upgrade
// fixtures and the raced commands run first. Every violation carries a stable `cause=<label>` (from the Lean judge).
//
// Scheduling: one step at a time; after every step the connector is flushed and every session has
// applied every update (Sys.Barrier), then the mailboxes the step touched are observed by a
// separate observer connection (EXAMINE + FETCH 1:* (UID BODY.PEEK[HEADER.FIELDS (X-Marker)]) +
// STATUS). No command therefore races freshly queued updates (see the notes at the top of hist.go).
//
// Event log (words of the judge line, in history order):
//
//	R  |  K:<mb>:<clock>  |  D:<mb>  |  M:<old>:<new>  |  B
//	A:<mb>:<uidv>:<uid>:<marker>
//	P:<src>:<srcuidv>:<dst>:<dstuidv>:<s1,s2,..>:<d1,d2,..>
//	N:<mb>:<uidv>:<uidnext>
//	F:<mb>:<uidv>:<uidnext>:<uid>=<marker>,..|-        fresh full listing
//	V:<mb>:<uidv>:<uid>=<marker>,..|-                  view of a session (possibly stale)
//	W:.. / T:..                                        raced SELECT/EXAMINE / STATUS (o_uids_race.go)

import (
	"context"
	"errors"
	"flag"
	"fmt"
	"net"
	"os"
	"path/filepath"
	"regexp"
	"sort"
	"strconv"
	"strings"
	"sync"
	"sync/atomic"
	"time"

	"github.com/ProtonMail/gluon"
	"github.com/ProtonMail/gluon/connector"
	"github.com/ProtonMail/gluon/db"
	"github.com/ProtonMail/gluon/imap"
	"github.com/ProtonMail/gluon/limits"
)

// ---- connector that survives restarts, knows mailbox/message ids, and can fail on demand ---------

var c04ErrInjected = errors.New("verif: injected failure")

type c04Conn struct {
	*connector.Dummy
	mu       sync.Mutex
	mboxIDs  map[string]imap.MailboxID // mailbox name -> remote id
	msgIDs   map[string]imap.MessageID // marker -> remote id
	failNext map[string]int
	// foreign: the server's database was not written under this remote (upgrade fixtures, o_uids_fixture.go): the
	// remote accepts operations on messages it has never seen instead of dereferencing its empty tables
	foreign bool
	// limits: server option of this history (step X LIMITS), kept over restarts
	limits *limits.IMAP
}

// knownTo: the message ids the dummy remote has in its tables.
func (c *c04Conn) knownTo(ctx context.Context, ids []imap.MessageID) []imap.MessageID {
	if !c.foreign {
		return ids
	}
	var out []imap.MessageID
	for _, id := range ids {
		if _, err := c.Dummy.GetMessageLiteral(ctx, id); err == nil {
			out = append(out, id)
		}
	}
	return out
}

func (c *c04Conn) RemoveMessagesFromMailbox(ctx context.Context, w connector.IMAPStateWrite, ids []imap.MessageID, mboxID imap.MailboxID) error {
	return c.Dummy.RemoveMessagesFromMailbox(ctx, w, c.knownTo(ctx, ids), mboxID)
}

func (c *c04Conn) MarkMessagesSeen(ctx context.Context, w connector.IMAPStateWrite, ids []imap.MessageID, seen bool) error {
	return c.Dummy.MarkMessagesSeen(ctx, w, c.knownTo(ctx, ids), seen)
}

func (c *c04Conn) MarkMessagesFlagged(ctx context.Context, w connector.IMAPStateWrite, ids []imap.MessageID, flagged bool) error {
	return c.Dummy.MarkMessagesFlagged(ctx, w, c.knownTo(ctx, ids), flagged)
}

func (c *c04Conn) MarkMessagesForwarded(ctx context.Context, w connector.IMAPStateWrite, ids []imap.MessageID, forwarded bool) error {
	return c.Dummy.MarkMessagesForwarded(ctx, w, c.knownTo(ctx, ids), forwarded)
}

var c04ReMarkerHdr = regexp.MustCompile(`(?mi)^X-Marker: (\S+)`)

func (c *c04Conn) Close(ctx context.Context) error { return nil } // the remote outlives the server

func (c *c04Conn) takeFail(kind string) bool {
	c.mu.Lock()
	defer c.mu.Unlock()
	if c.failNext[kind] > 0 {
		c.failNext[kind]--
		return true
	}
	return false
}

func (c *c04Conn) CreateMailbox(ctx context.Context, w connector.IMAPStateWrite, name []string) (imap.Mailbox, error) {
	if c.takeFail("mbcreate") {
		return imap.Mailbox{}, c04ErrInjected
	}
	m, err := c.Dummy.CreateMailbox(ctx, w, name)
	if err == nil {
		c.mu.Lock()
		c.mboxIDs[strings.Join(name, "/")] = m.ID
		c.mu.Unlock()
	}
	return m, err
}

func (c *c04Conn) UpdateMailboxName(ctx context.Context, w connector.IMAPStateWrite, id imap.MailboxID, newName []string) error {
	err := c.Dummy.UpdateMailboxName(ctx, w, id, newName)
	if err == nil {
		c.mu.Lock()
		for n, x := range c.mboxIDs {
			if x == id {
				delete(c.mboxIDs, n)
			}
		}
		c.mboxIDs[strings.Join(newName, "/")] = id
		c.mu.Unlock()
	}
	return err
}

func (c *c04Conn) DeleteMailbox(ctx context.Context, w connector.IMAPStateWrite, id imap.MailboxID) error {
	err := c.Dummy.DeleteMailbox(ctx, w, id)
	if err == nil {
		c.mu.Lock()
		for n, x := range c.mboxIDs {
			if x == id {
				delete(c.mboxIDs, n)
			}
		}
		c.mu.Unlock()
	}
	return err
}

func (c *c04Conn) CreateMessage(ctx context.Context, w connector.IMAPStateWrite, mboxID imap.MailboxID, literal []byte, flags imap.FlagSet, date time.Time) (imap.Message, []byte, error) {
	if c.takeFail("create") {
		return imap.Message{}, nil, c04ErrInjected
	}
	m, l, err := c.Dummy.CreateMessage(ctx, w, mboxID, literal, flags, date)
	if err == nil {
		if x := c04ReMarkerHdr.FindSubmatch(literal); x != nil {
			c.mu.Lock()
			c.msgIDs[string(x[1])] = m.ID
			c.mu.Unlock()
		}
	}
	return m, l, err
}

func (c *c04Conn) AddMessagesToMailbox(ctx context.Context, w connector.IMAPStateWrite, ids []imap.MessageID, mboxID imap.MailboxID) error {
	if c.takeFail("add") {
		return c04ErrInjected
	}
	return c.Dummy.AddMessagesToMailbox(ctx, w, c.knownTo(ctx, ids), mboxID)
}

func (c *c04Conn) MoveMessages(ctx context.Context, w connector.IMAPStateWrite, ids []imap.MessageID, from, to imap.MailboxID) (bool, error) {
	if c.takeFail("move") {
		return false, c04ErrInjected
	}
	return c.Dummy.MoveMessages(ctx, w, c.knownTo(ctx, ids), from, to)
}

func (c *c04Conn) mboxID(name string) (imap.MailboxID, bool) {
	if strings.EqualFold(name, "INBOX") {
		return "0", true
	}
	c.mu.Lock()
	defer c.mu.Unlock()
	id, ok := c.mboxIDs[name]
	return id, ok
}

// ---- database whose next write transactions roll back after having run ---------------------------

type c04DB struct {
	real  db.ClientInterface
	fail  *int32
	sched *c04Sched // schedule control at database-call boundaries (o_uids_race.go)
}

func (d *c04DB) New(path string, userID string) (db.Client, bool, error) {
	c, isNew, err := d.real.New(path, userID)
	if err != nil {
		return nil, false, err
	}
	return &c04Client{Client: c, fail: d.fail, sched: d.sched}, isNew, nil
}

func (d *c04DB) Delete(path string, userID string) error { return d.real.Delete(path, userID) }

type c04Client struct {
	db.Client
	fail  *int32
	sched *c04Sched
}

func (c *c04Client) Read(ctx context.Context, op func(context.Context, db.ReadOnly) error) error {
	defer c.sched.exit(c.sched.enter("rd"))
	return c.Client.Read(ctx, op)
}

func (c *c04Client) Write(ctx context.Context, op func(context.Context, db.Transaction) error) error {
	defer c.sched.exit(c.sched.enter("wr"))
	return c.write(ctx, op)
}

func (c *c04Client) write(ctx context.Context, op func(context.Context, db.Transaction) error) error {
	for {
		n := atomic.LoadInt32(c.fail)
		if n <= 0 {
			return c.Client.Write(ctx, op)
		}
		if atomic.CompareAndSwapInt32(c.fail, n, n-1) {
			break
		}
	}
	return c.Client.Write(ctx, func(ctx context.Context, tx db.Transaction) error {
		if err := op(ctx, tx); err != nil {
			return err
		}
		return c04ErrInjected // everything ran (UIDs were assigned inside the transaction); now roll back
	})
}

// ---- server -------------------------------------------------------------------------------------

var c04Epoch = time.Date(2023, 2, 1, 0, 0, 0, 0, time.UTC) // imap.DefaultEpochUIDValidityGenerator

// c04Clock: the reading Generate() takes (seconds since the generator's epoch).
func c04Clock() int64 { return int64(time.Now().Sub(c04Epoch).Seconds()) }

var c04Flags = imap.NewFlagSet(imap.FlagSeen, imap.FlagFlagged, imap.FlagDeleted, imap.FlagAnswered, imap.FlagDraft)

// c04NewSys is NewSys (sys.go) with the connector given as an interface (the wrapper above) and the
// write-failing database; userID == "" creates the user. The server uses gluon's default
// UIDVALIDITY generator (a fresh one per start, as in production).
func c04NewSys(dir, userID string, conn *c04Conn, dbw *c04DB, sync bool) (*Sys, error) {
	rec := &panicRecorder{}
	opts := []gluon.Option{
		gluon.WithDataDir(filepath.Join(dir, "store")),
		gluon.WithDatabaseDir(filepath.Join(dir, "db")),
		gluon.WithDelimiter("/"),
		gluon.WithPanicHandler(rec),
		gluon.WithDBClient(dbw),
	}
	if conn.limits != nil {
		opts = append(opts, gluon.WithIMAPLimits(*conn.limits))
	}
	srv, err := gluon.New(opts...)
	if err != nil {
		return nil, err
	}
	ctx, cancel := context.WithCancel(context.Background())
	if userID == "" {
		userID, err = srv.AddUser(ctx, conn, []byte("passphrase"))
	} else {
		_, err = srv.LoadUser(ctx, conn, userID, []byte("passphrase"))
	}
	if err != nil {
		cancel()
		return nil, fmt.Errorf("add/load user: %w", err)
	}
	if sync {
		sctx, sc := context.WithTimeout(ctx, 30*time.Second)
		err := conn.Dummy.Sync(sctx)
		sc()
		if err != nil {
			cancel()
			return nil, fmt.Errorf("connector sync: %w", err)
		}
	}
	ln, err := net.Listen("tcp", "127.0.0.1:0")
	if err != nil {
		cancel()
		return nil, err
	}
	if err := srv.Serve(ctx, ln); err != nil {
		cancel()
		return nil, err
	}
	go func() {
		for range srv.GetErrorCh() {
		}
	}()
	return &Sys{Server: srv, Conn: conn.Dummy, UserID: userID, Addr: ln.Addr().String(), Dir: dir, cancel: cancel, ln: ln, Panics: rec}, nil
}

// ---- runner -------------------------------------------------------------------------------------

type c04Msg struct {
	uid    int
	marker string
}

type c04Sess struct {
	c    *Client
	sel  string // selected mailbox name, "" if none
	uidv int
	ro   bool
	view []c04Msg // what the session saw at its last VIEW (NOOP + listing); it may be behind since
}

type c04Run struct {
	sys   *Sys
	conn  *c04Conn
	dbw   *c04DB
	sess  []*c04Sess
	obs   *Client
	steps []string
	ev    []string
	stats map[string]int
	// harness-side knowledge (steers generation only; verdicts are the judge's)
	exists    map[string]bool
	content   map[string][]c04Msg
	uidv      map[string]int
	hiUidv    map[string]int
	maxUidv   int
	behind    bool // a restart happened and the clock has not been awaited since
	markerN   int
	genCalls  int // Generate() calls the history has caused so far (budget: each one can cost a second of CLOCKWAIT)
	restarts  int
	aborted   string
	connMade  map[string]bool // markers known to the remote
	mbSeq     int
	scrambled bool // generator: message sets of COPY/MOVE may be unordered and name a message twice
	staleOK   bool // generator: COPY/MOVE may run in a session that has not caught up with other sessions' expunges
	uidnext   map[string]int
	pool      []string // mailbox names the generator works with (default c04Pool)
	lastTrace []string // database calls of the last RACE step (o_uids_race.go)
}

var c04Pool = []string{"INBOX", "mbA", "mbB", "mbC"}

func c04NewRun() (*c04Run, error) { return c04NewRunAt("", "", nil) }

func (r *c04Run) poolNames() []string {
	if r.pool != nil {
		return r.pool
	}
	return c04Pool
}

func (r *c04Run) close() {
	for _, s := range r.sess {
		if s != nil && s.c != nil {
			s.c.Close()
		}
	}
	if r.obs != nil {
		r.obs.Close()
	}
	if r.sys != nil {
		r.sys.Close(true)
	}
	_ = r.conn.Dummy.Close(context.Background())
}

func (r *c04Run) emit(format string, a ...any) { r.ev = append(r.ev, fmt.Sprintf(format, a...)) }

func c04Q(name string) string { return `"` + name + `"` }

// c04EvName: mailbox names inside events have no spaces or separators ("Recovered Messages").
func c04EvName(name string) string {
	return strings.NewReplacer(" ", "_", ":", "_", ";", "_", ",", "_", "=", "_").Replace(name)
}

func (r *c04Run) observer() (*Client, error) {
	if r.obs != nil {
		return r.obs, nil
	}
	c, err := r.sys.Dial("o")
	if err != nil {
		return nil, err
	}
	if rep := c.Login("user"); rep.Status != "OK" {
		c.Close()
		return nil, fmt.Errorf("observer login: %q %v", rep.Tagged, rep.Err)
	}
	r.obs = c
	return c, nil
}

var (
	c04ReUidv     = regexp.MustCompile(`\[UIDVALIDITY (\d+)\]`)
	c04ReUidNext  = regexp.MustCompile(`\[UIDNEXT (\d+)\]`)
	c04ReExists   = regexp.MustCompile(`^\* (\d+) EXISTS`)
	c04ReStatus   = regexp.MustCompile(`^\* STATUS .*\((.*)\)$`)
	c04ReFetchUID = regexp.MustCompile(`\bUID (\d+)`)
	c04ReFetch    = regexp.MustCompile(`^\* (\d+) FETCH `)
	c04ReAppend   = regexp.MustCompile(`\[APPENDUID (\d+) (\d+)\]`)
	c04ReCopy     = regexp.MustCompile(`\[COPYUID (\d+) (\S+) (\S+)\]`)
)

type c04SelInfo struct{ uidv, uidnext, exists int }

func c04ParseSelect(rep Reply) c04SelInfo {
	inf := c04SelInfo{uidv: -1, uidnext: -1}
	for _, u := range append(append([]string{}, rep.Untagged...), rep.Tagged) {
		if m := c04ReUidv.FindStringSubmatch(u); m != nil {
			inf.uidv, _ = strconv.Atoi(m[1])
		}
		if m := c04ReUidNext.FindStringSubmatch(u); m != nil {
			inf.uidnext, _ = strconv.Atoi(m[1])
		}
		if m := c04ReExists.FindStringSubmatch(u); m != nil {
			inf.exists, _ = strconv.Atoi(m[1])
		}
	}
	return inf
}

// c04FetchMarkers: FETCH 1:* (UID BODY.PEEK[HEADER.FIELDS (X-Marker)]) on a selected connection.
func c04FetchMarkers(c *Client, exists int) ([]c04Msg, error) {
	if exists == 0 {
		return nil, nil
	}
	rep := c.Cmd("FETCH 1:* (UID BODY.PEEK[HEADER.FIELDS (X-Marker)])")
	if rep.Status != "OK" {
		return nil, fmt.Errorf("FETCH 1:*: %q %v", rep.Tagged, rep.Err)
	}
	var out []c04Msg
	for _, u := range rep.Untagged {
		if !c04ReFetch.MatchString(u) {
			continue
		}
		mu := c04ReFetchUID.FindStringSubmatch(u)
		if mu == nil {
			return nil, fmt.Errorf("FETCH response without UID: %q", u)
		}
		uid, _ := strconv.Atoi(mu[1])
		mk := "?"
		if mm := c04ReMarkerHdr.FindStringSubmatch(u); mm != nil {
			mk = mm[1]
		}
		out = append(out, c04Msg{uid, mk})
	}
	sort.SliceStable(out, func(i, j int) bool { return out[i].uid < out[j].uid })
	return out, nil
}

func c04Pairs(ms []c04Msg) string {
	if len(ms) == 0 {
		return "-"
	}
	var p []string
	for _, m := range ms {
		p = append(p, fmt.Sprintf("%d=%s", m.uid, m.marker))
	}
	return strings.Join(p, ",")
}

func (r *c04Run) noteUidv(name string, v int) {
	if v <= 0 {
		return
	}
	r.uidv[name] = v
	if v > r.hiUidv[name] {
		r.hiUidv[name] = v
	}
	if v > r.maxUidv {
		r.maxUidv = v
	}
}

// listFresh: EXAMINE + full listing + UNSELECT of one mailbox through the observer connection (nothing is logged).
// ok = false: the mailbox does not exist.
func (r *c04Run) listFresh(name string) (inf c04SelInfo, ms []c04Msg, ok bool, err error) {
	o, err := r.observer()
	if err != nil {
		return inf, nil, false, err
	}
	rep := o.Cmd("EXAMINE " + c04Q(name))
	if rep.Status != "OK" {
		if rep.Err != nil || rep.Status == "BYE" {
			return inf, nil, false, fmt.Errorf("observer EXAMINE %s: %q %v", name, rep.Tagged, rep.Err)
		}
		return inf, nil, false, nil
	}
	inf = c04ParseSelect(rep)
	ms, err = c04FetchMarkers(o, inf.exists)
	if err != nil {
		return inf, nil, false, fmt.Errorf("observer in %s: %w", name, err)
	}
	if len(ms) != inf.exists {
		return inf, nil, false, fmt.Errorf("observer in %s: EXISTS %d but %d messages fetched", name, inf.exists, len(ms))
	}
	if rep := o.Cmd("UNSELECT"); rep.Status != "OK" {
		return inf, nil, false, fmt.Errorf("observer UNSELECT: %q %v", rep.Tagged, rep.Err)
	}
	return inf, ms, true, nil
}

// observe: fresh listing + STATUS of one mailbox through the observer connection.
func (r *c04Run) observe(name string) error {
	inf, ms, ok, err := r.listFresh(name)
	if err != nil {
		return err
	}
	if !ok {
		delete(r.exists, name) // NO: the mailbox does not exist (any more)
		delete(r.content, name)
		return nil
	}
	r.emit("F:%s:%d:%d:%s", c04EvName(name), inf.uidv, inf.uidnext, c04Pairs(ms))
	r.exists[name] = true
	r.content[name] = ms
	r.uidnext[name] = inf.uidnext
	r.noteUidv(name, inf.uidv)
	r.stats["obs.listing"]++
	return r.status(r.obs, name)
}

func (r *c04Run) status(c *Client, name string) error {
	rep := c.Cmd("STATUS " + c04Q(name) + " (MESSAGES UIDNEXT UIDVALIDITY)")
	if rep.Status != "OK" {
		if rep.Err != nil || rep.Status == "BYE" {
			return fmt.Errorf("STATUS %s: %q %v", name, rep.Tagged, rep.Err)
		}
		return nil
	}
	for _, u := range rep.Untagged {
		if m := c04ReStatus.FindStringSubmatch(u); m != nil {
			f := strings.Fields(m[1])
			vals := map[string]int{}
			for i := 0; i+1 < len(f); i += 2 {
				vals[strings.ToUpper(f[i])], _ = strconv.Atoi(f[i+1])
			}
			r.emit("N:%s:%d:%d", c04EvName(name), vals["UIDVALIDITY"], vals["UIDNEXT"])
			r.noteUidv(name, vals["UIDVALIDITY"])
			r.stats["obs.status"]++
		}
	}
	return nil
}

// checkpoint: LIST, then every selectable mailbox is observed.
func (r *c04Run) checkpoint() error {
	o, err := r.observer()
	if err != nil {
		return err
	}
	rep := o.Cmd(`LIST "" "*"`)
	if rep.Status != "OK" {
		return fmt.Errorf("observer LIST: %q %v", rep.Tagged, rep.Err)
	}
	var names []string
	for _, u := range rep.Untagged {
		atts, n, ok := awParseListLine(u)
		if !ok || strings.Contains(strings.ToLower(atts), `\noselect`) {
			continue
		}
		names = append(names, n)
	}
	sort.Strings(names)
	listed := map[string]bool{}
	for _, n := range names {
		listed[n] = true
	}
	for n := range r.exists {
		if !listed[n] {
			delete(r.exists, n)
			delete(r.content, n)
		}
	}
	for _, n := range names {
		if err := r.observe(n); err != nil {
			return err
		}
	}
	r.stats["obs.checkpoint"]++
	return nil
}

func (r *c04Run) session(i int) *c04Sess {
	for len(r.sess) <= i {
		r.sess = append(r.sess, nil)
	}
	return r.sess[i]
}

func c04Literal(marker string) []byte { return SimpleMessage(marker, "body of "+marker) }

func c04ExpandSet(s string) []int {
	var out []int
	for _, part := range strings.Split(s, ",") {
		if a, b, ok := strings.Cut(part, ":"); ok {
			x, _ := strconv.Atoi(a)
			y, _ := strconv.Atoi(b)
			if x > y {
				x, y = y, x
			}
			for k := x; k <= y && len(out) < 100000; k++ {
				out = append(out, k)
			}
		} else {
			x, _ := strconv.Atoi(part)
			out = append(out, x)
		}
	}
	return out
}

// c04Superiors: "a/b/c" -> a, a/b (the server's delimiter is "/").
func c04Superiors(name string) []string {
	var out []string
	for k := 0; k < len(name); k++ {
		if name[k] == '/' && k > 0 {
			out = append(out, name[:k])
		}
	}
	return out
}

func c04JoinInts(xs []int) string {
	var p []string
	for _, x := range xs {
		p = append(p, strconv.Itoa(x))
	}
	return strings.Join(p, ",")
}

func c04St(rep Reply) string {
	if rep.Err != nil && rep.Status == "" {
		return "lost"
	}
	return strings.ToLower(rep.Status)
}

// dead: the reply shows that the connection is gone (BYE, error): the session must log in again.
func (r *c04Run) lostSession(i int, rep Reply) bool {
	if rep.Err != nil || rep.Status == "BYE" || rep.Status == "" {
		if s := r.session(i); s != nil {
			s.c.Close()
			r.sess[i] = nil
		}
		r.stats["session.lost"]++
		return true
	}
	return false
}

func (r *c04Run) dropSelectedOn(name string) {
	// the server says BYE to sessions whose mailbox vanished or whose UIDVALIDITY was bumped; the harness
	// reconnects them up front so that every later step finds a usable session
	for i, s := range r.sess {
		if s != nil && (name == "*" || (s.sel == name && s.sel != "")) {
			s.c.Close()
			r.sess[i] = nil
		}
	}
}

// settle waits until the server has dropped the states of connections the harness (or the server) has
// closed: the barrier hook enqueues a marker on every state it finds, and a state whose session is just
// ending never consumes it.
func (r *c04Run) settle() {
	want := 0
	for _, s := range r.sess {
		if s != nil {
			want++
		}
	}
	if r.obs != nil {
		want++
	}
	for t0 := time.Now(); time.Since(t0) < 5*time.Second; time.Sleep(2 * time.Millisecond) {
		if len(r.sys.Server.VerifStates(r.sys.UserID)) <= want {
			return
		}
	}
	r.stats["settle.timeout"]++
}

// exec runs one step, then barrier + observation of what it touched. An error aborts the history.
func (r *c04Run) exec(step string) error {
	r.steps = append(r.steps, step)
	vlog("c04 step %s", step)
	touched, full, err := r.exec1(step)
	if err != nil {
		return err
	}
	r.settle()
	if err := r.sys.Barrier(); err != nil {
		return fmt.Errorf("barrier: %w", err)
	}
	for _, p := range r.sys.Panics.Take() {
		r.aborted = "cause=server-panic " + p
		return fmt.Errorf("server panic: %s", p)
	}
	if full {
		return r.checkpoint()
	}
	seen := map[string]bool{}
	for _, n := range touched {
		if n != "" && !seen[n] {
			seen[n] = true
			if err := r.observe(n); err != nil {
				return err
			}
		}
	}
	return nil
}

func (r *c04Run) exec1(step string) (touched []string, full bool, err error) {
	f := strings.Fields(step)
	if len(f) < 2 {
		return nil, false, fmt.Errorf("bad step")
	}
	arg := func(k int) string {
		if k < len(f) {
			return f[k]
		}
		return ""
	}
	r.stats["step."+f[0][:1]+"."+f[1]]++
	switch {
	case f[0] == "X":
		switch f[1] {
		case "CHECK":
			return nil, true, nil
		case "SLEEP":
			ms, _ := strconv.Atoi(arg(2))
			time.Sleep(time.Duration(ms) * time.Millisecond)
			return nil, false, nil
		case "CLOCKWAIT":
			t0 := time.Now()
			for c04Clock() <= int64(r.maxUidv) && time.Since(t0) < 90*time.Second {
				time.Sleep(50 * time.Millisecond)
			}
			r.stats["clockwait.ms"] += int(time.Since(t0).Milliseconds())
			r.behind = false
			return nil, false, nil
		case "FAILCOMMIT":
			n, _ := strconv.Atoi(arg(2))
			atomic.StoreInt32(r.dbw.fail, int32(n))
			return nil, false, nil
		case "FAILCONN":
			r.conn.mu.Lock()
			r.conn.failNext[arg(2)]++
			r.conn.mu.Unlock()
			return nil, false, nil
		case "RESTART", "LIMITS":
			sync, drop := false, false
			if f[1] == "LIMITS" {
				nmb, _ := strconv.Atoi(arg(2))
				nmsg, _ := strconv.Atoi(arg(3))
				l := limits.NewIMAPLimits(uint32(nmb), uint32(nmsg), imap.UID(1<<32-1), imap.UID(1<<32-1))
				r.conn.limits = &l
			} else {
				for _, w := range f[2:] {
					sync = sync || w == "sync"
					drop = drop || w == "drop"
				}
			}
			for i, s := range r.sess {
				if s != nil {
					if !drop {
						_ = s.c.Cmd("LOGOUT")
					}
					s.c.Close()
					r.sess[i] = nil
				}
			}
			if r.obs != nil {
				r.obs.Close()
				r.obs = nil
			}
			atomic.StoreInt32(r.dbw.fail, 0)
			dir, uid := r.sys.Dir, r.sys.UserID
			r.sys.Close(false)
			sys, err := c04NewSys(dir, uid, r.conn, r.dbw, sync)
			if err != nil {
				r.sys = nil
				_ = os.RemoveAll(dir)
				return nil, false, fmt.Errorf("restart: %w", err)
			}
			r.sys = sys
			r.behind = true
			r.restarts++
			r.genCalls++ // newUser generates one value for the recovery mailbox at every start
			r.emit("R")
			return nil, true, nil
		}
	case f[0] == "C":
		switch f[1] {
		case "NEW", "BATCH":
			markers := strings.Split(arg(2), ",")
			var ids []imap.MailboxID
			var names []string
			for _, n := range strings.Split(arg(3), ",") {
				if id, ok := r.conn.mboxID(n); ok {
					ids = append(ids, id)
					names = append(names, n)
				}
			}
			if len(ids) == 0 {
				return nil, false, nil
			}
			var msgs []imap.Message
			var lits [][]byte
			var mbs [][]imap.MailboxID
			for _, mk := range markers {
				id := imap.MessageID("c04msg-" + mk)
				r.conn.mu.Lock()
				r.conn.msgIDs[mk] = id
				r.conn.mu.Unlock()
				msgs = append(msgs, imap.Message{ID: id, Flags: imap.NewFlagSet(), Date: time.Date(2020, 1, 2, 3, 4, 5, 0, time.UTC)})
				lits = append(lits, c04Literal(mk))
				mbs = append(mbs, ids)
				r.connMade[mk] = true
			}
			if f[1] == "NEW" {
				err = r.conn.Dummy.MessageCreated(msgs[0], lits[0], ids)
			} else {
				err = r.conn.Dummy.MessagesCreated(msgs, lits, mbs)
			}
			return names, false, err
		case "ADD":
			r.conn.mu.Lock()
			id, ok := r.conn.msgIDs[arg(2)]
			r.conn.mu.Unlock()
			mb, ok2 := r.conn.mboxID(arg(3))
			if !ok || !ok2 {
				return nil, false, nil
			}
			return []string{arg(3)}, false, r.conn.Dummy.MessageAdded(id, mb)
		case "REMOVE":
			r.conn.mu.Lock()
			id, ok := r.conn.msgIDs[arg(2)]
			r.conn.mu.Unlock()
			mb, ok2 := r.conn.mboxID(arg(3))
			if !ok || !ok2 {
				r.stats["step.skipped-remove-unknown"]++
				return nil, false, nil
			}
			return []string{arg(3)}, false, r.conn.Dummy.MessageRemoved(id, mb)
		case "DELMSG":
			r.conn.mu.Lock()
			id, ok := r.conn.msgIDs[arg(2)]
			r.conn.mu.Unlock()
			if !ok {
				r.stats["step.skipped-remove-unknown"]++
				return nil, false, nil
			}
			return nil, true, r.conn.Dummy.MessageDeleted(id)
		case "MBCREATE":
			if r.exists[arg(2)] {
				// (a DELETE generated just before may have failed) a second remote mailbox with the name of an
				// existing one is refused by the server and is not a creation
				r.stats["step.skipped-mbcreate-exists"]++
				return nil, false, nil
			}
			r.mbSeq++
			id := imap.MailboxID(fmt.Sprintf("c04mb-%s-%d", arg(2), r.mbSeq))
			r.conn.mu.Lock()
			r.conn.mboxIDs[arg(2)] = id
			r.conn.mu.Unlock()
			r.genCalls++
			r.emit("K:%s:%d", c04EvName(arg(2)), c04Clock())
			return nil, true, r.conn.Dummy.MailboxCreated(imap.Mailbox{ID: id, Name: []string{arg(2)}, Flags: c04Flags, PermanentFlags: c04Flags, Attributes: imap.NewFlagSet()})
		case "MBDELETE":
			id, ok := r.conn.mboxID(arg(2))
			if !ok || id == "0" {
				return nil, false, nil
			}
			r.dropSelectedOn(arg(2))
			r.conn.mu.Lock()
			delete(r.conn.mboxIDs, arg(2))
			r.conn.mu.Unlock()
			r.emit("D:%s", c04EvName(arg(2)))
			return nil, true, r.conn.Dummy.MailboxDeleted(id)
		case "BUMP":
			r.dropSelectedOn("*")
			if r.obs != nil {
				r.obs.Close()
				r.obs = nil
			}
			r.genCalls += len(r.exists) + 1
			r.emit("B")
			r.conn.Dummy.UIDValidityBumped()
			return nil, true, nil
		}
	case strings.HasPrefix(f[0], "S"):
		i, _ := strconv.Atoi(f[0][1:])
		if f[1] == "LOGIN" {
			if s := r.session(i); s != nil {
				s.c.Close()
			}
			c, err := r.sys.Dial(fmt.Sprintf("s%d_", i))
			if err != nil {
				return nil, false, err
			}
			if rep := c.Login("user"); rep.Status != "OK" {
				return nil, false, fmt.Errorf("login: %q %v", rep.Tagged, rep.Err)
			}
			r.sess[i] = &c04Sess{c: c}
			return nil, false, nil
		}
		if f[1] == "RACE" {
			// S<i> RACE <p>|rec <command words> // <second party's step>
			cmdPart, party, _ := strings.Cut(strings.Join(f[3:], " "), " // ")
			pos := -1
			if arg(2) != "rec" {
				if pos, err = strconv.Atoi(arg(2)); err != nil {
					return nil, false, fmt.Errorf("bad RACE position %q", arg(2))
				}
			}
			touched, err = r.race(i, pos, strings.Fields(cmdPart), strings.TrimSpace(party))
			return touched, false, err
		}
		s := r.session(i)
		if s == nil {
			r.stats["step.skipped-no-session"]++
			return nil, false, nil
		}
		c := s.c
		switch f[1] {
		case "SELECT", "EXAMINE":
			rep := c.Cmd(f[1] + " " + c04Q(arg(2)))
			if r.lostSession(i, rep) {
				return nil, false, nil
			}
			if rep.Status != "OK" {
				s.sel = ""
				return nil, false, nil
			}
			inf := c04ParseSelect(rep)
			s.sel, s.uidv, s.ro = arg(2), inf.uidv, f[1] == "EXAMINE"
			r.emit("N:%s:%d:%d", c04EvName(arg(2)), inf.uidv, inf.uidnext)
			r.noteUidv(arg(2), inf.uidv)
			return nil, false, nil
		case "CLOSE":
			rep := c.Cmd("CLOSE")
			was := s.sel
			s.sel = ""
			if r.lostSession(i, rep) {
				return nil, false, nil
			}
			return []string{was}, false, nil
		case "STATUS":
			if err := r.status(c, arg(2)); err != nil {
				// the connection is gone (the server says BYE to a session whose state became invalid)
				r.lostSession(i, Reply{Err: err})
			}
			return nil, false, nil
		case "VIEW":
			if s.sel == "" {
				return nil, false, nil
			}
			rep := c.Cmd("NOOP")
			if r.lostSession(i, rep) {
				return nil, false, nil
			}
			ms, err := c04FetchMarkers(c, 1)
			if err != nil {
				// an empty mailbox answers NO/BAD to 1:*; anything else shows up in later steps
				return nil, false, nil
			}
			r.emit("V:%s:%d:%s", c04EvName(s.sel), s.uidv, c04Pairs(ms))
			r.stats["obs.view"]++
			s.view = ms
			return nil, false, nil
		case "BUSY":
			// commands whose flush delivers no EXPUNGE (FETCH / SEARCH / STORE): the session does something and still
			// does not learn what other sessions expunged
			if s.sel == "" {
				return nil, false, nil
			}
			cmd := map[string]string{"fetch": "FETCH 1:* (FLAGS)", "search": "SEARCH ALL", "store": `STORE 1 +FLAGS.SILENT (\Answered)`}[arg(2)]
			if cmd == "" || (arg(2) == "store" && s.ro) {
				cmd = "FETCH 1:* (FLAGS)"
			}
			rep := c.Cmd(cmd)
			r.stats["busy."+c04St(rep)]++
			r.lostSession(i, rep)
			return nil, false, nil
		case "DEL":
			if s.sel == "" || s.ro {
				return nil, false, nil
			}
			rep := c.Cmd("UID STORE " + arg(2) + ` +FLAGS.SILENT (\Deleted)`)
			if r.lostSession(i, rep) {
				return []string{s.sel}, false, nil
			}
			if rep.Status == "OK" {
				rep = c.Cmd("UID EXPUNGE " + arg(2))
				r.stats["uidexpunge."+c04St(rep)]++
				if r.lostSession(i, rep) {
					return nil, false, nil
				}
			}
			return []string{s.sel}, false, nil
		case "APPEND", "APPENDBAD", "REAPPEND":
			mb := arg(2)
			var lit []byte
			marker := arg(3)
			switch f[1] {
			case "APPEND":
				lit = c04Literal(marker)
			case "APPENDBAD":
				lit = []byte("this is not a message")
				marker = ""
			case "REAPPEND":
				o, err := r.observer()
				if err != nil {
					return nil, false, err
				}
				if rep := o.Cmd("EXAMINE " + c04Q(arg(3))); rep.Status != "OK" {
					return nil, false, nil
				}
				rep := o.Cmd("UID FETCH " + arg(4) + " (BODY.PEEK[])")
				_ = o.Cmd("UNSELECT")
				marker = ""
				for _, u := range rep.Untagged {
					if loc := regexp.MustCompile(`\{(\d+)\}\r\n`).FindStringSubmatchIndex(u); loc != nil && c04ReFetch.MatchString(u) {
						n, _ := strconv.Atoi(u[loc[2]:loc[3]])
						if loc[1]+n <= len(u) {
							lit = []byte(u[loc[1] : loc[1]+n])
							if mm := c04ReMarkerHdr.FindSubmatch(lit); mm != nil {
								marker = string(mm[1])
							}
						}
					}
				}
				if lit == nil || marker == "" {
					return nil, false, nil
				}
			}
			rep := c.Append(c04Q(mb), "", lit)
			r.stats["append."+c04St(rep)]++
			if r.lostSession(i, rep) {
				return []string{mb, "Recovered Messages"}, false, nil
			}
			if rep.Status == "OK" {
				if m := c04ReAppend.FindStringSubmatch(rep.Tagged); m != nil && marker != "" {
					r.emit("A:%s:%s:%s:%s", c04EvName(mb), m[1], m[2], marker)
					r.stats["obs.appenduid"]++
				}
				return []string{mb, s.sel}, false, nil
			}
			return []string{mb, "Recovered Messages"}, false, nil
		case "COPY", "UIDCOPY", "MOVE", "UIDMOVE":
			if s.sel == "" {
				return nil, false, nil
			}
			verb := map[string]string{"COPY": "COPY", "UIDCOPY": "UID COPY", "MOVE": "MOVE", "UIDMOVE": "UID MOVE"}[f[1]]
			rep := c.Cmd(verb + " " + arg(2) + " " + c04Q(arg(3)))
			r.stats[strings.ToLower(f[1])+"."+c04St(rep)]++
			src := s.sel
			if r.lostSession(i, rep) {
				return []string{arg(3), src}, false, nil
			}
			for _, u := range append(append([]string{}, rep.Untagged...), rep.Tagged) {
				if m := c04ReCopy.FindStringSubmatch(u); m != nil {
					ss, ds := c04ExpandSet(m[2]), c04ExpandSet(m[3])
					r.emit("P:%s:%d:%s:%s:%s:%s", c04EvName(src), s.uidv, c04EvName(arg(3)), m[1], c04JoinInts(ss), c04JoinInts(ds))
					r.stats["obs.copyuid"]++
					if len(ss) > 1 {
						r.stats["obs.copyuid.multi"]++
					}
				}
			}
			return []string{src, arg(3)}, false, nil
		case "DELTOP", "DELALL":
			if s.sel == "" || s.ro {
				return nil, false, nil
			}
			set := "*"
			if f[1] == "DELALL" {
				set = "1:*"
			}
			rep := c.Cmd("STORE " + set + ` +FLAGS.SILENT (\Deleted)`)
			if r.lostSession(i, rep) {
				return []string{s.sel}, false, nil
			}
			if rep.Status == "OK" {
				rep = c.Cmd("EXPUNGE")
				r.stats["expunge."+c04St(rep)]++
				if r.lostSession(i, rep) {
					return nil, false, nil
				}
			}
			return []string{s.sel}, false, nil
		case "CREATE":
			r.genCalls++ // state.Create calls Generate() first thing, whatever happens next
			lo := c04Clock()
			name := strings.ReplaceAll(arg(2), "+", " ")
			rep := c.Cmd("CREATE " + c04Q(name))
			r.stats["create."+c04St(rep)]++
			if r.lostSession(i, rep) {
				return nil, true, nil
			}
			if rep.Status == "OK" {
				// (missing superiors are created along with it, under the same value)
				for _, sup := range c04Superiors(strings.TrimRight(name, "/")) {
					if !r.exists[sup] {
						r.emit("K:%s:%d", c04EvName(sup), lo)
					}
				}
				r.emit("K:%s:%d", c04EvName(strings.TrimRight(name, "/")), lo)
			}
			return nil, true, nil
		case "DELETE":
			for j, o := range r.sess {
				if o != nil && j != i && o.sel == arg(2) {
					o.c.Close()
					r.sess[j] = nil
				}
			}
			rep := c.Cmd("DELETE " + c04Q(arg(2)))
			r.stats["delete."+c04St(rep)]++
			if rep.Status == "OK" {
				r.emit("D:%s", c04EvName(arg(2)))
				if s.sel == arg(2) {
					// its own state is invalid now: the server answers the next command with BYE
					s.c.Close()
					r.sess[i] = nil
					return nil, true, nil
				}
			}
			if r.lostSession(i, rep) {
				return nil, true, nil
			}
			return nil, true, nil
		case "RENAME":
			a, b := arg(2), arg(3)
			if strings.EqualFold(a, "INBOX") {
				r.genCalls++
			}
			var newSup []string // missing superiors of the new name are created, each under a value of its own
			for _, sup := range c04Superiors(b) {
				if !r.exists[sup] {
					newSup = append(newSup, sup)
					r.genCalls++
				}
			}
			lo := c04Clock()
			rep := c.Cmd("RENAME " + c04Q(a) + " " + c04Q(b))
			r.stats["rename."+c04St(rep)]++
			if rep.Status == "OK" {
				for _, sup := range newSup {
					r.emit("K:%s:%d", c04EvName(sup), lo)
				}
				if strings.EqualFold(a, "INBOX") {
					r.emit("K:%s:%d", c04EvName(b), lo) // a new mailbox that receives INBOX's messages
				} else {
					r.emit("M:%s:%s", c04EvName(a), c04EvName(b))
					for _, o := range r.sess {
						if o != nil && o.sel == a {
							o.sel = b
						}
					}
				}
			}
			if r.lostSession(i, rep) {
				return nil, true, nil
			}
			return nil, true, nil
		}
	}
	return nil, false, fmt.Errorf("unknown step %q", step)
}

// ---- generator ----------------------------------------------------------------------------------

func (r *c04Run) newMarker() string {
	r.markerN++
	return fmt.Sprintf("m%d", r.markerN)
}

func (r *c04Run) existing(except string) []string {
	var out []string
	for _, n := range r.poolNames() {
		if r.exists[n] && n != except {
			out = append(out, n)
		}
	}
	return out
}

func (r *c04Run) missing() []string {
	var out []string
	for _, n := range r.poolNames() {
		if !r.exists[n] {
			out = append(out, n)
		}
	}
	return out
}

// gen picks the next step(s) knowing what the harness has seen so far. genBudget bounds the number of
// Generate() calls a history causes (each may cost a second of CLOCKWAIT after a restart).
func (r *c04Run) gen(g *Rng, nsess int, genBudget int) []string {
	// sessions first
	for i := 0; i < nsess; i++ {
		if r.session(i) == nil {
			return []string{fmt.Sprintf("S%d LOGIN", i)}
		}
	}
	i := g.Intn(nsess)
	s := r.sess[i]
	S := func(format string, a ...any) string { return fmt.Sprintf("S%d ", i) + fmt.Sprintf(format, a...) }
	canGen := r.genCalls < genBudget
	withWait := func(steps ...string) []string {
		if r.behind {
			return append([]string{"X CLOCKWAIT"}, steps...)
		}
		return steps
	}
	ex := r.existing("")
	// multi-party patterns (o_uids_pattern.go) in the middle of everything else
	if r.genCalls+5 <= genBudget && g.Chance(1, 12) {
		o := -1
		if nsess >= 2 && g.Chance(2, 3) {
			o = (i + 1) % nsess
		}
		if st := r.c04PatFailed(g, i, o, r.poolNames()[1:], false); st != nil {
			r.stats["pattern.failed.gen"]++
			return withWait(st...)
		}
	}
	if g.Chance(1, 20) && len(ex) > 0 {
		o := -1
		if nsess >= 2 && g.Chance(2, 3) {
			o = (i + 1) % nsess
		}
		if st := r.c04PatFailedUID(g, i, o, Pick(g, ex)); st != nil {
			r.stats["pattern.faileduid.gen"]++
			return st
		}
	}
	if r.staleOK && g.Chance(1, 10) {
		var full []string
		for _, n := range ex {
			if len(r.content[n]) >= 2 {
				full = append(full, n)
			}
		}
		if len(full) > 0 {
			mb := Pick(g, full)
			o := -1
			if nsess >= 2 && g.Chance(3, 4) {
				o = (i + 1) % nsess
			}
			dsts := r.existing(mb)
			pre := []string{S("SELECT %s", mb)}
			if o >= 0 {
				pre = append(pre, c04S(o, "SELECT %s", mb))
			}
			if st := r.c04PatStale(g, i, o, mb, r.content[mb], dsts, r.scrambled); st != nil {
				r.stats["pattern.stale.gen"]++
				return append(pre, st...)
			}
		}
	}
	for tries := 0; tries < 50; tries++ {
		switch k := g.Intn(100); {
		case k < 8: // select something
			if len(ex) > 0 {
				verb := "SELECT"
				if g.Chance(1, 8) {
					verb = "EXAMINE"
				}
				return []string{S("%s %s", verb, Pick(g, ex))}
			}
		case k < 24: // append
			if len(ex) > 0 {
				mb := Pick(g, ex)
				if s.sel != "" && r.exists[s.sel] && g.Chance(1, 2) {
					mb = s.sel
				}
				if g.Chance(1, 7) { // a literal fetched from the server (X-Pm-Gluon-Id): the same message again
					var full []string
					for _, n := range ex {
						if len(r.content[n]) > 0 {
							full = append(full, n)
						}
					}
					if len(full) > 0 {
						src := Pick(g, full)
						return []string{S("REAPPEND %s %s %d", mb, src, Pick(g, r.content[src]).uid)}
					}
				}
				return []string{S("APPEND %s %s", mb, r.newMarker())}
			}
		case k < 46: // copy / move out of the selected mailbox
			if s.sel == "" || len(r.content[s.sel]) == 0 || !r.exists[s.sel] {
				var full []string
				for _, n := range ex {
					if len(r.content[n]) > 0 {
						full = append(full, n)
					}
				}
				if len(full) > 0 {
					return []string{S("SELECT %s", Pick(g, full))}
				}
				continue
			}
			ms := r.content[s.sel]
			dst := Pick(g, ex)
			if g.Chance(1, 10) {
				dst = s.sel // onto itself: every copied message is removed and re-added under a new UID
			}
			verb := Pick(g, []string{"COPY", "UIDCOPY", "COPY", "UIDCOPY", "MOVE", "UIDMOVE"})
			if s.ro && strings.HasSuffix(verb, "MOVE") {
				verb = "UIDCOPY"
			}
			uidForm := strings.HasPrefix(verb, "UID")
			var set string
			switch g.Intn(4) {
			case 0:
				set = "1:*"
			case 1: // one message
				k := g.Intn(len(ms))
				if uidForm {
					set = strconv.Itoa(ms[k].uid)
				} else {
					set = strconv.Itoa(k + 1)
				}
			default: // several, unordered and with repetitions unless -ascending (COPYUID pairing; the directed
				// scenario copyuid-order is the regression test of the defect this found)
				n := g.Range(2, 4)
				var ks []int
				for j := 0; j < n; j++ {
					ks = append(ks, g.Intn(len(ms)))
				}
				if !r.scrambled {
					sort.Ints(ks)
					uniq := ks[:1]
					for _, k := range ks[1:] {
						if k != uniq[len(uniq)-1] {
							uniq = append(uniq, k)
						}
					}
					ks = uniq
				}
				var p []string
				for _, k := range ks {
					if uidForm {
						p = append(p, strconv.Itoa(ms[k].uid))
					} else {
						p = append(p, strconv.Itoa(k+1))
					}
				}
				set = strings.Join(p, ",")
			}
			if !r.staleOK {
				// the session first catches up (NOOP + listing): a MOVE out of a view that still shows a message
				// another session has expunged answers with COPYUID sets of different lengths (directed scenario
				// copyuid-stale-move), which would end the judging of the history at that point
				return []string{S("VIEW"), S("%s %s %s", verb, set, dst)}
			}
			return []string{S("%s %s %s", verb, set, dst)}
		case k < 58: // expunge the highest UID (or everything), then add again
			if s.sel == "" || s.ro || len(r.content[s.sel]) == 0 || !r.exists[s.sel] {
				var full []string
				for _, n := range ex {
					if len(r.content[n]) > 0 {
						full = append(full, n)
					}
				}
				if len(full) > 0 && g.Chance(1, 2) {
					return []string{S("SELECT %s", Pick(g, full))}
				}
				continue
			}
			verb := "DELTOP"
			if g.Chance(1, 5) {
				verb = "DELALL"
			}
			out := []string{S(verb)}
			switch g.Intn(4) {
			case 0:
				out = append(out, S("APPEND %s %s", s.sel, r.newMarker()))
			case 1:
				if id, ok := r.conn.mboxID(s.sel); ok && id != "" {
					out = append(out, fmt.Sprintf("C NEW %s %s", r.newMarker(), s.sel))
				}
			case 2:
				out = append(out, "X RESTART", "S0 LOGIN", fmt.Sprintf("S0 APPEND %s %s", s.sel, r.newMarker()))
			}
			return out
		case k < 68: // connector additions
			var known []string
			for _, n := range ex {
				if _, ok := r.conn.mboxID(n); ok {
					known = append(known, n)
				}
			}
			if len(known) == 0 {
				continue
			}
			switch g.Intn(3) {
			case 0:
				mbs := []string{Pick(g, known)}
				if g.Chance(1, 3) {
					if o := Pick(g, known); o != mbs[0] {
						mbs = append(mbs, o)
					}
				}
				return []string{fmt.Sprintf("C NEW %s %s", r.newMarker(), strings.Join(mbs, ","))}
			case 1:
				n := g.Range(2, 4)
				var ms []string
				for j := 0; j < n; j++ {
					ms = append(ms, r.newMarker())
				}
				return []string{fmt.Sprintf("C BATCH %s %s", strings.Join(ms, ","), Pick(g, known))}
			default:
				r.conn.mu.Lock()
				var mk []string
				for m := range r.conn.msgIDs {
					mk = append(mk, m)
				}
				r.conn.mu.Unlock()
				if len(mk) == 0 {
					continue
				}
				sort.Strings(mk)
				return []string{fmt.Sprintf("C ADD %s %s", Pick(g, mk), Pick(g, known))}
			}
		case k < 75: // failed commands
			switch g.Intn(6) {
			case 0:
				if s.sel != "" && len(r.content[s.sel]) > 0 {
					return []string{S("COPY 1:* nosuchbox")}
				}
			case 1:
				return []string{S("APPEND nosuchbox %s", r.newMarker())}
			case 2:
				if len(ex) > 0 {
					return []string{S("APPENDBAD %s", Pick(g, ex))}
				}
			case 3: // everything ran inside the transaction (UIDs were assigned), then it is rolled back
				if len(ex) > 0 {
					mb := Pick(g, ex)
					return []string{"X FAILCOMMIT 1", S("APPEND %s %s", mb, r.newMarker()), "X FAILCOMMIT 0", S("APPEND %s %s", mb, r.newMarker())}
				}
			case 4:
				if s.sel != "" && len(r.content[s.sel]) > 0 && len(ex) > 0 {
					dst := Pick(g, ex)
					verb := Pick(g, []string{"COPY", "MOVE"})
					if s.ro {
						verb = "COPY"
					}
					return []string{"X FAILCOMMIT 1", S("%s 1:* %s", verb, dst), "X FAILCOMMIT 0", S("APPEND %s %s", dst, r.newMarker())}
				}
			case 5:
				if len(ex) > 0 {
					mb := Pick(g, ex)
					kind := Pick(g, []string{"create", "add", "move"})
					switch kind {
					case "create":
						return []string{"X FAILCONN create", S("APPEND %s %s", mb, r.newMarker()), S("APPEND %s %s", mb, r.newMarker())}
					default:
						if s.sel != "" && len(r.content[s.sel]) > 0 {
							verb := map[string]string{"add": "COPY", "move": "MOVE"}[kind]
							if s.ro {
								continue
							}
							return []string{"X FAILCONN " + kind, S("%s 1:* %s", verb, mb), S("%s 1 %s", verb, mb)}
						}
					}
				}
			}
		case k < 83: // delete + re-create of a name (bursts well within one second)
			if !canGen {
				continue
			}
			cands := r.existing("INBOX")
			if len(cands) == 0 {
				if ms := r.missing(); len(ms) > 0 {
					if g.Chance(1, 4) {
						return withWait(fmt.Sprintf("C MBCREATE %s", Pick(g, ms)))
					}
					return withWait(S("CREATE %s", Pick(g, ms)))
				}
				continue
			}
			n := Pick(g, cands)
			del := S("DELETE %s", n)
			if _, ok := r.conn.mboxID(n); ok && g.Chance(1, 5) {
				del = fmt.Sprintf("C MBDELETE %s", n)
			}
			mk := S("CREATE %s", n)
			if g.Chance(1, 4) {
				mk = fmt.Sprintf("C MBCREATE %s", n)
			}
			out := withWait(del, mk)
			if g.Chance(1, 3) && r.genCalls+2 < genBudget {
				out = append(out, S("DELETE %s", n), S("CREATE %s", n))
			}
			if g.Chance(1, 2) {
				out = append(out, S("APPEND %s %s", n, r.newMarker()))
			}
			return out
		case k < 86: // create a missing name / a failing create (consumes a generator value all the same)
			if !canGen {
				continue
			}
			if ms := r.missing(); len(ms) > 0 {
				return withWait(S("CREATE %s", Pick(g, ms)))
			}
			if len(ex) > 0 {
				return withWait(S("CREATE %s", Pick(g, ex)))
			}
		case k < 89: // rename; the target is a name that never carried a greater UIDVALIDITY (see the directed replays)
			src := r.existing("")
			if len(src) == 0 {
				continue
			}
			a := Pick(g, src)
			if strings.EqualFold(a, "INBOX") && !canGen {
				continue
			}
			var tg []string
			for _, b := range append(append([]string{}, r.poolNames()[1:]...), "mbD") {
				if !r.exists[b] && (r.hiUidv[b] <= r.uidv[a] || strings.EqualFold(a, "INBOX")) {
					tg = append(tg, b)
				}
			}
			if len(tg) == 0 {
				continue
			}
			b := Pick(g, tg)
			out := []string{S("RENAME %s %s", a, b)}
			if strings.EqualFold(a, "INBOX") {
				out = withWait(out...)
			}
			if b == "mbD" { // keep the pool small: move it back onto a pool name later through another rename
				out = append(out, S("APPEND %s %s", b, r.newMarker()))
			}
			return out
		case k < 91: // UIDVALIDITY bump of every mailbox
			if r.genCalls+len(r.exists)+1 > genBudget {
				continue
			}
			return withWait("C BUMP")
		case k < 96: // restart
			opt := ""
			if g.Chance(1, 3) {
				opt += " sync"
			}
			if g.Chance(1, 3) {
				opt += " drop"
			}
			return []string{"X RESTART" + opt}
		default:
			if s.sel != "" {
				if g.Chance(1, 3) {
					return []string{S("CLOSE")}
				}
				return []string{S("VIEW")}
			}
			if len(ex) > 0 {
				return []string{S("STATUS %s", Pick(g, ex))}
			}
		}
	}
	return []string{"X CHECK"}
}

// ---- one history --------------------------------------------------------------------------------

type c04Hist struct {
	steps   []string
	events  []string
	stats   map[string]int
	err     error
	aborted string
}

// c04RunHistory: replay != nil: these steps; script != nil: the script drives r.exec itself (scenarios that depend
// on what earlier steps showed); otherwise nsteps generated steps. A first step `X FIXTURE <name>` opens the
// server on a copy of that fixture (o_uids_fixture.go); with g != nil generated steps follow the replayed ones.
func c04RunHistory(g *Rng, nsteps int, genBudget int, scrambled bool, catchup string, replay []string, script func(*c04Run) error) *c04Hist {
	h := &c04Hist{stats: map[string]int{}}
	var r *c04Run
	var err error
	fixture := ""
	if len(replay) > 0 && strings.HasPrefix(replay[0], "X FIXTURE ") {
		fixture = strings.TrimSpace(strings.TrimPrefix(replay[0], "X FIXTURE "))
		r, err = c04NewRunFromFixture(fixture)
		if err != nil {
			h.steps = []string{replay[0]}
			h.err = err
			if m := c04ReCause.FindString(err.Error()); m != "" {
				h.aborted = m
			}
			return h
		}
		r.steps = append(r.steps, replay[0])
		replay = replay[1:]
		var pool []string
		for n := range r.exists {
			if n != "INBOX" && !strings.Contains(n, " ") {
				pool = append(pool, n)
			}
		}
		sort.Strings(pool)
		r.pool = append([]string{"INBOX"}, pool...)
	} else {
		r, err = c04NewRun()
	}
	if err != nil {
		h.err = fmt.Errorf("setup: %w", err)
		return h
	}
	r.scrambled, r.staleOK = scrambled, catchup == "never"
	if g != nil && catchup == "mixed" {
		r.staleOK = g.Chance(1, 2)
	}
	defer func() {
		h.steps, h.events, h.aborted = r.steps, r.ev, r.aborted
		for k, v := range r.stats {
			h.stats[k] += v
		}
		h.stats["restarts"] += r.restarts
		r.close()
	}()
	if script != nil {
		h.err = script(r)
		return h
	}
	if replay != nil {
		for _, st := range replay {
			if err := r.exec(st); err != nil {
				h.err = fmt.Errorf("step %q: %w", st, err)
				return h
			}
		}
		if fixture == "" || g == nil {
			if len(replay) == 0 || replay[len(replay)-1] != "X CHECK" {
				if err := r.exec("X CHECK"); err != nil {
					h.err = err
				}
			}
			return h
		}
	}
	nsess := g.Range(1, 2)
	if fixture != "" {
		// the recorded history goes on: generated steps over the fixture's mailboxes, then restart + checkpoint
		for k := 0; k < nsteps; {
			for _, st := range r.gen(g, nsess, genBudget) {
				k++
				if err := r.exec(st); err != nil {
					h.err = fmt.Errorf("step %q: %w", st, err)
					return h
				}
			}
		}
		for _, st := range []string{"X RESTART", "X CHECK"} {
			if err := r.exec(st); err != nil {
				h.err = fmt.Errorf("step %q: %w", st, err)
				return h
			}
		}
		return h
	}
	// a few mailboxes to start with (one through the connector, so that connector additions have a target)
	init := []string{"S0 LOGIN", "C MBCREATE mbA", "S0 CREATE mbB"}
	if g.Chance(1, 2) {
		init = append(init, "S0 CREATE mbC")
	}
	for _, st := range init {
		if err := r.exec(st); err != nil {
			h.err = fmt.Errorf("step %q: %w", st, err)
			return h
		}
	}
	for len(r.steps) < nsteps {
		for _, st := range r.gen(g, nsess, genBudget) {
			if err := r.exec(st); err != nil {
				h.err = fmt.Errorf("step %q: %w", st, err)
				return h
			}
		}
	}
	// final: a restart and a full checkpoint
	for _, st := range []string{"X RESTART", "X CHECK"} {
		if err := r.exec(st); err != nil {
			h.err = fmt.Errorf("step %q: %w", st, err)
			return h
		}
	}
	return h
}

// ---- directed scenarios -------------------------------------------------------------------------

// c04DirectedUidvRestart: DESIGN section 9 #12 / theorem uidv_restart_witness on the real server: a burst of
// CREATEs within one second, restart within the burst length, DELETE + CREATE of the last name.
var c04DirectedUidvRestart = []string{
	"S0 LOGIN",
	"S0 CREATE w1", "S0 CREATE w2", "S0 CREATE w3", "S0 CREATE w4", "S0 CREATE w5", "S0 CREATE w6", "S0 CREATE w7", "S0 CREATE w8",
	"S0 APPEND w8 m1",
	"X RESTART",
	"S0 LOGIN",
	"S0 DELETE w8",
	"S0 CREATE w8",
	"S0 APPEND w8 m2",
	"X CHECK",
}

// c04DirectedCopyuidOrder: `UID COPY 2,1` copies UID 2 first, but response.ItemCopyUID sorts the source
// set and the destination set independently, so COPYUID pairs source 1 with the UID that holds message 2.
var c04DirectedCopyuidOrder = []string{
	"S0 LOGIN",
	"S0 CREATE src", "S0 CREATE dst",
	"S0 APPEND src m1", "S0 APPEND src m2",
	"S0 SELECT src",
	"S0 UIDCOPY 2,1 dst",
	"X CHECK",
}

// c04DirectedCopyuidStaleMove: session 1 still sees UID 3, which session 0 has expunged; its MOVE 1:3 moves two
// messages (actionMoveMessages keeps what is still in the source mailbox) but Mailbox.Move builds the COPYUID
// source set from the snapshot: three source UIDs, two destination UIDs.
// c04DirectedCopyuidStaleCopy: as copyuid-stale-move with COPY: session 1 still sees UID 2, which session 0 has
// expunged, and copies 1:4. Whether the vanished message is copied along (it comes back in the destination) or left
// out, the two sets of COPYUID must have equal lengths and pair every source UID with the UID that holds its message.
var c04DirectedCopyuidStaleCopy = []string{
	"S0 LOGIN", "S1 LOGIN",
	"S0 CREATE src", "S0 CREATE dst",
	"S0 APPEND src m1", "S0 APPEND src m2", "S0 APPEND src m3", "S0 APPEND src m4",
	"S0 SELECT src", "S1 SELECT src", "S1 VIEW",
	"S0 DEL 2",
	"S1 BUSY fetch",
	"S1 UIDCOPY 1:4 dst",
	"S1 COPY 4,1:2 dst",
	"X CHECK",
}

var c04DirectedCopyuidStaleMove = []string{
	"S0 LOGIN", "S1 LOGIN",
	"S0 CREATE src", "S0 CREATE dst",
	"S0 APPEND src m1", "S0 APPEND src m2", "S0 APPEND src m3",
	"S0 SELECT src", "S1 SELECT src",
	"S0 DELTOP",
	"S1 UIDMOVE 1:3 dst",
	"X CHECK",
}

// c04DirectedRenameOntoUsed: RENAME keeps the mailbox's UIDVALIDITY, so renaming an older mailbox onto a
// name that was used (and deleted) later gives that name a smaller UIDVALIDITY than it had before.
var c04DirectedRenameOntoUsed = []string{
	"S0 LOGIN",
	"S0 CREATE old", "S0 APPEND old m1",
	"S0 CREATE name", "S0 APPEND name m2",
	"S0 DELETE name",
	"S0 RENAME old name",
	"X CHECK",
}

// c04DirectedRollbackTold: a command whose write transaction ran completely and was then rolled back (the UID it
// was given inside the transaction goes back to the pool) while ANOTHER session has the mailbox selected: nobody may
// have been told about that UID (updates are queued after the commit only), and the next addition takes it.
var c04DirectedRollbackTold = []string{
	"S0 LOGIN", "S1 LOGIN",
	"S0 CREATE box", "S0 APPEND box m1",
	"S0 SELECT box", "S1 SELECT box",
	"X FAILCOMMIT 1", "S0 APPEND box m2", "X FAILCOMMIT 0",
	"S1 VIEW",
	"S1 APPEND box m3",
	"S0 VIEW", "S1 VIEW",
	"X FAILCOMMIT 1", "S1 UIDCOPY 1 box", "X FAILCOMMIT 0",
	"S0 VIEW",
	"S0 APPEND box m4",
	"X CHECK",
}

// ---- oracle -------------------------------------------------------------------------------------

var c04ReCause = regexp.MustCompile(`cause=([A-Za-z0-9_-]+)`)

func c04ReadReplay(path string) ([]string, error) {
	b, err := os.ReadFile(path)
	if err != nil {
		return nil, err
	}
	var st []string
	for i, l := range strings.Split(string(b), "\n") {
		l = strings.TrimSpace(l)
		if i == 0 || l == "" || strings.HasPrefix(l, "#") {
			continue
		}
		st = append(st, l)
	}
	return st, nil
}

func runC04UidsOracle(args []string) int {
	fs := flag.NewFlagSet("c04uids", flag.ExitOnError)
	seed := fs.Uint64("seed", 1, "")
	out := fs.String("out", "", "")
	replayDir := fs.String("replaydir", ".", "")
	replay := fs.String("replay", "", "")
	n := fs.Int("n", 60, "histories")
	steps := fs.Int("steps", 30, "steps per history (at least)")
	par := fs.Int("par", 16, "histories run concurrently (they mostly wait for each other's barriers and for the clock)")
	genBudget := fs.Int("genbudget", 10, "UIDVALIDITY generator calls a history may cause (bounds the clock wait after a restart)")
	directed := fs.String("directed", "uidv-restart,copyuid-order,copyuid-stale-move,copyuid-stale-copy,rename-onto-used,rollback-told", "directed scenarios run first (comma separated; `none`)")
	catchup := fs.String("catchup", "mixed", "always | never | mixed: a session catches up (NOOP + listing) before COPY/MOVE; before the fix of the MOVE COPYUID length defect (directed scenario copyuid-stale-move) a history without it stopped being judged there")
	dump := fs.Bool("log", false, "print the observation log of every history to stderr")
	mkfixture := fs.String("mkfixture", "", "write the upgrade fixtures (database + store + expectations) of the tree this binary is built against into this directory and exit (o_uids_fixture.go)")
	races := fs.String("race", "default", "schedule control inside one command (o_uids_race.go): comma separated list of select,examine,status,append,copy,move | all | none; `default`: all; every database-call boundary of the command is tried")
	raceAll := fs.Bool("raceall", true, "every second-party kind (another session's APPEND, its COPY, connector MessageCreated, connector MessagesCreated) at every boundary; false: one per boundary, rotating")
	fixtures := fs.String("fixtures", "all", "upgrade fixtures ($VERIF_CORPUS/fixtures/*) to open and continue: all | none | comma separated names")
	fxSteps := fs.Int("fxsteps", 24, "generated steps after a fixture has been opened and checked")
	patterns := fs.Int("patterns", 10, "pattern histories per kind (o_uids_pattern.go): failed command / other party on the same name / success; stale-view COPY and MOVE")
	patRounds := fs.Int("patrounds", 5, "pattern rounds per pattern history")
	ascending := fs.Bool("ascending", false, "generated COPY/MOVE sets are ascending and name no message twice (before fix 071c9b5 an unordered set made the server pair the COPYUID sets wrongly: directed scenario copyuid-order)")
	_ = fs.Parse(args)
	if *mkfixture != "" {
		return c04MakeFixtures(*mkfixture)
	}

	res := &OracleResult{Stats: map[string]int{}, Samples: []any{}, Violations: []OracleViol{}}
	type job struct {
		name   string
		replay []string
		g      *Rng
		h      *c04Hist
		script func(*c04Run) error
		nsteps int
	}
	var jobs []*job
	if *replay != "" {
		st, err := c04ReadReplay(*replay)
		if err != nil {
			fmt.Fprintln(os.Stderr, err)
			return 2
		}
		jobs = append(jobs, &job{name: "replay", replay: st})
	} else {
		for _, d := range strings.Split(*directed, ",") {
			switch d {
			case "uidv-restart":
				jobs = append(jobs, &job{name: "directed:" + d, replay: c04DirectedUidvRestart})
			case "copyuid-order":
				jobs = append(jobs, &job{name: "directed:" + d, replay: c04DirectedCopyuidOrder})
			case "copyuid-stale-move":
				jobs = append(jobs, &job{name: "directed:" + d, replay: c04DirectedCopyuidStaleMove})
			case "copyuid-stale-copy":
				jobs = append(jobs, &job{name: "directed:" + d, replay: c04DirectedCopyuidStaleCopy})
			case "rename-onto-used":
				jobs = append(jobs, &job{name: "directed:" + d, replay: c04DirectedRenameOntoUsed})
			case "rollback-told":
				jobs = append(jobs, &job{name: "directed:" + d, replay: c04DirectedRollbackTold})
			}
		}
		if dir := os.Getenv("VERIF_CORPUS"); dir != "" {
			files, _ := filepath.Glob(filepath.Join(dir, "*.c04uids"))
			sort.Strings(files)
			for _, f := range files {
				if st, err := c04ReadReplay(f); err == nil {
					jobs = append(jobs, &job{name: "corpus:" + filepath.Base(f), replay: st})
				}
			}
		}
		g := NewRng(*seed)
		// multi-party patterns: failed command -> other party's operations on the same name -> success; stale-view COPY/MOVE
		for k := 0; k < *patterns; k++ {
			for _, kind := range []string{"failed", "stale"} {
				jobs = append(jobs, &job{name: fmt.Sprintf("pattern:%s-seed%d-p%d", kind, *seed, k), script: c04PatternScript(kind, g.Fork(), *patRounds, !*ascending)})
			}
		}
		// upgrade fixtures: opened by the tree under test, compared with what their writer showed, continued
		if *fixtures != "none" {
			for _, fx := range c04FixtureNames() {
				if *fixtures != "all" && !strings.Contains(","+*fixtures+",", ","+fx+",") {
					continue
				}
				pre := []string{"X FIXTURE " + fx, "X CHECK", "S0 LOGIN"}
				exp, err := c04ReadExpect(filepath.Join(c04FixtureDir(fx), "expect.txt"))
				if err == nil {
					// first of all every mailbox receives a message: it must get the recorded UIDNEXT or more
					for k, m := range exp.mboxes {
						if !strings.Contains(m.name, " ") {
							pre = append(pre, fmt.Sprintf("S0 APPEND %s fx%d", m.name, k))
						}
					}
				}
				jobs = append(jobs, &job{name: "fixture:" + fx, replay: pre, g: g.Fork(), nsteps: *fxSteps})
				res.Stats["fixtures"]++
			}
		}
		// schedule control inside one command
		if *races != "none" {
			every := *raceAll
			for _, kind := range c04RaceOrder {
				if *races != "default" && *races != "all" && !strings.Contains(","+*races+",", ","+kind+",") {
					continue
				}
				jobs = append(jobs, &job{name: "race:" + kind, script: c04RaceScript(kind, g.Fork(), every)})
			}
		}
		for k := 0; k < *n; k++ {
			jobs = append(jobs, &job{name: fmt.Sprintf("seed%d-h%d", *seed, k), g: g.Fork()})
		}
	}
	sem := make(chan struct{}, *par)
	var wg sync.WaitGroup
	for _, j := range jobs {
		wg.Add(1)
		sem <- struct{}{}
		go func(j *job) {
			defer wg.Done()
			defer func() { <-sem }()
			defer func() {
				if p := recover(); p != nil {
					j.h = &c04Hist{stats: map[string]int{}, err: fmt.Errorf("harness panic: %v", p)}
				}
			}()
			ns := *steps
			if j.nsteps > 0 {
				ns = j.nsteps
			}
			j.h = c04RunHistory(j.g, ns, *genBudget, !*ascending, *catchup, j.replay, j.script)
		}(j)
	}
	wg.Wait()

	// the Lean judge decides
	var lines []string
	for _, j := range jobs {
		lines = append(lines, "judge-c04-uids "+strings.Join(j.h.events, " "))
	}
	verdicts, jerr := leanJudge(lines)
	if jerr != nil || len(verdicts) != len(lines) {
		p := filepath.Join(*replayDir, "C04-c04uids-judge.txt")
		_ = os.MkdirAll(*replayDir, 0o755)
		_ = os.WriteFile(p, []byte(fmt.Sprintf("oracle c04uids\n# the Lean judge could not be run: %v (%d answers for %d lines)\n", jerr, len(verdicts), len(lines))), 0o644)
		res.Violations = append(res.Violations, OracleViol{Desc: fmt.Sprintf("Lean judge judge-c04-uids could not be run: %v", jerr), Replay: p})
		verdicts = make([]string, len(lines))
	}
	reported := map[string]int{}
	for k, j := range jobs {
		h := j.h
		res.Evaluations++
		res.Stats["steps"] += len(h.steps)
		for key, v := range h.stats {
			res.Stats[key] += v
		}
		v := verdicts[k]
		if *dump {
			fmt.Fprintf(os.Stderr, "== %s\n   steps : %s\n   events: %s\n   judge : %s\n", j.name, strings.Join(h.steps, " | "), strings.Join(h.events, " "), v)
		}
		w := strings.Fields(v)
		if len(w) >= 2 {
			res.Stats["judge."+w[0]+":"+w[1]]++
		}
		if strings.HasPrefix(v, "ok nontrivial") {
			res.DistinctNontrivial++
			for _, kv := range w[2:] { // what the judged histories exercised, summed
				if k, x, ok := strings.Cut(kv, "="); ok {
					n, _ := strconv.Atoi(x)
					res.Stats["judged."+k] += n
				}
			}
		}
		if len(res.Samples) < 2 && j.g != nil {
			ev := h.events
			if len(ev) > 40 {
				ev = ev[:40]
			}
			res.Samples = append(res.Samples, map[string]any{"oracle": "c04uids", "history": h.steps, "events_head": ev, "judge": v})
		}
		var desc string
		switch {
		case h.err != nil:
			cause := "cause=history-aborted"
			if h.aborted != "" {
				cause = h.aborted
			}
			desc = fmt.Sprintf("history aborted (%s): %v", cause, h.err)
			if strings.HasPrefix(v, "violation") {
				desc += "; judge on the log so far: " + v
			}
		case strings.HasPrefix(v, "violation"):
			desc = v
		case strings.HasPrefix(j.name, "directed:"):
			res.Stats[j.name+".not-reproduced"]++
			continue
		default:
			continue
		}
		if strings.HasPrefix(j.name, "directed:") && strings.HasPrefix(v, "violation") {
			res.Stats["directed.reproduced"]++
		}
		sig := "other"
		if m := c04ReCause.FindStringSubmatch(desc); m != nil {
			sig = m[1]
		}
		if reported[sig] >= 2 {
			res.Stats["violations.unreported."+sig]++
			continue
		}
		reported[sig]++
		text := "oracle c04uids\n" + strings.Join(h.steps, "\n") + "\n"
		text += fmt.Sprintf("# property C04 (%s): %s\n", j.name, desc)
		text += "# observation log given to judge-c04-uids (this run):\n"
		for _, e := range h.events {
			text += "#   " + e + "\n"
		}
		text += "# replay: ./check C04 --replay <this file>   (real time matters: UIDVALIDITY comes from the wall clock)\n"
		name := fmt.Sprintf("C04-c04uids-%s-%d-%d.txt", sig, *seed, len(res.Violations))
		path := filepath.Join(*replayDir, name)
		_ = os.MkdirAll(*replayDir, 0o755)
		_ = os.WriteFile(path, []byte(text), 0o644)
		res.Violations = append(res.Violations, OracleViol{Desc: "C04 " + j.name + ": " + desc, Replay: path})
	}
	if *out != "" {
		writeResult(*out, res)
	}
	for _, v := range res.Violations {
		fmt.Fprintln(os.Stderr, "VIOL", v.Desc, v.Replay)
	}
	return 0
}

func init() { RegisterOracle(&Oracle{Name: "c04uids", Run: runC04UidsOracle}) }
