package main

// Directed scenarios of the oracle `c20append` (property C20).  The random walk of o_append.go draws
// every step independently; the interactions C20 depends on need several things to line up (the
// same bytes handed over twice with different remote decisions and then carried out of the
// recovery mailbox into a particular kind of destination; a message whose content hash cannot be
// computed going through the rejection path; a management command that names the recovery
// mailbox in a spelling that is not the canonical one).  The themes below build such histories on
// purpose.  They are adaptive: each step is drawn knowing the observed state, and the outcome of
// the remote calls the step will make is planned just before it (c20ScriptCursor.plan), so the
// failure script of the replay file is the one that was played.
//
//	life   MESSAGE SHAPES x REMOTE DECISION x DESTINATION: a palette of 2-3 messages drawn from all
//	       MIME shapes (c20Shapes; at least one whose hash fails, most of the time), each rejected
//	       by the remote (once or twice), some of them then accepted into a normal mailbox (so the
//	       remote holds the same bytes and de-duplicates the import), then COPY / MOVE out of the
//	       recovery mailbox - one, several, all - into the mailbox that holds the duplicate,
//	       another mailbox, or a fresh one, with LIST / RESTART in between, and a rejected APPEND
//	       at the end (the recovery path still works).
//	names  NAME SPELLINGS: every command that takes a mailbox name x every spelling of the recovery
//	       mailbox's name (letter case, blanks, hierarchy separator before / after / doubled,
//	       inferior and superior path forms, IMAP literal, modified UTF-7), with the recovery
//	       mailbox empty or not; spellings outside the (flat-name) Lean model come last: the model
//	       comparison stops there, the judge goes on.

import (
	"fmt"
	"sort"
	"strconv"
	"strings"

	"github.com/ProtonMail/gluon/imap"
	"github.com/ProtonMail/gluon/rfc822"
	"github.com/ProtonMail/gluon/rfcvalidation"
)

// c20Classify: what the three functions every APPENDed literal meets say about it
func c20Classify(lit []byte) (valid, parsed, hashed bool) {
	defer func() { _ = recover() }()
	valid = rfcvalidation.ValidateMessageHeaderFields(lit) == nil
	_, perr := imap.NewParsedMessage(lit)
	parsed = perr == nil
	_, herr := rfc822.GetMessageHash(lit)
	hashed = herr == nil
	return
}

// c20HashFails: the shapes for which rfc822.GetMessageHash returns an error (checked against the
// real function and against the Lean model's table by c20ShapeTie).
var c20HashFailShapes = []int{2, 4, 8, 12, 13}

func c20PickHV(g *Rng, unhashable bool) int {
	n := g.Range(1, 3)
	if unhashable {
		return 100*Pick(g, c20HashFailShapes) + n
	}
	return 100*g.Intn(len(c20Shapes)) + n
}

type c20Msg struct{ hv, uv int }

func (m c20Msg) key() string { return fmt.Sprintf("%d.%d", m.hv, m.uv) }

func (r *c20Runner) recUIDs() []int {
	var uids []int
	for u := range r.lastObs[c20Recovery] {
		uids = append(uids, u)
	}
	sort.Ints(uids)
	return uids
}

// keyAt: which message is under (mailbox, uid) in the last observation
func (r *c20Runner) keyAt(box string, uid int) string {
	lit, ok := r.lastObs[box][uid]
	if !ok {
		return ""
	}
	k, _ := c20Decode(lit)
	return k
}

func (r *c20Runner) normalBoxes() []string {
	var out []string
	for n := range r.lastObs {
		if n != c20Recovery {
			out = append(out, n)
		}
	}
	sort.Strings(out)
	return out
}

func (r *c20Runner) holders(key string) []string {
	var out []string
	for _, n := range r.normalBoxes() {
		for u := range r.lastObs[n] {
			if r.keyAt(n, u) == key {
				out = append(out, n)
				break
			}
		}
	}
	return out
}

// c20Life: the life-cycle theme.  Returns false when the sequence was aborted.
func (r *c20Runner) c20Life(g *Rng, budget int) bool {
	run := func(st string) bool { budget--; return r.runOne(st) }
	plan := func(letters string) { r.cur.plan(c20KCreate, letters) }
	for _, st := range []string{"CREATE mA", "CREATE mB"} {
		if !run(st) {
			return false
		}
	}
	// palette
	var pal []c20Msg
	k := g.Range(2, 3)
	for i := 0; i < k; i++ {
		m := c20Msg{c20PickHV(g, i == 0 && g.Chance(3, 4)), g.Range(1, 2)}
		dup := false
		for _, p := range pal {
			if p.hv == m.hv {
				dup = true // same hashed part, other Date: the known near-duplicate case; keep it rare
			}
		}
		if dup && g.Chance(3, 4) {
			m.hv += 3
		}
		pal = append(pal, m)
	}
	targets := []string{"INBOX", "mA", "mB"}
	accepted := map[string]bool{}
	// phase A: rejected by the remote
	for _, m := range pal {
		plan("e")
		if !run(fmt.Sprintf("APPEND %s %d %d -", Pick(g, targets), m.hv, m.uv)) {
			return false
		}
		if g.Chance(1, 3) {
			plan("e")
			if !run(fmt.Sprintf("APPEND %s %d %d -", Pick(g, targets), m.hv, m.uv)) {
				return false
			}
		}
	}
	if g.Chance(1, 3) {
		if !run(Pick(g, []string{"LIST", "RESTART"})) {
			return false
		}
	}
	// phase B: the same bytes again, accepted
	for i, m := range pal {
		if i == 0 || g.Chance(2, 3) {
			plan(Pick(g, []string{"o", "o", "o", "d"}))
			if !run(fmt.Sprintf("APPEND %s %d %d -", Pick(g, targets), m.hv, m.uv)) {
				return false
			}
			accepted[m.key()] = true
		}
	}
	// phase C: out of the recovery mailbox
	fresh := []string{"mC", "mD"}
	for round := 0; round < 4 && budget > 3; round++ {
		uids := r.recUIDs()
		if len(uids) == 0 {
			break
		}
		var sel []int
		switch g.Intn(3) {
		case 0:
			sel = []int{Pick(g, uids)}
		case 1:
			sel = uids
		default:
			for _, u := range uids {
				if g.Bool() {
					sel = append(sel, u)
				}
			}
			if len(sel) == 0 {
				sel = []int{uids[0]}
			}
		}
		firstKey := r.keyAt(c20Recovery, sel[0])
		dst := ""
		switch g.Intn(3) {
		case 0: // the mailbox that already holds the same bytes
			if h := r.holders(firstKey); len(h) > 0 {
				dst = c20Unname(Pick(g, h))
			}
		case 1: // a fresh mailbox
			if len(fresh) > 0 {
				dst, fresh = fresh[0], fresh[1:]
				if !run("CREATE " + dst) {
					return false
				}
			}
		}
		if dst == "" { // another mailbox: one that does not hold it, if there is one
			hold := map[string]bool{}
			for _, h := range r.holders(firstKey) {
				hold[h] = true
			}
			var others []string
			for _, n := range r.normalBoxes() {
				if !hold[n] {
					others = append(others, n)
				}
			}
			if len(others) == 0 {
				others = r.normalBoxes()
			}
			dst = c20Unname(Pick(g, others))
		}
		letters := ""
		for _, u := range sel {
			switch {
			case g.Chance(1, 12):
				letters += "e"
			case accepted[r.keyAt(c20Recovery, u)] && g.Chance(4, 5):
				letters += "d" // the remote recognises the bytes: same remote ID again
			case g.Chance(1, 6):
				letters += "d"
			default:
				letters += "o"
			}
		}
		plan(letters)
		op := Pick(g, []string{"COPY", "MOVE"})
		var us []string
		for _, u := range sel {
			us = append(us, strconv.Itoa(u))
		}
		if !run(fmt.Sprintf("%s %s %s %s", op, c20Unname(c20Recovery), strings.Join(us, ","), dst)) {
			return false
		}
		if g.Chance(1, 4) {
			if !run(Pick(g, []string{"LIST", "RESTART"})) {
				return false
			}
		}
	}
	// phase D: the recovery path still works
	m := Pick(g, pal)
	if g.Bool() {
		m = c20Msg{c20PickHV(g, g.Bool()) + 5, 3}
	}
	plan("e")
	if !run(fmt.Sprintf("APPEND %s %d %d -", Pick(g, targets), m.hv, m.uv)) {
		return false
	}
	return run("LIST")
}

// ---- names ------------------------------------------------------------------------------------

// spellings of the recovery mailbox's name the flat-name Lean model has an answer for
var c20FlatSpellings = []string{
	"Recovered+Messages", "recovered+messages", "RECOVERED+MESSAGES", "rECOVERED+mESSAGES",
	"@l@Recovered+Messages", "@l@recovered+MESSAGES", "@u@Recovered+Messages", "@u@recovered+messages",
	"Recovered+Messages/", "recovered+messages/", "@l@Recovered+Messages/", "Recovered+Messages//",
	"Recovered+Messages+", "Recovered++Messages", "Recovered+Messages/x", "RECOVERED+MESSAGES/x/y",
	"Recovered+Messages/+",
}

// ... and the ones it has none for (hierarchy): leading separator, superior / inferior path forms
var c20DeepSpellings = []string{
	"/Recovered+Messages", "//Recovered+Messages", "+Recovered+Messages", "+Recovered+Messages/",
	"x/Recovered+Messages", "x/recovered+messages/", "INBOX/Recovered+Messages", "Recovered+Messages/x", "recovered+messages/x/",
	"@l@/Recovered+Messages", "Recovered+Messages/Recovered+Messages",
}

var c20NameOps = []string{"CREATE", "DELETE", "DELETE", "RENAME-FROM", "RENAME-TO", "SUBSCRIBE", "UNSUBSCRIBE", "APPEND", "COPY", "MOVE", "SELECT", "EXAMINE", "STATUS"}

func (r *c20Runner) c20NameStep(g *Rng, op, sp string) (string, bool) {
	switch op {
	case "RENAME-FROM":
		return "RENAME " + sp + " " + Pick(g, []string{"mX", "mY", "mZ"}), true
	case "RENAME-TO":
		var cands []string
		for _, n := range r.normalBoxes() {
			if n != "INBOX" && !strings.ContainsAny(n, "/ ") {
				cands = append(cands, n)
			}
		}
		if len(cands) == 0 {
			return "", false
		}
		return "RENAME " + c20Unname(Pick(g, cands)) + " " + sp, true
	case "APPEND":
		if t, rest := c20SplitTag(sp); t == 'l' {
			sp = rest // two literals in one command are not sent
		}
		r.cur.plan(c20KCreate, "o")
		return fmt.Sprintf("APPEND %s %d %d -", sp, g.Range(1, 3), g.Range(1, 2)), true
	case "COPY", "MOVE":
		src := c20Unname(c20Recovery)
		uids := r.recUIDs()
		if len(uids) == 0 || g.Chance(1, 3) {
			src, uids = "", nil
			for _, n := range r.normalBoxes() {
				if len(r.lastObs[n]) > 0 {
					src = c20Unname(n)
					for u := range r.lastObs[n] {
						uids = append(uids, u)
					}
					sort.Ints(uids)
					break
				}
			}
			if src == "" {
				return "", false
			}
		}
		r.cur.plan(c20KCreate, "o")
		return fmt.Sprintf("%s %s %d %s", op, src, Pick(g, uids), sp), true
	}
	return op + " " + sp, true
}

func (r *c20Runner) c20Names(g *Rng, budget int) bool {
	run := func(st string) bool { budget--; return r.runOne(st) }
	for _, st := range []string{"CREATE mA", "CREATE mB"} {
		if !run(st) {
			return false
		}
	}
	// something accepted (a source for COPY/MOVE into ...), and - most of the time - something recovered
	r.cur.plan(c20KCreate, "o")
	if !run(fmt.Sprintf("APPEND mA %d 1 -", c20PickHV(g, false))) {
		return false
	}
	if g.Chance(3, 4) {
		r.cur.plan(c20KCreate, "e")
		if !run(fmt.Sprintf("APPEND mB %d 1 -", c20PickHV(g, g.Chance(1, 3)))) {
			return false
		}
	}
	start := budget
	for budget > 2 {
		pool, deep := c20FlatSpellings, false
		if budget < start*2/5 {
			pool, deep = append(append([]string{}, c20DeepSpellings...), c20FlatSpellings[8:]...), true
		}
		op, sp := Pick(g, c20NameOps), Pick(g, pool)
		if op == "RENAME-TO" && !deep && strings.Contains(sp, "/") {
			continue // RENAME to a hierarchical name: outside the Lean model, kept for the tail
		}
		// RENAME x "Recovered Messages/y" is accepted (known finding of C14, rename-into-recovery /
		// rename-skips-validation) and makes LIST show the recovery mailbox as the parent even while it
		// is empty.  That consequence is not reported a second time here: the step is made only while
		// the recovery mailbox holds a message, and the inferior is deleted again right away (which
		// must not touch the recovery mailbox either).
		inferior := op == "RENAME-TO" && strings.HasPrefix(strings.ToLower(c20Name(sp)), "recovered messages/")
		if inferior && (len(r.recUIDs()) == 0 || strings.Contains(c20Name(sp)[len("recovered messages/"):], "/")) {
			continue // (a deeper path would leave intermediate inferiors behind)
		}
		st, ok := r.c20NameStep(g, op, sp)
		if !ok {
			continue
		}
		if !run(st) {
			return false
		}
		if inferior && r.results[len(r.results)-1] == "ok" {
			_, bare := c20SplitTag(sp)
			if !run("DELETE " + bare) {
				return false
			}
		}
		if g.Chance(1, 10) {
			if !run("LIST") {
				return false
			}
		}
	}
	// afterwards a rejected message is still kept
	r.cur.plan(c20KCreate, "e")
	if !run(fmt.Sprintf("APPEND INBOX %d 3 -", c20PickHV(g, false)+6)) {
		return false
	}
	return run("LIST")
}

// ---- the hash-failure table: model <-> code -------------------------------------------------

// c20ShapeTie: for every MIME shape, does rfc822.GetMessageHash fail exactly when the Lean model
// (c20-shape, Model/Append.lean `leavesHashOk` over the shape's leaves) says so, and do
// rfcvalidation / imap.NewParsedMessage accept the literal (so that it reaches the recovery path)?
func c20ShapeTie() []string {
	var bad []string
	for sh := range c20Shapes {
		lit := c20Message(100*sh+1, 1, "")
		v, p, h := c20Classify(lit)
		want := true
		for _, f := range c20HashFailShapes {
			if f == sh {
				want = false
			}
		}
		if !v || !p {
			bad = append(bad, fmt.Sprintf("shape-table-mismatch@0 shape %d (%s): the literal does not reach the recovery path (valid=%v parsed=%v)", sh, c20Shapes[sh].name, v, p))
		}
		if h != want {
			bad = append(bad, fmt.Sprintf("shape-table-mismatch@0 shape %d (%s): rfc822.GetMessageHash succeeds=%v, the harness table says %v", sh, c20Shapes[sh].name, h, want))
		}
		if ans, err := leanJudge([]string{fmt.Sprintf("c20-shape %d", sh)}); err == nil && len(ans) == 1 {
			if (ans[0] == "hash-ok") != h || (ans[0] != "hash-ok" && ans[0] != "hash-fails") {
				bad = append(bad, fmt.Sprintf("shape-table-mismatch@0 shape %d (%s): rfc822.GetMessageHash succeeds=%v, the Lean model says %s", sh, c20Shapes[sh].name, h, ans[0]))
			}
		}
	}
	return bad
}
