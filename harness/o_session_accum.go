package main

// Oracle `c11accum` (property C11, clause "the server does not GROW WITHOUT BOUND"): the ACCUMULATION dimension.
//
// Oracle c11session looks at one byte stream at a time: what a single stream does to the server's resident set.
// A structure behind a command whose size the client controls ACROSS commands (a cache keyed by client strings, a
// log that is never trimmed, a per-session or process-wide table that only grows) does not show there: every
// command is answered correctly and promptly, and it is the sum over a long run of pairwise DISTINCT commands that
// grows. This oracle sends such runs: for every kind of command that carries client-chosen strings — before
// authentication (LOGIN, ID, long tags, unknown commands, malformed lines) and after it (LIST / LSUB, STATUS, SELECT
// / EXAMINE, CREATE + DELETE, RENAME, SUBSCRIBE, COPY / MOVE, SEARCH, FETCH sections and header-field lists, STORE
// keywords, APPEND + EXPUNGE), and for whole sessions (kind `sessions`: one connection per group, ended by LOGOUT,
// abruptly, or in the middle of a line) — N groups of commands whose strings are pairwise distinct, individually modest
// (1–16 KB by default), well-formed or not, one after the other on ONE session against the real server in a child
// process (`vh oracle c11child`), and measures the child
//
//   - LIVE Go heap: runtime.MemStats.HeapAlloc after two runtime.GC() and debug.FreeOSMemory(), asked for through
//     the child's side channel (o_session_child.go): independent of GOGC, of allocator slack and of what the
//     kernel has taken back;
//   - resident set (/proc/<pid>/status VmRSS, read after the same forced collection): memory outside the Go heap
//     (cgo: sqlite) would show here only;
//   - number of goroutines;
//
// after a warm-up (m0), after N/2 groups (m1), after N groups (m2) and after the session was closed (m3). What one
// command leaves behind must not add up: when BOTH halves grew by more than c11aFloor + c11aPerGroup × (groups in
// that half) (thresholds chosen from the unchanged tree, see c11aFloor), a third half is sent (fresh strings) and
// must grow again before anything is reported: `cause=accumulation-memory-growth kind=<kind>`. The report says
// whether the growth outlives the session (scope=process) or goes away with it (scope=session), the growth per
// command, the ratio to the bytes sent, and the allocation sites whose in-use bytes grew most between m0 and the
// end (runtime.MemProfile of the child, sampling every 16 KB).
//
// What legitimately stays is kept out of the runs: CREATE is followed by DELETE, SUBSCRIBE by UNSUBSCRIBE, STORE
// +FLAGS by -FLAGS of the same keyword, APPEND by the EXPUNGE of the message. The kind `store-keep` leaves its
// keywords on the message (data: the snapshot of every session that has the mailbox selected holds them): there the
// growth allowed is c11aKeepFactor × the bytes of the keywords kept. The dummy connector — the remote mail service
// of the test server — never forgets a message (connector/dummy_state.go), expunged or not: the child counts the
// literal bytes handed to it (c11sCountingConn) and 3/2 × that is allowed on top.
//
// The same run also re-checks the other clauses of C11 on long sessions: every command line gets exactly one
// completion (within the watchdog: `cause=accumulation-no-completion`, an extra one: `cause=accumulation-extra-
// completion`), the session still answers NOOP after the run, the child is alive and exits with status 0, and a
// SECOND session (authenticated, INBOX selected, silent in between) answers NOOP at every checkpoint within the
// watchdog (`cause=accumulation-canary-unanswered`).
//
// Replay: `oracle c11accum -seed S` + `accum kind=<kind> n=<N> lo=<bytes> hi=<bytes>`: the run is regenerated from
// these parameters (every string is drawn from a generator seeded by (S, kind, index of the group)).

import (
	"bufio"
	"bytes"
	"encoding/json"
	"flag"
	"fmt"
	"io"
	"net"
	"os"
	"path/filepath"
	"sort"
	"strconv"
	"strings"
	"sync"
	"time"
)

// Thresholds. Unchanged tree (seeds 1..5 with N = 300, seeds 1..3 with N = 3000, every kind): whatever is sent, the
// live heap moves by less than 180 KB in the first half of a run (lazily built structures, sqlite statement cache,
// logrus buffers) and by less than 45 KB in the second, for N = 300 as for N = 3000: it does not grow with the
// number of commands. A run is reported when EVERY half (two, then a third one sent to confirm) grew by more than
// c11aFloor + c11aPerGroup × (groups in the half) + what the data explains (see c11aKeepFactor, c11aBackendNum).
// The smallest defect worth the name — one copy of a client string kept per command — grows a half of N = 300 by
// the bytes sent in it (about 1.3 MB); a few hundred bytes kept per command or per connection show from a few
// thousand groups on (thorough tier).
const (
	c11aFloor      = 192 << 10 // bytes
	c11aPerGroup   = 64        // bytes
	c11aRSSFloor   = 24 << 20  // the resident set is noisier (arenas are returned lazily, cgo): floor 24 MB + 2 × bytes sent
	c11aKeepFactor = 8         // store-keep: growth explained by the data = 8 × bytes of the keywords kept (+ floor)
	c11aWarm       = 30        // groups sent before m0
	c11aPollEvery  = 25        // the second session sends NOOP every so many groups
	// APPEND: the dummy connector (the stand-in for the remote service) keeps literal + parsed form of every message
	// it was ever given, EXPUNGE or not; the child counts those bytes (STATS backend=). Measured on the unchanged
	// tree: the heap grows by 1.1–1.2 × the literal bytes handed to the connector; a second copy kept by the server
	// itself would make it 2.1 ×. Allowed: 3/2 ×.
	c11aBackendNum = 3
	c11aBackendDen = 2
	// runPending: transient cost of the second session's poll
	c11aPendingFloor  = 64 << 20
	c11aPendingFactor = 64
)

// ---- the child's side channel -------------------------------------------------------------------------

type c11aMem struct {
	Heap, Objects, Sys int64
	Backend            int64 // bytes of message literals held by the connector (the stand-in for the remote service)
	Goroutines         int
	RSSKB              int
}

func (c *c11sChild) ask(req, prefix string) (string, error) {
	// drop stale answers
	for {
		select {
		case <-c.ctl:
			continue
		default:
		}
		break
	}
	if _, err := io.WriteString(c.stdin, req+"\n"); err != nil {
		return "", err
	}
	deadline := time.After(20 * time.Second)
	for {
		select {
		case l := <-c.ctl:
			if strings.HasPrefix(l, prefix+" ") {
				return strings.TrimPrefix(l, prefix+" "), nil
			}
		case <-c.done:
			return "", fmt.Errorf("the child is gone")
		case <-deadline:
			return "", fmt.Errorf("the child did not answer %s within 20 s", req)
		}
	}
}

func (c *c11sChild) stats() (c11aMem, error) {
	var m c11aMem
	l, err := c.ask("STATS", "STATS")
	if err != nil {
		return m, err
	}
	for _, f := range strings.Fields(l) {
		k, v, _ := strings.Cut(f, "=")
		n, _ := strconv.ParseInt(v, 10, 64)
		switch k {
		case "heapalloc":
			m.Heap = n
		case "heapobjects":
			m.Objects = n
		case "heapsys":
			m.Sys = n
		case "backend":
			m.Backend = n
		case "goroutines":
			m.Goroutines = int(n)
		}
	}
	m.RSSKB, _ = c.mem()
	return m, nil
}

func (c *c11sChild) sites() map[string]int64 {
	out := map[string]int64{}
	l, err := c.ask("SITES", "SITES")
	if err != nil || l == "-" {
		return out
	}
	for _, p := range strings.Split(l, "|") {
		b, site, ok := strings.Cut(p, "@")
		if !ok {
			continue
		}
		n, _ := strconv.ParseInt(b, 10, 64)
		out[site] = n
	}
	return out
}

// ---- a line-oriented client that counts completions ------------------------------------------------------

type c11aConn struct {
	c        net.Conn
	r        *bufio.Reader
	wd       time.Duration
	sent     int64
	stray    []string // lines that are neither untagged, a continuation request nor the awaited completion
	untagged int
}

func c11aDial(addr string, wd time.Duration) (*c11aConn, error) {
	c, err := net.DialTimeout("tcp", addr, wd)
	if err != nil {
		return nil, err
	}
	ac := &c11aConn{c: c, r: bufio.NewReaderSize(c, 1<<16), wd: wd}
	if l, err := ac.logical(); err != nil || !strings.HasPrefix(l, "* OK") {
		c.Close()
		return nil, fmt.Errorf("no greeting: %q %v", l, err)
	}
	return ac, nil
}

// logical reads one response line; the literals it announces are skipped (their length is appended as `{n}`).
func (ac *c11aConn) logical() (string, error) {
	_ = ac.c.SetReadDeadline(time.Now().Add(ac.wd))
	var head string
	for {
		line, err := ac.r.ReadString('\n')
		if head == "" {
			head = strings.TrimRight(line, "\r\n")
		}
		if err != nil {
			return head, err
		}
		t := strings.TrimRight(line, "\r\n")
		if strings.HasSuffix(t, "}") {
			if k := strings.LastIndexByte(t, '{'); k >= 0 {
				if n, err := strconv.Atoi(t[k+1 : len(t)-1]); err == nil {
					if _, err := io.CopyN(io.Discard, ac.r, int64(n)); err != nil {
						return head, err
					}
					continue
				}
			}
		}
		return head, nil
	}
}

type c11aCmd struct {
	tag   string
	parts [][]byte // every part but the last ends with `{n}\r\n` (a synchronising literal follows); the last ends with CRLF
}

func c11aLine(tag, rest string) c11aCmd {
	return c11aCmd{tag: tag, parts: [][]byte{[]byte(tag + " " + rest + "\r\n")}}
}

// c11aLit: `<tag> <head> {n}` CRLF <lit> <tail> CRLF
func c11aLit(tag, head string, lit []byte, tail string) c11aCmd {
	return c11aCmd{tag: tag, parts: [][]byte{
		[]byte(fmt.Sprintf("%s %s {%d}\r\n", tag, head, len(lit))),
		append(append([]byte{}, lit...), []byte(tail+"\r\n")...)}}
}

// do sends one command and reads up to its completion; status = OK / NO / BAD, "" when there was none.
func (ac *c11aConn) do(cmd c11aCmd) (status string, err error) {
	for k, p := range cmd.parts {
		_ = ac.c.SetWriteDeadline(time.Now().Add(ac.wd))
		if _, err := ac.c.Write(p); err != nil {
			return "", fmt.Errorf("write: %w", err)
		}
		ac.sent += int64(len(p))
		last := k == len(cmd.parts)-1
		for {
			l, err := ac.logical()
			if err != nil {
				return "", fmt.Errorf("read: %w (last line %s)", err, c11sQuote([]byte(l), 100))
			}
			switch {
			case strings.HasPrefix(l, "+"):
				if !last {
					goto next
				}
				ac.stray = append(ac.stray, l)
			case strings.HasPrefix(l, cmd.tag+" "):
				f := strings.Fields(l[len(cmd.tag)+1:])
				if len(f) > 0 && (f[0] == "OK" || f[0] == "NO" || f[0] == "BAD") {
					return f[0], nil // (before the last part: the literal was refused)
				}
				ac.stray = append(ac.stray, l)
			case strings.HasPrefix(l, "* "):
				ac.untagged++
			default:
				ac.stray = append(ac.stray, l)
			}
		}
	next:
	}
	return "", fmt.Errorf("no completion")
}

// ---- generators -----------------------------------------------------------------------------------------

const (
	c11aAtomAlpha   = "abcdefghijklmnopqrstuvwxyzABCDEFGHIJKLMNOPQRSTUVWXYZ0123456789-_."
	c11aQuotedAlpha = c11aAtomAlpha + " !#$&'+,:;=?@^~()<>[]"
	c11aNameAlpha   = c11aAtomAlpha + " !#$'+,:;=?@^~" // mailbox names: no delimiter, no wildcard, no modified-UTF-7 shift
)

type c11aGen struct {
	r    *Rng
	size int
	i    int
}

func c11aHash(seed uint64, kind string, i int) uint64 {
	h := seed*0x9E3779B97F4A7C15 + uint64(i)*0xD6E8FEB86659FD93 + 0x1234567
	for _, c := range []byte(kind) {
		h = (h ^ uint64(c)) * 0x100000001B3
	}
	return h
}

// str: n characters of alpha, the first 12 derived from the index (distinct whatever the generator draws)
func (g *c11aGen) str(alpha string, n int) string {
	b := make([]byte, 0, n)
	b = append(b, fmt.Sprintf("x%dx", g.i)...)
	for len(b) < n {
		v := g.r.U64()
		for k := 0; k < 8 && len(b) < n; k++ {
			b = append(b, alpha[int(v&0xff)%len(alpha)])
			v >>= 8
		}
	}
	return string(b[:n])
}

// pattern: a LIST pattern of n characters: name characters, now and then a wildcard or the delimiter
func (g *c11aGen) pattern(n int) string {
	b := []byte(g.str(c11aAtomAlpha, n))
	for k := 8; k < len(b); k += g.r.Range(20, 120) {
		b[k] = "%*/%*"[g.r.Intn(5)]
	}
	return string(b)
}

func c11aQ(s string) string { return `"` + s + `"` }

type c11aKind struct {
	name   string
	auth   bool
	mbox   string // mailbox selected on the session ("" = none)
	lo, hi int    // size range of the strings of one group (0 = the oracle's -lo / -hi)
	gen    func(g *c11aGen) []c11aCmd
	// keep: bytes of client data that one group legitimately leaves in the mailbox (store-keep)
	keep func(size int) int64
	// cleanup: sent when the run is over (takes the data of `keep` away again)
	cleanup []string
	// perConn: every group is sent on a connection of its own, which is then closed (LOGOUT / abruptly / in the
	// middle of a line): what a SESSION leaves behind
	perConn bool
	// pending: the second session stays SILENT during the whole run and polls once at the end (runPending)
	pending bool
}

const c11aBox = "c11a-box" // an empty mailbox for the APPEND + EXPUNGE runs (created by the setup session)

func c11aKinds() []*c11aKind {
	tg := func(g *c11aGen, k int) string { return fmt.Sprintf("a%d.%d", g.i, k) }
	noop := func(g *c11aGen, k int) c11aCmd { return c11aLine(tg(g, k), "NOOP") }
	return []*c11aKind{
		// ---- before authentication
		{name: "login", gen: func(g *c11aGen) []c11aCmd {
			u, p := g.str(c11aQuotedAlpha, g.size/2), g.str(c11aQuotedAlpha, g.size/2)
			switch g.i % 3 {
			case 0:
				return []c11aCmd{c11aLine(tg(g, 0), "LOGIN "+c11aQ(u)+" "+c11aQ(p))}
			case 1:
				return []c11aCmd{c11aLit(tg(g, 0), "LOGIN", []byte(u), " "+c11aQ(p))}
			}
			// the right user, a wrong password
			return []c11aCmd{c11aLine(tg(g, 0), "LOGIN user "+g.str(c11aAtomAlpha, g.size))}
		}},
		{name: "id", gen: func(g *c11aGen) []c11aCmd {
			switch g.i % 3 {
			case 0:
				return []c11aCmd{c11aLine(tg(g, 0), "ID ("+c11aQ("name")+" "+c11aQ(g.str(c11aQuotedAlpha, g.size))+")")}
			case 1:
				return []c11aCmd{c11aLine(tg(g, 0), "ID ("+c11aQ(g.str(c11aAtomAlpha, g.size/2))+" "+c11aQ(g.str(c11aQuotedAlpha, g.size/2))+")")}
			}
			var b strings.Builder
			for k := 0; b.Len() < g.size; k++ {
				if k > 0 {
					b.WriteByte(' ')
				}
				b.WriteString(c11aQ(g.str(c11aAtomAlpha, 24)) + " " + c11aQ(g.str(c11aQuotedAlpha, 40)))
			}
			return []c11aCmd{c11aLine(tg(g, 0), "ID ("+b.String()+")")}
		}},
		{name: "tag", gen: func(g *c11aGen) []c11aCmd {
			t := g.str(c11aAtomAlpha, g.size)
			return []c11aCmd{c11aLine(t, []string{"NOOP", "CAPABILITY", "XYZZY", "LOGIN"}[g.i%4])}
		}},
		{name: "unknown", gen: func(g *c11aGen) []c11aCmd {
			w := g.str(c11aAtomAlpha, g.size)
			if g.i%2 == 1 {
				w = g.str(c11aAtomAlpha, g.size/2) + " " + g.str(c11aQuotedAlpha, g.size/2)
			}
			// the well-formed line keeps the session's error counter below maxSessionError
			return []c11aCmd{c11aLine(tg(g, 0), w), noop(g, 1)}
		}},
		{name: "malformed", gen: func(g *c11aGen) []c11aCmd {
			x := g.str(c11aQuotedAlpha, g.size)
			a := g.str(c11aAtomAlpha, g.size)
			var l string
			switch g.i % 8 {
			case 0:
				l = "LOGIN " + a // no password
			case 1:
				l = "SELECT \"" + x // the quoted string runs into the end of the line
			case 2:
				l = "FETCH " + a + " FLAGS"
			case 3:
				l = "LIST \"\" (" + x
			case 4:
				l = "SEARCH CHARSET " + a
			case 5:
				l = "STORE 1 +FLAGS (\\" + a + ")"
			case 6:
				l = "NOOP " + x
			default:
				l = "STATUS " + a + " (" + a + ")"
			}
			return []c11aCmd{c11aLine(tg(g, 0), l), noop(g, 1)}
		}},
		// ---- one connection per group
		{name: "sessions", perConn: true, gen: func(g *c11aGen) []c11aCmd {
			switch g.i % 4 {
			case 0:
				return []c11aCmd{c11aLine(tg(g, 0), "LOGIN user "+sysPassword), c11aLine(tg(g, 1), "LIST \"\" "+c11aQ(g.pattern(g.size)))}
			case 1:
				return []c11aCmd{c11aLine(tg(g, 0), "ID ("+c11aQ("name")+" "+c11aQ(g.str(c11aQuotedAlpha, g.size))+")")}
			case 2:
				return []c11aCmd{c11aLine(tg(g, 0), "LOGIN user "+sysPassword), c11aLine(tg(g, 1), "SELECT INBOX"), c11aLine(tg(g, 2), "SEARCH TEXT "+c11aQ(g.str(c11aQuotedAlpha, g.size)))}
			}
			return []c11aCmd{c11aLine(g.str(c11aAtomAlpha, g.size/2), "LOGIN "+c11aQ(g.str(c11aQuotedAlpha, g.size/2))+" x")}
		}},
		// ---- authenticated, nothing selected
		{name: "list", auth: true, gen: func(g *c11aGen) []c11aCmd {
			switch g.i % 6 {
			case 0:
				return []c11aCmd{c11aLine(tg(g, 0), "LIST \"\" "+c11aQ(g.pattern(g.size)))}
			case 1:
				return []c11aCmd{c11aLine(tg(g, 0), "LIST "+c11aQ(g.str(c11aNameAlpha, g.size/2)+"/")+" "+c11aQ(g.pattern(g.size/2)))}
			case 2:
				return []c11aCmd{c11aLine(tg(g, 0), "LSUB \"\" "+c11aQ(g.pattern(g.size)))}
			case 3:
				return []c11aCmd{c11aLine(tg(g, 0), "LIST \"\" "+strings.ReplaceAll(g.pattern(g.size), "/", "%"))} // an atom with list wildcards
			case 4:
				return []c11aCmd{c11aLit(tg(g, 0), "LIST \"\"", []byte(g.pattern(g.size)), "")}
			}
			// matches everything: `*` followed by a distinct tail after the reference
			return []c11aCmd{c11aLine(tg(g, 0), "LSUB "+c11aQ(g.str(c11aNameAlpha, g.size))+" \"*\"")}
		}},
		{name: "status", auth: true, gen: func(g *c11aGen) []c11aCmd {
			n := g.str(c11aNameAlpha, g.size)
			if g.i%2 == 0 {
				return []c11aCmd{c11aLine(tg(g, 0), "STATUS "+c11aQ(n)+" (MESSAGES UIDNEXT UNSEEN)")}
			}
			return []c11aCmd{c11aLit(tg(g, 0), "STATUS", []byte(n), " (RECENT UIDVALIDITY)")}
		}},
		{name: "select", auth: true, gen: func(g *c11aGen) []c11aCmd {
			n := g.str(c11aNameAlpha, g.size)
			switch g.i % 4 {
			case 0:
				return []c11aCmd{c11aLine(tg(g, 0), "SELECT "+c11aQ(n))}
			case 1:
				return []c11aCmd{c11aLine(tg(g, 0), "EXAMINE "+c11aQ(n))}
			case 2:
				// an existing mailbox between two that do not exist
				return []c11aCmd{c11aLine(tg(g, 0), "SELECT INBOX"), c11aLine(tg(g, 1), "EXAMINE "+c11aQ(n+"/"+n[:8]))}
			}
			return []c11aCmd{c11aLine(tg(g, 0), "SELECT "+g.str(c11aAtomAlpha, g.size))}
		}},
		{name: "create", auth: true, gen: func(g *c11aGen) []c11aCmd {
			n := c11aQ(g.str(c11aNameAlpha, g.size))
			return []c11aCmd{c11aLine(tg(g, 0), "CREATE "+n), c11aLine(tg(g, 1), "DELETE "+n)}
		}},
		{name: "rename", auth: true, gen: func(g *c11aGen) []c11aCmd {
			a, b := c11aQ(g.str(c11aNameAlpha, g.size/2)), c11aQ(g.str(c11aNameAlpha, g.size/2))
			if g.i%2 == 0 {
				return []c11aCmd{c11aLine(tg(g, 0), "RENAME "+a+" "+b), c11aLine(tg(g, 1), "DELETE "+a)} // neither exists
			}
			return []c11aCmd{c11aLine(tg(g, 0), "CREATE "+a), c11aLine(tg(g, 1), "RENAME "+a+" "+b), c11aLine(tg(g, 2), "DELETE "+b)}
		}},
		{name: "subscribe", auth: true, gen: func(g *c11aGen) []c11aCmd {
			n := c11aQ(g.str(c11aNameAlpha, g.size))
			switch g.i % 3 {
			case 0:
				return []c11aCmd{c11aLine(tg(g, 0), "SUBSCRIBE "+n), c11aLine(tg(g, 1), "UNSUBSCRIBE "+n)}
			case 1:
				return []c11aCmd{c11aLine(tg(g, 0), "UNSUBSCRIBE "+n)}
			}
			// subscribed, then deleted while subscribed, then unsubscribed
			return []c11aCmd{c11aLine(tg(g, 0), "CREATE "+n), c11aLine(tg(g, 1), "SUBSCRIBE "+n), c11aLine(tg(g, 2), "DELETE "+n), c11aLine(tg(g, 3), "UNSUBSCRIBE "+n)}
		}},
		// ---- INBOX selected (three messages)
		{name: "copy", auth: true, mbox: "INBOX", gen: func(g *c11aGen) []c11aCmd {
			n := c11aQ(g.str(c11aNameAlpha, g.size))
			switch g.i % 3 {
			case 0:
				return []c11aCmd{c11aLine(tg(g, 0), "COPY 1 "+n)}
			case 1:
				return []c11aCmd{c11aLine(tg(g, 0), "UID MOVE 1:* "+n)}
			}
			return []c11aCmd{c11aLit(tg(g, 0), "APPEND "+n, SimpleMessage("c11a", "x"), "")}
		}},
		{name: "search", auth: true, mbox: "INBOX", gen: func(g *c11aGen) []c11aCmd {
			x := g.str(c11aQuotedAlpha, g.size)
			switch g.i % 7 {
			case 0:
				return []c11aCmd{c11aLine(tg(g, 0), "SEARCH SUBJECT "+c11aQ(x))}
			case 1:
				return []c11aCmd{c11aLine(tg(g, 0), "SEARCH CHARSET "+g.str(c11aAtomAlpha, g.size)+" ALL")}
			case 2:
				return []c11aCmd{c11aLine(tg(g, 0), "SEARCH HEADER "+c11aQ(g.str(c11aAtomAlpha, g.size/2))+" "+c11aQ(x[:g.size/2]))}
			case 3:
				return []c11aCmd{c11aLine(tg(g, 0), "SEARCH KEYWORD "+g.str(c11aAtomAlpha, g.size))}
			case 4:
				return []c11aCmd{c11aLine(tg(g, 0), "UID SEARCH OR BODY "+c11aQ(x[:g.size/2])+" NOT TEXT "+c11aQ(x[g.size/2:]))}
			case 5:
				return []c11aCmd{c11aLit(tg(g, 0), "SEARCH CHARSET UTF-8 FROM", []byte(x), "")}
			}
			return []c11aCmd{c11aLine(tg(g, 0), "SEARCH UNKEYWORD "+g.str(c11aAtomAlpha, g.size/2)+" TO "+c11aQ(x[:g.size/2]))}
		}},
		{name: "fetch", auth: true, mbox: "INBOX", gen: func(g *c11aGen) []c11aCmd {
			fields := func() string {
				var b strings.Builder
				for k := 0; b.Len() < g.size; k++ {
					if k > 0 {
						b.WriteByte(' ')
					}
					b.WriteString(g.str(c11aAtomAlpha, g.r.Range(8, 60)))
				}
				return b.String()
			}
			switch g.i % 5 {
			case 0:
				return []c11aCmd{c11aLine(tg(g, 0), "FETCH 1 (BODY.PEEK[HEADER.FIELDS ("+fields()+")])")}
			case 1:
				return []c11aCmd{c11aLine(tg(g, 0), "UID FETCH 1:* (FLAGS BODY.PEEK[HEADER.FIELDS.NOT ("+fields()+")])")}
			case 2:
				var b strings.Builder
				for k := 0; b.Len() < g.size; k++ {
					if k > 0 {
						b.WriteByte('.')
					}
					b.WriteString(strconv.Itoa(g.r.Range(1, 99999)))
				}
				return []c11aCmd{c11aLine(tg(g, 0), "FETCH 1:3 BODY.PEEK["+b.String()+".MIME]")}
			case 3:
				return []c11aCmd{c11aLine(tg(g, 0), fmt.Sprintf("FETCH 2 BODY.PEEK[]<%d.%d>", g.r.Intn(1<<30), g.r.Range(1, 1<<30)))}
			}
			// one long field name
			return []c11aCmd{c11aLine(tg(g, 0), "FETCH 3 (UID BODY.PEEK[HEADER.FIELDS ("+g.str(c11aAtomAlpha, g.size)+")])")}
		}},
		{name: "store", auth: true, mbox: "INBOX", gen: func(g *c11aGen) []c11aCmd {
			kw := g.str(c11aAtomAlpha, g.size)
			switch g.i % 3 {
			case 0:
				return []c11aCmd{c11aLine(tg(g, 0), "STORE 1 +FLAGS ("+kw+")"), c11aLine(tg(g, 1), "STORE 1 -FLAGS ("+kw+")")}
			case 1:
				return []c11aCmd{c11aLine(tg(g, 0), "UID STORE 1:* +FLAGS.SILENT ("+kw+" \\Flagged)"), c11aLine(tg(g, 1), "UID STORE 1:* -FLAGS.SILENT ("+kw+" \\Flagged)")}
			}
			// removing a keyword no message has
			return []c11aCmd{c11aLine(tg(g, 0), "STORE 2 -FLAGS ("+kw+")")}
		}},
		{name: "store-keep", auth: true, mbox: "INBOX", lo: 64, hi: 512,
			keep:    func(size int) int64 { return int64(size) },
			cleanup: []string{"STORE 3 FLAGS.SILENT (\\Seen)"},
			gen: func(g *c11aGen) []c11aCmd {
				return []c11aCmd{c11aLine(tg(g, 0), "STORE 3 +FLAGS.SILENT ("+g.str(c11aAtomAlpha, g.size)+")")}
			}},
		// the same run while the second session (INBOX selected) does not poll: what is pending for it, and what its
		// next NOOP costs (see runPending)
		{name: "pending-store", auth: true, mbox: "INBOX", lo: 64, hi: 512, pending: true,
			cleanup: []string{"STORE 3 FLAGS.SILENT (\\Seen)"},
			gen: func(g *c11aGen) []c11aCmd {
				return []c11aCmd{c11aLine(tg(g, 0), "STORE 3 +FLAGS.SILENT ("+g.str(c11aAtomAlpha, g.size)+")")}
			}},
		{name: "append", auth: true, mbox: c11aBox, gen: func(g *c11aGen) []c11aCmd {
			msg := SimpleMessage(g.str(c11aAtomAlpha, 60), g.str(c11aQuotedAlpha, g.size))
			return []c11aCmd{
				c11aLit(tg(g, 0), "APPEND "+c11aBox+" ("+g.str(c11aAtomAlpha, 20)+")", msg, ""),
				c11aLine(tg(g, 1), "STORE 1:* +FLAGS.SILENT (\\Deleted)"),
				c11aLine(tg(g, 2), "EXPUNGE"),
			}
		}},
	}
}

// ---- one run --------------------------------------------------------------------------------------------

type c11aRun struct {
	kind   *c11aKind
	n      int
	lo, hi int
}

func (r c11aRun) replayLine() string {
	return fmt.Sprintf("accum kind=%s n=%d lo=%d hi=%d", r.kind.name, r.n, r.lo, r.hi)
}

type c11aFinding struct {
	cause, desc string
	run         c11aRun
}

type c11aWorker struct {
	self   string
	seed   uint64
	wd     time.Duration
	asMB   int
	child  *c11sChild
	canary *c11aConn
	stats  map[string]int
	finds  []c11aFinding
	dump   bool
	// profRate: runtime.MemProfileRate of the child
	profRate int
}

func (w *c11aWorker) find(run c11aRun, cause, desc string) {
	w.finds = append(w.finds, c11aFinding{cause: cause, desc: desc, run: run})
}

// setup: a child, the fixture (three messages in INBOX, the empty mailbox c11aBox) and the second session
func (w *c11aWorker) setup() error {
	c, err := c11sStartChild(w.self, w.asMB, "-memprofrate", strconv.Itoa(w.profRate))
	if err != nil {
		return err
	}
	w.child = c
	w.stats["children"]++
	s, err := c11aDial(c.addr, w.wd*5)
	if err != nil {
		return err
	}
	defer s.c.Close()
	steps := []c11aCmd{c11aLine("s0", "LOGIN user "+sysPassword), c11aLine("s1", "CREATE "+c11aBox)}
	for k := 0; k < 3; k++ {
		steps = append(steps, c11aLit(fmt.Sprintf("s%d", k+2), "APPEND INBOX", SimpleMessage(fmt.Sprintf("c11a-%d", k), strings.Repeat("body line\r\n", 20)), ""))
	}
	steps = append(steps, c11aLine("s9", "LOGOUT"))
	for _, st := range steps {
		if status, err := s.do(st); err != nil || status != "OK" {
			return fmt.Errorf("fixture %s: %s %v", st.tag, status, err)
		}
	}
	cn, err := c11aDial(c.addr, w.wd)
	if err != nil {
		return err
	}
	for _, st := range []c11aCmd{c11aLine("c0", "LOGIN user "+sysPassword), c11aLine("c1", "SELECT INBOX")} {
		if status, err := cn.do(st); err != nil || status != "OK" {
			cn.c.Close()
			return fmt.Errorf("second session %s: %s %v", st.tag, status, err)
		}
	}
	w.canary = cn
	return nil
}

func (w *c11aWorker) teardown(expectAlive bool) {
	if w.canary != nil {
		w.canary.c.Close()
		w.canary = nil
	}
	if w.child == nil {
		return
	}
	if !w.child.alive() {
		_ = os.RemoveAll(w.child.dir)
		w.child = nil
		return
	}
	if s := w.child.stop(); s != "" && expectAlive {
		w.finds = append(w.finds, c11aFinding{cause: "cause=child-exit-status", desc: "the server child " + s + "; stderr: " + c11sTail(w.child.errBuf.String(), 300)})
	}
	w.child = nil
}

func (w *c11aWorker) canaryNoop(run c11aRun, at string) bool {
	w.stats["canary.noops"]++
	tag := fmt.Sprintf("cn%d", w.stats["canary.noops"])
	t0 := time.Now()
	status, err := w.canary.do(c11aLine(tag, "NOOP"))
	if err != nil || status != "OK" {
		// once more on a new connection: a loaded machine is not an unresponsive server
		w.canary.c.Close()
		cn, err2 := c11aDial(w.child.addr, w.wd*3)
		if err2 == nil {
			var s2 string
			for _, st := range []c11aCmd{c11aLine("c0", "LOGIN user "+sysPassword), c11aLine("c1", "SELECT INBOX"), c11aLine("c2", "NOOP")} {
				if s2, err2 = cn.do(st); err2 != nil || s2 != "OK" {
					break
				}
			}
			if err2 == nil && s2 == "OK" {
				w.canary = cn
				w.stats["canary.slow-not-stuck"]++
				return true
			}
			cn.c.Close()
		}
		w.find(run, "cause=accumulation-canary-unanswered", fmt.Sprintf("kind=%s: the second session (authenticated, INBOX selected, silent in between) got no `OK` for NOOP %s within %v (%q %v), nor on a new connection within %v (%v)",
			run.kind.name, at, w.wd, status, err, w.wd*3, err2))
		return false
	}
	if d := int(time.Since(t0) / time.Millisecond); d > w.stats["max.canary.ms"] {
		w.stats["max.canary.ms"] = d
	}
	return true
}

func c11aKB(b int64) int64 { return b / 1024 }

// runKind: see the head of the file. false = the child is no longer usable.
func (w *c11aWorker) runKind(run c11aRun) bool {
	k := run.kind
	pre := "accum." + k.name + "."
	fail := func(cause, desc string) bool {
		if !w.child.alive() {
			dc, detail := c11sClassifyDeath(w.child.errBuf.String(), w.child.werr)
			cause, desc = dc, detail+" — during the accumulation run kind="+k.name+" ("+desc+")"
		}
		w.find(run, cause, desc)
		return false
	}
	a, err := c11aDial(w.child.addr, w.wd)
	if err != nil {
		return fail("cause=accumulation-no-completion", fmt.Sprintf("kind=%s: cannot open a session: %v", k.name, err))
	}
	defer a.c.Close()
	if k.auth {
		if st, err := a.do(c11aLine("l0", "LOGIN user "+sysPassword)); err != nil || st != "OK" {
			return fail("cause=accumulation-no-completion", fmt.Sprintf("kind=%s: LOGIN: %q %v", k.name, st, err))
		}
	}
	if k.mbox != "" {
		if st, err := a.do(c11aLine("l1", "SELECT "+k.mbox)); err != nil || st != "OK" {
			return fail("cause=accumulation-no-completion", fmt.Sprintf("kind=%s: SELECT %s: %q %v", k.name, k.mbox, st, err))
		}
	}
	idx := 0
	var keep int64
	// send: groups idx .. idx+cnt-1; returns the bytes sent
	send := func(cnt int) (int64, int64, bool) {
		s0, k0 := a.sent, keep
		for ; cnt > 0; cnt-- {
			g := &c11aGen{r: NewRng(c11aHash(w.seed, k.name, idx)), i: idx}
			g.size = g.r.Range(run.lo, run.hi)
			on := a
			if k.perConn {
				c, err := c11aDial(w.child.addr, w.wd)
				if err != nil {
					return 0, 0, fail("cause=accumulation-no-completion", fmt.Sprintf("kind=%s: connection #%d was not greeted within %v: %v", k.name, idx+1, w.wd, err))
				}
				on = c
			}
			for _, cmd := range k.gen(g) {
				status, err := on.do(cmd)
				w.stats["commands"]++
				if err != nil {
					head := cmd.parts[0]
					return 0, 0, fail("cause=accumulation-no-completion", fmt.Sprintf("kind=%s: command #%d of the session (group %d, %d bytes: %s) got no completion within %v: %v — the commands before it were all answered",
						k.name, w.stats["commands"], idx, len(head), c11sQuote(head, 100), w.wd, err))
				}
				w.stats[pre+strings.ToLower(status)]++
			}
			if k.perConn {
				// the three ways a session ends
				switch idx % 3 {
				case 0:
					_, _ = on.do(c11aLine("bye", "LOGOUT"))
				case 1:
					_, _ = on.c.Write([]byte("half NOO"))
				}
				on.c.Close()
				a.sent += on.sent
				a.stray = append(a.stray, on.stray...)
			}
			if k.keep != nil {
				keep += k.keep(g.size)
			}
			idx++
			// the second session polls now and then: what is pending for it stays small (runPending is the run
			// in which it does not)
			if !k.pending && idx%c11aPollEvery == 0 && !w.canaryNoop(run, fmt.Sprintf("after %d groups of kind %s", idx, k.name)) {
				return 0, 0, false
			}
		}
		return a.sent - s0, keep - k0, true
	}
	cleanup := func() {
		for i, l := range k.cleanup {
			_, _ = a.do(c11aLine(fmt.Sprintf("y%d", i), l))
		}
		if len(k.cleanup) > 0 && w.canary != nil {
			w.canaryNoop(run, "after the cleanup of kind "+k.name)
		}
	}
	if k.pending {
		return w.runPending(run, a, func(n int) (int64, bool) { s, _, ok := send(n); return s, ok }, cleanup, fail)
	}
	measure := func() (c11aMem, bool) {
		if k.perConn {
			time.Sleep(300 * time.Millisecond) // the sessions of the closed connections end on their own time
		}
		m, err := w.child.stats()
		if err != nil {
			return m, fail("cause=harness", fmt.Sprintf("kind=%s: no memory statistics from the child: %v", k.name, err))
		}
		return m, true
	}
	if _, _, ok := send(c11aWarm); !ok {
		return false
	}
	m0, ok := measure()
	if !ok {
		return false
	}
	sites0 := w.child.sites()
	half := run.n / 2
	type halfRes struct {
		sent, keep int64
		groups     int
		m          c11aMem
	}
	var halves []halfRes
	prev := m0
	over := func(h halfRes, before c11aMem) (heap, rss bool) {
		data := h.keep*c11aKeepFactor + (h.m.Backend-before.Backend)*c11aBackendNum/c11aBackendDen
		allowed := int64(c11aFloor) + int64(c11aPerGroup)*int64(h.groups) + data
		allowedRSS := int64(c11aRSSFloor) + 2*h.sent + data
		return h.m.Heap-before.Heap > allowed, int64(h.m.RSSKB-before.RSSKB)*1024 > allowedRSS
	}
	suspectHeap, suspectRSS := true, true
	for round := 0; round < 3; round++ {
		if round == 2 && !suspectHeap && !suspectRSS {
			break
		}
		if round == 2 {
			w.stats[pre+"confirm-rounds"]++
		}
		sent, kept, ok := send(half)
		if !ok {
			return false
		}
		if !w.canaryNoop(run, fmt.Sprintf("after %d groups of kind %s", idx, k.name)) {
			return false
		}
		m, ok := measure()
		if !ok {
			return false
		}
		h := halfRes{sent: sent, keep: kept, groups: half, m: m}
		oh, or := over(h, prev)
		suspectHeap, suspectRSS = suspectHeap && oh, suspectRSS && or
		halves = append(halves, h)
		prev = m
	}
	mEnd := prev
	if d := os.Getenv("C11A_PROFDIR"); d != "" {
		// for the investigation of a finding: `go tool pprof -sample_index=inuse_space vh <file>`
		_, _ = w.child.ask("PROFILE "+filepath.Join(d, "heap-"+k.name+".pprof"), "PROFILE")
	}
	var sitesEnd map[string]int64
	if suspectHeap || suspectRSS {
		sitesEnd = w.child.sites()
	}
	// the session is still usable, and nothing but the completions asked for was written
	if st, err := a.do(c11aLine("z0", "NOOP")); err != nil || st != "OK" {
		return fail("cause=accumulation-no-completion", fmt.Sprintf("kind=%s: after %d groups the session does not answer NOOP: %q %v", k.name, idx, st, err))
	}
	if len(a.stray) > 0 {
		w.find(run, "cause=accumulation-extra-completion", fmt.Sprintf("kind=%s: besides one completion per command the server wrote %d lines that are neither untagged responses nor continuation requests: %q", k.name, len(a.stray), a.stray[:min(len(a.stray), 3)]))
	}
	cleanup()
	_, _ = a.do(c11aLine("z1", "LOGOUT"))
	a.c.Close()
	time.Sleep(100 * time.Millisecond)
	m3, ok := measure()
	if !ok {
		return false
	}
	// statistics: what a half moved (KB), largest per kind
	var totalSent int64
	for _, h := range halves {
		totalSent += h.sent
	}
	w.stats["groups"] += idx
	w.stats["bytes.sent.kb"] += int(c11aKB(a.sent))
	grown := mEnd.Heap - m0.Heap
	w.stats[pre+"heap-growth-kb"] = int(c11aKB(grown))
	w.stats[pre+"heap-after-close-kb"] = int(c11aKB(m3.Heap - m0.Heap))
	w.stats[pre+"rss-growth-kb"] = mEnd.RSSKB - m0.RSSKB
	w.stats[pre+"sent-kb"] = int(c11aKB(totalSent))
	w.stats[pre+"goroutines-growth"] = mEnd.Goroutines - m0.Goroutines
	for _, v := range []int{int(c11aKB(grown)), mEnd.RSSKB - m0.RSSKB} {
		if v > w.stats["max.growth.kb"] {
			w.stats["max.growth.kb"] = v
		}
	}
	if w.dump {
		fmt.Printf("%-11s groups=%d sent=%dKB heap: m0=%dKB", k.name, idx, c11aKB(a.sent), c11aKB(m0.Heap))
		p := m0
		for _, h := range halves {
			fmt.Printf(" %+dKB", c11aKB(h.m.Heap-p.Heap))
			p = h.m
		}
		fmt.Printf(" closed%+dKB | rss: m0=%dKB", c11aKB(m3.Heap-mEnd.Heap), m0.RSSKB)
		p = m0
		for _, h := range halves {
			fmt.Printf(" %+dKB", h.m.RSSKB-p.RSSKB)
			p = h.m
		}
		fmt.Printf(" closed%+dKB | goroutines %d -> %d -> %d | objects %+d\n", m3.RSSKB-mEnd.RSSKB, m0.Goroutines, mEnd.Goroutines, m3.Goroutines, mEnd.Objects-m0.Objects)
	}
	groups := idx - c11aWarm
	if min(mEnd.Goroutines, m3.Goroutines+4)-m0.Goroutines > groups/4 {
		w.find(run, "cause=accumulation-goroutine-growth", fmt.Sprintf("kind=%s: %d groups of commands on one session left %d goroutines behind (%d before, %d after, %d after the session was closed)",
			k.name, groups, mEnd.Goroutines-m0.Goroutines, m0.Goroutines, mEnd.Goroutines, m3.Goroutines))
	}
	if suspectHeap || suspectRSS {
		what, g, g3 := "live Go heap (HeapAlloc after a forced collection)", grown, m3.Heap-m0.Heap
		if !suspectHeap {
			what, g, g3 = "resident set (VmRSS after a forced collection; the Go heap did not grow: memory outside it)", int64(mEnd.RSSKB-m0.RSSKB)*1024, int64(m3.RSSKB-m0.RSSKB)*1024
		}
		scope := "scope=process (after the session was closed %d KB of it are still held: whatever keeps it belongs to the server, not to the session; other sessions and users pay for it)"
		if g3 < g/2 {
			scope = "scope=session (after the session was closed only %d KB of it are still held: it lives as long as the session does)"
		}
		var per []string
		p := m0
		for _, h := range halves {
			if suspectHeap {
				per = append(per, fmt.Sprintf("%+d KB for %d KB sent", c11aKB(h.m.Heap-p.Heap), c11aKB(h.sent)))
			} else {
				per = append(per, fmt.Sprintf("%+d KB for %d KB sent", h.m.RSSKB-p.RSSKB, c11aKB(h.sent)))
			}
			p = h.m
		}
		// the allocation sites that grew most
		type sd struct {
			site string
			d    int64
		}
		var ds []sd
		for s, b := range sitesEnd {
			if d := b - sites0[s]; d > g/40 {
				ds = append(ds, sd{s, d})
			}
		}
		sort.Slice(ds, func(i, j int) bool {
			if ds[i].d != ds[j].d {
				return ds[i].d > ds[j].d
			}
			return ds[i].site < ds[j].site
		})
		var top []string
		for _, d := range ds[:min(len(ds), 4)] {
			top = append(top, fmt.Sprintf("%s (+%d KB)", d.site, c11aKB(d.d)))
		}
		sitesTxt := "no allocation site stands out in the memory profile"
		if len(top) > 0 {
			sitesTxt = "allocated at (sampled in-use bytes, innermost frames first): " + strings.Join(top, "; ")
		}
		where := "on ONE session"
		if k.perConn {
			where = "on as many connections, one after the other (each ended by LOGOUT, by closing it, or by closing it in the middle of a line)"
		}
		w.find(run, "cause=accumulation-memory-growth", fmt.Sprintf("kind=%s: %d groups of pairwise distinct commands (%d–%d bytes of client strings each, %d KB sent, every command answered) %s made the %s grow by %d KB = %d bytes per group = %.1f × the bytes sent; consecutive thirds of the run: %s — each above the allowance of %d KB + %d bytes per group, so the growth goes on for as long as the client does; %s; %s",
			k.name, groups, run.lo, run.hi, c11aKB(totalSent), where, what, c11aKB(g), g/int64(max(groups, 1)), float64(g)/float64(max(totalSent, 1)), strings.Join(per, ", "),
			c11aFloor>>10, c11aPerGroup, fmt.Sprintf(scope, c11aKB(g3)), sitesTxt))
	}
	return true
}

// runPending: session A (INBOX selected) sends N STORE +FLAGS.SILENT commands with pairwise distinct keywords for ONE
// message while the second session B (INBOX selected too) sends nothing; then B sends one NOOP. Everything B has
// missed is pending for it, and that NOOP has to work it off. Observed: the live heap before B polls (what is
// queued), how long B's NOOP takes, and the PEAK of the child's resident set while it runs (VmHWM, reset through
// clear_refs before). Allowed: c11aPendingFloor + c11aPendingFactor × the bytes A sent, and an answer within the
// watchdog — a cost that grows with what the client sent, not with its square.
// `cause=accumulation-pending-updates-cost`.
func (w *c11aWorker) runPending(run c11aRun, a *c11aConn, send func(int) (int64, bool), cleanup func(), fail func(string, string) bool) bool {
	k := run.kind
	pre := "accum." + k.name + "."
	if !w.canaryNoop(run, "before the run") {
		return false
	}
	m0, err := w.child.stats()
	if err != nil {
		return fail("cause=harness", err.Error())
	}
	sent, ok := send(run.n)
	if !ok {
		return false
	}
	m1, err := w.child.stats()
	if err != nil {
		return fail("cause=harness", err.Error())
	}
	rss0, hwm0 := w.child.mem()
	reset := w.child.resetPeak()
	// B's NOOP, with a generous limit (the verdict is about the time it takes, a dead connection would hide the rest)
	b := w.canary
	b.wd = 60 * time.Second
	u0 := b.untagged
	t0 := time.Now()
	st, err := b.do(c11aLine("p0", "NOOP"))
	lat := time.Since(t0)
	b.wd = w.wd
	_, hwm1 := w.child.mem()
	peak := int64(hwm1-hwm0) * 1024
	if reset {
		peak = int64(hwm1-rss0) * 1024
	}
	if err != nil || st != "OK" {
		return fail("cause=accumulation-canary-unanswered", fmt.Sprintf("kind=%s: after %d STORE commands of session A the NOOP of the second session got %q %v within 60 s", k.name, run.n, st, err))
	}
	cleanup()
	_, _ = a.do(c11aLine("z1", "LOGOUT"))
	a.c.Close()
	time.Sleep(100 * time.Millisecond)
	m3, err := w.child.stats()
	if err != nil {
		return fail("cause=harness", err.Error())
	}
	w.stats["groups"] += run.n
	w.stats[pre+"sent-kb"] = int(c11aKB(sent))
	w.stats[pre+"queued-heap-kb"] = int(c11aKB(m1.Heap - m0.Heap))
	w.stats[pre+"poll-peak-rss-kb"] = int(c11aKB(peak))
	w.stats[pre+"poll-ms"] = int(lat / time.Millisecond)
	w.stats[pre+"heap-after-close-kb"] = int(c11aKB(m3.Heap - m0.Heap))
	if w.dump {
		fmt.Printf("%-11s groups=%d sent=%dKB queued heap %+dKB | B's NOOP: %v, %d untagged responses, peak rss %+dKB | after cleanup and close: heap %+dKB\n",
			k.name, run.n, c11aKB(sent), c11aKB(m1.Heap-m0.Heap), lat.Round(time.Millisecond), b.untagged-u0, c11aKB(peak), c11aKB(m3.Heap-m0.Heap))
	}
	allowed := int64(c11aPendingFloor) + c11aPendingFactor*sent
	if peak > allowed || lat > w.wd {
		basis := "peak memory"
		if peak <= allowed {
			basis = "time only"
		}
		w.find(run, "cause=accumulation-pending-updates-cost", fmt.Sprintf("kind=%s (%s): session A sent %d STORE 3 +FLAGS.SILENT (<keyword>) commands with pairwise distinct keywords of %d–%d bytes (%d KB altogether, every one answered OK) while a second session with the same mailbox selected sent nothing; what was queued for it took %d KB of heap; its next NOOP then took %v (watchdog %v) and drove the resident set of the server up by %d MB at the peak = %.0f × the bytes A sent (allowed: %d MB + %d × sent); the cost of working off n pending flag updates of one message grows with n × (number of keywords on the message), i.e. with the SQUARE of what the client sent",
			k.name, basis, run.n, run.lo, run.hi, c11aKB(sent), c11aKB(m1.Heap-m0.Heap), lat.Round(time.Millisecond), w.wd, peak>>20, float64(peak)/float64(max(sent, 1)), c11aPendingFloor>>20, c11aPendingFactor))
	}
	return true
}

// c11aTimingOnly: there are findings, and all of them rest on the watchdog (no completion / no answer in time)
func c11aTimingOnly(fs []c11aFinding) bool {
	for _, f := range fs {
		switch f.cause {
		case "cause=accumulation-no-completion", "cause=accumulation-canary-unanswered":
		case "cause=accumulation-pending-updates-cost":
			if !strings.Contains(f.desc, "time only") {
				return false
			}
		default:
			return false
		}
	}
	return len(fs) > 0
}

// ---- the oracle -------------------------------------------------------------------------------------------

func c11aRunOracle(args []string) int {
	fs := flag.NewFlagSet("c11accum", flag.ExitOnError)
	seed := fs.Uint64("seed", 1, "")
	out := fs.String("out", "", "")
	replayDir := fs.String("replaydir", ".", "")
	replay := fs.String("replay", "", "")
	n := fs.Int("n", 300, "groups of commands per kind (measured at n/2 and n; a third n/2 when both halves grew)")
	lo := fs.Int("lo", 1024, "smallest size of the client strings of one group")
	hi := fs.Int("hi", 16384, "largest size")
	pendingN := fs.Int("pending", 0, "commands of the pending-* runs (0 = n)")
	sessionsN := fs.Int("sessions", 0, "connections of the run `sessions` (0 = n)")
	kindsFlag := fs.String("kinds", "", "comma-separated kinds (default: all)")
	workers := fs.Int("workers", 4, "server children running at the same time (one kind at a time per child)")
	wdMs := fs.Int("watchdog", 2000, "watchdog per command in ms")
	asMB := fs.Int("aslimit", 16384, "RLIMIT_AS of the child (MB, 0 = none)")
	dump := fs.Bool("dump", false, "print the measurements of every kind")
	profRate := fs.Int("memprofrate", 16384, "runtime.MemProfileRate of the child (allocation sites in a report; 1 = every allocation, for an investigation)")
	_ = fs.Parse(args)
	self, err := os.Executable()
	if err != nil {
		fmt.Fprintln(os.Stderr, err)
		return 1
	}
	res := &OracleResult{Stats: map[string]int{}}
	byName := map[string]*c11aKind{}
	var all []*c11aKind
	for _, k := range c11aKinds() {
		byName[k.name] = k
		all = append(all, k)
	}
	mkRun := func(k *c11aKind, n, lo, hi int) c11aRun {
		if k.lo > 0 && lo == 1024 && hi == 16384 {
			lo, hi = k.lo, k.hi
		}
		if n < 4 {
			n = 4
		}
		return c11aRun{kind: k, n: n, lo: lo, hi: hi}
	}
	var runs []c11aRun
	if *replay != "" {
		b, err := os.ReadFile(*replay)
		if err != nil {
			fmt.Fprintln(os.Stderr, err)
			return 1
		}
		for _, l := range strings.Split(string(b), "\n") {
			f := strings.Fields(l)
			switch {
			case len(f) >= 3 && f[0] == "oracle":
				for i := 2; i+1 < len(f); i++ {
					if f[i] == "-seed" {
						fmt.Sscan(f[i+1], seed)
					}
				}
			case len(f) >= 2 && f[0] == "accum":
				p := map[string]string{}
				for _, kv := range f[1:] {
					k, v, _ := strings.Cut(kv, "=")
					p[k] = v
				}
				k := byName[p["kind"]]
				if k == nil {
					fmt.Fprintf(os.Stderr, "%s: unknown kind %q\n", *replay, p["kind"])
					return 1
				}
				rn, _ := strconv.Atoi(p["n"])
				rlo, _ := strconv.Atoi(p["lo"])
				rhi, _ := strconv.Atoi(p["hi"])
				if rlo < 16 || rhi < rlo {
					rlo, rhi = 1024, 16384
				}
				runs = append(runs, c11aRun{kind: k, n: max(rn, 4), lo: rlo, hi: rhi})
			}
		}
		*workers = 1
	} else {
		sel := all
		if *kindsFlag != "" {
			sel = nil
			for _, name := range strings.Split(*kindsFlag, ",") {
				if k := byName[name]; k != nil {
					sel = append(sel, k)
				} else {
					fmt.Fprintf(os.Stderr, "unknown kind %q\n", name)
					return 1
				}
			}
		}
		for _, k := range sel {
			kn := *n
			if k.pending && *pendingN > 0 {
				kn = *pendingN
			}
			if k.perConn && *sessionsN > 0 {
				kn = *sessionsN
			}
			runs = append(runs, mkRun(k, kn, *lo, *hi))
		}
	}
	if *workers > len(runs) {
		*workers = len(runs)
	}
	if *workers < 1 {
		*workers = 1
	}
	var wg sync.WaitGroup
	var mu sync.Mutex
	var finds []c11aFinding
	for wi := 0; wi < *workers; wi++ {
		wg.Add(1)
		go func(wi int) {
			defer wg.Done()
			w := &c11aWorker{self: self, seed: *seed, wd: time.Duration(*wdMs) * time.Millisecond, asMB: *asMB, stats: map[string]int{}, dump: *dump, profRate: *profRate}
			for i := wi; i < len(runs); i += *workers {
				if w.child == nil {
					if err := w.setup(); err != nil {
						w.finds = append(w.finds, c11aFinding{cause: "cause=harness", desc: "cannot set up the server child: " + err.Error(), run: runs[i]})
						w.teardown(false)
						continue
					}
				}
				w.stats["runs"]++
				before := len(w.finds)
				ok := w.runKind(runs[i])
				if c11aTimingOnly(w.finds[before:]) && w.child != nil && w.child.alive() {
					// a loaded machine is not a stuck server: what rests on the watchdog alone stands only if a fresh
					// child, given three times the watchdog, shows it again
					w.stats["timing.retried"]++
					w.finds = w.finds[:before]
					w.teardown(false)
					if err := w.setup(); err == nil {
						w.wd *= 3
						ok = w.runKind(runs[i])
						w.wd /= 3
						if len(w.finds) == before {
							w.stats["timing.slow-not-stuck"]++
						}
					} else {
						w.finds = append(w.finds, c11aFinding{cause: "cause=harness", desc: "cannot set up the server child: " + err.Error(), run: runs[i]})
						ok = false
					}
				}
				if !ok {
					w.teardown(false)
				}
			}
			w.teardown(true)
			mu.Lock()
			for k, v := range w.stats {
				if strings.HasPrefix(k, "max.") {
					if v > res.Stats[k] {
						res.Stats[k] = v
					}
				} else {
					res.Stats[k] += v
				}
			}
			finds = append(finds, w.finds...)
			mu.Unlock()
		}(wi)
	}
	wg.Wait()
	res.Evaluations = res.Stats["commands"]
	// non-trivial: (kind, class of completion) pairs seen
	for k, v := range res.Stats {
		if v > 0 && strings.HasPrefix(k, "accum.") && (strings.HasSuffix(k, ".ok") || strings.HasSuffix(k, ".no") || strings.HasSuffix(k, ".bad")) {
			res.DistinctNontrivial++
		}
	}
	sort.SliceStable(finds, func(i, j int) bool {
		if finds[i].cause != finds[j].cause {
			return finds[i].cause < finds[j].cause
		}
		return finds[i].desc < finds[j].desc
	})
	perCause := map[string]int{}
	for _, f := range finds {
		c := strings.TrimPrefix(f.cause, "cause=")
		res.Stats["violation."+c]++
		perCause[c]++
		if perCause[c] > 3 {
			continue
		}
		kn := "-"
		if f.run.kind != nil {
			kn = f.run.kind.name
		}
		path := filepath.Join(*replayDir, fmt.Sprintf("C11-c11accum-%s-%s-s%d.txt", c, kn, *seed))
		var text bytes.Buffer
		fmt.Fprintf(&text, "oracle c11accum -seed %d\n", *seed)
		if f.run.kind != nil {
			text.WriteString(f.run.replayLine() + "\n")
		}
		fmt.Fprintf(&text, "# property C11 %s: %s\n# replay: ./check C11 --replay <this file>   (or: vh oracle c11accum -replay <this file> -dump)\n", f.cause, strings.ReplaceAll(f.desc, "\n", "\n# "))
		_ = os.MkdirAll(*replayDir, 0o755)
		_ = os.WriteFile(path, text.Bytes(), 0o644)
		res.Violations = append(res.Violations, OracleViol{Desc: "C11 c11accum " + f.cause + ": " + f.desc, Replay: path})
	}
	for _, r := range runs[:min(len(runs), 3)] {
		res.Samples = append(res.Samples, map[string]any{"run": r.replayLine(), "heap_growth_kb": res.Stats["accum."+r.kind.name+".heap-growth-kb"], "sent_kb": res.Stats["accum."+r.kind.name+".sent-kb"]})
	}
	if *out != "" {
		writeResult(*out, res)
	} else {
		b, _ := json.MarshalIndent(res, "", " ")
		fmt.Println(string(b))
	}
	return 0
}

func init() {
	RegisterOracle(&Oracle{Name: "c11accum", Run: c11aRunOracle})
}
