package main

// C12: size / depth boundaries. Messages whose MIME tree is shaped to sit on and around the limits a
// parser is likely to have (nesting depth 1..~400 and beyond, width of one multipart, length of a
// boundary string, of a header line, number of Content-Type parameters), used by
//   * the unit dialects mime-walk / mime-struct / mime-split / mime-scan / sexp (the Lean model has no
//     limit of any kind, so a limit in the code shows as a model/code disagreement and the judges state
//     `tree-depth-differs` / `tree-section-count-differs`),
//   * the c12structure oracle (case kind `shape`: BODYSTRUCTURE compared with the tree the message was
//     built from, Walk's section count and identifier depth, BODY[path] of the deepest path and of
//     some of its prefixes through the real FETCH code).
// Nothing here knows a particular limit: the marks are the usual suspects (powers of two, 100, …) ± 1.

import (
	"fmt"
	"strings"

	"github.com/ProtonMail/gluon/rfc822"
)

// c12DepthMarks: nesting depths worth trying (k-1, k, k+1 around typical caps).
var c12DepthMarks = []int{1, 2, 3, 4, 7, 8, 9, 15, 16, 17, 31, 32, 33, 49, 50, 51, 63, 64, 65, 99, 100, 101, 102,
	127, 128, 129, 199, 200, 201, 255, 256, 257, 300, 399, 400, 401}

// c12WidthMarks: number of sibling parts of one multipart.
var c12WidthMarks = []int{1, 2, 9, 10, 11, 63, 64, 65, 99, 100, 101, 127, 128, 129, 255, 256, 257, 511, 512, 513, 999, 1000, 1001, 1023, 1024, 1025, 2000}

// c12LenMarks: lengths of a boundary string / a header line.
var c12BoundaryLenMarks = []int{1, 2, 35, 63, 64, 65, 69, 70, 71, 72, 127, 128, 129, 200, 255, 256, 257, 998, 1000, 1024, 4096}
var c12LineLenMarks = []int{76, 77, 78, 79, 255, 256, 257, 997, 998, 999, 1000, 1001, 1023, 1024, 1025, 4095, 4096, 4097, 8192, 16384, 65535, 65536, 65537}
var c12ParamMarks = []int{1, 2, 7, 8, 9, 15, 16, 17, 31, 32, 33, 63, 64, 65, 100, 127, 128, 129, 255, 256, 257, 1000}

type c12ShapeSpec struct {
	kind string
	d, w int
}

func (s c12ShapeSpec) String() string { return fmt.Sprintf("%s/%d/%d", s.kind, s.d, s.w) }

var c12ShapeKinds = []string{"multipart", "rfc822", "alt", "alt-r", "mmr", "widedeep", "wide", "wide-nested", "longboundary", "longheader", "foldedheader", "manyparams"}

func c12ShapeLeaf(body string) *mimeNode {
	return &mimeNode{typ: "text", sub: "plain", params: [][2]string{{"charset", "us-ascii"}}, body: []byte(body)}
}

func c12ShapeBoundary(level, pad int) string {
	b := fmt.Sprintf("=_b%d_", level)
	if pad > len(b) {
		b += strings.Repeat("x", pad-len(b))
	}
	return b
}

// c12ShapeChain: levels[i] is 'm' (a multipart with `before` leaf parts in front of the next level and
// `after` behind it) or 'r' (a message/rfc822 part holding the next level); innermost a text part.
func c12ShapeChain(levels string, before, after, bndLen int) *mimeNode {
	var build func(i int) *mimeNode
	build = func(i int) *mimeNode {
		if i >= len(levels) {
			return c12ShapeLeaf("leaf")
		}
		if levels[i] == 'r' {
			n := &mimeNode{typ: "message", sub: "rfc822"}
			n.emb = build(i + 1)
			n.emb.hdrs = append([][2]string{{"Subject", fmt.Sprintf("level %d", i+1)}}, n.emb.hdrs...)
			return n
		}
		n := &mimeNode{typ: "multipart", sub: "mixed", boundary: c12ShapeBoundary(i, bndLen)}
		for j := 0; j < before; j++ {
			n.kids = append(n.kids, c12ShapeLeaf(fmt.Sprintf("sib %d.%d\r\n", i, j)))
		}
		n.kids = append(n.kids, build(i+1))
		for j := 0; j < after; j++ {
			n.kids = append(n.kids, c12ShapeLeaf(fmt.Sprintf("sib %d.%d", i, before+1+j)))
		}
		return n
	}
	return build(0)
}

func c12Repeat(pat string, n int) string {
	var sb strings.Builder
	for sb.Len() < n {
		sb.WriteString(pat)
	}
	return sb.String()[:n]
}

// c12ShapeTree builds the tree of a shape; nil for an unknown kind.
func c12ShapeTree(s c12ShapeSpec) *mimeNode {
	d, w := max(s.d, 0), max(s.w, 0)
	var t *mimeNode
	switch s.kind {
	case "multipart":
		t = c12ShapeChain(strings.Repeat("m", d), 0, 0, 0)
	case "rfc822":
		t = c12ShapeChain(strings.Repeat("r", d), 0, 0, 0)
	case "alt": // multipart holding a message holding a multipart …
		t = c12ShapeChain(c12Repeat("mr", d), 0, 0, 0)
	case "alt-r":
		t = c12ShapeChain(c12Repeat("rm", d), 0, 0, 0)
	case "mmr":
		t = c12ShapeChain(c12Repeat("mmr", d), 0, 0, 0)
	case "widedeep": // every level has w more parts, half of them in front of the deep one
		t = c12ShapeChain(strings.Repeat("m", d), w/2, w-w/2, 0)
	case "wide": // one multipart, w parts
		t = &mimeNode{typ: "multipart", sub: "mixed", boundary: c12ShapeBoundary(0, 0)}
		for j := 0; j < max(w, 1); j++ {
			t.kids = append(t.kids, c12ShapeLeaf(fmt.Sprintf("part %d", j)))
		}
	case "wide-nested": // w parts, every one a multipart of two
		t = &mimeNode{typ: "multipart", sub: "mixed", boundary: c12ShapeBoundary(0, 0)}
		for j := 0; j < max(w, 1); j++ {
			k := &mimeNode{typ: "multipart", sub: "alternative", boundary: c12ShapeBoundary(j+1, 0)}
			k.kids = []*mimeNode{c12ShapeLeaf(fmt.Sprintf("a %d", j)), c12ShapeLeaf(fmt.Sprintf("b %d\r\n", j))}
			t.kids = append(t.kids, k)
		}
	case "longboundary": // boundary strings of w characters, d levels
		t = c12ShapeChain(strings.Repeat("m", max(d, 1)), 1, 0, w)
	case "longheader", "foldedheader": // every part has a header field of w characters
		t = c12ShapeChain(strings.Repeat("m", max(d, 1)), 1, 1, 0)
		var put func(n *mimeNode)
		put = func(n *mimeNode) {
			v := c12Repeat("abcdefghi ", w)
			if s.kind == "foldedheader" {
				v = strings.TrimRight(strings.ReplaceAll(c12Repeat("abcdefghi ", w), "i a", "i\r\n a"), " \r\n")
			}
			n.hdrs = append(n.hdrs, [2]string{"X-Long", strings.TrimRight(v, " ")}, [2]string{"Content-Description", "after"})
			for _, k := range n.kids {
				put(k)
			}
		}
		put(t)
	case "manyparams": // w parameters in every Content-Type
		t = c12ShapeChain(strings.Repeat("m", max(d, 1)), 0, 1, 0)
		var put func(n *mimeNode)
		put = func(n *mimeNode) {
			for j := 0; j < w; j++ {
				n.params = append(n.params, [2]string{fmt.Sprintf("p%05d", j), fmt.Sprintf("v %d", j)})
			}
			for _, k := range n.kids {
				put(k)
			}
		}
		put(t)
	default:
		return nil
	}
	t.hdrs = append([][2]string{{"From", "a@b.c"}, {"To", "x@y.z"}, {"Subject", "shape " + s.String()},
		{"Date", "Wed, 2 Jun 2021 14:18:56 +0200"}}, t.hdrs...)
	return t
}

// c12ShapeMessage renders the shape with CRLF line ends.
func c12ShapeMessage(s c12ShapeSpec) (*mimeNode, []byte) {
	t := c12ShapeTree(s)
	if t == nil {
		return nil, nil
	}
	return t, t.render("\r\n")
}

// what Section.Children() is to return for the node: the parts of a multipart, for message/rfc822 the
// (hoisted) children of the embedded message
func (n *mimeNode) c12SecKids() []*mimeNode {
	for n.emb != nil {
		n = n.emb
	}
	if n.typ == "multipart" {
		return n.kids
	}
	return nil
}

// c12SecShape: number of sections Walk visits and the length of the longest part path (iterative on an
// explicit stack: the tree may be thousands of levels deep).
func (n *mimeNode) c12SecShape() (count, depth int) {
	type fr struct {
		n *mimeNode
		d int
	}
	st := []fr{{n, 0}}
	for len(st) > 0 {
		f := st[len(st)-1]
		st = st[:len(st)-1]
		count++
		depth = max(depth, f.d)
		for _, k := range f.n.c12SecKids() {
			st = append(st, fr{k, f.d + 1})
		}
	}
	return
}

// c12DeepestPath: the part path (1-based numbers) to a deepest section and the nodes along it
// (nodes[i] is the section addressed by path[:i]).
func (n *mimeNode) c12DeepestPath() (path []int, nodes []*mimeNode) {
	// depth of every node, children first
	depth := map[*mimeNode]int{}
	var order []*mimeNode
	st := []*mimeNode{n}
	for len(st) > 0 {
		x := st[len(st)-1]
		st = st[:len(st)-1]
		order = append(order, x)
		st = append(st, x.c12SecKids()...)
	}
	for i := len(order) - 1; i >= 0; i-- {
		x := order[i]
		d := 0
		for _, k := range x.c12SecKids() {
			d = max(d, depth[k]+1)
		}
		depth[x] = d
	}
	nodes = []*mimeNode{n}
	for cur := n; depth[cur] > 0; {
		for i, k := range cur.c12SecKids() {
			if depth[k]+1 == depth[cur] {
				path = append(path, i+1)
				nodes = append(nodes, k)
				cur = k
				break
			}
		}
	}
	return
}

// c12DirectedShapes: the fixed part of every run. level 0 = unit dialects, quick tier (the Lean model
// follows every message: its cost is quadratic in the width of a multipart and in the depth of a chain,
// so all marks up to 129 and a seed-dependent choice of the bigger ones), level 1 = unit dialects,
// thorough tier (all marks), level 2 = real code only (oracle; bigger still).
func c12DirectedShapes(level int, r *Rng) []c12ShapeSpec {
	var out []c12ShapeSpec
	add := func(kind string, w int, lim int, ds []int, pickBig bool) {
		var big []int
		for _, d := range ds {
			if level > 0 || d <= lim {
				out = append(out, c12ShapeSpec{kind, d, w})
			} else {
				big = append(big, d)
			}
		}
		if len(big) > 0 && pickBig { // one of the expensive ones per run
			out = append(out, c12ShapeSpec{kind, Pick(r, big), w})
		}
	}
	addW := func(kind string, d int, lim int, ws []int, pickBig bool) {
		var big []int
		for _, w := range ws {
			if level > 0 || w <= lim {
				out = append(out, c12ShapeSpec{kind, d, w})
			} else {
				big = append(big, w)
			}
		}
		if len(big) > 0 && pickBig {
			out = append(out, c12ShapeSpec{kind, d, Pick(r, big)})
		}
	}
	add("multipart", 0, 129, c12DepthMarks, true)
	if level == 0 { // a second one of the deep chains
		out = append(out, c12ShapeSpec{"multipart", Pick(r, []int{199, 200, 201, 255, 256, 257}), 0})
	}
	add("alt", 0, 129, []int{2, 3, 16, 17, 33, 64, 65, 100, 101, 102, 129, 200, 201, 257, 400}, true)
	add("alt-r", 0, 102, []int{2, 3, 17, 65, 101, 102, 201, 257}, true)
	add("mmr", 0, 153, []int{3, 48, 99, 150, 153, 300, 303}, true)
	add("rfc822", 0, 129, []int{1, 2, 3, 16, 17, 33, 65, 100, 101, 129}, false)
	add("widedeep", 2, 101, []int{3, 17, 33, 65, 100, 101, 129, 257}, false)
	add("widedeep", 10, 33, []int{5, 33, 101}, false)
	addW("wide", 1, 257, []int{1, 2, 100, 255, 256, 257, 511, 512, 513}, true)
	if level >= 1 {
		addW("wide", 1, 0, []int{1000, 1025}, false)
	}
	addW("wide-nested", 2, 65, []int{2, 64, 65, 257}, false)
	addW("longboundary", 3, 1000, []int{1, 69, 70, 71, 200, 1000, 4096}, false)
	addW("longheader", 2, 8192, []int{997, 998, 999, 1000, 8192, 65537}, false)
	addW("foldedheader", 2, 2000, []int{78, 998, 2000, 8192}, false)
	addW("manyparams", 2, 100, []int{1, 16, 17, 100, 1000}, false)
	if level >= 2 { // real code only: bigger
		for _, d := range []int{511, 512, 513, 999, 1000, 1001, 1023, 1024, 1025} {
			out = append(out, c12ShapeSpec{"multipart", d, 0})
		}
		// (the real code needs time cubic in the depth of message/rfc822 nesting: 1 s at 400, 17 s at 1025;
		// the deeper ones are in the thorough tier of the oracle)
		for _, d := range []int{257, 400, 513} {
			out = append(out, c12ShapeSpec{"rfc822", d, 0})
		}
		for _, d := range []int{257, 400, 513} {
			out = append(out, c12ShapeSpec{"alt", d, 0}, c12ShapeSpec{"alt-r", d, 0})
		}
		for _, w := range []int{2000, 4096, 5000, 10000} {
			out = append(out, c12ShapeSpec{"wide", 1, w})
		}
		out = append(out, c12ShapeSpec{"widedeep", 400, 2}, c12ShapeSpec{"widedeep", 513, 1}, c12ShapeSpec{"wide-nested", 2, 1025},
			c12ShapeSpec{"manyparams", 1, 5000}, c12ShapeSpec{"longheader", 1, 1 << 20}, c12ShapeSpec{"longboundary", 101, 70})
	}
	return out
}

// c12RandomShape: one shape, sizes drawn from the marks (small ones more often: the bigger ones are
// all in the directed part).
func c12RandomShape(r *Rng) c12ShapeSpec {
	k := Pick(r, c12ShapeKinds)
	depth := func(lim int) int {
		for {
			d := Pick(r, c12DepthMarks)
			if r.Chance(1, 3) {
				d = r.Range(1, lim)
			}
			if d <= lim {
				return d
			}
		}
	}
	switch k {
	case "multipart", "alt", "alt-r", "mmr":
		return c12ShapeSpec{k, depth(130), 0}
	case "rfc822":
		return c12ShapeSpec{k, depth(40), 0}
	case "widedeep":
		return c12ShapeSpec{k, depth(40), r.Range(1, 4)}
	case "wide", "wide-nested":
		for {
			if w := Pick(r, c12WidthMarks); w <= 129 && (k == "wide" || w <= 65) {
				return c12ShapeSpec{k, 1, w}
			}
		}
	case "longboundary":
		for {
			if w := Pick(r, c12BoundaryLenMarks); w <= 1024 {
				return c12ShapeSpec{k, r.Range(1, 4), w}
			}
		}
	case "longheader":
		for {
			if w := Pick(r, c12LineLenMarks); w <= 4097 {
				return c12ShapeSpec{k, r.Range(1, 3), w}
			}
		}
	case "foldedheader":
		for {
			if w := Pick(r, c12LineLenMarks); w <= 1025 {
				return c12ShapeSpec{k, r.Range(1, 3), w}
			}
		}
	default:
		for {
			if w := Pick(r, c12ParamMarks); w <= 129 {
				return c12ShapeSpec{"manyparams", r.Range(1, 3), w}
			}
		}
	}
}

// c12ScanShape: a multipart body for the scanner dialect: boundary length or number of parts on a mark.
func c12ScanShape(r *Rng) c12ShapeSpec {
	for {
		if r.Bool() {
			if w := Pick(r, c12BoundaryLenMarks); w <= 1024 {
				return c12ShapeSpec{"longboundary", 1, w}
			}
		} else if w := Pick(r, c12WidthMarks); w <= 257 {
			return c12ShapeSpec{"wide", 1, w}
		}
	}
}

// c12SplitDirected: header blocks for the Split dialect: one line of every marked length with and without
// its line end and blank line, folded lines, many short lines.
func c12SplitDirected() [][]byte {
	var out [][]byte
	for _, w := range c12LineLenMarks {
		line := "X-Long: " + c12Repeat("abcdefghi ", w-8)
		out = append(out, []byte(line), []byte(line+"\r\n\r\nbody"), []byte(line+"\nA: b\n\nbody\n\nmore"))
	}
	for _, k := range []int{1, 2, 99, 100, 101, 999, 1000, 1001, 5000} {
		out = append(out, []byte(strings.Repeat("A: b\r\n", k)+"\r\nbody"), []byte("A: b\r\n"+strings.Repeat(" folded\r\n", k)+"\r\nbody"))
	}
	return out
}

// c12DirectedMessages: the rendered directed shapes for a unit dialect.
func c12DirectedMessages(r *Rng, n int, st *Stats, pfx string) [][]byte {
	var out [][]byte
	level := 0
	if n >= 20000 { // thorough tier of the unit dialects
		level = 1
	}
	for _, s := range c12DirectedShapes(level, r) {
		_, m := c12ShapeMessage(s)
		out = append(out, m)
		st.Inc(pfx + ".shape-directed." + s.kind)
	}
	return out
}

// c12CollectEnvIndep fills the header tables like mimeCollectEnv, but takes the message apart by itself
// (a fresh rfc822.Parse of every part, rfc822.NewByteScanner for the parts of a multipart) instead of
// asking Section.Children(): what the model is told about a header block must not depend on how far
// the code under test follows the nesting.
func c12CollectEnvIndep(raw []byte, tbl map[string]mimeEnvEntry, visit func(*rfc822.Section), depth int) {
	if depth > 5000 {
		return
	}
	sec := rfc822.Parse(raw)
	h, _ := rfc822.Split(raw)
	e := mimeEnvEntry{ok: len(h) == 0 || len(sec.Header()) != 0, kind: 'o'}
	if ct, params, err := sec.ContentType(); err == nil {
		if ct == rfc822.MessageRFC822 {
			e.kind = 'r'
		} else if ct.IsMultiPart() {
			e.kind = 'm'
			e.bnd = params["boundary"]
		}
	}
	if !e.ok {
		e.kind, e.bnd = 'o', ""
	}
	if _, seen := tbl[string(h)]; !seen {
		tbl[string(h)] = e
		if visit != nil {
			visit(sec)
		}
	}
	body := sec.Body()
	switch e.kind {
	case 'r':
		c12CollectEnvIndep(body, tbl, visit, depth+1)
	case 'm':
		sc, err := rfc822.NewByteScanner(body, []byte(e.bnd))
		if err != nil {
			return
		}
		for _, p := range sc.ScanAll() {
			lo, hi := p.Offset, p.Offset+len(p.Data)
			if lo < 0 || hi > len(body) || lo > hi {
				continue
			}
			c12CollectEnvIndep(body[lo:hi], tbl, visit, depth+1)
		}
	}
}
