package main

// Oracle `c14namespace` (property C14): the mailbox namespace on the wire.
//
// One server per sequence (delimiters "/", ".", "|", "\"), one or two sessions and the dummy
// connector. A sequence is CREATE / DELETE / RENAME / SUBSCRIBE / UNSUBSCRIBE commands and connector
// mailbox updates (MailboxCreated / MailboxDeleted / RenameMailbox) over generated names (depth <= 6,
// INBOX in several letter cases, regexp metacharacters, list wildcards, blanks, trailing / doubled /
// leading delimiters, the empty name, non-ASCII names sent in modified UTF-7). The connector's queue
// is flushed after every step. After EVERY step the full namespace is read back over the wire (LIST "" "*",
// LSUB "" "*" and STATUS (MESSAGES) of every selectable name of that LIST; marker messages are APPENDed so
// that a mailbox that moved to another name, or two mailboxes that swapped names, are noticed) and compared
// with the Lean model's prediction for that step (dialect `namespace-trace`). After the sequence: LIST "" "*",
// LSUB "" "*" and generated reference/pattern pairs for LIST and LSUB.
//
// Half of the sequences (flag -twins) are "sibling hierarchy" sequences: 2-4 sibling names that are related in a
// way a string comparison can get wrong (same up to ASCII letter case, same up to the case of a non-ASCII
// letter, one a prefix of the other without delimiter, LIKE / glob / regexp metacharacters next to the names
// they would match, a leading / trailing blank, INBOX spellings below the first level), each with inferiors
// of the same relative names, some holding marker messages, some unsubscribed; then RENAME / DELETE /
// SUBSCRIBE / UNSUBSCRIBE / CREATE of ONE of them (RENAME also onto a sibling spelling of an existing name).
//
// Decided in Lean (the driver binary $VERIF_DRIVER):
//   tie       dialect `namespace-subs` (Model/NamespaceSubs.lean) predicts every tagged result class and the
//             final LIST / LSUB; any difference from the wire is reported (cause=model-mismatch…)
//   property  `judge-c14-nsops`   reference namespace rules on the replies the server gave
//             `judge-c14-wirelist` RFC 3501 LIST/LSUB selection (judge-c14-getmatches) on every LIST/LSUB answer
//
// Replay file (names hex-encoded UTF-8, `~` = empty; `#>` lines show the step in clear):
//   oracle c14namespace
//   delimiter <hex>
//   sessions <1|2>
//   S<i> C <name> | S<i> D <name> | S<i> R <old> <new> | S<i> S <name> | S<i> U <name> | S<i> A <name>
//   K KC <rid> <name> | K KD <rid> | K KN <name> | K KR <name> <new>
//   Q LIST <ref> <pattern> | Q LSUB <ref> <pattern>

import (
	"context"
	"encoding/hex"
	"flag"
	"fmt"
	"os"
	"path/filepath"
	"regexp"
	"sort"
	"strings"

	"github.com/ProtonMail/gluon/db"
	"github.com/ProtonMail/gluon/imap"
	"github.com/ProtonMail/gluon/verifhooks"
	"github.com/emersion/go-imap/utf7"
)

func nsHex(s string) string {
	if s == "" {
		return "~"
	}
	return hex.EncodeToString([]byte(s))
}

func nsUnhex(s string) (string, error) {
	if s == "~" {
		return "", nil
	}
	b, err := hex.DecodeString(s)
	return string(b), err
}

func nsEnc(s string) string {
	e, err := utf7.Encoding.NewEncoder().String(s)
	if err != nil {
		return s
	}
	return e
}

func nsDec(s string) string {
	d, err := utf7.Encoding.NewDecoder().String(s)
	if err != nil {
		return "\x00undecodable:" + s
	}
	return d
}

// nsQuote renders an (already modified-UTF-7) string as an IMAP quoted string.
func nsQuote(s string) string {
	return `"` + strings.ReplaceAll(strings.ReplaceAll(s, `\`, `\\`), `"`, `\"`) + `"`
}

func nsArg(utf8name string) string { return nsQuote(nsEnc(utf8name)) }

// capturing DB interposer: gives the harness read access to the user's database (name -> remote id)
type nsDB struct {
	inner db.ClientInterface
	last  db.Client
}

func (d *nsDB) New(path string, userID string) (db.Client, bool, error) {
	c, isNew, err := d.inner.New(path, userID)
	if err == nil {
		d.last = c
	}
	return c, isNew, err
}

func (d *nsDB) Delete(path string, userID string) error { return d.inner.Delete(path, userID) }

type nsSeq struct {
	delim    string
	nsess    int
	steps    []string // replay lines (ops and queries)
	ops      []string // protocol ops `C:<hex>` … in order
	results  []string // wire result classes, one per op
	replies  []string // tagged replies in clear (for the replay file)
	list     string
	lsub     string
	queries  []nsQuery
	err      error
	notes    []string
	modelOut string
	snaps    []nsSnap // the full namespace read back after every op
	twins    bool
	echoAt   int // index of the op whose refusal was followed by a change when the connector's queue was flushed; -1 = none
	echoDesc string
}

// nsSnap: the namespace as the wire shows it after one op
type nsSnap struct {
	list, lsub string // listing() format
	status     string // `hex=<count|x>;…` of every selectable name of list, sorted | `-`
}

type nsQuery struct {
	lsub     bool
	ref, pat string // UTF-8
	out      string // `hex=atts;…` | `-` | "panic"
	status   string
}

type nsRunner struct {
	sys   *Sys
	dbi   *nsDB
	s     []*Client
	delim string
	seq   *nsSeq
	vocab *nsVocab // sibling-hierarchy sequence: the names come from this vocabulary
	nmsg  int
}

func newNsRunner(delim string, nsess int) (*nsRunner, error) {
	dbi := &nsDB{inner: verifhooks.NewSQLiteDB()}
	sys, err := NewSys(SysOpts{Delimiter: delim, DB: dbi})
	if err != nil {
		return nil, err
	}
	r := &nsRunner{sys: sys, dbi: dbi, delim: delim, seq: &nsSeq{delim: delim, nsess: nsess, echoAt: -1}}
	for i := 0; i < nsess; i++ {
		c, err := sys.Dial(fmt.Sprintf("S%d", i))
		if err != nil {
			sys.Close(true)
			return nil, err
		}
		if rep := c.Login("user"); rep.Status != "OK" {
			sys.Close(true)
			return nil, fmt.Errorf("login: %s %v", rep.Tagged, rep.Err)
		}
		r.s = append(r.s, c)
	}
	return r, nil
}

func (r *nsRunner) close() {
	for _, c := range r.s {
		c.Close()
	}
	r.sys.Close(true)
}

// rows: name -> remote id of every mailbox in the database
func (r *nsRunner) rows() (map[string]string, error) {
	out := map[string]string{}
	if r.dbi.last == nil {
		return out, fmt.Errorf("no database client")
	}
	err := r.dbi.last.Read(context.Background(), func(ctx context.Context, ro db.ReadOnly) error {
		mbs, err := ro.GetAllMailboxesWithAttr(ctx)
		if err != nil {
			return err
		}
		for _, m := range mbs {
			out[m.Name] = string(m.RemoteID)
		}
		return nil
	})
	return out, err
}

func nsClassify(rep Reply) string {
	t := strings.ToLower(rep.Tagged)
	switch rep.Status {
	case "OK":
		return "ok"
	case "BAD":
		return "bad"
	case "NO":
		switch {
		case strings.Contains(t, "unique constraint") || strings.Contains(t, "sql") || strings.Contains(t, "constraint failed"):
			return "no:sqlerror"
		case strings.Contains(t, "cannot create inbox"):
			return "no:createinbox"
		case strings.Contains(t, "cannot delete inbox"):
			return "no:deleteinbox"
		case strings.Contains(t, "operation not allowed"):
			return "no:notallowed"
		case strings.Contains(t, "begins with hierarchy separator"):
			return "no:beginswithsep"
		case strings.Contains(t, "adjacent hierarchy separators"):
			return "no:adjacentsep"
		case strings.Contains(t, "already exists"):
			return "no:existing"
		case strings.Contains(t, "no such mailbox"):
			return "no:nosuch"
		case strings.Contains(t, "already subscribed"):
			return "no:alreadysub"
		case strings.Contains(t, "not subscribed"):
			return "no:alreadyunsub"
		}
		return "no:other"
	}
	return "lost"
}

func nsClear(f []string) string {
	un := func(s string) string { x, _ := nsUnhex(s); return fmt.Sprintf("%q", x) }
	switch {
	case len(f) == 3 && f[1] == "C":
		return f[0] + " CREATE " + un(f[2])
	case len(f) == 3 && f[1] == "D":
		return f[0] + " DELETE " + un(f[2])
	case len(f) == 4 && f[1] == "R":
		return f[0] + " RENAME " + un(f[2]) + " " + un(f[3])
	case len(f) == 3 && f[1] == "S":
		return f[0] + " SUBSCRIBE " + un(f[2])
	case len(f) == 3 && f[1] == "U":
		return f[0] + " UNSUBSCRIBE " + un(f[2])
	case len(f) == 3 && f[1] == "A":
		return f[0] + " APPEND " + un(f[2]) + " <marker message>"
	case len(f) == 4 && f[1] == "KC":
		return "connector MailboxCreated id=" + un(f[2]) + " name=" + un(f[3])
	case len(f) == 3 && f[1] == "KD":
		return "connector MailboxDeleted id=" + un(f[2])
	case len(f) == 3 && f[1] == "KN":
		return "connector MailboxDeleted (mailbox currently named " + un(f[2]) + ")"
	case len(f) == 4 && f[1] == "KR":
		return "connector RenameMailbox (mailbox currently named " + un(f[2]) + ") -> " + un(f[3])
	case len(f) == 4 && f[0] == "Q":
		return f[1] + " " + un(f[2]) + " " + un(f[3])
	}
	return strings.Join(f, " ")
}

func (r *nsRunner) listing(c *Client, cmd string) (out string, status string) {
	rep := c.Cmd(cmd)
	for _, p := range r.sys.Panics.Take() {
		r.seq.notes = append(r.seq.notes, "server goroutine panicked during "+cmd+": "+p)
		return "panic", "panic"
	}
	if rep.Err != nil {
		return "panic", "lost"
	}
	if rep.Status != "OK" {
		return "-", strings.ToLower(rep.Status)
	}
	var items []string
	for _, u := range rep.Untagged {
		atts, name, ok := awParseListLine(u)
		if !ok {
			continue
		}
		var as []string
		for _, a := range strings.Fields(atts) {
			as = append(as, strings.ToLower(strings.TrimPrefix(a, `\`)))
		}
		sort.Strings(as)
		items = append(items, nsHex(nsDec(name))+"="+strings.Join(as, "+"))
	}
	sort.Strings(items)
	if len(items) == 0 {
		return "-", "ok"
	}
	return strings.Join(items, ";"), "ok"
}

var nsReStatusMessages = regexp.MustCompile(`\(MESSAGES (\d+)\)\s*$`)

// snapshot reads the full namespace back through session c: LIST "" "*", LSUB "" "*" and the message count
// of every selectable name of that LIST.
func (r *nsRunner) snapshot(c *Client) nsSnap {
	var sn nsSnap
	sn.list, _ = r.listing(c, `LIST "" "*"`)
	sn.lsub, _ = r.listing(c, `LSUB "" "*"`)
	sn.status = "-"
	if sn.list == "-" || sn.list == "panic" {
		return sn
	}
	var items []string
	for _, it := range strings.Split(sn.list, ";") {
		kv := strings.SplitN(it, "=", 2)
		if len(kv) != 2 || strings.Contains("+"+kv[1]+"+", "+noselect+") {
			continue
		}
		name, _ := nsUnhex(kv[0])
		rep := c.Cmd("STATUS " + nsArg(name) + " (MESSAGES)")
		cnt := "x"
		if rep.Status == "OK" {
			for _, u := range rep.Untagged {
				if m := nsReStatusMessages.FindStringSubmatch(u); m != nil && strings.HasPrefix(u, "* STATUS ") {
					cnt = m[1]
				}
			}
		}
		items = append(items, kv[0]+"="+cnt)
	}
	sort.Strings(items)
	if len(items) > 0 {
		sn.status = strings.Join(items, ";")
	}
	return sn
}

// nsShowListing renders `hex=x;hex=y` in clear for the descriptions.
func nsShowListing(out string) string {
	if out == "-" || out == "panic" || out == "" {
		return "[" + out + "]"
	}
	var items []string
	for _, it := range strings.Split(out, ";") {
		kv := strings.SplitN(it, "=", 2)
		n, _ := nsUnhex(kv[0])
		if len(kv) == 2 {
			items = append(items, fmt.Sprintf("%q=%s", n, kv[1]))
		} else {
			items = append(items, fmt.Sprintf("%q", n))
		}
	}
	return "[" + strings.Join(items, " ") + "]"
}

// awRealNoselect maps the attribute rendering to the model's two classes.
func awRealNoselect(out string) string {
	if out == "-" || out == "panic" {
		return out
	}
	var items []string
	for _, it := range strings.Split(out, ";") {
		kv := strings.SplitN(it, "=", 2)
		cls := "real"
		for _, a := range strings.Split(kv[1], "+") {
			if a == "noselect" {
				cls = "noselect"
			}
		}
		items = append(items, kv[0]+"="+cls)
	}
	sort.Strings(items)
	return strings.Join(items, ";")
}

func (r *nsRunner) exec(step string) error {
	f := strings.Fields(step)
	q := r.seq
	q.steps = append(q.steps, step)
	un := func(s string) string { x, _ := nsUnhex(s); return x }
	fl := imap.NewFlagSet(imap.FlagSeen, imap.FlagFlagged, imap.FlagDeleted, imap.FlagAnswered, imap.FlagDraft)
	sess := func() *Client {
		i := 0
		if f[0] == "S1" && len(r.s) > 1 {
			i = 1
		}
		return r.s[i]
	}
	cmd := func(op string, line string) error {
		rep := sess().Cmd(line)
		q.ops = append(q.ops, op)
		q.results = append(q.results, nsClassify(rep))
		q.replies = append(q.replies, awCanonTagged(rep))
		if rep.Err != nil {
			return fmt.Errorf("%s: %v", line, rep.Err)
		}
		return nil
	}
	conn := func(op string, fn func()) {
		func() {
			defer func() {
				if p := recover(); p != nil {
					q.notes = append(q.notes, fmt.Sprintf("dummy connector fixture panicked at %q: %v", step, p))
				}
			}()
			fn()
		}()
		q.ops = append(q.ops, op)
		q.results = append(q.results, "k")
		q.replies = append(q.replies, "-")
	}
	var err error
	switch {
	case len(f) == 3 && f[1] == "C":
		err = cmd("C:"+f[2], "CREATE "+nsArg(un(f[2])))
	case len(f) == 3 && f[1] == "D":
		err = cmd("D:"+f[2], "DELETE "+nsArg(un(f[2])))
	case len(f) == 4 && f[1] == "R":
		err = cmd("R:"+f[2]+":"+f[3], "RENAME "+nsArg(un(f[2]))+" "+nsArg(un(f[3])))
	case len(f) == 3 && f[1] == "S":
		err = cmd("S:"+f[2], "SUBSCRIBE "+nsArg(un(f[2])))
	case len(f) == 3 && f[1] == "U":
		err = cmd("U:"+f[2], "UNSUBSCRIBE "+nsArg(un(f[2])))
	case len(f) == 3 && f[1] == "A":
		r.nmsg++
		rep := sess().Append(nsArg(un(f[2])), "", SimpleMessage(fmt.Sprintf("marker-%d", r.nmsg), "marker"))
		q.ops = append(q.ops, "A:"+f[2])
		q.results = append(q.results, nsClassify(rep))
		q.replies = append(q.replies, awCanonTagged(rep))
		if rep.Err != nil {
			err = fmt.Errorf("APPEND %s: %v", nsArg(un(f[2])), rep.Err)
		}
	case len(f) == 4 && f[1] == "KC":
		conn("KC:"+f[2]+":"+f[3], func() {
			_ = r.sys.Conn.MailboxCreated(imap.Mailbox{ID: imap.MailboxID(un(f[2])), Name: strings.Split(un(f[3]), r.delim), Flags: fl, PermanentFlags: fl, Attributes: imap.NewFlagSet()})
		})
	case len(f) == 3 && f[1] == "KD":
		conn("KD:"+f[2], func() { _ = r.sys.Conn.MailboxDeleted(imap.MailboxID(un(f[2]))) })
	case len(f) == 3 && f[1] == "KN":
		rows, e := r.rows()
		if e != nil {
			return e
		}
		conn("KN:"+f[2], func() {
			if rid, ok := rows[un(f[2])]; ok {
				_ = r.sys.Conn.MailboxDeleted(imap.MailboxID(rid))
			}
		})
	case len(f) == 4 && f[1] == "KR":
		rows, e := r.rows()
		if e != nil {
			return e
		}
		conn("KR:"+f[2]+":"+f[3], func() {
			if rid, ok := rows[un(f[2])]; ok {
				_ = r.sys.Conn.RenameMailbox(imap.MailboxID(rid), strings.Split(un(f[3]), r.delim))
			}
		})
	case len(f) == 4 && f[0] == "Q":
		verb := f[1]
		out, st := r.listing(r.s[0], fmt.Sprintf("%s %s %s", verb, nsArg(un(f[2])), nsArg(un(f[3]))))
		q.queries = append(q.queries, nsQuery{lsub: verb == "LSUB", ref: un(f[2]), pat: un(f[3]), out: out, status: st})
		return nil
	default:
		return fmt.Errorf("bad step %q", step)
	}
	if err != nil {
		return err
	}
	// a refused command must stay without effect also when the connector's queued updates are applied
	var before map[string]string
	refused := len(q.results) > 0 && strings.HasPrefix(q.results[len(q.results)-1], "no")
	if refused {
		before, _ = r.rows()
	}
	if e := r.sys.Barrier(); e != nil {
		return e
	}
	if refused && q.echoAt < 0 {
		after, _ := r.rows()
		if fmt.Sprint(awSortedNames(before)) != fmt.Sprint(awSortedNames(after)) {
			q.echoAt = len(q.results) - 1
			q.echoDesc = fmt.Sprintf("%s was answered %q, yet applying the connector's queued updates afterwards changed the mailbox names from %q to %q", nsClear(f), q.replies[len(q.replies)-1], awSortedNames(before), awSortedNames(after))
		}
	}
	for _, p := range r.sys.Panics.Take() {
		q.notes = append(q.notes, fmt.Sprintf("server goroutine panicked at step %q: %s", step, p))
	}
	// the full namespace after this op, seen by the sessions in turn
	q.snaps = append(q.snaps, r.snapshot(r.s[len(q.ops)%len(r.s)]))
	return nil
}

func (r *nsRunner) finishSeq() {
	q := r.seq
	// final listings through every session (they must agree)
	for i, c := range r.s {
		l, _ := r.listing(c, `LIST "" "*"`)
		s, _ := r.listing(c, `LSUB "" "*"`)
		if i == 0 {
			q.list, q.lsub = l, s
		} else if l != q.list || s != q.lsub {
			q.notes = append(q.notes, "sessions disagree about LIST/LSUB")
		}
	}
}

func awSortedNames(m map[string]string) []string {
	var out []string
	for n := range m {
		out = append(out, n)
	}
	sort.Strings(out)
	return out
}

// ---- generation --------------------------------------------------------------------------

var nsSegments = []string{
	"a", "b", "c", "ab", "a", "b", "INBOX", "inbox", "Inbox", "iNbOx", "Recovered Messages", "recovered messages",
	"x.y", "a+b", "(c)", "[d]", "{e}", "^f$", "g|h", "q?", "w*", "p%", `s\t`, "é", "日本", "ü&ü", "&", "sp ace", "~", "-", `qu"ote`,
}

func nsGenName(g *Rng, delim string, plain bool) string {
	depth := 1
	switch k := g.Intn(10); {
	case k < 4:
		depth = 1
	case k < 7:
		depth = 2
	case k < 9:
		depth = 3
	default:
		depth = g.Range(4, 6)
	}
	var parts []string
	for i := 0; i < depth; i++ {
		if plain || g.Chance(1, 2) {
			parts = append(parts, Pick(g, nsSegments[:6]))
		} else {
			parts = append(parts, Pick(g, nsSegments))
		}
	}
	name := strings.Join(parts, delim)
	if plain {
		return name
	}
	switch k := g.Intn(40); {
	case k < 4:
		name += delim
	case k < 6:
		name += delim + delim
	case k < 8:
		name = delim + name
	case k < 10 && depth > 1:
		name = strings.Replace(name, delim, delim+delim, 1)
	case k == 10:
		name = ""
	}
	return name
}

// ---- sibling hierarchies -------------------------------------------------------------------

// nsTwinFamilies: hierarchy segments that a wrong string comparison confuses with one another.
var nsTwinFamilies = [][]string{
	{"work", "Work", "WORK", "wOrk"},                       // equal up to ASCII letter case
	{"Lists", "lists", "LISTS", "work", "Work"},            // two such pairs
	{"work", "workshop", "work2", "wor", "Work"},           // one a prefix of the other, no delimiter between
	{"a%c", "abc", "a%", "abbc", "ac", `a\%c`},             // LIKE `%` next to what it would match
	{"a_c", "abc", "a_", "ab", "A_C", `a\_c`},              // LIKE `_`
	{"a*c", "abc", "a*", "abbc", "ac"},                     // glob / list wildcard `*`
	{"a?c", "abc", "a[bc]c", "a[b]c", "a[!b]c", "a]c"},     // glob `?` `[…]`
	{`a\c`, "ac", `a\\c`, `a\`, "a"},                       // the usual escape character
	{"a.c", "abc", "a+c", "aac", "a|c", "(a)c", "a$", "^a"}, // regular expression metacharacters
	{"work", "work ", " work", "wo rk", "work  "},          // leading / trailing / inner blank
	{"é", "É", "e", "café", "cafÉ", "CAFÉ"},                // equal up to the case of a non-ASCII letter
	{"straße", "STRASSE", "strasse", "ı", "i", "I", "İ"},    // case mappings that change length / are locale dependent
	{"inbox", "INBOX", "Inbox", "inbox2", "INBO"},          // INBOX spellings (special at the first level only)
	{"Recovered Messages", "recovered messages", "Recovered", "Recovered Messages2"},
}

type nsVocab struct {
	twins  []string // 2-4 members of one family
	kids   []string // relative names used below every twin
	prefix string   // "" or `<segment><delimiter>`: the twins live below it
	fresh  []string
}

func nsNewVocab(g *Rng, delim string) *nsVocab {
	fam := Pick(g, nsTwinFamilies)
	idx := make([]int, len(fam))
	for i := range idx {
		idx[i] = i
	}
	for i := len(idx) - 1; i > 0; i-- {
		j := g.Intn(i + 1)
		idx[i], idx[j] = idx[j], idx[i]
	}
	n := g.Range(2, 4)
	if n > len(fam) {
		n = len(fam)
	}
	v := &nsVocab{fresh: []string{"archive", "z", "Archive"}}
	for _, i := range idx[:n] {
		v.twins = append(v.twins, fam[i])
	}
	v.kids = []string{"reports", Pick(g, []string{"x", "Reports", "todo", "y"})}
	if g.Chance(1, 3) {
		v.kids = append(v.kids, Pick(g, fam))
	}
	switch k := g.Intn(10); {
	case k < 5:
	case k < 8:
		v.prefix = Pick(g, []string{"a", "Lists", "p"}) + delim
	default:
		v.prefix = Pick(g, fam) + delim
	}
	return v
}

// name: a twin, or a name of depth 2-3 below one
func (v *nsVocab) name(g *Rng, d string) string {
	n := v.prefix + Pick(g, v.twins)
	switch k := g.Intn(10); {
	case k < 4:
	case k < 8:
		n += d + Pick(g, v.kids)
	default:
		n += d + Pick(g, v.kids) + d + Pick(g, append(append([]string{}, v.kids...), v.twins...))
	}
	return n
}

// nsFlipCase changes the case of one ASCII letter (of all letters when all is set).
func nsFlipCase(g *Rng, s string, all bool) string {
	b := []byte(s)
	var at []int
	for i, c := range b {
		if (c >= 'a' && c <= 'z') || (c >= 'A' && c <= 'Z') {
			at = append(at, i)
		}
	}
	if len(at) == 0 {
		return s
	}
	if !all {
		at = []int{Pick(g, at)}
	}
	for _, i := range at {
		b[i] ^= 0x20
	}
	return string(b)
}

// sibling: an existing name with one hierarchy level replaced by a sibling spelling
func (v *nsVocab) sibling(g *Rng, d string, existing string) string {
	parts := strings.Split(existing, d)
	i := g.Intn(len(parts))
	switch k := g.Intn(4); {
	case k < 2:
		parts[i] = Pick(g, v.twins)
	case k < 3:
		parts[i] = nsFlipCase(g, parts[i], false)
	default:
		parts[i] = nsFlipCase(g, parts[i], true)
	}
	return strings.Join(parts, d)
}

// target: a new name for RENAME / CREATE
func (v *nsVocab) target(g *Rng, d string, existing []string) string {
	switch k := g.Intn(10); {
	case k < 3:
		n := v.prefix + Pick(g, v.fresh)
		if g.Chance(1, 4) {
			n += d + Pick(g, v.kids)
		}
		return n
	case k < 6 && len(existing) > 0:
		return v.sibling(g, d, Pick(g, existing))
	case k < 8 && len(existing) > 0:
		return Pick(g, existing) + d + Pick(g, append(append([]string{}, v.kids...), v.twins...))
	}
	return v.name(g, d)
}

// prelude: the sibling hierarchies, marker messages (a different number per twin), some unsubscribed
func (v *nsVocab) prelude(g *Rng, d string, nsess int) []string {
	var steps []string
	s := func() string { return fmt.Sprintf("S%d", g.Intn(nsess)) }
	for i, t := range v.twins {
		top := v.prefix + t
		first := top
		switch k := g.Intn(8); {
		case k < 1: // no inferiors
			steps = append(steps, fmt.Sprintf("%s C %s", s(), nsHex(top)))
		case k < 5: // CREATE of the inferior makes the twin
			first = top + d + v.kids[0]
			steps = append(steps, fmt.Sprintf("%s C %s", s(), nsHex(first)))
			if g.Bool() {
				steps = append(steps, fmt.Sprintf("%s C %s", s(), nsHex(top+d+v.kids[1])))
			}
		default:
			first = top + d + v.kids[0] + d + v.kids[1]
			steps = append(steps, fmt.Sprintf("%s C %s", s(), nsHex(top)), fmt.Sprintf("%s C %s", s(), nsHex(first)))
		}
		for k := 0; k <= i && k < 3; k++ {
			steps = append(steps, fmt.Sprintf("%s A %s", s(), nsHex(first)))
		}
		if g.Chance(1, 3) {
			steps = append(steps, fmt.Sprintf("%s U %s", s(), nsHex(Pick(g, []string{top, first}))))
		}
	}
	return steps
}

func nsStartsLikeInbox(name, delim string) bool {
	first := name
	if i := strings.Index(name, delim); i >= 0 {
		first = name[:i]
	}
	return strings.EqualFold(first, "INBOX")
}

func (r *nsRunner) genStep(g *Rng, kids *[]string) string {
	rows, _ := r.rows()
	var existing []string
	for n := range rows {
		existing = append(existing, n)
	}
	sort.Strings(existing)
	v := r.vocab
	genName := func(plain bool) string {
		if v != nil && !g.Chance(1, 12) {
			return v.name(g, r.delim)
		}
		return nsGenName(g, r.delim, plain)
	}
	newName := func() string {
		if v != nil && !g.Chance(1, 12) {
			return v.target(g, r.delim, existing)
		}
		nw := nsGenName(g, r.delim, false)
		if g.Chance(1, 6) && len(existing) > 0 { // below an existing mailbox
			nw = Pick(g, existing) + r.delim + Pick(g, nsSegments)
		}
		return nw
	}
	pickName := func(pExisting int) string {
		if len(existing) > 0 && g.Intn(100) < pExisting {
			n := Pick(g, existing)
			if g.Chance(1, 8) { // another spelling of an existing name
				switch g.Intn(4) {
				case 0:
					n = strings.ToLower(n)
				case 1:
					n = strings.ToUpper(n)
				case 2:
					n = nsFlipCase(g, n, false)
				default:
					if v != nil {
						n = v.sibling(g, r.delim, n)
					} else {
						n = strings.ToLower(n)
					}
				}
			}
			return n
		}
		return genName(false)
	}
	s := fmt.Sprintf("S%d", g.Intn(len(r.s)))
	// op mix: the sibling sequences rename / delete more and create less (their hierarchies exist already)
	cC, cD, cR, cS, cU, cA := 28, 40, 59, 67, 79, 82
	if v != nil {
		cC, cD, cR, cS, cU, cA = 14, 28, 60, 68, 78, 82
	}
	for {
		switch k := g.Intn(100); {
		case k < cC:
			return fmt.Sprintf("%s C %s", s, nsHex(newName()))
		case k < cD:
			return fmt.Sprintf("%s D %s", s, nsHex(pickName(85)))
		case k < cR:
			return fmt.Sprintf("%s R %s %s", s, nsHex(pickName(85)), nsHex(newName()))
		case k < cS:
			return fmt.Sprintf("%s S %s", s, nsHex(pickName(85)))
		case k < cU:
			// also names that were deleted while subscribed
			if g.Chance(1, 3) {
				return fmt.Sprintf("%s U %s", s, nsHex(genName(true)))
			}
			return fmt.Sprintf("%s U %s", s, nsHex(pickName(90)))
		case k < cA:
			// a marker message (never into the recovery mailbox)
			n := pickName(92)
			if strings.HasPrefix(strings.ToLower(n), "recovered messages") {
				continue
			}
			return fmt.Sprintf("%s A %s", s, nsHex(n))
		case k < 89:
			// connector: create (restricted: canonical names, see the report)
			n := genName(g.Chance(1, 2))
			if nsStartsLikeInbox(n, r.delim) || strings.HasPrefix(strings.ToLower(n), "recovered messages") {
				continue
			}
			rid := fmt.Sprintf("k%d", g.Intn(4))
			*kids = append(*kids, rid)
			return fmt.Sprintf("K KC %s %s", nsHex(rid), nsHex(n))
		case k < 92:
			if len(*kids) == 0 {
				continue
			}
			return fmt.Sprintf("K KD %s", nsHex(Pick(g, *kids)))
		case k < 95:
			var cand []string
			for _, n := range existing {
				if n != "INBOX" && n != "Recovered Messages" {
					cand = append(cand, n)
				}
			}
			if len(cand) == 0 {
				continue
			}
			return fmt.Sprintf("K KN %s", nsHex(Pick(g, cand)))
		default:
			var cand []string
			for _, n := range existing {
				if n != "INBOX" && n != "Recovered Messages" {
					cand = append(cand, n)
				}
			}
			nw := genName(g.Chance(1, 2))
			if v != nil && g.Bool() {
				nw = v.target(g, r.delim, cand)
			}
			if len(cand) == 0 || nsStartsLikeInbox(nw, r.delim) || strings.HasPrefix(strings.ToLower(nw), "recovered messages") {
				continue
			}
			return fmt.Sprintf("K KR %s %s", nsHex(Pick(g, cand)), nsHex(nw))
		}
	}
}

func (r *nsRunner) genQuery(g *Rng) string {
	rows, _ := r.rows()
	var existing []string
	for n := range rows {
		if n != "Recovered Messages" {
			existing = append(existing, n)
		}
	}
	sort.Strings(existing)
	d := r.delim
	nsSegments := nsSegments
	if r.vocab != nil && !g.Chance(1, 4) { // patterns over the sibling spellings
		nsSegments = append(append(append([]string{}, r.vocab.twins...), r.vocab.kids...), strings.TrimSuffix(r.vocab.prefix, d))
		if r.vocab.prefix == "" {
			nsSegments = nsSegments[:len(nsSegments)-1]
		}
	}
	ref := ""
	switch k := g.Intn(10); {
	case k < 5:
	case k < 7 && len(existing) > 0:
		n := Pick(g, existing)
		if i := strings.Index(n, d); i >= 0 && g.Bool() {
			n = n[:i]
		}
		ref = n + d
	case k < 8:
		ref = Pick(g, nsSegments)
		if g.Bool() {
			ref += d
		}
	case k < 9:
		ref = Pick(g, []string{"é" + d, "日本" + d, "ü&ü" + d, "&" + d}) // non-ASCII reference: sent in modified UTF-7
	default:
		ref = d
	}
	var pat string
	switch k := g.Intn(12); {
	case k < 2:
		pat = "*"
	case k < 4:
		pat = "%"
	case k < 6 && len(existing) > 0:
		n := Pick(g, existing)
		if i := strings.LastIndex(n, d); i > 0 && g.Chance(1, 3) { // a superior level by its exact name (maybe a pure parent)
			n = n[:i]
			if j := strings.LastIndex(n, d); j > 0 && g.Chance(1, 3) {
				n = n[:j]
			}
		}
		pat = strings.TrimPrefix(n, ref)
		if g.Bool() && len(pat) > 0 {
			i := g.Intn(len([]rune(pat)))
			rs := []rune(pat)
			pat = string(rs[:i]) + Pick(g, []string{"*", "%"}) + string(rs[i+1:])
		}
	case k < 8:
		pat = Pick(g, nsSegments) + Pick(g, []string{"*", "%", d + "%", d + "*", "%" + d + "%"})
	case k < 10:
		pat = Pick(g, []string{"%", "*"}) + d + Pick(g, nsSegments)
	case k < 11:
		pat = Pick(g, []string{"%" + d + "%", "*" + d + "*", "%*", "*%", "%%", "inbox" + d + "%", "INBOX*", "Inbox"})
	default:
		pat = Pick(g, nsSegments)
	}
	if pat == "" {
		pat = "%"
	}
	verb := "LIST"
	if g.Chance(2, 5) {
		verb = "LSUB"
	}
	return fmt.Sprintf("Q %s %s %s", verb, nsHex(ref), nsHex(pat))
}

func runNsSeq(g *Rng, delim string, nsess, nsteps, nqueries int, replay []string, twins bool) *nsSeq {
	r, err := newNsRunner(delim, nsess)
	if err != nil {
		return &nsSeq{delim: delim, nsess: nsess, err: err, echoAt: -1}
	}
	defer r.close()
	q := r.seq
	q.twins = twins
	if replay != nil {
		var ops, queries []string
		for _, s := range replay {
			if strings.HasPrefix(s, "Q ") {
				queries = append(queries, s)
			} else {
				ops = append(ops, s)
			}
		}
		for _, s := range ops {
			if q.err = r.exec(s); q.err != nil {
				return q
			}
		}
		r.finishSeq()
		for _, s := range queries {
			if q.err = r.exec(s); q.err != nil {
				return q
			}
		}
		return q
	}
	var kids []string
	if twins {
		r.vocab = nsNewVocab(g, delim)
		for _, st := range r.vocab.prelude(g, delim, nsess) {
			if q.err = r.exec(st); q.err != nil {
				return q
			}
		}
	}
	for k := 0; k < nsteps; k++ {
		if q.err = r.exec(r.genStep(g, &kids)); q.err != nil {
			return q
		}
	}
	r.finishSeq()
	for k := 0; k < nqueries; k++ {
		if q.err = r.exec(r.genQuery(g)); q.err != nil {
			return q
		}
	}
	return q
}

// ---- evaluation (Lean) ---------------------------------------------------------------------

type nsFinding struct {
	cause string
	desc  string
	query int // index into queries, -1 = about the ops
}

func nsField(out, key string) string {
	for _, w := range strings.Fields(out) {
		if strings.HasPrefix(w, key+"=") {
			return strings.TrimPrefix(w, key+"=")
		}
	}
	return ""
}

// nsEvaluate asks the Lean driver about a batch of sequences.
func nsEvaluate(seqs []*nsSeq, stats map[string]int) ([][]nsFinding, error) {
	out := make([][]nsFinding, len(seqs))
	var lines []string
	for _, q := range seqs {
		ops := "-"
		if len(q.ops) > 0 {
			ops = strings.Join(q.ops, ";")
		}
		lines = append(lines, fmt.Sprintf("namespace-subs %s %s", nsHex(q.delim), ops))
	}
	if len(lines) == 0 {
		return out, nil
	}
	for _, q := range seqs {
		ops := "-"
		if len(q.ops) > 0 {
			ops = strings.Join(q.ops, ";")
		}
		lines = append(lines, fmt.Sprintf("namespace-trace %s %s", nsHex(q.delim), ops))
	}
	ans, err := leanJudge(lines)
	if err != nil || len(ans) != len(lines) {
		return nil, fmt.Errorf("model driver: %v (%d answers for %d lines)", err, len(ans), len(lines))
	}
	trace := ans[len(seqs):]
	ans = ans[:len(seqs)]
	var jl []string
	type ref struct{ seq, query int }
	var refs []ref
	for i, q := range seqs {
		q.modelOut = ans[i]
		add := func(cause, desc string, query int) {
			out[i] = append(out[i], nsFinding{cause, desc, query})
		}
		for _, n := range q.notes {
			cause := "panic"
			if strings.Contains(n, "fixture") {
				cause = "harness-fixture"
			}
			add(cause, n+" cause="+cause, -1)
		}
		if q.err != nil {
			add("history-aborted", "sequence aborted (server error, dropped connection or timeout): "+q.err.Error()+" cause=history-aborted", -1)
			continue
		}
		// The model assumes a connector that accepts every request and whose echo of a command is a no-op.
		// A command that fails in the database after gluon has already called the connector (raw SQLite error)
		// leaves the connector's own state changed; from there on only the replies up to that command are judged.
		cut := q.echoAt
		for k, w := range q.results {
			if w == "no:sqlerror" && (cut < 0 || k < cut) {
				cut = k
			}
		}
		if q.echoAt >= 0 {
			stats["sequences.echo-after-refusal"]++
			add("connector-echo-after-refusal", q.echoDesc+" cause=connector-echo-after-refusal", -1)
		}
		// tie, step by step: the reply class of every op (up to and including a cut) and the full namespace
		// after every op (before a cut): LIST "" "*", LSUB "" "*", STATUS (MESSAGES) of every selectable name
		if tr := strings.Fields(trace[i]); len(tr) == len(q.ops) && len(q.snaps) == len(q.ops) && !strings.HasPrefix(trace[i], "bad-op") {
			for k := range q.ops {
				if cut >= 0 && k > cut {
					break
				}
				w := strings.Split(tr[k], "!")
				if len(w) != 4 {
					break
				}
				m := w[0]
				if m == "no:dbunique" {
					m = "no:sqlerror"
				}
				after := fmt.Sprintf("op %d (%s)", k, nsClear(strings.Fields(q.steps[k])))
				if m != q.results[k] {
					if cut >= 0 { // without a cut the comparison below reports it
						add("model-mismatch", fmt.Sprintf("tie: %s answered %s (%s), the Lean model of the code predicts %s cause=model-mismatch", after, q.results[k], q.replies[k], w[0]), -1)
					}
					break
				}
				if cut >= 0 && k == cut {
					break
				}
				sn := q.snaps[k]
				if got := awRealNoselect(sn.list); got != w[1] {
					add("model-mismatch-list", fmt.Sprintf("tie: after %s LIST \"\" \"*\" = %s, the Lean model of the code predicts %s cause=model-mismatch-list", after, nsShowListing(got), nsShowListing(w[1])), -1)
					break
				}
				if got := awRealNoselect(sn.lsub); got != w[2] {
					add("model-mismatch-lsub", fmt.Sprintf("tie: after %s LSUB \"\" \"*\" = %s, the Lean model of the code predicts %s cause=model-mismatch-lsub", after, nsShowListing(got), nsShowListing(w[2])), -1)
					break
				}
				if sn.status != w[3] {
					add("model-mismatch-status", fmt.Sprintf("tie: after %s STATUS (MESSAGES) of the listed mailboxes = %s, the Lean model of the code predicts %s cause=model-mismatch-status", after, nsShowListing(sn.status), nsShowListing(w[3])), -1)
					break
				}
				stats["tie.namespace-after-op-agrees"]++
			}
		} else if len(q.ops) > 0 && q.err == nil {
			add("harness-observation", fmt.Sprintf("model driver gave %d trace words for %d ops (%d snapshots): %.80s cause=harness-observation", len(tr), len(q.ops), len(q.snaps), trace[i]), -1)
		}
		if cut >= 0 {
			stats["sequences.cut-after-database-error"]++
			jl = append(jl, fmt.Sprintf("judge-c14-nsops %s %s => %s", nsHex(q.delim), strings.Join(q.ops[:cut+1], ";"), strings.Join(q.results[:cut+1], ",")))
			refs = append(refs, ref{i, -1})
			continue
		}
		f := strings.Fields(ans[i])
		if len(f) == 0 || strings.HasPrefix(ans[i], "bad-op") {
			add("harness-observation", "model driver refused the sequence: "+ans[i]+" cause=harness-observation", -1)
			continue
		}
		// tie: result classes
		mres := []string{}
		if f[0] != "-" {
			mres = strings.Split(f[0], ",")
		}
		same := len(mres) == len(q.results)
		for k := 0; same && k < len(mres); k++ {
			m, w := mres[k], q.results[k]
			if m == "no:dbunique" {
				m = "no:sqlerror"
			}
			if m != w {
				same = false
				add("model-mismatch", fmt.Sprintf("tie: op %d (%s) answered %s, the Lean model of the code predicts %s cause=model-mismatch", k, q.ops[k], w, mres[k]), -1)
			}
		}
		if same {
			stats["tie.results-agree"]++
			if w := awRealNoselect(q.list); w != nsField(ans[i], "list") {
				add("model-mismatch-list", fmt.Sprintf("tie: final LIST \"\" \"*\" = %s, the Lean model of the code predicts %s cause=model-mismatch-list", w, nsField(ans[i], "list")), -1)
			} else {
				stats["tie.list-agrees"]++
			}
			if w := awRealNoselect(q.lsub); w != nsField(ans[i], "lsub") {
				add("model-mismatch-lsub", fmt.Sprintf("tie: final LSUB \"\" \"*\" = %s, the Lean model of the code predicts %s cause=model-mismatch-lsub", w, nsField(ans[i], "lsub")), -1)
			} else {
				stats["tie.lsub-agrees"]++
			}
		}
		// property: replies
		res := "-"
		if len(q.results) > 0 {
			res = strings.Join(q.results, ",")
		}
		ops := "-"
		if len(q.ops) > 0 {
			ops = strings.Join(q.ops, ";")
		}
		jl = append(jl, fmt.Sprintf("judge-c14-nsops %s %s => %s", nsHex(q.delim), ops, res))
		refs = append(refs, ref{i, -1})
		// property: LIST / LSUB answers
		listmb, lsubcode, lsubref := nsField(ans[i], "listmb"), nsField(ans[i], "lsubcode"), nsField(ans[i], "lsubref")
		wl := func(lsub bool, refS, pat, outS string, qi int) {
			// the reference argument is a mailbox name: INBOX as a whole is case-insensitive (command.ParseMailbox)
			if strings.EqualFold(refS, "INBOX") {
				refS = "INBOX"
			}
			refmb, codemb, l := listmb, listmb, "0"
			if lsub {
				refmb, codemb, l = lsubref, lsubcode, "1"
			}
			tail := "ok " + outS
			if outS == "panic" {
				tail = "panic"
			}
			jl = append(jl, fmt.Sprintf("judge-c14-wirelist %s %s %s %s %s %s %s => %s", nsHex(refS), nsHex(nsEnc(refS)), nsHex(pat), nsHex(q.delim), l, refmb, codemb, tail))
			refs = append(refs, ref{i, qi})
		}
		wl(false, "", "*", q.list, -2)
		wl(true, "", "*", q.lsub, -3)
		for qi, qu := range q.queries {
			if qu.status != "ok" && qu.status != "panic" {
				add("list-refused", fmt.Sprintf("%s %q %q answered %s cause=list-refused", map[bool]string{false: "LIST", true: "LSUB"}[qu.lsub], qu.ref, qu.pat, qu.status), qi)
				continue
			}
			wl(qu.lsub, qu.ref, qu.pat, qu.out, qi)
		}
	}
	if len(jl) == 0 {
		return out, nil
	}
	jans, err := leanJudge(jl)
	if err != nil || len(jans) != len(jl) {
		return nil, fmt.Errorf("judge driver: %v (%d answers for %d lines)", err, len(jans), len(jl))
	}
	for k, a := range jans {
		w := strings.Fields(a)
		kind := "nsops"
		if refs[k].query != -1 {
			kind = "list"
		}
		if len(w) >= 2 && w[0] == "ok" {
			stats["judge."+kind+"."+w[1]]++
			continue
		}
		cause := "unknown"
		if m := awReCause.FindStringSubmatch(a); m != nil {
			cause = m[1]
		}
		q := seqs[refs[k].seq]
		desc := a
		switch qi := refs[k].query; {
		case qi == -2:
			desc = `final LIST "" "*": ` + a
		case qi == -3:
			desc = `final LSUB "" "*": ` + a
		case qi >= 0:
			qu := q.queries[qi]
			desc = fmt.Sprintf("%s %q %q: %s", map[bool]string{false: "LIST", true: "LSUB"}[qu.lsub], qu.ref, qu.pat, a)
		}
		out[refs[k].seq] = append(out[refs[k].seq], nsFinding{cause, desc + " | judged: " + jl[k], refs[k].query})
	}
	return out, nil
}

func nsReplayText(q *nsSeq, steps []string, f nsFinding, note string) string {
	var b strings.Builder
	fmt.Fprintf(&b, "oracle c14namespace\ndelimiter %s\nsessions %d\n", nsHex(q.delim), q.nsess)
	for _, s := range steps {
		fmt.Fprintf(&b, "#> %s\n%s\n", nsClear(strings.Fields(s)), s)
	}
	fmt.Fprintf(&b, "# property C14: %s\n# %s\n", f.desc, note)
	k := 0
	for _, s := range q.steps {
		if strings.HasPrefix(s, "Q ") {
			continue
		}
		if k < len(q.replies) && q.replies[k] != "-" {
			fmt.Fprintf(&b, "# reply: %s -> %s\n", nsClear(strings.Fields(s)), q.replies[k])
		}
		k++
	}
	b.WriteString("# replay: ./check C14 --replay <this file>\n")
	return b.String()
}

func runNamespaceOracle(args []string) int {
	fs := flag.NewFlagSet("c14namespace", flag.ExitOnError)
	seed := fs.Uint64("seed", 1, "")
	out := fs.String("out", "", "")
	replayDir := fs.String("replaydir", ".", "")
	replay := fs.String("replay", "", "")
	n := fs.Int("n", 40, "sequences")
	nsteps := fs.Int("steps", 10, "steps per sequence")
	nq := fs.Int("queries", 6, "LIST/LSUB queries per sequence")
	shrinkBudget := fs.Int("shrink", 25, "re-runs per reported violation")
	twinsPct := fs.Int("twins", 50, "0 = no sibling-hierarchy sequences, 100 = only such, else every second one")
	_ = fs.Parse(args)
	res := &OracleResult{Stats: map[string]int{}}
	perCause := map[string]int{}
	finish := func() int {
		if *out != "" {
			writeResult(*out, res)
		}
		for _, k := range sortedKeys(res.Stats) {
			fmt.Fprintf(os.Stderr, "%s=%d ", k, res.Stats[k])
		}
		fmt.Fprintln(os.Stderr)
		for _, v := range res.Violations {
			fmt.Fprintln(os.Stderr, "VIOL", v.Desc, v.Replay)
		}
		return 0
	}
	write := func(q *nsSeq, steps []string, f nsFinding, note string) {
		name := fmt.Sprintf("C14-namespace-%d-%d.txt", *seed, len(res.Violations))
		path := filepath.Join(*replayDir, name)
		_ = os.MkdirAll(*replayDir, 0o755)
		_ = os.WriteFile(path, []byte(nsReplayText(q, steps, f, note)), 0o644)
		res.Violations = append(res.Violations, OracleViol{Desc: "C14: " + f.desc, Replay: path})
	}
	// stepsFor: the ops of the sequence plus (for a finding about one query) that query only
	stepsFor := func(q *nsSeq, f nsFinding) []string {
		var st []string
		qi := 0
		for _, s := range q.steps {
			if strings.HasPrefix(s, "Q ") {
				if qi == f.query {
					st = append(st, s)
				}
				qi++
				continue
			}
			st = append(st, s)
		}
		return st
	}
	hasCause := func(steps []string, q *nsSeq, cause string) (*nsSeq, *nsFinding) {
		q2 := runNsSeq(nil, q.delim, q.nsess, 0, 0, steps, false)
		fs, err := nsEvaluate([]*nsSeq{q2}, map[string]int{})
		if err != nil {
			return nil, nil
		}
		for _, f := range fs[0] {
			if f.cause == cause {
				f := f
				return q2, &f
			}
		}
		return nil, nil
	}
	reportAll := func(seqs []*nsSeq, findings [][]nsFinding, note string, shrink bool) {
		for i, q := range seqs {
			seen := map[string]bool{}
			for _, f := range findings[i] {
				res.Stats["violation.cause="+f.cause]++
				if seen[f.cause] {
					continue
				}
				seen[f.cause] = true
				perCause[f.cause]++
				if perCause[f.cause] > 2 {
					continue
				}
				steps := stepsFor(q, f)
				bestQ, bestF := q, f
				if shrink {
					budget := *shrinkBudget
					for k := 0; k < len(steps) && budget > 0; {
						if strings.HasPrefix(steps[k], "Q ") {
							k++
							continue
						}
						cand := append(append([]string{}, steps[:k]...), steps[k+1:]...)
						budget--
						if q2, f2 := hasCause(cand, q, f.cause); q2 != nil {
							steps, bestQ, bestF = cand, q2, *f2
						} else {
							k++
						}
					}
				}
				write(bestQ, steps, bestF, note)
			}
		}
	}
	if *replay != "" {
		b, err := os.ReadFile(*replay)
		if err != nil {
			fmt.Fprintln(os.Stderr, err)
			return 1
		}
		delim, nsess := "/", 1
		var steps []string
		for i, l := range strings.Split(string(b), "\n") {
			if i == 0 || l == "" || strings.HasPrefix(l, "#") {
				continue
			}
			f := strings.Fields(l)
			switch {
			case f[0] == "delimiter" && len(f) == 2:
				delim, _ = nsUnhex(f[1])
			case f[0] == "sessions" && len(f) == 2:
				if f[1] == "2" {
					nsess = 2
				}
			default:
				steps = append(steps, l)
			}
		}
		q := runNsSeq(nil, delim, nsess, 0, 0, steps, false)
		res.Evaluations = len(q.ops) + len(q.queries) + 2
		res.DistinctNontrivial = res.Evaluations
		findings, err := nsEvaluate([]*nsSeq{q}, res.Stats)
		if err != nil {
			res.Violations = append(res.Violations, OracleViol{Desc: "C14: " + err.Error()})
			return finish()
		}
		perCause = map[string]int{}
		for _, f := range findings[0] {
			res.Stats["violation.cause="+f.cause]++
			write(q, stepsFor(q, f), f, "replayed")
		}
		return finish()
	}
	var corpus []*nsSeq
	if dir := os.Getenv("VERIF_CORPUS"); dir != "" {
		files, _ := filepath.Glob(filepath.Join(dir, "*.namespace"))
		sort.Strings(files)
		for _, fn := range files {
			b, err := os.ReadFile(fn)
			if err != nil {
				continue
			}
			delim, nsess := "/", 1
			var steps []string
			for i, l := range strings.Split(string(b), "\n") {
				if i == 0 || l == "" || strings.HasPrefix(l, "#") {
					continue
				}
				f := strings.Fields(l)
				switch {
				case f[0] == "delimiter" && len(f) == 2:
					delim, _ = nsUnhex(f[1])
				case f[0] == "sessions" && len(f) == 2:
					if f[1] == "2" {
						nsess = 2
					}
				default:
					steps = append(steps, l)
				}
			}
			res.Stats["corpus"]++
			corpus = append(corpus, runNsSeq(nil, delim, nsess, 0, 0, steps, false))
		}
		if len(corpus) > 0 {
			findings, err := nsEvaluate(corpus, res.Stats)
			if err != nil {
				res.Violations = append(res.Violations, OracleViol{Desc: "C14: " + err.Error()})
			} else {
				saved := perCause
				perCause = map[string]int{} // every directed history reports
				reportAll(corpus, findings, "corpus history", false)
				perCause = saved
			}
		}
	}
	g := NewRng(*seed)
	delims := []string{"/", ".", "|", `\`}
	var seqs []*nsSeq
	for k := 0; k < *n; k++ {
		sg := g.Fork()
		delim := delims[k%len(delims)]
		nsess := 1 + sg.Intn(2)
		// the delimiter changes with k, the kind of sequence with k/len(delims): every delimiter gets both kinds
		twins := *twinsPct >= 100 || (*twinsPct > 0 && (k/len(delims))%2 == 0)
		q := runNsSeq(sg, delim, nsess, sg.Range(*nsteps/2, *nsteps+*nsteps/2), *nq, nil, twins)
		seqs = append(seqs, q)
		res.Stats["sequences"]++
		if twins {
			res.Stats["sequences.sibling-hierarchies"]++
		}
		res.Stats["delimiter."+nsHex(delim)]++
		res.Stats[fmt.Sprintf("sessions.%d", nsess)]++
		for i, op := range q.ops {
			kind := op[:strings.Index(op, ":")]
			res.Stats["op."+kind]++
			if i < len(q.results) {
				res.Stats["op."+kind+"."+strings.SplitN(q.results[i], ":", 2)[0]]++
			}
		}
		for _, qu := range q.queries {
			if qu.lsub {
				res.Stats["query.LSUB"]++
			} else {
				res.Stats["query.LIST"]++
			}
			if qu.ref != "" {
				res.Stats["query.with-reference"]++
			}
			if nsEnc(qu.ref) != qu.ref {
				res.Stats["query.reference-needs-utf7"]++
			}
		}
		res.Evaluations += len(q.ops) + len(q.queries) + 2
	}
	findings, err := nsEvaluate(seqs, res.Stats)
	if err != nil {
		res.Violations = append(res.Violations, OracleViol{Desc: "C14: " + err.Error()})
		return finish()
	}
	res.DistinctNontrivial = res.Evaluations
	if len(seqs) > 0 {
		res.Samples = append(res.Samples, map[string]any{"delimiter": seqs[0].delim, "steps": seqs[0].steps, "model": seqs[0].modelOut})
	}
	reportAll(seqs, findings, fmt.Sprintf("generated (seed %d), minimised", *seed), true)
	return finish()
}

func init() { RegisterOracle(&Oracle{Name: "c14namespace", Run: runNamespaceOracle}) }
