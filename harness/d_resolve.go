package main

// Dialects `resolve` and `seqset-parse` (C16): the real snapMsgList.getMessagesInSeqRange /
// getMessagesInUIDRange (through verifhooks.Resolve) and the real rfcparser + command.ParseSeqSet
// against the Lean model GluonModel/Model/SeqSet.lean.
//
//	resolve      <seq|uid> <uids> <set>     set = b:e,b:e,… (Go ints, 0 = "*"); uids = u1,u2,…|-
//	seqset-parse <seq|uid> <uids> <hex of the sequence-set text>
//
// Result: `ok <seq:id:uid,…|->` | `err nosuchmessage` | `panic`; seqset-parse appends
// `ranges=<b:e,…> used=<bytes consumed>` or answers `err parse` when the parser rejects the text.

import (
	"bytes"
	"encoding/hex"
	"errors"
	"fmt"
	"io"
	"math/big"
	"strconv"
	"strings"

	"github.com/ProtonMail/gluon/imap/command"
	"github.com/ProtonMail/gluon/rfcparser"
	"github.com/ProtonMail/gluon/verifhooks"
)

func c16ResolveSnap(uids string) []verifhooks.Msg {
	var out []verifhooks.Msg
	for i, u := range splitNonEmpty(uids, ",") {
		n, err := strconv.ParseUint(u, 10, 32)
		if err != nil {
			panic("bad uid " + u)
		}
		out = append(out, verifhooks.Msg{ID: uint64(i + 1), UID: uint32(n)})
	}
	return out
}

func c16ResolveRun(mode string, snap []verifhooks.Msg, set []verifhooks.SeqRange) string {
	out, err, panicked := verifhooks.Resolve(snap, set, mode == "uid")
	switch {
	case panicked != nil:
		return "panic"
	case err != nil:
		if err.Error() == "no such message" { // state.ErrNoSuchMessage (internal package)
			return "err nosuchmessage"
		}
		return "err other"
	}
	if len(out) == 0 {
		return "ok -"
	}
	parts := make([]string, 0, len(out))
	for _, m := range out {
		parts = append(parts, fmt.Sprintf("%d:%d:%d", m.Seq, m.ID, m.UID))
	}
	return "ok " + strings.Join(parts, ",")
}

func c16ResolveImpl(args []string) string {
	if len(args) != 3 || (args[0] != "seq" && args[0] != "uid") {
		return "bad-op"
	}
	var set []verifhooks.SeqRange
	for _, it := range splitNonEmpty(args[2], ",") {
		p := strings.Split(it, ":")
		if len(p) != 2 {
			return "bad-op"
		}
		set = append(set, verifhooks.SeqRange{Begin: atoi(p[0]), End: atoi(p[1])})
	}
	return c16ResolveRun(args[0], c16ResolveSnap(args[1]), set)
}

func c16SeqSetParseImpl(args []string) string {
	if len(args) != 3 || (args[0] != "seq" && args[0] != "uid") {
		return "bad-op"
	}
	var text []byte
	if args[2] != "-" {
		var err error
		if text, err = hex.DecodeString(args[2]); err != nil {
			return "bad-op"
		}
	}
	p := rfcparser.NewParser(rfcparser.NewScanner(bytes.NewReader(text)))
	if err := p.Advance(); err != nil {
		return "err parse"
	}
	ranges, err := command.ParseSeqSet(p)
	if err != nil {
		var perr *rfcparser.Error
		if errors.As(err, &perr) {
			return "err parse" // a *rfcparser.Error: the session answers BAD
		}
		return "err nonparser"
	}
	cur := p.CurrentToken()
	used := cur.Offset
	if cur.TType != rfcparser.TokenTypeEOF {
		used--
	}
	set := make([]verifhooks.SeqRange, 0, len(ranges))
	shown := make([]string, 0, len(ranges))
	for _, r := range ranges {
		set = append(set, verifhooks.SeqRange{Begin: int(r.Begin), End: int(r.End)})
		shown = append(shown, fmt.Sprintf("%d:%d", int(r.Begin), int(r.End)))
	}
	return fmt.Sprintf("%s ranges=%s used=%d", c16ResolveRun(args[0], c16ResolveSnap(args[1]), set), strings.Join(shown, ","), used)
}

// ---------------------------------------------------------------------------------------------
// generator

var c16ResolveSizes = []int{0, 1, 2, 5, 40}

// c16GenView: strictly ascending uint32 UIDs; dense, gapped, or ending at the top of the UID space.
func c16GenView(r *Rng, st *Stats) []uint32 {
	n := Pick(r, c16ResolveSizes)
	st.Inc(fmt.Sprintf("view-size-%d", n))
	uids := make([]uint32, 0, n)
	switch shape := r.Intn(10); {
	case shape < 3: // dense 1..n
		for i := 0; i < n; i++ {
			uids = append(uids, uint32(i+1))
		}
	case shape < 9: // gaps
		u := uint32(r.Intn(4))
		for i := 0; i < n; i++ {
			u += uint32(1 + r.Intn(4))
			uids = append(uids, u)
		}
	default: // last UIDs at 2^32-1
		u := uint64(1<<32) - uint64(n)*3
		for i := 0; i < n; i++ {
			u += uint64(1 + r.Intn(3))
			uids = append(uids, uint32(u))
		}
		if n > 0 {
			uids[n-1] = 1<<32 - 1
		}
	}
	return uids
}

func c16ShowUids(uids []uint32) string {
	if len(uids) == 0 {
		return "-"
	}
	parts := make([]string, len(uids))
	for i, u := range uids {
		parts[i] = strconv.FormatUint(uint64(u), 10)
	}
	return strings.Join(parts, ",")
}

func c16BigPow(e uint) *big.Int { return new(big.Int).Lsh(big.NewInt(1), e) }

// c16GenNumber draws one number (nil = "*").  mag 0: what the parser lets through (1 … 2^32-1);
// mag 1: any positive Go int (raw values fed through the hook); mag 2: any magnitude (text).
func c16GenNumber(r *Rng, uids []uint32, uidMode bool, mag int, st *Stats) *big.Int {
	limit63 := mag == 1
	n := int64(len(uids))
	k := big.NewInt(int64(r.Intn(int(n) + 3)))
	switch c := r.Intn(100); {
	case c < 12:
		st.Inc("num-star")
		return nil
	case c < 62: // around the view
		st.Inc("num-in-view")
		if uidMode && n > 0 {
			u := int64(uids[r.Intn(int(n))])
			return big.NewInt(u + int64(r.Intn(3)) - 1 + c16B2i(u == 1))
		}
		if n > 0 && r.Chance(9, 10) {
			return big.NewInt(int64(1 + r.Intn(int(n))))
		}
		return big.NewInt(int64(1 + r.Intn(int(n)+2)))
	case c < 74: // the ends
		st.Inc("num-ends")
		switch r.Intn(4) {
		case 0:
			return big.NewInt(1)
		case 1:
			if uidMode && n > 0 {
				return big.NewInt(int64(uids[n-1]))
			}
			return big.NewInt(c16Max64(n, 1))
		case 2:
			if uidMode && n > 0 {
				return big.NewInt(int64(uids[n-1]) + 1)
			}
			return big.NewInt(n + 1)
		default:
			if uidMode && n > 0 {
				return big.NewInt(c16Max64(int64(uids[0])-1, 1))
			}
			return big.NewInt(n + 2)
		}
	case c < 78: // 2^31 neighbourhood (int32 sign bit; still a valid uint32)
		st.Inc("num-2^31")
		return new(big.Int).Add(c16BigPow(31), big.NewInt(int64(r.Intn(3))-1))
	case c < 88 && mag == 0: // top of the 32-bit range
		st.Inc("num-2^32-1")
		return new(big.Int).Sub(c16BigPow(32), big.NewInt(int64(1+r.Intn(2))))
	case c >= 88 && mag == 0:
		st.Inc("num-in-view")
		return big.NewInt(int64(1 + r.Intn(int(n)+1)))
	case c < 88: // 2^32 neighbourhood: 2^32-1, 2^32, 2^32+1, 2^32+k, j*2^32+k
		st.Inc("num-2^32")
		switch r.Intn(5) {
		case 0:
			return new(big.Int).Sub(c16BigPow(32), big.NewInt(1))
		case 1:
			return c16BigPow(32)
		case 2:
			return new(big.Int).Add(c16BigPow(32), big.NewInt(1))
		case 3:
			return new(big.Int).Add(c16BigPow(32), k)
		default:
			if uidMode && n > 0 {
				return new(big.Int).Add(new(big.Int).Mul(c16BigPow(32), big.NewInt(int64(1+r.Intn(5)))), big.NewInt(int64(uids[r.Intn(int(n))])))
			}
			return new(big.Int).Add(new(big.Int).Mul(c16BigPow(32), big.NewInt(int64(1+r.Intn(5)))), k)
		}
	case c < 93 || limit63: // 2^63 neighbourhood
		st.Inc("num-2^63")
		if limit63 {
			return new(big.Int).Sub(c16BigPow(63), big.NewInt(int64(1+r.Intn(2))))
		}
		return new(big.Int).Add(c16BigPow(63), big.NewInt(int64(r.Intn(3))-1))
	case c < 98: // 2^64 neighbourhood: 2^64-1, 2^64, 2^64+1, 2^64+k, 2^64+2^32+k
		st.Inc("num-2^64")
		switch r.Intn(5) {
		case 0:
			return new(big.Int).Sub(c16BigPow(64), big.NewInt(1))
		case 1:
			return c16BigPow(64)
		case 2:
			return new(big.Int).Add(c16BigPow(64), big.NewInt(1))
		case 3:
			return new(big.Int).Add(c16BigPow(64), k)
		default:
			return new(big.Int).Add(new(big.Int).Add(c16BigPow(64), c16BigPow(32)), k)
		}
	default:
		st.Inc("num-10^30")
		return new(big.Int).Add(new(big.Int).Exp(big.NewInt(10), big.NewInt(30), nil), k)
	}
}

func c16B2i(b bool) int64 {
	if b {
		return 1
	}
	return 0
}

func c16Max64(a, b int64) int64 {
	if a > b {
		return a
	}
	return b
}

type c16GenItem struct{ a, b *big.Int; isRange bool }

func c16GenSet(r *Rng, uids []uint32, uidMode bool, mag int, st *Stats) []c16GenItem {
	nItems := 1
	if r.Chance(4, 10) {
		nItems = 2 + r.Intn(3)
		st.Inc("set-union")
	}
	items := make([]c16GenItem, 0, nItems)
	for i := 0; i < nItems; i++ {
		it := c16GenItem{a: c16GenNumber(r, uids, uidMode, mag, st)}
		if r.Bool() {
			it.isRange = true
			it.b = c16GenNumber(r, uids, uidMode, mag, st)
			st.Inc("item-range")
		} else {
			st.Inc("item-single")
		}
		items = append(items, it)
	}
	return items
}

func c16NumText(n *big.Int) string {
	if n == nil {
		return "*"
	}
	return n.String()
}

func c16NumInt(n *big.Int) string {
	if n == nil {
		return "0"
	}
	return n.String()
}

func c16ModeName(uid bool) string {
	if uid {
		return "uid"
	}
	return "seq"
}

// fixed first lines of every generated file: the cases DESIGN.md section 9 #1 is about.
var c16ResolveFixed = []string{
	"resolve seq 1 4294967297:4294967297",
	"resolve seq 1 4294967296:4294967296",
	"resolve seq 7,9 1:4294967298",
	"resolve seq 7,9 3:3",
	"resolve seq - 0:0",
	"resolve seq - 1:0",
	"resolve uid 7,9 4294967303:4294967303",
	"resolve uid 7,9 10:0",
	"resolve uid - 1:0",
	"resolve uid 7,9 8:4294967296",
}

func c16GenResolve(r *Rng, n int, w io.Writer, st *Stats) {
	for i := 0; i < n; i++ {
		if i < len(c16ResolveFixed) {
			fmt.Fprintln(w, c16ResolveFixed[i])
			st.Inc("fixed")
			continue
		}
		uids := c16GenView(r, st)
		uidMode := r.Bool()
		st.Inc("mode-" + c16ModeName(uidMode))
		// 1 op in 7 feeds raw Go ints the parser never produces (≥ 2^32, negative): compared with
		// the model (its uint32 conversions), not judged against the property.
		mag := 0
		if r.Chance(1, 7) {
			mag = 1
			st.Inc("raw-out-of-parser-range")
		}
		items := c16GenSet(r, uids, uidMode, mag, st)
		parts := make([]string, 0, len(items))
		for _, it := range items {
			a, b := c16NumInt(it.a), c16NumInt(it.a)
			if it.isRange {
				b = c16NumInt(it.b)
			}
			if mag == 1 && r.Chance(1, 8) {
				if neg := c16GenNumber(r, uids, uidMode, 1, st); neg != nil && neg.Sign() > 0 {
					a = "-" + neg.String()
					st.Inc("negative")
				}
			}
			parts = append(parts, a+":"+b)
		}
		fmt.Fprintf(w, "resolve %s %s %s\n", c16ModeName(uidMode), c16ShowUids(uids), strings.Join(parts, ","))
	}
}

var c16SeqSetParseFixed = []string{
	"seq 1 4294967297",
	"seq 1 18446744073709551617",
	"seq 1 4294967296",
	"seq 1 18446744073709551616",
	"seq 1 9223372036854775808",
	"seq 1 1000000000000000000000000000001",
	"seq 1,2,3 7",
	"seq 1,2,3 2:4294967299",
	"uid 1,2,3 4294967297",
	"uid 1,2,3 2:18446744073709551619",
	"seq 1,2,3 1:*,*,3:1",
	"seq - *",
	"uid - 1:*",
	"uid 3,5 9:*",
}

func c16GenJunk(r *Rng, good string) string {
	switch r.Intn(12) {
	case 0:
		return ""
	case 1:
		return "0"
	case 2:
		return "0" + good
	case 3:
		return good + ":"
	case 4:
		return good + ","
	case 5:
		return "," + good
	case 6:
		return strings.Replace(good, ",", ",,", 1)
	case 7:
		return good + ":3"
	case 8:
		return good + " (FLAGS)"
	case 9:
		return "x" + good
	case 10:
		return good + ",0"
	default:
		return strings.Replace(good, ":", "::", 1)
	}
}

func c16GenSeqSetParse(r *Rng, n int, w io.Writer, st *Stats) {
	for i := 0; i < n; i++ {
		if i < len(c16SeqSetParseFixed) {
			p := strings.SplitN(c16SeqSetParseFixed[i], " ", 3)
			fmt.Fprintf(w, "seqset-parse %s %s %s\n", p[0], p[1], hex.EncodeToString([]byte(p[2])))
			st.Inc("fixed")
			continue
		}
		uids := c16GenView(r, st)
		uidMode := r.Bool()
		st.Inc("mode-" + c16ModeName(uidMode))
		items := c16GenSet(r, uids, uidMode, 2, st)
		parts := make([]string, 0, len(items))
		for _, it := range items {
			s := c16NumText(it.a)
			if it.isRange {
				s += ":" + c16NumText(it.b)
			}
			parts = append(parts, s)
		}
		text := strings.Join(parts, ",")
		if r.Chance(1, 12) {
			text = c16GenJunk(r, text)
			st.Inc("junk")
		}
		h := hex.EncodeToString([]byte(text))
		if h == "" {
			h = "-"
		}
		fmt.Fprintf(w, "seqset-parse %s %s %s\n", c16ModeName(uidMode), c16ShowUids(uids), h)
	}
}

func init() {
	Register(&Dialect{Name: "resolve", Impl: c16ResolveImpl, Gen: c16GenResolve})
	Register(&Dialect{Name: "seqset-parse", Impl: c16SeqSetParseImpl, Gen: c16GenSeqSetParse})
}
