package main

// hfc — ERROR PATHS in the history oracle `hist` (C01 / C02 / C05).
//
// A command that fails must not have changed the session's view silently: whatever it did to the snapshot has to be
// announced (untagged responses before the tagged NO are fed to the client mirror as usual), a CLOSE answered NO
// leaves the mailbox selected, and the index is what a fresh session sees.  The error source is the connector (the
// remote refuses or is unreachable): gluon calls it first, inside its own transaction, so a connector failure
// happens before anything was committed.
//
// Steps:
//   X FAILCONN                  server option (like X IDLEBULK): the history runs against hfcFailConn (hfc_conn.go);
//                               the first step of such a history, read by runHistory before the server is started
//   X FAILNEXT <kind> [n]       the n-th (default: next) connector call of <kind> fails once; kinds see hfc_conn.go
//   X FAILCLEAR                 whatever is still armed is dropped (the command did not reach the connector)
// Without X FAILCONN the other two are no-ops.
//
// Generator: in a history with the profile token `failconn` (o_hist.go: every fourth history) every command kind of
// hfcErrKinds is run once, in a shuffled order, through the pattern
//   both sessions' views brought up to date and probed (the client knows every UID and flag)
//   -> another session removes a message / changes flags / appends, X BARRIER: delivered to the observer, not flushed
//   -> (CLOSE, EXPUNGE, UID EXPUNGE: the observer marks a message \Deleted; its STORE may not announce the removal,
//       which stays pending together with what the other session does next)
//   -> X FAILNEXT k -> the observer's own CLOSE / EXPUNGE / UID EXPUNGE / STORE / COPY / MOVE / APPEND / body FETCH
//   -> PROBE (agrees with the mirror) -> NOOP -> PROBE -> the other session's NOOP + PROBE -> X CONVERGE (C02)
// with ordinary random steps in between; now and then a FAILNEXT is also thrown in undirected.

import (
	"fmt"
	"strconv"
	"strings"
)

var hfcErrKinds = []string{"CLOSE", "EXPUNGE", "UIDEXPUNGE", "STORESEEN", "STOREFLAGGED", "STOREBOTH", "COPY", "COPYSAME", "MOVE", "APPEND", "FETCHBODY"}

// ---- steps ----------------------------------------------------------------------------------

func hfcWantsFailConn(steps []string) bool {
	for _, st := range steps {
		if f := strings.Fields(st); len(f) == 2 && f[0] == "X" && f[1] == "FAILCONN" {
			return true
		}
	}
	return false
}

// hfcExecX: the X steps of this file. handled = false: not one of them.
func (h *HistRunner) hfcExecX(f []string) (handled bool, err error) {
	switch f[1] {
	case "FAILCONN":
		return true, nil
	case "FAILNEXT":
		if len(f) < 3 || !hfcKnownKind(f[2]) {
			return true, fmt.Errorf("bad step %v", f)
		}
		n := 1
		if len(f) > 3 {
			if x, err := strconv.Atoi(f[3]); err == nil {
				n = x
			}
		}
		if h.hfc != nil {
			h.hfc.arm(f[2], n)
			h.stats["hfc.armed"]++
		}
		return true, nil
	case "FAILCLEAR":
		if h.hfc != nil {
			h.stats["hfc.not-consumed"] += len(h.hfc.disarm())
		}
		return true, nil
	}
	return false, nil
}

// hfcAfterCommand: bookkeeping after a session command: which injected failures it consumed and how it was answered.
func (h *HistRunner) hfcAfterCommand(kind string, rep Reply) {
	if h.hfc == nil {
		return
	}
	for _, k := range h.hfc.takeFailed() {
		h.stats["hfc.failed."+k]++
		h.stats["hfc.failed-in."+kind+"."+rep.Status]++
	}
}

// ---- C05 clause on a probe ------------------------------------------------------------------

// hfcRemovalAnnounced: every message the client knows by UID (UIDs are never reused) is still shown by FETCH 1:* — it
// can only have left the view through an EXPUNGE the client was sent, and the mirror drops it then.  Evaluated inside
// the hypothesis NoOvertake only (the session was not under X HOLD since it selected the mailbox, no X RACY): outside
// it the C01 / C02 oracles report the known own-update-overtakes finding.
func (h *HistRunner) hfcRemovalAnnounced(s *HistSession, shown map[int]bool) {
	if s.everHeld || h.racy {
		return
	}
	for k, e := range s.mirror.msgs {
		if e.uid >= 0 && !shown[e.uid] {
			h.violate("C05", fmt.Sprintf("S%d: message %d (UID %d) is no longer shown by FETCH 1:* but no EXPUNGE was announced for it (removal applied to the view silently)", s.idx, k+1, e.uid))
			return
		}
	}
}

// ---- generator --------------------------------------------------------------------------------

func hfcHasFlag(e goEntry, flag string) bool {
	for _, f := range e.flags {
		if strings.EqualFold(f, flag) {
			return true
		}
	}
	return false
}

// hfcPending: kinds of the errpath pattern this history still owes (runHistory keeps generating until none is left).
func (h *HistRunner) hfcPending() bool { return h.hfc != nil && h.hfcTodo != nil && len(h.hfcTodo) > 0 }

// hfcPatternStep starts the next error-path pattern (or throws in an undirected FAILNEXT); "" = nothing to do now.
func (h *HistRunner) hfcPatternStep(r *Rng, nsess int, profile string) string {
	if h.hfc == nil || !strings.Contains(profile, "failconn") || h.pattern != nil {
		return ""
	}
	for i := 0; i < nsess; i++ {
		if h.session(i) == nil {
			return ""
		}
	}
	if h.hfcTodo == nil {
		todo := append([]string{}, hfcErrKinds...)
		for k := len(todo) - 1; k > 0; k-- {
			j := r.Intn(k + 1)
			todo[k], todo[j] = todo[j], todo[k]
		}
		if strings.Contains(profile, "noclose") {
			todo = withoutIdx(todo, func(_ int, k string) bool { return k == "CLOSE" })
		}
		h.hfcTodo = todo
	}
	if h.c02AnyStalled() {
		return ""
	}
	if len(h.hfcTodo) > 0 && len(h.steps) >= 4+2*nsess && (r.Chance(1, 3) || len(h.steps) >= 400) {
		kind := h.hfcTodo[0]
		h.hfcTodo = h.hfcTodo[1:]
		h.stats["hfc.pattern."+kind]++
		h.pattern = h.hfcErrPattern(r, nsess, kind)
		if st := h.pattern(r); st != "" {
			return st
		}
		h.pattern = nil
		return ""
	}
	if r.Chance(1, 14) {
		return fmt.Sprintf("X FAILNEXT %s", Pick(r, []string{"remove", "remove", "add", "move", "create", "seen", "flagged", "any", "any"}))
	}
	return ""
}

// hfcErrPattern: see the head of the file. o = the session whose command fails, a = the other session.
func (h *HistRunner) hfcErrPattern(r *Rng, nsess int, kind string) func(r *Rng) string {
	total := max(nsess, 2)
	o := r.Intn(total)
	a := (o + 1 + r.Intn(total-1)) % total
	mb := "INBOX"
	if s := h.session(o); s != nil && s.selected != "" && r.Chance(2, 3) {
		mb = s.selected
	}
	h.markerN++
	bulkID := h.markerN
	needsDeleted := kind == "CLOSE" || kind == "EXPUNGE" || kind == "UIDEXPUNGE"
	marked := 0 // sequence number (observer's numbering) of the message the observer marked \Deleted
	gone := 0   // sequence number (same numbering) of the message the other session removed
	return c02Seq(
		// 1. both sessions look at mb with at least three messages and know every UID and flag
		func(r *Rng) []string {
			out := append(h.c02Ready(o, mb, true), h.c02Ready(a, mb, true)...)
			if s := h.session(o); s == nil || s.selected != mb || len(s.mirror.msgs) < 3 || r.Chance(1, 5) {
				out = append(out, fmt.Sprintf("C BULK %ds %s %d %s", bulkID, mb, r.Range(2, 4), Pick(r, []string{"-", "-", `\Seen`, `\Flagged`})))
			}
			return append(out, "X FAILCLEAR", "X BARRIER", fmt.Sprintf("S%d CMD NOOP NOOP", o), fmt.Sprintf("S%d CMD NOOP NOOP", a),
				fmt.Sprintf("S%d PROBE", o), fmt.Sprintf("S%d PROBE", a))
		},
		// 2. the other session removes a message (often): the observer gets the removal delivered and cannot announce
		//    it before its next permitting command
		func(r *Rng) []string {
			so, sa := h.session(o), h.session(a)
			if so == nil || sa == nil || so.selected != mb || sa.selected != mb || so.readOnly || sa.readOnly {
				return nil
			}
			n := min(len(so.mirror.msgs), len(sa.mirror.msgs))
			if n < 2 || len(so.mirror.msgs) != len(sa.mirror.msgs) {
				return nil
			}
			var plain []int // not \Deleted in the observer's view: the other session's EXPUNGE leaves them alone
			for k := 1; k <= n; k++ {
				if !hfcHasFlag(so.mirror.msgs[k-1], `\Deleted`) && !hfcHasFlag(sa.mirror.msgs[k-1], `\Deleted`) {
					plain = append(plain, k)
				}
			}
			if len(plain) < 2 || !r.Chance(2, 3) {
				return []string{}
			}
			gone = Pick(r, plain)
			return []string{
				fmt.Sprintf("S%d CMD STORE STORE %d +FLAGS.SILENT (\\Deleted)", a, gone),
				fmt.Sprintf("S%d CMD EXPUNGE EXPUNGE", a), "X BARRIER"}
		},
		// 3. the observer marks a message \Deleted (always for CLOSE / EXPUNGE / UID EXPUNGE)
		func(r *Rng) []string {
			so := h.session(o)
			n := len(so.mirror.msgs)
			if !needsDeleted && !r.Chance(1, 4) {
				return []string{}
			}
			var cand []int
			for k := 1; k <= n; k++ {
				if k != gone && !hfcHasFlag(so.mirror.msgs[k-1], `\Deleted`) {
					cand = append(cand, k)
				}
			}
			if len(cand) == 0 {
				for k := 1; k <= n; k++ {
					if k != gone {
						cand = append(cand, k)
					}
				}
			}
			if len(cand) == 0 {
				return nil
			}
			marked = Pick(r, cand)
			return []string{fmt.Sprintf("S%d CMD STORE STORE %d %s (\\Deleted)", o, marked, Pick(r, []string{"+FLAGS", "+FLAGS", "+FLAGS.SILENT"}))}
		},
		// 4. further changes by the other session, delivered and not flushed; then the failing command
		func(r *Rng) []string {
			so, sa := h.session(o), h.session(a)
			if so.selected != mb || sa.selected != mb {
				return nil
			}
			n := len(so.mirror.msgs)
			na := len(sa.mirror.msgs)
			var out []string
			for c := r.Range(1, 2); c > 0; c-- {
				switch x := r.Intn(5); {
				case x < 2 && na > 0:
					out = append(out, fmt.Sprintf("S%d CMD STORE STORE %d %s (%s)", a, r.Range(1, na),
						Pick(r, []string{"+FLAGS", "-FLAGS", "+FLAGS.SILENT"}), Pick(r, []string{`\Seen`, `\Flagged`, `\Answered`, `\Draft`})))
				case x < 4:
					out = append(out, fmt.Sprintf("S%d APPEND %s %s %s", a, mb, Pick(r, []string{"-", "-", `\Seen`}), h.newMarker()))
				default:
					out = append(out, fmt.Sprintf("C CREATE %s %s -", h.newMarker(), mb))
				}
			}
			out = append(out, "X BARRIER")
			// the observer's command, decided from what its client knows
			var live []int
			for k := 1; k <= n; k++ {
				if k != gone {
					live = append(live, k)
				}
			}
			if len(live) == 0 {
				return nil
			}
			k := Pick(r, live)
			e := so.mirror.msgs[k-1]
			target := strconv.Itoa(k)
			uidPfx := ""
			if e.uid >= 0 && r.Chance(1, 3) {
				uidPfx, target = "UID ", strconv.Itoa(e.uid)
			}
			other := h.c02OtherMailbox(r, mb)
			silent := ""
			if r.Chance(1, 3) {
				silent = ".SILENT"
			}
			pm := func(has bool) string {
				if has {
					return "-"
				}
				return "+"
			}
			var fail, cmd string
			switch kind {
			case "CLOSE":
				fail, cmd = "remove", fmt.Sprintf("S%d CMD CLOSE CLOSE", o)
			case "EXPUNGE":
				fail, cmd = "remove", fmt.Sprintf("S%d CMD EXPUNGE EXPUNGE", o)
			case "UIDEXPUNGE":
				set := "1:*"
				if m := so.mirror.msgs[marked-1]; m.uid >= 0 && r.Chance(2, 3) {
					set = strconv.Itoa(m.uid)
				}
				fail, cmd = "remove", fmt.Sprintf("S%d CMD EXPUNGE UID EXPUNGE %s", o, set)
			case "STORESEEN":
				fail, cmd = "seen", fmt.Sprintf("S%d CMD STORE %sSTORE %s %sFLAGS%s (\\Seen)", o, uidPfx, target, pm(hfcHasFlag(e, `\Seen`)), silent)
			case "STOREFLAGGED":
				fail, cmd = "flagged", fmt.Sprintf("S%d CMD STORE %sSTORE %s %sFLAGS%s (\\Flagged)", o, uidPfx, target, pm(hfcHasFlag(e, `\Flagged`)), silent)
			case "STOREBOTH":
				// two connector calls; the first or the second fails
				fl := `\Seen \Flagged`
				if hfcHasFlag(e, `\Seen`) || hfcHasFlag(e, `\Flagged`) {
					fail = Pick(r, []string{"any", "seen", "flagged"})
					cmd = fmt.Sprintf("S%d CMD STORE %sSTORE %s FLAGS%s (%s)", o, uidPfx, target, silent, Pick(r, []string{`\Answered`, `\Draft`, ""}))
					if hfcHasFlag(e, `\Seen`) != hfcHasFlag(e, `\Flagged`) && fail != "any" {
						fail = map[bool]string{true: "seen", false: "flagged"}[hfcHasFlag(e, `\Seen`)]
					}
				} else {
					fail = Pick(r, []string{"any", "any 2", "flagged", "seen"})
					cmd = fmt.Sprintf("S%d CMD STORE %sSTORE %s +FLAGS%s (%s)", o, uidPfx, target, silent, fl)
				}
			case "COPY":
				fail, cmd = "add", fmt.Sprintf("S%d CMD COPY %sCOPY %s %s", o, uidPfx, target, other)
			case "COPYSAME":
				fail, cmd = Pick(r, []string{"add", "remove", "any"}), fmt.Sprintf("S%d CMD COPY %sCOPY %s %s", o, uidPfx, target, mb)
			case "MOVE":
				fail, cmd = Pick(r, []string{"move", "move", "any"}), fmt.Sprintf("S%d CMD MOVE %sMOVE %s %s", o, uidPfx, target, other)
			case "APPEND":
				dest := mb
				if r.Chance(1, 4) {
					dest = other
				}
				fail, cmd = "create", fmt.Sprintf("S%d APPEND %s %s %s", o, dest, Pick(r, []string{"-", `\Seen`, `\Flagged`}), h.newMarker())
			case "FETCHBODY":
				// a non-PEEK body fetch of an unseen message sets \Seen through the connector
				for _, c := range live {
					if !hfcHasFlag(so.mirror.msgs[c-1], `\Seen`) {
						k = c
						break
					}
				}
				fail, cmd = "seen", fmt.Sprintf("S%d CMD FETCH FETCH %d %s", o, k, Pick(r, []string{"(BODY[])", "(RFC822)", "(UID BODY[TEXT])"}))
			default:
				return nil
			}
			return append(out, "X FAILNEXT "+fail, cmd, "X FAILCLEAR")
		},
		// 5. what the client was told vs. what the server answers, before and after the next permitting command
		func(r *Rng) []string {
			return []string{fmt.Sprintf("S%d PROBE", o), fmt.Sprintf("S%d CMD NOOP NOOP", o), fmt.Sprintf("S%d PROBE", o),
				fmt.Sprintf("S%d CMD NOOP NOOP", a), fmt.Sprintf("S%d PROBE", a), "X BARRIER", "X CONVERGE"}
		},
	)
}
