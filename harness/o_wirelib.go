package main

// Small helpers shared by the wire-level oracles c16sets / c14namespace / c17limits.

import (
	"context"
	"regexp"
	"strconv"
	"strings"
	"time"
)

// awSessionsQuiesce waits until every session has applied the state updates queued for it so far, without
// flushing the connector. Needed before a session selects a mailbox another session has just written to:
// gluon queues the EXISTS update after the writer's reply, and a SELECT that slips in between loads the
// message from the database and then gets the EXISTS on top (a C01/C02 matter, not what these oracles test).
func awSessionsQuiesce(s *Sys) error {
	ctx, c := context.WithTimeout(context.Background(), 20*time.Second)
	defer c()
	return s.Server.VerifBarrier(ctx, s.UserID)
}

func awRegexpMust(s string) *regexp.Regexp { return regexp.MustCompile(s) }

var awReListLine = regexp.MustCompile(`^\* (?:LIST|LSUB) \(([^)]*)\) (NIL|"(?:[^"\\]|\\.)*") (.*)$`)

// awParseListLine parses `* LIST (atts) "d" "name"` (or LSUB); the name is unquoted but still in
// modified UTF-7.
func awParseListLine(u string) (atts, name string, ok bool) {
	m := awReListLine.FindStringSubmatch(u)
	if m == nil {
		return "", "", false
	}
	n, err := strconv.Unquote(m[3])
	if err != nil {
		return "", "", false
	}
	return m[1], n, true
}

var (
	awReElapsed      = regexp.MustCompile(`completed in [0-9.]+ ?[a-zA-Zµ]*\.?`)
	awReUIDValInCode = regexp.MustCompile(`(APPENDUID|COPYUID) \d+`)
)

// awCanonTagged renders a tagged completion without its tag and without the parts that differ from run
// to run (elapsed time, UIDVALIDITY values derived from the clock).
func awCanonTagged(rep Reply) string {
	t := strings.TrimSpace(strings.TrimPrefix(rep.Tagged, rep.Tag))
	t = awReElapsed.ReplaceAllString(t, "completed in *")
	return awReUIDValInCode.ReplaceAllString(t, "$1 *")
}
