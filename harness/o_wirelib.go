package main

// Small helpers shared by the wire-level oracles c16sets / c14namespace / c17limits.

import (
	"regexp"
	"strconv"
	"strings"
)

func regexpMust(s string) *regexp.Regexp { return regexp.MustCompile(s) }

var reListLine = regexp.MustCompile(`^\* (?:LIST|LSUB) \(([^)]*)\) (NIL|"(?:[^"\\]|\\.)*") (.*)$`)

// parseListLine parses `* LIST (atts) "d" "name"` (or LSUB); the name is unquoted but still in
// modified UTF-7.
func parseListLine(u string) (atts, name string, ok bool) {
	m := reListLine.FindStringSubmatch(u)
	if m == nil {
		return "", "", false
	}
	n, err := strconv.Unquote(m[3])
	if err != nil {
		return "", "", false
	}
	return m[1], n, true
}

var (
	reElapsed      = regexp.MustCompile(`completed in [0-9.]+ ?[a-zA-Zµ]*\.?`)
	reUIDValInCode = regexp.MustCompile(`(APPENDUID|COPYUID) \d+`)
)

// canonTagged renders a tagged completion without its tag and without the parts that differ from run
// to run (elapsed time, UIDVALIDITY values derived from the clock).
func canonTagged(rep Reply) string {
	t := strings.TrimSpace(strings.TrimPrefix(rep.Tagged, rep.Tag))
	t = reElapsed.ReplaceAllString(t, "completed in *")
	return reUIDValInCode.ReplaceAllString(t, "$1 *")
}
