package main

// C04, UIDVALIDITY part: the real imap.EpochUIDValidityGenerator driven in real time and compared
// with the Lean model *relationally* (there is no clock hook in gluon): the clock is read before
// and after every Generate call and the Lean judge `judge-c04-uidv` requires the result to equal
// the model's `generate now last` for some `now` in that interval (GluonModel/Driver/DUidv.lean).
//
//	op      uidv <offMs> <script>
//	          offMs  = elapsed time (ms, signed) between the generator's epoch and the start of the scenario
//	                   (the epoch is a constructor argument, so 2^32 s and negative elapsed times are reachable)
//	          script = g | n | s<ms> | c<k>   joined by ','
//	                   g Generate, n new generator with the same epoch (= restart), s sleep, c k concurrent Generates
//	result  r <entries>   (see DUidv.lean)
//
// Because the result depends on real time the dialect is not line-diffed against a model output;
// the oracle `uidv-rel` generates scenarios, runs them here and pipes `judge-c04-uidv` lines
// through the Lean driver.

import (
	"bufio"
	"crypto/sha1"
	"encoding/json"
	"flag"
	"fmt"
	"io"
	"os"
	"os/exec"
	"path/filepath"
	"sort"
	"strconv"
	"strings"
	"sync"
	"time"

	"github.com/ProtonMail/gluon/imap"
)

func uidvSecs(epoch time.Time) int64 {
	// the same float expression as Generate(), converted through int64 (well defined for negatives)
	return int64(time.Now().Sub(epoch).Seconds())
}

func uidvRes(uid imap.UID, err error) string {
	if err != nil {
		return "E"
	}
	return strconv.FormatUint(uint64(uid), 10)
}

func implUidv(args []string) string {
	if len(args) != 2 {
		return "bad-op"
	}
	off, err := strconv.ParseInt(args[0], 10, 64)
	if err != nil || off > 9000000000000 || off < -9000000000000 {
		return "bad-op"
	}
	// Round(0) strips the monotonic reading: like the production epoch (time.Date), Sub then uses wall time
	epoch := time.Now().Add(-time.Duration(off) * time.Millisecond).Round(0)
	gen := imap.NewEpochUIDValidityGenerator(epoch)
	var out []string
	for _, item := range strings.Split(args[1], ",") {
		switch {
		case item == "g":
			lo := uidvSecs(epoch)
			uid, err := gen.Generate()
			hi := uidvSecs(epoch)
			if hi < lo { // the wall clock stepped backwards during the call: the reading lies between the two
				lo, hi = hi, lo
			}
			out = append(out, fmt.Sprintf("%d:%d:%s", lo, hi, uidvRes(uid, err)))
		case item == "n":
			gen = imap.NewEpochUIDValidityGenerator(epoch)
			out = append(out, "N")
		case strings.HasPrefix(item, "s"):
			ms, err := strconv.Atoi(item[1:])
			if err != nil || ms < 0 || ms > 10000 {
				return "bad-op"
			}
			time.Sleep(time.Duration(ms) * time.Millisecond)
			out = append(out, "S")
		case strings.HasPrefix(item, "c"):
			k, err := strconv.Atoi(item[1:])
			if err != nil || k < 1 || k > 256 {
				return "bad-op"
			}
			type r struct {
				uid imap.UID
				err error
			}
			res := make([]r, k)
			start := make(chan struct{})
			var wg sync.WaitGroup
			for i := 0; i < k; i++ {
				wg.Add(1)
				go func(i int) {
					defer wg.Done()
					<-start
					res[i].uid, res[i].err = gen.Generate()
				}(i)
			}
			lo := uidvSecs(epoch)
			close(start)
			wg.Wait()
			hi := uidvSecs(epoch)
			if hi < lo {
				lo, hi = hi, lo
			}
			// the counter only grows, so ascending order of the values is the linearisation order; errors last
			var vals []uint64
			nerr := 0
			for _, x := range res {
				if x.err != nil {
					nerr++
				} else {
					vals = append(vals, uint64(x.uid))
				}
			}
			sort.Slice(vals, func(i, j int) bool { return vals[i] < vals[j] })
			var ss []string
			for _, v := range vals {
				ss = append(ss, strconv.FormatUint(v, 10))
			}
			for i := 0; i < nerr; i++ {
				ss = append(ss, "E")
			}
			out = append(out, fmt.Sprintf("C:%d:%d:%s", lo, hi, strings.Join(ss, ",")))
		default:
			return "bad-op"
		}
	}
	return "r " + strings.Join(out, ";")
}

// genUidv: scenarios around bursts, second boundaries, restarts, the uint32 ceiling and epochs in the future.
func genUidv(r *Rng, n int, w io.Writer, st *Stats) {
	for i := 0; i < n; i++ {
		var off int64
		kind := r.Intn(100)
		phase := int64(r.Intn(1000))
		crossing := r.Chance(1, 2)
		if crossing {
			phase = int64(r.Range(880, 960)) // a short sleep crosses the next second boundary
		}
		switch {
		case kind < 40: // an ordinary date
			off = int64(r.Range(1, 2000000000))*1000 + phase
			st.Inc("epoch:ordinary")
		case kind < 55: // just below the uint32 ceiling
			off = (int64(0xFFFFFFFF)-int64(r.Intn(6)))*1000 + phase
			st.Inc("epoch:below-2^32")
		case kind < 63: // beyond it
			off = (int64(0x100000000)+int64(r.Intn(3)))*1000 + phase
			st.Inc("epoch:beyond-2^32")
		case kind < 75: // first seconds after the epoch
			off = int64(r.Intn(3))*1000 + phase
			st.Inc("epoch:zero")
		case kind < 85: // epoch less than a second in the future (elapsed truncates to 0, may cross into it)
			off = -int64(r.Range(20, 990))
			st.Inc("epoch:future<1s")
		case kind < 92: // epoch seconds in the future
			off = -int64(r.Range(1100, 5000))
			st.Inc("epoch:future>1s")
		default: // around 2^31
			off = (int64(0x80000000)-2+int64(r.Intn(4)))*1000 + phase
			st.Inc("epoch:2^31")
		}
		var items []string
		sleepBudget := 1300
		steps := r.Range(1, 6)
		for s := 0; s < steps; s++ {
			switch r.Intn(10) {
			case 0, 1, 2, 3:
				k := r.Range(1, 9)
				for j := 0; j < k; j++ {
					items = append(items, "g")
				}
				st.Inc("item:burst")
			case 4, 5:
				items = append(items, "n")
				st.Inc("item:restart")
			case 6, 7:
				ms := r.Range(50, 260)
				if r.Chance(1, 8) {
					ms = r.Range(1000, 1200)
				}
				if ms <= sleepBudget {
					sleepBudget -= ms
					items = append(items, fmt.Sprintf("s%d", ms))
					st.Inc("item:sleep")
				}
			case 8:
				items = append(items, fmt.Sprintf("c%d", r.Range(2, 24)))
				st.Inc("item:concurrent")
			default:
				items = append(items, "g")
			}
		}
		if r.Chance(1, 6) { // the restart-within-the-burst shape of DESIGN §9 #12
			k := r.Range(3, 9)
			items = nil
			for j := 0; j < k; j++ {
				items = append(items, "g")
			}
			items = append(items, "n", "g")
			st.Inc("shape:burst-restart")
		}
		fmt.Fprintf(w, "uidv %d %s\n", off, strings.Join(items, ","))
	}
}

// ---- oracle uidv-rel -------------------------------------------------------------------------

func uidvDefaultDriverPath() string {
	exe, err := os.Executable()
	if err != nil {
		return "gluon_model_driver"
	}
	return filepath.Join(filepath.Dir(exe), "..", "lean", ".lake", "build", "bin", "gluon_model_driver")
}

// uidvRunDriverLines pipes lines through the Lean model driver and returns one answer per line.
func uidvRunDriverLines(driver string, lines []string) ([]string, error) {
	cmd := exec.Command(driver)
	cmd.Stdin = strings.NewReader(strings.Join(lines, "\n") + "\n")
	cmd.Stderr = os.Stderr
	outb, err := cmd.Output()
	if err != nil {
		return nil, fmt.Errorf("driver %s: %w", driver, err)
	}
	var res []string
	sc := bufio.NewScanner(strings.NewReader(string(outb)))
	sc.Buffer(make([]byte, 1<<20), 1<<26)
	for sc.Scan() {
		res = append(res, sc.Text())
	}
	if len(res) != len(lines) {
		return nil, fmt.Errorf("driver answered %d lines for %d", len(res), len(lines))
	}
	return res, nil
}

func oracleUidvRel(args []string) int {
	fs := flag.NewFlagSet("uidv-rel", flag.ExitOnError)
	seed := fs.Uint64("seed", 1, "seed")
	outPath := fs.String("out", "", "result json")
	replayDir := fs.String("replaydir", ".", "where replay files go")
	replay := fs.String("replay", "", "replay file")
	n := fs.Int("n", 300, "number of scenarios")
	par := fs.Int("par", 16, "scenarios run concurrently")
	driver := fs.String("driver", uidvDefaultDriverPath(), "Lean model driver binary")
	_ = fs.Parse(args)

	var ops []string
	stats := &Stats{Counts: map[string]int{}}
	if *replay != "" {
		b, err := os.ReadFile(*replay)
		if err != nil {
			fmt.Fprintln(os.Stderr, err)
			return 2
		}
		for _, l := range strings.Split(string(b), "\n") {
			if strings.HasPrefix(l, "uidv ") {
				ops = append(ops, l)
			}
		}
	} else {
		var sb strings.Builder
		genUidv(NewRng(*seed), *n, &sb, stats)
		for _, l := range strings.Split(sb.String(), "\n") {
			if l != "" {
				ops = append(ops, l)
			}
		}
	}

	// run the scenarios on the real generator (independent generators, so they may overlap in time)
	impl := make([]string, len(ops))
	sem := make(chan struct{}, *par)
	var wg sync.WaitGroup
	for i, op := range ops {
		wg.Add(1)
		sem <- struct{}{}
		go func(i int, op string) {
			defer wg.Done()
			defer func() { <-sem }()
			impl[i] = runImplLine(op)
		}(i, op)
	}
	wg.Wait()

	jl := make([]string, len(ops))
	for i, op := range ops {
		jl[i] = "judge-c04-uidv " + strings.TrimPrefix(op, "uidv ") + " => " + impl[i]
	}
	type violation struct {
		Desc   string `json:"desc"`
		Replay string `json:"replay"`
	}
	result := struct {
		Evaluations int                      `json:"evaluations"`
		Nontrivial  int                      `json:"distinct_nontrivial"`
		Stats       map[string]int           `json:"stats"`
		Samples     []map[string]string      `json:"samples"`
		Violations  []violation              `json:"violations"`
	}{Stats: stats.Counts, Violations: []violation{}, Samples: []map[string]string{}}
	verdicts, err := uidvRunDriverLines(*driver, jl)
	if err != nil {
		_ = os.MkdirAll(*replayDir, 0o755)
		p := filepath.Join(*replayDir, "C04-uidv-rel-driver.txt")
		_ = os.WriteFile(p, []byte("oracle uidv-rel\n# "+err.Error()+"\n"), 0o644)
		result.Violations = append(result.Violations, violation{"Lean judge could not be run: " + err.Error(), p})
	}
	seen := map[string]bool{}
	for i, v := range verdicts {
		result.Evaluations++
		w := strings.SplitN(v, " ", 3)
		key := w[0]
		if len(w) > 1 {
			key += ":" + w[1]
		}
		result.Stats["judge:"+key]++
		if strings.HasPrefix(v, "ok nontrivial") && !seen[ops[i]] {
			seen[ops[i]] = true
			result.Nontrivial++
		}
		if len(result.Samples) < 3 && strings.HasPrefix(v, "ok nontrivial") {
			result.Samples = append(result.Samples, map[string]string{"oracle": "uidv-rel", "op": ops[i], "impl": impl[i], "judge": v})
		}
		if !strings.HasPrefix(v, "ok") && len(result.Violations) < 5 {
			text := fmt.Sprintf("oracle uidv-rel\n%s\n# implementation answered: %s\n# judge-c04-uidv: %s\n# replay: ./check C04 --replay <this file>  (re-runs the scenario in real time)\n", ops[i], impl[i], v)
			_ = os.MkdirAll(*replayDir, 0o755)
			p := filepath.Join(*replayDir, "C04-uidv-rel-"+fmt.Sprintf("%x", sha1.Sum([]byte(text)))[:10]+".txt")
			_ = os.WriteFile(p, []byte(text), 0o644)
			result.Violations = append(result.Violations, violation{"EpochUIDValidityGenerator vs model/property: " + v + " on " + ops[i], p})
		}
	}
	b, _ := json.MarshalIndent(result, "", " ")
	if *outPath != "" {
		_ = os.WriteFile(*outPath, b, 0o644)
	} else {
		fmt.Println(string(b))
	}
	return 0
}

func init() {
	Register(&Dialect{Name: "uidv", Impl: implUidv, Gen: genUidv})
	RegisterOracle(&Oracle{Name: "uidv-rel", Run: oracleUidvRel})
}
