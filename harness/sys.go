package main

// System-level harness: a whole gluon server (public API + verif schedule hooks) on a local TCP
// port, a dummy connector, and scripted IMAP client sessions.

import (
	"bufio"
	"bytes"
	"context"
	"fmt"
	"io"
	"net"
	"os"
	"path/filepath"
	"regexp"
	"sort"
	"strconv"
	"strings"
	"sync"
	"time"

	"github.com/ProtonMail/gluon"
	"github.com/ProtonMail/gluon/connector"
	"github.com/ProtonMail/gluon/db"
	"github.com/ProtonMail/gluon/imap"
	"github.com/ProtonMail/gluon/limits"
	"github.com/ProtonMail/gluon/store"
	"github.com/sirupsen/logrus"
)

type SysOpts struct {
	Delimiter    string
	Limits       *limits.IMAP
	DB           db.ClientInterface
	StoreBuilder store.Builder
	Dir          string // reuse an existing directory (restart); empty = fresh temp dir
	UserID       string // reuse an existing user id (restart)
	Conn         *connector.Dummy
	JailTime     time.Duration
	IdleBulk     time.Duration
	UIDValidity  imap.UIDValidityGenerator
	Users        []string
	Extra        []gluon.Option // further server options (e.g. gluon.WithDisableParallelism())
}

// panicRecorder is installed as gluon's panic handler: with it async.HandlePanic recovers, so a
// panic in a server goroutine is recorded instead of killing the harness. (With gluon's default
// no-op handler the same panic terminates the whole server process.)
type panicRecorder struct {
	mu     sync.Mutex
	panics []string
}

func (p *panicRecorder) HandlePanic(r interface{}) {
	if r == nil {
		return
	}
	p.mu.Lock()
	defer p.mu.Unlock()
	p.panics = append(p.panics, fmt.Sprint(r))
}

func (p *panicRecorder) Take() []string {
	p.mu.Lock()
	defer p.mu.Unlock()
	out := p.panics
	p.panics = nil
	return out
}

type Sys struct {
	Server *gluon.Server
	Conn   *connector.Dummy
	UserID string
	Addr   string
	Dir    string
	cancel context.CancelFunc
	ln     net.Listener
	opts   SysOpts
	Panics *panicRecorder
}

const sysPassword = "pass"

func init() { logrus.SetLevel(logrus.PanicLevel); logrus.SetOutput(io.Discard) }

func NewSys(o SysOpts) (*Sys, error) {
	if o.Delimiter == "" {
		o.Delimiter = "/"
	}
	if len(o.Users) == 0 {
		o.Users = []string{"user"}
	}
	dir := o.Dir
	if dir == "" {
		d, err := os.MkdirTemp("", "vh-sys-")
		if err != nil {
			return nil, err
		}
		dir = d
	}
	opts := []gluon.Option{
		gluon.WithDataDir(filepath.Join(dir, "store")),
		gluon.WithDatabaseDir(filepath.Join(dir, "db")),
		gluon.WithDelimiter(o.Delimiter),
		gluon.WithIdleBulkTime(o.IdleBulk),
	}
	rec := &panicRecorder{}
	opts = append(opts, gluon.WithPanicHandler(rec))
	if o.JailTime != 0 {
		opts = append(opts, gluon.WithLoginJailTime(o.JailTime))
	}
	if o.Limits != nil {
		opts = append(opts, gluon.WithIMAPLimits(*o.Limits))
	}
	if o.DB != nil {
		opts = append(opts, gluon.WithDBClient(o.DB))
	}
	if o.StoreBuilder != nil {
		opts = append(opts, gluon.WithStoreBuilder(o.StoreBuilder))
	}
	if o.UIDValidity != nil {
		opts = append(opts, gluon.WithUIDValidityGenerator(o.UIDValidity))
	}
	opts = append(opts, o.Extra...)
	srv, err := gluon.New(opts...)
	if err != nil {
		return nil, err
	}
	conn := o.Conn
	if conn == nil {
		conn = connector.NewDummy(o.Users, []byte(sysPassword), time.Hour,
			imap.NewFlagSet(imap.FlagSeen, imap.FlagFlagged, imap.FlagDeleted, imap.FlagAnswered, imap.FlagDraft),
			imap.NewFlagSet(imap.FlagSeen, imap.FlagFlagged, imap.FlagDeleted, imap.FlagAnswered, imap.FlagDraft),
			imap.NewFlagSet())
		conn.SetUpdatesAllowedToFail(true)
	}
	ctx, cancel := context.WithCancel(context.Background())
	userID := o.UserID
	if userID == "" {
		userID, err = srv.AddUser(ctx, conn, []byte("passphrase"))
	} else {
		_, err = srv.LoadUser(ctx, conn, userID, []byte("passphrase"))
	}
	if err != nil {
		cancel()
		return nil, err
	}
	if err := conn.Sync(ctx); err != nil {
		cancel()
		return nil, err
	}
	ln, err := net.Listen("tcp", "127.0.0.1:0")
	if err != nil {
		cancel()
		return nil, err
	}
	if err := srv.Serve(ctx, ln); err != nil {
		cancel()
		return nil, err
	}
	go func() {
		for range srv.GetErrorCh() {
		}
	}()
	return &Sys{Server: srv, Conn: conn, UserID: userID, Addr: ln.Addr().String(), Dir: dir, cancel: cancel, ln: ln, opts: o, Panics: rec}, nil
}

// Close stops the server; removeDir also deletes its directories.
func (s *Sys) Close(removeDir bool) {
	ctx, c := context.WithTimeout(context.Background(), 20*time.Second)
	defer c()
	_ = s.Server.Close(ctx)
	s.cancel()
	if removeDir {
		_ = os.RemoveAll(s.Dir)
	}
}

// Barrier: connector updates flushed and every session has applied every update queued so far.
func (s *Sys) Barrier() error {
	s.Conn.Flush()
	ctx, c := context.WithTimeout(context.Background(), 20*time.Second)
	defer c()
	return s.Server.VerifBarrier(ctx, s.UserID)
}

// ---- client -------------------------------------------------------------------------------

type Client struct {
	conn net.Conn
	r    *bufio.Reader
	tagN int
	Name string
	// Timeout for one command.
	Timeout time.Duration
}

func (s *Sys) Dial(name string) (*Client, error) {
	conn, err := net.DialTimeout("tcp", s.Addr, 5*time.Second)
	if err != nil {
		return nil, err
	}
	c := &Client{conn: conn, r: bufio.NewReaderSize(conn, 1<<16), Name: name, Timeout: 30 * time.Second}
	if _, err := c.readLogical(); err != nil { // greeting
		return nil, err
	}
	return c, nil
}

func (c *Client) Close() { _ = c.conn.Close() }

var reLiteralTail = regexp.MustCompile(`\{(\d+)\}\r\n$`)

// readLogical reads one response (a line, with any literals it announces inlined), without the final CRLF.
func (c *Client) readLogical() ([]byte, error) {
	_ = c.conn.SetReadDeadline(time.Now().Add(c.Timeout))
	var out []byte
	for {
		line, err := c.r.ReadBytes('\n')
		out = append(out, line...)
		if err != nil {
			return out, err
		}
		if m := reLiteralTail.FindSubmatch(line); m != nil {
			n, _ := strconv.Atoi(string(m[1]))
			buf := make([]byte, n)
			if _, err := io.ReadFull(c.r, buf); err != nil {
				return out, err
			}
			out = append(out, buf...)
			continue
		}
		return bytes.TrimRight(out, "\r\n"), nil
	}
}

type Reply struct {
	Tag      string
	Status   string // OK NO BAD BYE or "" (connection lost)
	Tagged   string
	Untagged []string
	Err      error
}

// Cmd sends one command line (without tag) and reads until its tagged completion.
func (c *Client) Cmd(line string) Reply {
	c.tagN++
	tag := fmt.Sprintf("%s%d", c.Name, c.tagN)
	_ = c.conn.SetWriteDeadline(time.Now().Add(c.Timeout))
	if _, err := c.conn.Write([]byte(tag + " " + line + "\r\n")); err != nil {
		return Reply{Tag: tag, Err: err}
	}
	return c.readReply(tag)
}

func (c *Client) readReply(tag string) Reply {
	rep := Reply{Tag: tag}
	for {
		b, err := c.readLogical()
		if err != nil {
			rep.Err = err
			return rep
		}
		s := string(b)
		if strings.HasPrefix(s, tag+" ") {
			rep.Tagged = s
			f := strings.Fields(s)
			if len(f) > 1 {
				rep.Status = f[1]
			}
			return rep
		}
		if strings.HasPrefix(s, "* BYE") {
			rep.Untagged = append(rep.Untagged, s)
			rep.Status = "BYE"
			continue
		}
		rep.Untagged = append(rep.Untagged, s)
	}
}

// CmdLiteral sends `<tag> <head> {n}` , waits for the continuation, then the literal and tail.
func (c *Client) CmdLiteral(head string, literal []byte, tail string) Reply {
	c.tagN++
	tag := fmt.Sprintf("%s%d", c.Name, c.tagN)
	_ = c.conn.SetWriteDeadline(time.Now().Add(c.Timeout))
	if _, err := c.conn.Write([]byte(fmt.Sprintf("%s %s {%d}\r\n", tag, head, len(literal)))); err != nil {
		return Reply{Tag: tag, Err: err}
	}
	rep := Reply{Tag: tag}
	for {
		b, err := c.readLogical()
		if err != nil {
			rep.Err = err
			return rep
		}
		s := string(b)
		if strings.HasPrefix(s, "+") {
			break
		}
		if strings.HasPrefix(s, tag+" ") {
			rep.Tagged = s
			if f := strings.Fields(s); len(f) > 1 {
				rep.Status = f[1]
			}
			return rep
		}
		rep.Untagged = append(rep.Untagged, s)
	}
	if _, err := c.conn.Write(append(append([]byte{}, literal...), []byte(tail+"\r\n")...)); err != nil {
		rep.Err = err
		return rep
	}
	r2 := c.readReply(tag)
	r2.Untagged = append(rep.Untagged, r2.Untagged...)
	return r2
}

func (c *Client) Login(user string) Reply { return c.Cmd(fmt.Sprintf("LOGIN %s %s", user, sysPassword)) }

// SimpleMessage builds a small valid message (From + Date are required by rfcvalidation) with a marker header.
func SimpleMessage(marker string, body string) []byte {
	return []byte("From: a@example.com\r\nTo: b@example.com\r\nDate: Mon, 02 Jan 2006 15:04:05 +0000\r\nSubject: " + marker + "\r\nX-Marker: " + marker + "\r\n\r\n" + body + "\r\n")
}

func (c *Client) Append(mbox string, flags string, msg []byte) Reply {
	head := "APPEND " + mbox
	if flags != "" {
		head += " (" + flags + ")"
	}
	return c.CmdLiteral(head, msg, "")
}

var (
	reFetchLine = regexp.MustCompile(`^\* (\d+) FETCH \((.*)\)$`)
)

type FetchedMsg struct {
	Seq   int
	UID   int
	Flags []string
}

// FetchAll issues FETCH 1:* (UID FLAGS) and parses the answer; other untagged responses are returned too.
func (c *Client) FetchAll() ([]FetchedMsg, Reply) {
	rep := c.Cmd("FETCH 1:* (UID FLAGS)")
	var out []FetchedMsg
	for _, u := range rep.Untagged {
		if m := reFetchLine.FindStringSubmatch(u); m != nil {
			f := FetchedMsg{UID: -1}
			f.Seq, _ = strconv.Atoi(m[1])
			if x := reUID.FindStringSubmatch(m[2]); x != nil {
				f.UID, _ = strconv.Atoi(x[1])
			}
			if x := reFlags.FindStringSubmatch(m[2]); x != nil {
				f.Flags = strings.Fields(x[1])
			}
			out = append(out, f)
		}
	}
	// FETCH results are produced in parallel: order by sequence number
	sort.SliceStable(out, func(i, j int) bool { return out[i].Seq < out[j].Seq })
	return out, rep
}
