package main

// Facts/Match.lean (C14): the pieces `match` builds its regular expression from, what `canon` looks at, and how
// State.List fills the `Subscribed` field of the mailboxes it hands to getMatches.

import (
	"bytes"
	"fmt"
	"go/ast"
	"go/printer"
	"go/token"
	"strconv"
	"strings"
)

func (c *factsCtx) render(n ast.Node) string {
	var b bytes.Buffer
	_ = printer.Fprint(&b, c.fset, n)
	return strings.Join(strings.Fields(b.String()), " ")
}

func findFunc(files []*ast.File, name string, recv bool) *ast.FuncDecl {
	for _, f := range files {
		for _, d := range f.Decls {
			if fd, ok := d.(*ast.FuncDecl); ok && fd.Name.Name == name && (fd.Recv != nil) == recv && fd.Body != nil {
				return fd
			}
		}
	}
	return nil
}

func leanStrList(l []string) string {
	out := make([]string, len(l))
	for i, s := range l {
		out[i] = leanStr(s)
	}
	return "[" + strings.Join(out, ", ") + "]"
}

func factsMatch(c *factsCtx, outdir string) error {
	files := c.parseDir("internal/state")
	var pieces []string
	if fd := findFunc(files, "match", false); fd != nil {
		ast.Inspect(fd.Body, func(n ast.Node) bool {
			switch x := n.(type) {
			case *ast.CallExpr:
				pieces = append(pieces, "call:"+calleeQualified(x))
			case *ast.BasicLit:
				if x.Kind == token.STRING {
					if s, err := strconv.Unquote(x.Value); err == nil {
						pieces = append(pieces, "lit:"+s)
					} else {
						pieces = append(pieces, "lit?:"+x.Value)
					}
				}
			}
			return true
		})
	} else {
		pieces = []string{"unknown: func match not found"}
	}
	// func canon: calls and index expressions (which hierarchy levels are compared with INBOX)
	var canonPieces []string
	if fd := findFunc(files, "canon", false); fd != nil {
		ast.Inspect(fd.Body, func(n ast.Node) bool {
			switch x := n.(type) {
			case *ast.CallExpr:
				canonPieces = append(canonPieces, "call:"+calleeQualified(x))
			case *ast.IndexExpr:
				canonPieces = append(canonPieces, "index:"+c.render(x))
			case *ast.RangeStmt:
				canonPieces = append(canonPieces, "range:"+c.render(x.X))
			case *ast.FuncLit:
				canonPieces = append(canonPieces, "funclit")
			}
			return true
		})
	} else {
		canonPieces = []string{"unknown: func canon not found"}
	}
	var subExprs []string
	skips := "none"
	if fd := findFunc(files, "List", true); fd != nil {
		skips = "(some false)"
		ast.Inspect(fd.Body, func(n ast.Node) bool {
			switch x := n.(type) {
			case *ast.CompositeLit:
				if id, ok := x.Type.(*ast.Ident); ok && id.Name == "matchMailbox" {
					val := "unknown"
					for _, el := range x.Elts {
						if kv, ok := el.(*ast.KeyValueExpr); ok && identLit(kv.Key) == "Subscribed" {
							val = c.render(kv.Value)
						}
					}
					subExprs = append(subExprs, val)
				}
			case *ast.IfStmt:
				if c.render(x.Cond) == "lsub && !mbox.Subscribed" && len(x.Body.List) == 1 {
					if br, ok := x.Body.List[0].(*ast.BranchStmt); ok && br.Tok == token.CONTINUE {
						skips = "(some true)"
					}
				}
			}
			return true
		})
	}
	var b strings.Builder
	b.WriteString("namespace Gluon.Facts\n\n")
	b.WriteString("/-- calls and string literals of `func match` (internal/state/match.go) in source order -/\n")
	fmt.Fprintf(&b, "def matchPieces : List String := %s\n\n", leanStrList(pieces))
	b.WriteString("/-- calls, index expressions, loops and closures of `func canon` in source order -/\n")
	fmt.Fprintf(&b, "def canonPieces : List String := %s\n\n", leanStrList(canonPieces))
	b.WriteString("/-- `Subscribed:` expressions of the `matchMailbox{…}` literals in `State.List` -/\n")
	fmt.Fprintf(&b, "def listSubscribedExprs : List String := %s\n\n", leanStrList(subExprs))
	b.WriteString("/-- `State.List` has `if lsub && !mbox.Subscribed { continue }` -/\n")
	fmt.Fprintf(&b, "def listSkipsUnsubscribedInLsub : Option Bool := %s\n\nend Gluon.Facts\n", skips)
	return writeLean(outdir, "Match.lean", b.String())
}

func init() { factGens = append(factGens, factGen{"Match", factsMatch}) }
