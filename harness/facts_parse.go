package main

// Facts/Parse.lean (C10, C11): limits of the command parser that the model
// `Model/Parse/Grammar.lean` takes from the source: the nesting cap of SEARCH keys
// (`const maxSearchKeyDepth` and the test at the head of `parseSearchKey`, imap/command/search.go).

import (
	"fmt"
	"go/ast"
	"go/token"
	"strconv"
	"strings"
)

func init() { factGens = append(factGens, factGen{"Parse", c11sFactsParse}) }

func c11sFactsParse(c *factsCtx, outdir string) error {
	files := c.parseDir("imap/command")
	maxDepth := "none"
	for _, f := range files {
		for _, d := range f.Decls {
			gd, ok := d.(*ast.GenDecl)
			if !ok || gd.Tok != token.CONST {
				continue
			}
			for _, sp := range gd.Specs {
				vs, ok := sp.(*ast.ValueSpec)
				if !ok {
					continue
				}
				for i, n := range vs.Names {
					if n.Name == "maxSearchKeyDepth" && i < len(vs.Values) {
						if bl, ok := vs.Values[i].(*ast.BasicLit); ok && bl.Kind == token.INT {
							if v, err := strconv.ParseUint(bl.Value, 0, 32); err == nil {
								maxDepth = fmt.Sprintf("(some %d)", v)
							}
						}
					}
				}
			}
		}
	}
	// parseSearchKey: its first statement, and how the recursive calls pass the depth on
	first := "none"
	var calls []string
	for _, name := range []string{"parseSearchKey", "parseSearchKeyList", "handleSearchKey"} {
		fd := c11sFindFunc(files, name)
		if fd == nil {
			calls = append(calls, name+": not found")
			continue
		}
		if name == "parseSearchKey" && len(fd.Body.List) > 0 {
			if sk := c11sSkeleton(c, fd.Body.List[:1]); len(sk) == 1 {
				first = sk[0]
				if strings.HasPrefix(first, "if depth > maxSearchKeyDepth { return nil, p.MakeError(") {
					first = "if depth > maxSearchKeyDepth { return nil, p.MakeError(…) }"
				}
			}
		}
		ast.Inspect(fd.Body, func(n ast.Node) bool {
			call, ok := n.(*ast.CallExpr)
			if !ok {
				return true
			}
			switch calleeName(call) {
			case "parseSearchKey", "parseSearchKeyList", "handleSearchKey":
				if id, ok := call.Fun.(*ast.Ident); ok && len(call.Args) > 0 {
					calls = append(calls, name+" -> "+id.Name+"("+c.render(call.Args[len(call.Args)-1])+")")
				}
			}
			return true
		})
	}
	// the calls from SearchCommandParser.FromParser (depth 0)
	for _, f := range files {
		for _, d := range f.Decls {
			fd, ok := d.(*ast.FuncDecl)
			if !ok || fd.Body == nil || funcQualName(fd) != "SearchCommandParser.FromParser" {
				continue
			}
			ast.Inspect(fd.Body, func(n ast.Node) bool {
				if call, ok := n.(*ast.CallExpr); ok {
					switch calleeName(call) {
					case "parseSearchKey", "handleSearchKey":
						if len(call.Args) > 0 {
							calls = append(calls, "FromParser -> "+calleeName(call)+"("+c.render(call.Args[len(call.Args)-1])+")")
						}
					}
				}
				return true
			})
		}
	}
	// Parser.ConsumeInvalidInput: does it look at the look-ahead token before skipping to the next LF?
	skip := []string{"unknown"}
	if fd := c11sFindFunc(files, "ConsumeInvalidInput"); fd != nil {
		skip = c11sSkeleton(c, fd.Body.List)
	}
	// classified here (not by comparing strings in Lean: the model consults the flag on every skipped line, and
	// string comparison is what the Lean kernel is slowest at)
	stopsAtLF := "none"
	switch strings.Join(skip, " ; ") {
	case "_, err := p.scanner.ConsumeUntilNewLine() ; return err":
		stopsAtLF = "(some false)"
	case "if p.parser.Check(rfcparser.TokenTypeLF) { return nil } ; _, err := p.scanner.ConsumeUntilNewLine() ; return err":
		stopsAtLF = "(some true)"
	}
	var b strings.Builder
	b.WriteString("namespace Gluon.Facts\n\n")
	b.WriteString("/-- skeleton of `Parser.ConsumeInvalidInput` (imap/command/parser.go) -/\n")
	fmt.Fprintf(&b, "def consumeInvalidInputShape : List String := %s\n\n", leanStrList(skip))
	b.WriteString("/-- that skeleton classified: `some false` = `ConsumeUntilNewLine()` unconditionally; `some true` = preceded by\n")
	b.WriteString("    `if p.parser.Check(rfcparser.TokenTypeLF) { return nil }`; `none` = any other shape -/\n")
	fmt.Fprintf(&b, "def consumeInvalidInputStopsAtLF : Option Bool := %s\n\n", stopsAtLF)
	b.WriteString("/-- `const maxSearchKeyDepth` (imap/command/search.go); `none` = there is no such constant -/\n")
	fmt.Fprintf(&b, "def searchMaxDepth : Option Nat := %s\n\n", maxDepth)
	b.WriteString("/-- the first statement of `parseSearchKey` -/\n")
	fmt.Fprintf(&b, "def searchDepthCheck : String := %s\n\n", leanStr(first))
	b.WriteString("/-- how the depth is passed on: caller -> callee(last argument), in source order -/\n")
	fmt.Fprintf(&b, "def searchDepthCalls : List String := %s\n\nend Gluon.Facts\n", leanStrList(calls))
	return writeLean(outdir, "Parse.lean", b.String())
}
