package main

// Oracle `c17limits` (property C17): a whole server with small limits (gluon.WithIMAPLimits) and
// histories that approach the limits from below: APPEND, multi-message COPY / MOVE, CREATE with
// implicit parents, connector mailbox creation and connector batches (MessagesCreated) from two
// sessions, and a forced check-then-act race (a db.ClientInterface interposer holds every session that
// has finished the read transaction of Mailbox.AppendRegular until the other one has finished its own,
// so both checks run before either insert).
//
// After every step the complete world is observed through a third session (LIST, STATUS (MESSAGES
// UIDNEXT) and FETCH 1:* (UID RFC822.SIZE) of every mailbox, the recovery mailbox included), once
// right after the tagged reply and once after the connector's queued updates were flushed. Each
// observation goes to the Lean judge `judge-c17-wire` (Driver/DJudgeLimits.lean, built on the machine
// of Model/Limits.lean): Lean decides invariant, clean refusal, acceptance of fitting steps and the
// tie to the model.
//
// COPY / MOVE message sets overlap the destination's content in every way (none, some, all of the
// messages already have a copy there; the destination may be the source itself) and are repeated, so
// that UIDs are consumed without the count growing; about a third of the histories start with a
// scripted approach (fill a mailbox, COPY the same set into one destination until it is refused, then
// MOVE it there) before the random steps. Messages are identified across mailboxes by a marker (their
// RFC822.SIZE, unique per message the harness creates; the two messages of a RACE share one and are
// flagged `r`).
//
// SIZE x LIMIT (limSizeHistories, run on every check after the corpus): connector batches and multi-message
// COPY / MOVE whose size lies on both sides of db.ChunkLimit and of its half (the SQL layer cuts its statements
// there, and so would anybody who cuts a large update into pieces) against message-count and UID limits placed so
// that the operation crosses the limit in its FIRST, a MIDDLE or its LAST slice of db.ChunkLimit messages, or fits
// exactly. These histories run in `MODE tiny` (messages of a few hundred bytes: a marker of fixed width and a body
// one byte longer per message, so that the size still identifies the message) and with a WATCHING session that has the
// target mailbox selected: what it is told at its next NOOP goes to the judge with the status (`<status>@<mbox>=E<n>|-`):
// a refused operation must not have been announced, an accepted one is announced with the exact count.
//
// Replay file:
//   oracle c17limits
//   limits <maxMailboxes> <maxMessages> <maxUID>
//   S<i> RENAME <old> <new>   (judge op `rename old new`: the missing superiors of <new> count against the mailbox limit)
//   S<i> APPEND <mbox> | S<i> COPY <src> <n | lo:hi> <dst> | S<i> MOVE <src> <n | lo:hi> <dst> | S<i> CREATE <name>
//   S<i> DELETE <name> | S<i> EXPUNGE <mbox> <k> | K MBOX <name> | K BATCH <mbox> <n>
//   K BATCH2 <mbox1> <n1> <mbox2> <n2> | RACE <mbox> | MODE tiny | W SELECT <mbox>

import (
	"context"
	"flag"
	"fmt"
	"os"
	"path/filepath"
	"sort"
	"strconv"
	"strings"
	"sync"
	"time"

	"github.com/ProtonMail/gluon/db"
	"github.com/ProtonMail/gluon/imap"
	"github.com/ProtonMail/gluon/limits"
	"github.com/ProtonMail/gluon/verifhooks"
)

// ---- DB interposer ------------------------------------------------------------------------

type awRaceCtl struct {
	mu      sync.Mutex
	armed   bool
	need    int
	arrived int
	gate    chan struct{}
	forced  bool // both checks were seen before either insert
}

func (c *awRaceCtl) arm(n int) {
	c.mu.Lock()
	defer c.mu.Unlock()
	c.armed, c.need, c.arrived, c.gate, c.forced = true, n, 0, make(chan struct{}), false
}

func (c *awRaceCtl) disarm() bool {
	c.mu.Lock()
	defer c.mu.Unlock()
	c.armed = false
	return c.forced
}

func (c *awRaceCtl) afterCheck() {
	c.mu.Lock()
	if !c.armed {
		c.mu.Unlock()
		return
	}
	c.arrived++
	gate := c.gate
	if c.arrived == c.need {
		c.forced = true
		close(gate)
		c.mu.Unlock()
		return
	}
	c.mu.Unlock()
	select {
	case <-gate:
	case <-time.After(3 * time.Second):
	}
}

type awRaceDB struct {
	inner db.ClientInterface
	ctl   *awRaceCtl
}

func (d *awRaceDB) New(path string, userID string) (db.Client, bool, error) {
	c, isNew, err := d.inner.New(path, userID)
	if err != nil {
		return nil, isNew, err
	}
	return &awRaceClient{Client: c, ctl: d.ctl}, isNew, nil
}

func (d *awRaceDB) Delete(path string, userID string) error { return d.inner.Delete(path, userID) }

type awRaceClient struct {
	db.Client
	ctl *awRaceCtl
}

type awRoSpy struct {
	db.ReadOnly
	saw *bool
}

func (r *awRoSpy) GetMailboxMessageCountAndUID(ctx context.Context, id imap.InternalMailboxID) (int, imap.UID, error) {
	*r.saw = true
	return r.ReadOnly.GetMailboxMessageCountAndUID(ctx, id)
}

func (c *awRaceClient) Read(ctx context.Context, op func(context.Context, db.ReadOnly) error) error {
	saw := false
	err := c.Client.Read(ctx, func(ctx context.Context, ro db.ReadOnly) error {
		return op(ctx, &awRoSpy{ReadOnly: ro, saw: &saw})
	})
	if saw {
		// the read transaction with the limit checks of AppendRegular is over; its write transaction comes next
		c.ctl.afterCheck()
	}
	return err
}

// ---- runner -------------------------------------------------------------------------------

const limRecovery = "Recovered Messages"
const limRecoveryKey = "Recovered_Messages"

type limMB struct {
	name    string
	count   int
	uidNext int
	content string
}

type limRunner struct {
	sys     *Sys
	ctl     *awRaceCtl
	s       [2]*Client
	o       *Client
	lim     [3]int
	connIDs map[string]bool
	msgN    int
	lines   []string
	steps   []string // step of each judge line
	stats   map[string]int
	notes   []string
	world   []limMB
	tagged  []string
	twins   map[int]bool // markers (sizes) of RACE messages: two different messages share one
	last    string       // status of the last step (ok / no / effect / s1,s2)
	lastCM  string       // the last COPY / MOVE step
	// a COPY / MOVE was answered NO earlier in this history: gluon tells the connector before its own limit check
	// (known finding connector-echo-after-refusal), so from then on the connector's idea of which message is in which
	// mailbox differs from gluon's, and the echo of a later, accepted command can carry that difference into gluon
	diverged bool
	renames  int // RENAME steps generated so far (fresh new names)
	// tiny: small messages (MODE tiny); w: the watching session and the mailbox it has selected (W SELECT)
	tiny bool
	w    *Client
	wsel string
}

func newLimRunner(lim [3]int) (*limRunner, error) {
	ctl := &awRaceCtl{}
	l := limits.NewIMAPLimits(uint32(lim[0]), uint32(lim[1]), imap.UID(lim[2]), imap.UID(4294967295))
	sys, err := NewSys(SysOpts{Limits: &l, DB: &awRaceDB{inner: verifhooks.NewSQLiteDB(), ctl: ctl}})
	if err != nil {
		return nil, err
	}
	r := &limRunner{sys: sys, ctl: ctl, lim: lim, connIDs: map[string]bool{"INBOX": true}, stats: map[string]int{}, twins: map[int]bool{}}
	dial := func(n string) (*Client, error) {
		c, err := sys.Dial(n)
		if err != nil {
			return nil, err
		}
		if rep := c.Login("user"); rep.Status != "OK" {
			return nil, fmt.Errorf("login: %s %v", rep.Tagged, rep.Err)
		}
		return c, nil
	}
	for i := range r.s {
		if r.s[i], err = dial(fmt.Sprintf("S%d", i)); err != nil {
			sys.Close(true)
			return nil, err
		}
	}
	if r.o, err = dial("O"); err != nil {
		sys.Close(true)
		return nil, err
	}
	return r, nil
}

func (r *limRunner) close() {
	for _, c := range r.s {
		if c != nil {
			c.Close()
		}
	}
	if r.o != nil {
		r.o.Close()
	}
	if r.w != nil {
		r.w.Close()
	}
	r.sys.Close(true)
}

func awQuoteMB(name string) string { return `"` + name + `"` }

var limReUIDNext = awRegexpMust(`UIDNEXT (\d+)`)

func (r *limRunner) observe() ([]limMB, error) {
	if err := awSessionsQuiesce(r.sys); err != nil {
		return nil, err
	}
	rep := r.o.Cmd(`LIST "" "*"`)
	if rep.Status != "OK" {
		return nil, fmt.Errorf("LIST: %s %v", rep.Tagged, rep.Err)
	}
	names := map[string]bool{limRecovery: true}
	for _, u := range rep.Untagged {
		atts, name, ok := awParseListLine(u)
		if !ok {
			continue
		}
		if strings.Contains(strings.ToLower(atts), `\noselect`) {
			continue
		}
		names[name] = true
	}
	var out []limMB
	for name := range names {
		st := r.o.Cmd("STATUS " + awQuoteMB(name) + " (MESSAGES UIDNEXT)")
		if st.Status != "OK" {
			return nil, fmt.Errorf("STATUS %s: %s %v", name, st.Tagged, st.Err)
		}
		mb := limMB{name: strings.ReplaceAll(name, " ", "_"), content: "-"}
		for _, u := range st.Untagged {
			if m := awReStatusN.FindStringSubmatch(u); m != nil {
				mb.count, _ = strconv.Atoi(m[1])
			}
			if m := limReUIDNext.FindStringSubmatch(u); m != nil {
				mb.uidNext, _ = strconv.Atoi(m[1])
			}
		}
		if mb.count > 0 {
			if ex := r.o.Cmd("EXAMINE " + awQuoteMB(name)); ex.Status != "OK" {
				return nil, fmt.Errorf("EXAMINE %s: %s %v", name, ex.Tagged, ex.Err)
			}
			f := r.o.Cmd("FETCH 1:* (UID RFC822.SIZE)")
			_ = r.o.Cmd("UNSELECT")
			if f.Status != "OK" {
				return nil, fmt.Errorf("FETCH in %s: %s %v", name, f.Tagged, f.Err)
			}
			var items [][2]int
			for _, u := range f.Untagged {
				if m := reFetchLine.FindStringSubmatch(u); m != nil {
					var it [2]int
					if x := reUID.FindStringSubmatch(m[2]); x != nil {
						it[0], _ = strconv.Atoi(x[1])
					}
					if x := awReSize.FindStringSubmatch(m[2]); x != nil {
						it[1], _ = strconv.Atoi(x[1])
					}
					items = append(items, it)
				}
			}
			sort.Slice(items, func(i, j int) bool { return items[i][0] < items[j][0] })
			var s []string
			for _, it := range items {
				tw := ""
				if r.twins[it[1]] {
					tw = "r"
				}
				s = append(s, fmt.Sprintf("%d.%d%s", it[0], it[1], tw))
			}
			if len(s) > 0 {
				mb.content = strings.Join(s, "+")
			}
		}
		out = append(out, mb)
	}
	sort.Slice(out, func(i, j int) bool { return out[i].name < out[j].name })
	return out, nil
}

func awShowWorld(w []limMB) string {
	if len(w) == 0 {
		return "-"
	}
	s := make([]string, len(w))
	for i, m := range w {
		s[i] = fmt.Sprintf("%s:%d:%d:%s", m.name, m.count, m.uidNext, m.content)
	}
	return strings.Join(s, ";")
}

// bodyLen: the length of the body of the message numbered n (it makes the size identify the message)
func (r *limRunner) bodyLen(n int) int {
	if r.tiny {
		return n
	}
	return 16 * n
}

// watchTok: what the watching session is told at its NOOP: E<n> (the last EXISTS) or - ; "" = nobody watches
func (r *limRunner) watchTok() string {
	if r.w == nil || r.wsel == "" {
		return ""
	}
	rep := r.w.Cmd("NOOP")
	if rep.Err != nil || rep.Status != "OK" {
		return "@" + r.wsel + "=lost"
	}
	tok := "-"
	for _, u := range rep.Untagged {
		if m := limReExists.FindStringSubmatch(u); m != nil {
			tok = "E" + m[1]
		}
	}
	return "@" + r.wsel + "=" + tok
}

var limReExists = awRegexpMust(`^\* (\d+) EXISTS`)

func (r *limRunner) message() []byte {
	r.msgN++
	if r.tiny {
		// a marker of fixed width, one byte of body more per message: the size identifies the message
		return SimpleMessage(fmt.Sprintf("t%06d", r.msgN), strings.Repeat("y", r.msgN))
	}
	// 16 bytes more per message: the size identifies the message whatever the length of its marker
	return SimpleMessage(fmt.Sprintf("lim%d", r.msgN), strings.Repeat("y", 16*r.msgN))
}

func (r *limRunner) judgeLine(step, op string, before []limMB, status string, after []limMB) {
	r.lines = append(r.lines, fmt.Sprintf("judge-c17-wire %d %d %d %s | %s => %s | %s", r.lim[0], r.lim[1], r.lim[2], op, awShowWorld(before), status, awShowWorld(after)))
	r.steps = append(r.steps, step)
}

func (r *limRunner) connID(name string) imap.MailboxID {
	if name == "INBOX" {
		return "0"
	}
	return imap.MailboxID(name)
}

func (r *limRunner) batch(targets []string, ns []int) error {
	var msgs []imap.Message
	var lits [][]byte
	var mbs [][]imap.MailboxID
	for i, t := range targets {
		for k := 0; k < ns[i]; k++ {
			lit := r.message()
			msgs = append(msgs, imap.Message{ID: imap.MessageID(fmt.Sprintf("kb-%d", r.msgN)), Flags: imap.NewFlagSet(), Date: time.Unix(1136214245, 0).UTC()})
			lits = append(lits, lit)
			mbs = append(mbs, []imap.MailboxID{r.connID(t)})
		}
	}
	return r.sys.Conn.MessagesCreated(msgs, lits, mbs)
}

// exec runs one step; every step appends its judge lines.
func (r *limRunner) exec(step string) error {
	f := strings.Fields(step)
	if len(f) < 2 {
		return fmt.Errorf("bad step %q", step)
	}
	before := r.world
	var status, op string
	sess := func() (*Client, error) {
		i, err := strconv.Atoi(strings.TrimPrefix(f[0], "S"))
		if err != nil || i < 0 || i > 1 {
			return nil, fmt.Errorf("bad session in %q", step)
		}
		return r.s[i], nil
	}
	st := func(rep Reply) string {
		r.tagged = append(r.tagged, step+" -> "+awCanonTagged(rep))
		return awWireStatus(rep)
	}
	connector := false
	switch {
	case f[0] == "MODE" && f[1] == "tiny":
		r.tiny = true
		return nil
	case f[0] == "W" && f[1] == "SELECT" && len(f) == 3:
		if r.w == nil {
			c, err := r.sys.Dial("W")
			if err != nil {
				return err
			}
			if rep := c.Login("user"); rep.Status != "OK" {
				return fmt.Errorf("login: %s %v", rep.Tagged, rep.Err)
			}
			r.w = c
		}
		rep := r.w.Cmd("SELECT " + awQuoteMB(f[2]))
		if rep.Status != "OK" {
			return fmt.Errorf("W SELECT %s: %s %v", f[2], rep.Tagged, rep.Err)
		}
		r.wsel = f[2]
		return nil
	case f[0] == "K" && f[1] == "MBOX" && len(f) == 3:
		fl := imap.NewFlagSet(imap.FlagSeen, imap.FlagFlagged, imap.FlagDeleted, imap.FlagAnswered, imap.FlagDraft)
		if err := r.sys.Conn.MailboxCreated(imap.Mailbox{ID: imap.MailboxID(f[2]), Name: strings.Split(f[2], "/"), Flags: fl, PermanentFlags: fl, Attributes: imap.NewFlagSet()}); err != nil {
			return err
		}
		r.connIDs[f[2]] = true
		op, status, connector = "kcreate "+f[2], "effect", true
	case f[0] == "K" && f[1] == "BATCH" && len(f) == 4:
		n, _ := strconv.Atoi(f[3])
		if err := r.batch([]string{f[2]}, []int{n}); err != nil {
			return err
		}
		op, status, connector = fmt.Sprintf("batch %s %d", f[2], n), "effect", true
	case f[0] == "K" && f[1] == "BATCH2" && len(f) == 6:
		n1, _ := strconv.Atoi(f[3])
		n2, _ := strconv.Atoi(f[5])
		if err := r.batch([]string{f[2], f[4]}, []int{n1, n2}); err != nil {
			return err
		}
		op, status, connector = fmt.Sprintf("batch2 %s %d %s %d", f[2], n1, f[4], n2), "effect", true
	case f[0] == "RACE" && len(f) == 2:
		r.ctl.arm(2)
		var wg sync.WaitGroup
		var reps [2]Reply
		// two different messages of the same size: which of them gets the lower UID is up to the scheduler
		r.msgN++
		body := strings.Repeat("y", r.bodyLen(r.msgN))
		lits := [2][]byte{SimpleMessage(fmt.Sprintf("raceA%d", r.msgN), body), SimpleMessage(fmt.Sprintf("raceB%d", r.msgN), body)}
		for i := 0; i < 2; i++ {
			wg.Add(1)
			go func(i int) {
				defer wg.Done()
				reps[i] = r.s[i].Append(awQuoteMB(f[1]), "", lits[i])
			}(i)
		}
		wg.Wait()
		if r.ctl.disarm() {
			r.stats["race.forced"]++
		} else {
			r.stats["race.not-forced"]++
		}
		for _, rep := range reps {
			if rep.Err != nil {
				return fmt.Errorf("race APPEND: %v", rep.Err)
			}
		}
		// the two messages share one marker (RFC822.SIZE: gluon adds its own header, so it is read back from the
		// server): every message that is new anywhere now is one of them
		if now, err := r.observe(); err == nil {
			old := map[string]bool{}
			for _, m := range before {
				if m.content != "-" {
					for _, it := range strings.Split(m.content, "+") {
						old[m.name+" "+it] = true
					}
				}
			}
			for _, m := range now {
				if m.content == "-" {
					continue
				}
				for _, it := range strings.Split(m.content, "+") {
					if !old[m.name+" "+it] && !strings.HasSuffix(it, "r") {
						if sz, err := strconv.Atoi(it[strings.Index(it, ".")+1:]); err == nil {
							r.twins[sz] = true
						}
					}
				}
			}
		}
		// which session wins which UID is up to the scheduler: order the two replies by text
		if awCanonTagged(reps[1]) < awCanonTagged(reps[0]) {
			reps[0], reps[1] = reps[1], reps[0]
		}
		op, status = "race "+f[1], st(reps[0])+","+st(reps[1])
	case f[1] == "APPEND" && len(f) == 3:
		c, err := sess()
		if err != nil {
			return err
		}
		rep := c.Append(awQuoteMB(f[2]), "", r.message())
		if rep.Err != nil {
			return rep.Err
		}
		op, status = "append "+f[2], st(rep)
	case (f[1] == "COPY" || f[1] == "MOVE") && len(f) == 5:
		c, err := sess()
		if err != nil {
			return err
		}
		if rep := c.Cmd("SELECT " + awQuoteMB(f[2])); rep.Status != "OK" {
			return fmt.Errorf("SELECT %s: %s %v", f[2], rep.Tagged, rep.Err)
		}
		lo, hi, ok := limRange(f[3])
		if !ok {
			return fmt.Errorf("bad message set in %q", step)
		}
		rep := c.Cmd(fmt.Sprintf("%s %d:%d %s", f[1], lo, hi, awQuoteMB(f[4])))
		_ = c.Cmd("UNSELECT")
		if rep.Err != nil {
			return rep.Err
		}
		r.lastCM = step
		op, status = fmt.Sprintf("%s %s %d %d %s", strings.ToLower(f[1]), f[2], lo, hi, f[4]), st(rep)
	case f[1] == "CREATE" && len(f) == 3:
		c, err := sess()
		if err != nil {
			return err
		}
		rep := c.Cmd("CREATE " + awQuoteMB(f[2]))
		if rep.Err != nil {
			return rep.Err
		}
		op, status = "create "+f[2], st(rep)
	case f[1] == "RENAME" && len(f) == 4:
		c, err := sess()
		if err != nil {
			return err
		}
		rep := c.Cmd("RENAME " + awQuoteMB(f[2]) + " " + awQuoteMB(f[3]))
		if rep.Err != nil {
			return rep.Err
		}
		op, status = "rename "+f[2]+" "+f[3], st(rep)
	case f[1] == "DELETE" && len(f) == 3:
		c, err := sess()
		if err != nil {
			return err
		}
		rep := c.Cmd("DELETE " + awQuoteMB(f[2]))
		if rep.Err != nil {
			return rep.Err
		}
		delete(r.connIDs, f[2])
		op, status = "aux delete", st(rep)
	case f[1] == "EXPUNGE" && len(f) == 4:
		c, err := sess()
		if err != nil {
			return err
		}
		if rep := c.Cmd("SELECT " + awQuoteMB(f[2])); rep.Status != "OK" {
			return fmt.Errorf("SELECT %s: %s %v", f[2], rep.Tagged, rep.Err)
		}
		_ = c.Cmd(fmt.Sprintf(`STORE 1:%s +FLAGS.SILENT (\Deleted)`, f[3]))
		rep := c.Cmd("EXPUNGE")
		_ = c.Cmd("UNSELECT")
		if rep.Err != nil {
			return rep.Err
		}
		op, status = "aux expunge", st(rep)
	default:
		return fmt.Errorf("bad step %q", step)
	}
	r.stats["step."+strings.Fields(op)[0]]++
	r.last = status
	if !connector {
		// the world right after the tagged reply, before the connector's queued (echo) updates are applied
		mid, err := r.observe()
		if err != nil {
			return err
		}
		r.judgeLine(step, op, before, status+r.watchTok(), mid)
		if status == "no" && (strings.HasPrefix(op, "copy ") || strings.HasPrefix(op, "move ")) {
			r.diverged = true
		}
		if r.diverged && status == "ok" {
			status = "ok+diverged"
		}
		before, op, status = mid, "flush "+status, "effect"
	}
	if err := r.sys.Barrier(); err != nil {
		return err
	}
	after, err := r.observe()
	if err != nil {
		return err
	}
	if connector {
		r.judgeLine(step, op, before, status+r.watchTok(), after)
	} else {
		// applying the connector's echo of an IMAP command must not change anything
		r.judgeLine(step, op, before, "effect", after)
	}
	r.world = after
	for _, p := range r.sys.Panics.Take() {
		r.notes = append(r.notes, fmt.Sprintf("server goroutine panicked at step %q: %s", step, p))
	}
	return nil
}

// ---- generation --------------------------------------------------------------------------

func (r *limRunner) find(name string) *limMB {
	key := strings.ReplaceAll(name, " ", "_")
	for i := range r.world {
		if r.world[i].name == key {
			return &r.world[i]
		}
	}
	return nil
}

func (r *limRunner) genStep(g *Rng) string {
	var user []limMB // mailboxes a client may target
	for _, m := range r.world {
		if m.name != limRecoveryKey {
			user = append(user, m)
		}
	}
	var nonEmpty []limMB
	for _, m := range user {
		if m.count > 0 {
			nonEmpty = append(nonEmpty, m)
		}
	}
	s := fmt.Sprintf("S%d", g.Intn(2))
	for tries := 0; tries < 20; tries++ {
		switch k := g.Intn(100); {
		case k < 24:
			return fmt.Sprintf("%s APPEND %s", s, Pick(g, user).name)
		case k < 52:
			// COPY / MOVE: any message set, any destination (the source itself included); about one in six
			// repeats the previous COPY / MOVE (the same set into the same destination again)
			if len(nonEmpty) == 0 {
				continue
			}
			verb := "COPY"
			if k >= 40 {
				verb = "MOVE"
			}
			if f := strings.Fields(r.lastCM); len(f) == 5 && g.Chance(1, 6) {
				if src := r.find(f[2]); src != nil && r.find(f[4]) != nil {
					if _, hi, ok := limRange(f[3]); ok && hi <= src.count {
						return fmt.Sprintf("%s %s %s %s %s", s, verb, f[2], f[3], f[4])
					}
				}
			}
			src := Pick(g, nonEmpty)
			dst := Pick(g, user)
			if g.Bool() {
				// prefer a destination that already holds a copy of one of the source's messages
				var ov []limMB
				for _, m := range user {
					if m.name != src.name && limOverlapCount(src, m, 1, src.count) > 0 {
						ov = append(ov, m)
					}
				}
				if len(ov) > 0 {
					dst = Pick(g, ov)
				}
			}
			if dst.name == src.name && !g.Chance(1, 3) {
				continue
			}
			lo, hi := 1, src.count
			switch g.Intn(3) {
			case 0: // a prefix
				hi = g.Range(1, src.count)
			case 1: // any sub-range
				lo = g.Range(1, src.count)
				hi = g.Range(lo, src.count)
			}
			return fmt.Sprintf("%s %s %s %s %s", s, verb, src.name, limShowRange(lo, hi), dst.name)
		case k >= 61 && k < 64:
			// RENAME of a mailbox created over IMAP onto a fresh name with 0..3 missing superiors (a prefix no
			// history uses otherwise: no inferior of the new name can collide), sometimes directly below an
			// existing mailbox; near the mailbox limit this is what State.Rename's limit check is for
			var cand []limMB
			for _, m := range user {
				// only hierarchies that hold no messages: a mailbox that a forced APPEND race (known finding
				// check-outside-tx) already took above the message maximum must not be blamed on the RENAME that moves it
				empty := m.count == 0
				for _, o := range user {
					if strings.HasPrefix(o.name, m.name+"/") && o.count != 0 {
						empty = false
					}
				}
				if !r.connIDs[m.name] && m.name != "INBOX" && empty {
					cand = append(cand, m)
				}
			}
			if len(cand) == 0 {
				continue
			}
			old := Pick(g, cand).name
			r.renames++
			parts := []string{"n" + strconv.Itoa(r.renames), "m", "l", "x"}[:g.Range(1, 4)]
			name := strings.Join(parts, "/")
			if g.Intn(4) == 0 {
				if up := Pick(g, user).name; up != old && !strings.HasPrefix(up, old+"/") {
					name = up + "/" + name
				}
			}
			return fmt.Sprintf("%s RENAME %s %s", s, old, name)
		case k < 64:
			depth := g.Range(1, 4)
			var parts []string
			for i := 0; i < depth; i++ {
				parts = append(parts, Pick(g, []string{"p", "q", "r", "s", "t"}))
			}
			name := strings.Join(parts, "/")
			if r.find(name) != nil {
				continue
			}
			return fmt.Sprintf("%s CREATE %s", s, name)
		case k < 69:
			name := fmt.Sprintf("k%d", g.Intn(1000))
			if r.find(name) != nil {
				continue
			}
			return "K MBOX " + name
		case k < 79:
			var t []string
			for n := range r.connIDs {
				if r.find(n) != nil {
					t = append(t, n)
				}
			}
			sort.Strings(t)
			return fmt.Sprintf("K BATCH %s %d", Pick(g, t), g.Range(1, r.lim[1]+1))
		case k < 83:
			var t []string
			for n := range r.connIDs {
				if r.find(n) != nil {
					t = append(t, n)
				}
			}
			sort.Strings(t)
			if len(t) < 2 {
				continue
			}
			a := g.Intn(len(t))
			b := (a + 1 + g.Intn(len(t)-1)) % len(t)
			return fmt.Sprintf("K BATCH2 %s %d %s %d", t[a], g.Range(1, r.lim[1]), t[b], g.Range(1, r.lim[1]+1))
		case k < 89:
			return "RACE " + Pick(g, user).name
		case k < 93:
			var cand []limMB
			for _, m := range user {
				if m.name != "INBOX" {
					cand = append(cand, m)
				}
			}
			if len(cand) == 0 {
				continue
			}
			return fmt.Sprintf("%s DELETE %s", s, Pick(g, cand).name)
		default:
			if len(nonEmpty) == 0 {
				continue
			}
			m := Pick(g, nonEmpty)
			return fmt.Sprintf("%s EXPUNGE %s %d", s, m.name, g.Range(1, m.count))
		}
	}
	return s + " APPEND INBOX"
}

// limRange parses the message set of a COPY / MOVE step: `n` (= 1:n) or `lo:hi`.
func limRange(w string) (int, int, bool) {
	if i := strings.Index(w, ":"); i >= 0 {
		lo, e1 := strconv.Atoi(w[:i])
		hi, e2 := strconv.Atoi(w[i+1:])
		return lo, hi, e1 == nil && e2 == nil && lo >= 1 && hi >= lo
	}
	n, err := strconv.Atoi(w)
	return 1, n, err == nil && n >= 1
}

func limShowRange(lo, hi int) string {
	if lo == 1 {
		return strconv.Itoa(hi)
	}
	return fmt.Sprintf("%d:%d", lo, hi)
}

// limOverlapCount: how many of the messages lo..hi of src have a copy in dst already (messages are
// identified by their marker). COPY / MOVE replaces such a copy (remove + add with a new UID).
func limOverlapCount(src, dst limMB, lo, hi int) int {
	marks := map[string]bool{}
	mark := func(it string) string { return strings.TrimSuffix(it[strings.Index(it, ".")+1:], "r") }
	if dst.content != "-" {
		for _, it := range strings.Split(dst.content, "+") {
			marks[mark(it)] = true
		}
	}
	if src.content == "-" {
		return 0
	}
	n := 0
	for i, it := range strings.Split(src.content, "+") {
		if i+1 >= lo && i+1 <= hi && marks[mark(it)] {
			n++
		}
	}
	return n
}

// limApproach: a scripted approach to the limits of one destination mailbox. m messages in INBOX; the
// same set is copied into a fresh mailbox again and again (every repetition replaces the copies and
// consumes m UIDs) until the COPY is refused or the budget is used up, then a part of the set is
// copied once more and finally the set is moved there; the caller continues with random steps.
// next(status of the previous step) returns the next step or "".
func limApproach(g *Rng, lim [3]int) func(last string) string {
	m := g.Range(1, 4)
	if m > lim[1] {
		m = lim[1]
	}
	if lim[2] <= m { // INBOX itself must be able to take them
		m = lim[2] - 1
	}
	if m < 1 {
		m = 1
	}
	dst := Pick(g, []string{"x", "y", "z/w"})
	extra := g.Intn(3)      // other messages in the destination before the copies start
	budget := g.Range(2, 7) // at most that many repetitions
	sub := g.Range(1, m)    // the part copied once more
	moveLo := g.Range(1, m)
	moveAll := g.Bool()
	phase, i := 0, 0
	return func(last string) string {
		for {
			switch phase {
			case 0:
				if i < m {
					i++
					return "S0 APPEND INBOX"
				}
				phase, i = 1, 0
			case 1:
				phase = 2
				return "S0 CREATE " + dst
			case 2:
				if i < extra {
					i++
					return "S1 APPEND " + dst
				}
				phase, i = 3, 0
			case 3:
				if i > 0 && last == "no" || i >= budget {
					phase = 4
					continue
				}
				i++
				return fmt.Sprintf("S%d COPY INBOX %d %s", i%2, m, dst)
			case 4:
				phase = 5
				return fmt.Sprintf("S0 COPY INBOX %d %s", sub, dst)
			case 5:
				phase = 6
				if moveAll {
					return fmt.Sprintf("S1 MOVE INBOX %d %s", m, dst)
				}
				return fmt.Sprintf("S1 MOVE INBOX %s %s", limShowRange(moveLo, m), dst)
			default:
				return ""
			}
		}
	}
}


// ---- SIZE x LIMIT ------------------------------------------------------------------------

type limDirected struct {
	name  string
	lim   [3]int
	steps []string
}

// limSizeHistories: connector batches (and COPY / MOVE sets) of 1, 2, H-1, H, H+1, L-1, L, L+1, L+2, 2L-1, 2L,
// 2L+1 messages (L = db.ChunkLimit, H = L/2) against a message-count limit / a UID limit placed so that the
// operation crosses it in the FIRST, a MIDDLE or the LAST slice of L messages, or fits exactly. A refused operation
// leaves everything as it was (count, UIDNEXT, content, nothing announced to the watching session) - so the same
// mailbox takes the next operation; an accepted one leaves the exact count.
func limSizeHistories() []limDirected {
	L := db.ChunkLimit
	H := L / 2
	big := 100 * L // a limit that plays no part
	pre := []string{"MODE tiny", "K MBOX b", "W SELECT b"}
	b := func(n int) string { return fmt.Sprintf("K BATCH b %d", n) }
	h := func(name string, lim [3]int, steps ...string) limDirected {
		return limDirected{name, lim, append(append([]string{}, pre...), steps...)}
	}
	return []limDirected{
		// message-count limit
		h("count-limit-eq-chunk", [3]int{8, L, big}, b(L+1), b(2*L+1), b(L), b(1)),
		h("count-limit-last-slice", [3]int{8, 2 * L, big}, b(2*L+1), b(2*L)),
		h("count-limit-middle-slice", [3]int{8, L + H, big}, b(2*L+1), b(L+1), b(H), b(H-1)),
		h("count-limit-first-slice", [3]int{8, H, big}, b(H+1), b(L+1), b(H-1), b(2), b(1)),
		h("count-limit-below-chunk", [3]int{8, L - 1, big}, b(L), b(L-1)),
		h("count-limit-above-chunk", [3]int{8, L + 1, big}, b(L+2), b(L+1)),
		// UID limit (an empty mailbox has UIDNEXT 1: n messages fit iff 1 + n <= maxUID)
		h("uid-limit-eq-chunk", [3]int{8, big, L + 1}, b(L+1), b(L), b(1), b(L+1)),
		h("uid-limit-middle-slice", [3]int{8, big, L + H + 1}, b(2*L+1), b(H-1)),
		h("uid-limit-last-slice", [3]int{8, big, 2 * L}, b(2*L), b(2*L-1)),
		// two mailboxes in one update: the one that fits must not keep its part
		{"count-limit-two-mailboxes", [3]int{8, L, big}, []string{"MODE tiny", "K MBOX b", "K MBOX c", "W SELECT b",
			fmt.Sprintf("K BATCH2 b %d c %d", H+1, L+1), fmt.Sprintf("K BATCH2 c %d b %d", H, H)}},
		// multi-message client operations of more than L messages
		{"count-limit-copy-move", [3]int{8, L + 1, big}, []string{"MODE tiny", fmt.Sprintf("K BATCH INBOX %d", L+1), "S0 CREATE d", "W SELECT d",
			fmt.Sprintf("S0 COPY INBOX %d d", L+1), "S1 CREATE e", "S1 APPEND e", "W SELECT e", fmt.Sprintf("S1 MOVE INBOX %d e", L+1)}},
		{"uid-limit-move-copy", [3]int{8, big, L + 2}, []string{"MODE tiny", fmt.Sprintf("K BATCH INBOX %d", L+1), "S0 CREATE d", "W SELECT d",
			fmt.Sprintf("S0 MOVE INBOX %d d", L+1), "S1 CREATE e", "S1 APPEND e", "W SELECT e", fmt.Sprintf("S1 COPY d %d e", L+1)}},
	}
}

// limSizeClass: the length of a multi-message operation relative to db.ChunkLimit and its half
// limShortLine: a judge line with long mailbox contents cut (the replay file holds the steps; the line is a comment)
func limShortLine(l string) string {
	w := strings.Fields(l)
	for i, x := range w {
		if len(x) > 400 {
			var mbs []string
			for _, mb := range strings.Split(x, ";") {
				if len(mb) > 120 {
					mb = fmt.Sprintf("%s…(%d bytes)", mb[:100], len(mb))
				}
				mbs = append(mbs, mb)
			}
			w[i] = strings.Join(mbs, ";")
		}
	}
	return strings.Join(w, " ")
}

func limSizeClass(n int) string {
	L := db.ChunkLimit
	H := L / 2
	switch {
	case n < H:
		return "lt-half"
	case n == H:
		return "eq-half"
	case n < L:
		return "half-to-chunk"
	case n == L:
		return "eq-chunk"
	case n < 2*L:
		return "chunk-to-2chunks"
	case n == 2*L:
		return "eq-2chunks"
	}
	return "gt-2chunks"
}

// limSizeStat classifies one judged step of a size history: accepted exactly at the limit / with room, or refused
// with the limit crossed in the first / a middle / the last slice of db.ChunkLimit messages (room = how many more
// messages the target could take before the step).
func limSizeStat(lim [3]int, line string, answer string) []string {
	// judge-c17-wire <a> <b> <c> <op …> | <world before> => <status> | <world after>
	parts := strings.Split(line, " | ")
	if len(parts) != 3 {
		return nil
	}
	head := strings.Fields(parts[0])
	if len(head) < 5 {
		return nil
	}
	f := head[4:]
	var before []limMB
	for _, e := range strings.Split(strings.TrimSuffix(strings.Fields(parts[1])[0], ";"), ";") {
		if w := strings.SplitN(e, ":", 4); len(w) == 4 {
			before = append(before, limMB{name: w[0], count: atoi(w[1]), uidNext: atoi(w[2])})
		}
	}
	var target string
	n := 0
	switch {
	case len(f) == 3 && f[0] == "batch":
		target, n = f[1], atoi(f[2])
	case len(f) == 5 && (f[0] == "copy" || f[0] == "move"):
		target, n = f[4], atoi(f[3])-atoi(f[2])+1
	default:
		return nil
	}
	var mb *limMB
	for i := range before {
		if before[i].name == target {
			mb = &before[i]
		}
	}
	if mb == nil || n <= 0 {
		return nil
	}
	roomCount, roomUID := lim[1]-mb.count, lim[2]-mb.uidNext
	room, which := roomCount, "count"
	if roomUID < roomCount {
		room, which = roomUID, "uid"
	}
	kind := f[0]
	out := []string{"sizes." + kind + "." + limSizeClass(n)}
	L := db.ChunkLimit
	switch {
	case strings.Contains(answer, "refused-unchanged"):
		slices := (n + L - 1) / L
		pos := "middle"
		switch idx := room / L; {
		case slices == 1:
			pos = "only"
		case idx == 0:
			pos = "first"
		case idx >= slices-1:
			pos = "last"
		}
		out = append(out, fmt.Sprintf("sizes.refused.%s-limit.crossed-in-%s-slice", which, pos))
		if room > 0 && room%L == 0 {
			out = append(out, "sizes.refused."+which+"-limit.room-is-a-multiple-of-the-chunk")
		}
	case strings.Contains(answer, "accepted") || strings.Contains(answer, "applied"):
		if room == n {
			out = append(out, "sizes.accepted."+which+"-limit.fits-exactly")
		} else {
			out = append(out, "sizes.accepted.with-room")
		}
	}
	return out
}

// limSizeMust: the classes the size histories must have exercised (sizes.classes-zero counts the missing ones)
var limSizeMust = []string{
	"sizes.batch.lt-half", "sizes.batch.eq-half", "sizes.batch.half-to-chunk", "sizes.batch.eq-chunk", "sizes.batch.chunk-to-2chunks",
	"sizes.batch.eq-2chunks", "sizes.batch.gt-2chunks", "sizes.copy.chunk-to-2chunks", "sizes.move.chunk-to-2chunks",
	"sizes.refused.count-limit.crossed-in-first-slice", "sizes.refused.count-limit.crossed-in-middle-slice", "sizes.refused.count-limit.crossed-in-last-slice",
	"sizes.refused.count-limit.crossed-in-only-slice", "sizes.refused.count-limit.room-is-a-multiple-of-the-chunk",
	"sizes.refused.uid-limit.crossed-in-first-slice", "sizes.refused.uid-limit.crossed-in-middle-slice", "sizes.refused.uid-limit.crossed-in-last-slice",
	"sizes.refused.uid-limit.room-is-a-multiple-of-the-chunk",
	"sizes.accepted.count-limit.fits-exactly", "sizes.accepted.uid-limit.fits-exactly", "sizes.accepted.with-room",
}

type limHistory struct {
	lim    [3]int
	steps  []string
	lines  []string
	lsteps []string
	notes  []string
	tagged []string
	stats  map[string]int
	err    error
}

func runLimHistory(g *Rng, lim [3]int, nsteps int, replaySteps []string) *limHistory {
	h := &limHistory{lim: lim, stats: map[string]int{}}
	r, err := newLimRunner(lim)
	if err != nil {
		h.err = err
		return h
	}
	defer r.close()
	if r.world, err = r.observe(); err != nil {
		h.err = err
		return h
	}
	run := func(step string) bool {
		h.steps = append(h.steps, step)
		if err := r.exec(step); err != nil {
			h.err = fmt.Errorf("step %q: %w", step, err)
			return false
		}
		return true
	}
	if replaySteps != nil {
		for _, s := range replaySteps {
			if !run(s) {
				break
			}
		}
	} else {
		var script func(string) string
		if g.Chance(1, 3) {
			script = limApproach(g, lim)
			h.stats["histories.scripted-approach"]++
		}
		for k := 0; k < nsteps; k++ {
			step := ""
			if script != nil {
				if step = script(r.last); step == "" {
					script = nil
				}
			}
			if step == "" {
				step = r.genStep(g)
			}
			if !run(step) {
				break
			}
		}
	}
	for k, v := range r.stats {
		h.stats[k] += v
	}
	h.lines, h.lsteps, h.notes, h.tagged = r.lines, r.steps, r.notes, r.tagged
	return h
}

func runLimitsOracle(args []string) int {
	fs := flag.NewFlagSet("c17limits", flag.ExitOnError)
	seed := fs.Uint64("seed", 1, "")
	out := fs.String("out", "", "")
	replayDir := fs.String("replaydir", ".", "")
	replay := fs.String("replay", "", "")
	n := fs.Int("n", 12, "histories")
	nsteps := fs.Int("steps", 25, "steps per history")
	noSizes := fs.Bool("nosizes", false, "skip the SIZE x LIMIT histories")
	_ = fs.Parse(args)
	res := &OracleResult{Stats: map[string]int{}}
	perCause := map[string]int{}
	distinct := map[string]bool{}
	judgeHistory := func(h *limHistory, tag string) {
		res.Evaluations += len(h.lines)
		for k, v := range h.stats {
			res.Stats[k] += v
		}
		report := func(cause, desc string, upto int) {
			res.Stats["violation.cause="+cause]++
			perCause[cause]++
			if perCause[cause] > 2 {
				return
			}
			steps := h.steps
			if upto >= 0 && upto < len(steps) {
				steps = steps[:upto+1]
			}
			text := fmt.Sprintf("oracle c17limits\nlimits %d %d %d\n%s\n# property C17: %s\n# %s\n", h.lim[0], h.lim[1], h.lim[2], strings.Join(steps, "\n"), desc, tag)
			for _, t := range h.tagged {
				text += "# reply: " + t + "\n"
			}
			text += "# replay: ./check C17 --replay <this file>\n"
			name := fmt.Sprintf("C17-limits-%d-%d.txt", *seed, len(res.Violations))
			path := filepath.Join(*replayDir, name)
			_ = os.MkdirAll(*replayDir, 0o755)
			_ = os.WriteFile(path, []byte(text), 0o644)
			res.Violations = append(res.Violations, OracleViol{Desc: "C17: " + desc, Replay: path})
		}
		if h.err != nil {
			report("history-aborted", "history aborted (server error, dropped connection or timeout): "+h.err.Error()+" cause=history-aborted", -1)
		}
		for _, nt := range h.notes {
			report("panic", nt+" cause=panic", -1)
		}
		if len(h.lines) == 0 {
			return
		}
		ans, err := leanJudge(h.lines)
		if err != nil || len(ans) != len(h.lines) {
			res.Violations = append(res.Violations, OracleViol{Desc: fmt.Sprintf("C17: Lean judge did not answer (%v)", err)})
			return
		}
		stepIdx := 0
		for i, a := range ans {
			// index of the step this line belongs to
			for stepIdx < len(h.steps) && h.steps[stepIdx] != h.lsteps[i] {
				stepIdx++
			}
			w := strings.Fields(a)
			if len(w) >= 2 && w[0] == "ok" {
				if strings.HasPrefix(tag, "size history") {
					for _, k := range limSizeStat(h.lim, h.lines[i], w[1]) {
						res.Stats[k]++
					}
				}
				res.Stats["judge."+w[1]]++
				if strings.HasPrefix(w[1], "nontrivial") {
					distinct[h.lines[i]] = true
				}
				continue
			}
			cause := "unknown"
			if m := awReCause.FindStringSubmatch(a); m != nil {
				cause = m[1]
			}
			report(cause, fmt.Sprintf("step %q: %s | observed: %s", h.lsteps[i], a, limShortLine(h.lines[i])), stepIdx)
		}
	}
	finish := func() int {
		res.DistinctNontrivial = len(distinct)
		if *out != "" {
			writeResult(*out, res)
		}
		for _, k := range sortedKeys(res.Stats) {
			fmt.Fprintf(os.Stderr, "%s=%d ", k, res.Stats[k])
		}
		fmt.Fprintln(os.Stderr)
		for _, v := range res.Violations {
			fmt.Fprintln(os.Stderr, "VIOL", v.Desc, v.Replay)
		}
		return 0
	}
	readHistory := func(path string) ([3]int, []string, error) {
		var lim [3]int
		b, err := os.ReadFile(path)
		if err != nil {
			return lim, nil, err
		}
		var steps []string
		for i, l := range strings.Split(string(b), "\n") {
			if i == 0 || l == "" || strings.HasPrefix(l, "#") {
				continue
			}
			f := strings.Fields(l)
			if f[0] == "limits" && len(f) == 4 {
				for k := 0; k < 3; k++ {
					lim[k], _ = strconv.Atoi(f[k+1])
				}
				continue
			}
			steps = append(steps, l)
		}
		if lim[0] == 0 {
			return lim, nil, fmt.Errorf("%s: no limits line", path)
		}
		return lim, steps, nil
	}
	if *replay != "" {
		lim, steps, err := readHistory(*replay)
		if err != nil {
			fmt.Fprintln(os.Stderr, err)
			return 1
		}
		judgeHistory(runLimHistory(nil, lim, 0, steps), "replayed")
		return finish()
	}
	// directed histories first (known findings, past failures): $VERIF_CORPUS/*.limits
	if dir := os.Getenv("VERIF_CORPUS"); dir != "" {
		files, _ := filepath.Glob(filepath.Join(dir, "*.limits"))
		sort.Strings(files)
		for _, f := range files {
			lim, steps, err := readHistory(f)
			if err != nil {
				continue
			}
			res.Stats["corpus"]++
			judgeHistory(runLimHistory(nil, lim, 0, steps), "corpus history "+filepath.Base(f))
		}
	}
	// then SIZE x LIMIT: operations on both sides of db.ChunkLimit against limits crossed in the first / a middle /
	// the last slice (whatever the seed)
	if !*noSizes {
		t0 := time.Now()
		for _, d := range limSizeHistories() {
			res.Stats["sizes.histories"]++
			judgeHistory(runLimHistory(nil, d.lim, 0, d.steps), "size history "+d.name)
		}
		// and a few random ones: a limit near H, L, L+H or 2L (count or UID), batches near H, L, 2L and small ones
		sg := NewRng(*seed ^ 0x51ce)
		nbig := *n / 20
		if nbig < 1 {
			nbig = 1
		}
		for k := 0; k < nbig; k++ {
			L := db.ChunkLimit
			near := func() int { return Pick(sg, []int{L / 2, L, L + L/2, 2 * L}) + sg.Range(0, 4) - 2 }
			lim := [3]int{8, near(), 100 * L}
			if sg.Bool() {
				lim = [3]int{8, 100 * L, near() + 1}
			}
			steps := []string{"MODE tiny", "K MBOX b", "W SELECT b"}
			for j := 0; j < 4; j++ {
				nmsg := sg.Range(1, 3)
				if sg.Chance(2, 3) {
					nmsg = Pick(sg, []int{L / 2, L, L, 2 * L}) + sg.Range(0, 2) - 1
				}
				steps = append(steps, fmt.Sprintf("K BATCH b %d", nmsg))
			}
			res.Stats["sizes.histories.random"]++
			judgeHistory(runLimHistory(nil, lim, 0, steps), fmt.Sprintf("size history random (seed %d, %d)", *seed, k))
		}
		missing := 0
		for _, k := range limSizeMust {
			if res.Stats[k] == 0 {
				missing++
				fmt.Fprintln(os.Stderr, "size class never exercised:", k)
			}
		}
		res.Stats["sizes.classes-zero"] = missing
		res.Stats["sizes.seconds"] = int(time.Since(t0).Seconds())
	}
	g := NewRng(*seed)
	for k := 0; k < *n; k++ {
		hg := g.Fork()
		lim := [3]int{hg.Range(3, 8), hg.Range(1, 5), 1000}
		if hg.Chance(2, 3) {
			// a tiny maximum UID: the UID boundary is reached after a handful of insertions
			lim[2] = lim[1] + hg.Range(1, 8)
		}
		res.Stats["histories"]++
		if lim[2] < 1000 {
			res.Stats["histories.small-max-uid"]++
		}
		h := runLimHistory(hg, lim, *nsteps, nil)
		judgeHistory(h, fmt.Sprintf("generated (seed %d, history %d)", *seed, k))
		if len(res.Samples) < 1 {
			res.Samples = append(res.Samples, map[string]any{"limits": lim, "history": h.steps})
		}
	}
	return finish()
}

func init() { RegisterOracle(&Oracle{Name: "c17limits", Run: runLimitsOracle}) }
