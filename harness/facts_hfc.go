package main

// Facts/CloseCtx.lean (C01 / C05): what a session handler does AFTER it has marked its context as CLOSE
// (`contexts.AsClose`).  Under that context flushResponses applies every pending responder to the snapshot and
// announces nothing (theorem C01.flush_close_silent): that is only sound when nothing that can fail stands between
// the silent flush and the deselection of the mailbox - a handler that returns an error in between answers NO, the
// mailbox stays selected and the client was never told what the flush did.  The table lists, per handler, the calls
// that follow the AsClose call in source order (qualified callee names); theorem C01.silent_flush_then_deselect
// decides over it.  A handler that marks the context anywhere but in a plain `ctx = contexts.AsClose(ctx)` statement
// of its body, or passes the marked context to a session function other than flush, is emitted with an `unknown:` step.

import (
	"fmt"
	"go/ast"
	"go/token"
	"sort"
	"strings"
)

func init() { factGens = append(factGens, factGen{"CloseCtx", factsHfcCloseCtx}) }

func factsHfcCloseCtx(c *factsCtx, outdir string) error {
	files := c.parseDir("internal/session")
	type fn struct {
		file  string
		name  string
		steps []string
	}
	var fns []fn
	// the session package's own functions: handing the marked context to one of them (other than flush) hides calls
	local := map[string]bool{}
	for _, f := range files {
		for _, d := range f.Decls {
			if fd, ok := d.(*ast.FuncDecl); ok {
				local[fd.Name.Name] = true
			}
		}
	}
	for _, f := range files {
		for _, d := range f.Decls {
			fd, ok := d.(*ast.FuncDecl)
			if !ok || fd.Body == nil {
				continue
			}
			var mark token.Pos
			plain := false
			ast.Inspect(fd.Body, func(n ast.Node) bool {
				if call, ok := n.(*ast.CallExpr); ok && calleeQualified(call) == "contexts.AsClose" && mark == token.NoPos {
					mark = call.End()
				}
				return true
			})
			if mark == token.NoPos {
				continue
			}
			for _, st := range fd.Body.List {
				if as, ok := st.(*ast.AssignStmt); ok && len(as.Rhs) == 1 && as.Tok == token.ASSIGN {
					if call, ok := as.Rhs[0].(*ast.CallExpr); ok && calleeQualified(call) == "contexts.AsClose" && identLit(as.Lhs[0]) == "ctx" {
						plain = true
					}
				}
			}
			file, _ := c.pos(fd.Pos())
			e := fn{file: file, name: fd.Name.Name}
			if !plain {
				e.steps = append(e.steps, "unknown: context marked outside a top-level `ctx = contexts.AsClose(ctx)`")
			}
			ast.Inspect(fd.Body, func(n ast.Node) bool {
				switch x := n.(type) {
				case *ast.CallExpr:
					if x.Pos() < mark {
						return true
					}
					q := calleeQualified(x)
					if strings.HasPrefix(q, "profiling.") {
						return true
					}
					if id, ok := x.Fun.(*ast.Ident); ok && local[id.Name] && id.Name != "flush" {
						q = "unknown: session function " + id.Name
					}
					if sel, ok := x.Fun.(*ast.SelectorExpr); ok && identLit(sel.X) == "s" {
						q = "unknown: session method " + sel.Sel.Name
					}
					e.steps = append(e.steps, q)
				case *ast.GoStmt, *ast.DeferStmt, *ast.FuncLit:
					if n.Pos() >= mark {
						e.steps = append(e.steps, fmt.Sprintf("unknown: %T", n))
					}
				}
				return true
			})
			fns = append(fns, e)
		}
	}
	sort.Slice(fns, func(i, j int) bool { return fns[i].name < fns[j].name })
	var b strings.Builder
	b.WriteString("namespace Gluon.Facts\n\n")
	b.WriteString("structure CloseCtxFn where\n  file : String\n  func : String\n  steps : List String\nderiving DecidableEq, Repr\n\n")
	b.WriteString("/-- session handlers that mark their context as CLOSE, with the calls that follow the mark in source order -/\n")
	b.WriteString("def closeCtxFns : List CloseCtxFn := [\n")
	for i, e := range fns {
		sep := ","
		if i == len(fns)-1 {
			sep = ""
		}
		fmt.Fprintf(&b, "  { file := %s, func := %s, steps := %s }%s\n", leanStr(e.file), leanStr(e.name), leanStrList(e.steps), sep)
	}
	b.WriteString("]\n\nend Gluon.Facts\n")
	return writeLean(outdir, "CloseCtx.lean", b.String())
}
