package main

// Oracle `c16wire` (C16): message sets on the IMAP wire.  A whole server (NewSys), one session,
// template mailboxes with 0, 1, 2, 5 and 40 messages (UIDs with gaps), and for every generated
// case one of FETCH, UID FETCH, SEARCH <set>, SEARCH UID <set>, UID SEARCH UID <set>, STORE,
// UID STORE, COPY, UID COPY, MOVE, UID MOVE, UID EXPUNGE with a generated sequence-set text (numbers
// of every magnitude).  Observed: the tagged status and WHICH messages the command worked on
// (FETCH/SEARCH answers, flags set by STORE, [COPYUID] source set of COPY/MOVE, messages removed by
// UID EXPUNGE).  Judged in Lean (dialect judge-c16-wire = the RFC 3501 reference selection of
// Spec/SeqSetSpec.lean evaluated on the view the session had).
//
// Kinds STALEFETCH, STALEUIDFETCH, STALESTORE, STALEUIDSTORE: the session's updates are withheld
// (Server.VerifHold) while a second session expunges some messages of the mailbox, so the
// session's view still holds messages that no longer exist; the set must be read against that
// view ("in the session's current view"), judged by judge-c16-wire-stale.
//
//	vh oracle c16wire -seed S -out result.json -replaydir DIR [-n N]
//	vh oracle c16wire -replay FILE        (lines `case <KIND> <size> <set text>`)

import (
	"encoding/hex"
	"flag"
	"fmt"
	"os"
	"os/exec"
	"path/filepath"
	"regexp"
	"sort"
	"strconv"
	"strings"
)

var (
	c16ReFetch   = regexp.MustCompile(`^\* (\d+) FETCH \((.*)\)$`)
	c16ReUID     = regexp.MustCompile(`UID (\d+)`)
	c16ReFlags   = regexp.MustCompile(`FLAGS \(([^)]*)\)`)
	c16ReCopyUID = regexp.MustCompile(`\[COPYUID \d+ (\S+) (\S+)\]`)
	c16ReSearch  = regexp.MustCompile(`^\* SEARCH(.*)$`)
	c16ReTable   = regexp.MustCompile(`mailbox_message_\d+`)
)

var c16WireKinds = []string{"FETCH", "UIDFETCH", "SEARCH", "SEARCHUID", "UIDSEARCHUID", "STORE", "UIDSTORE", "COPY", "UIDCOPY", "MOVE", "UIDMOVE", "UIDEXPUNGE"}

func c16KindUID(kind string) bool {
	switch kind {
	case "UIDFETCH", "SEARCHUID", "UIDSEARCHUID", "UIDSTORE", "UIDCOPY", "UIDMOVE", "UIDEXPUNGE", "STALEUIDFETCH", "STALEUIDSTORE":
		return true
	}
	return false
}

type c16Msg struct {
	seq   int
	uid   uint32
	flags string
}

type c16Wire struct {
	sys     *Sys
	c       *Client
	stateID int64   // the session state of c (for VerifHold)
	w2      *Client // second session: expunges "elsewhere"
	built   map[int]bool
	dstN    int
}

var c16StaleKinds = []string{"STALEFETCH", "STALEUIDFETCH", "STALESTORE", "STALEUIDSTORE"}

func c16IsStale(kind string) bool { return strings.HasPrefix(kind, "STALE") }

// which sequence numbers the second session expunges in a template of the given size
func c16StaleDrop(size int) []int {
	switch size {
	case 1:
		return []int{1}
	case 2:
		return []int{1}
	case 5:
		return []int{2, 5}
	case 40:
		return []int{2, 20, 40}
	}
	return nil
}

// extra messages appended and expunged again so that the template's UIDs have gaps
func c16TemplatePlan(n int) (total int, drop []int) {
	switch n {
	case 0:
		return 1, []int{1}
	case 1:
		return 2, []int{1}
	case 2:
		return 3, []int{2}
	case 5:
		return 8, []int{1, 4, 6}
	default:
		total = n + n/5
		for i := 1; i <= total && len(drop) < total-n; i += 6 {
			drop = append(drop, i)
		}
		return total, drop
	}
}

func (w *c16Wire) connect() error {
	c, err := w.sys.Dial("w")
	if err != nil {
		return err
	}
	before := map[int64]bool{}
	for _, st := range w.sys.Server.VerifStates(w.sys.UserID) {
		before[int64(st.ID)] = true
	}
	if rep := c.Login("user"); rep.Status != "OK" {
		return fmt.Errorf("login: %v %s", rep.Err, rep.Tagged)
	}
	w.stateID = 0
	for _, st := range w.sys.Server.VerifStates(w.sys.UserID) {
		if !before[int64(st.ID)] {
			w.stateID = int64(st.ID)
		}
	}
	w.c = c
	return nil
}

// expungeElsewhere: a second session removes the given sequence numbers of the mailbox
func (w *c16Wire) expungeElsewhere(name string, seqs []int) error {
	if w.w2 == nil {
		c, err := w.sys.Dial("x")
		if err != nil {
			return err
		}
		if rep := c.Login("user"); rep.Status != "OK" {
			return fmt.Errorf("login (second session): %v %s", rep.Err, rep.Tagged)
		}
		w.w2 = c
	}
	if rep := w.w2.Cmd("SELECT " + name); rep.Status != "OK" {
		return fmt.Errorf("second session select: %s %v", rep.Tagged, rep.Err)
	}
	p := make([]string, len(seqs))
	for i, s := range seqs {
		p[i] = strconv.Itoa(s)
	}
	if rep := w.w2.Cmd("STORE " + strings.Join(p, ",") + " +FLAGS.SILENT (\\Deleted)"); rep.Status != "OK" {
		return fmt.Errorf("second session store: %s %v", rep.Tagged, rep.Err)
	}
	if rep := w.w2.Cmd("EXPUNGE"); rep.Status != "OK" {
		return fmt.Errorf("second session expunge: %s %v", rep.Tagged, rep.Err)
	}
	w.w2.Cmd("UNSELECT")
	return nil
}

func (w *c16Wire) build(n int) error {
	name := fmt.Sprintf("T%d", n)
	w.c.Cmd("DELETE " + name)
	if rep := w.c.Cmd("CREATE " + name); rep.Status != "OK" {
		return fmt.Errorf("create %s: %s", name, rep.Tagged)
	}
	total, drop := c16TemplatePlan(n)
	for i := 1; i <= total; i++ {
		if rep := w.c.Append(name, "", SimpleMessage(fmt.Sprintf("%s-%d", name, i), "x")); rep.Status != "OK" {
			return fmt.Errorf("append %s: %s %v", name, rep.Tagged, rep.Err)
		}
	}
	if rep := w.c.Cmd("SELECT " + name); rep.Status != "OK" {
		return fmt.Errorf("select %s: %s", name, rep.Tagged)
	}
	parts := make([]string, len(drop))
	for i, d := range drop {
		parts[i] = strconv.Itoa(d)
	}
	w.c.Cmd("STORE " + strings.Join(parts, ",") + " +FLAGS.SILENT (\\Deleted)")
	if rep := w.c.Cmd("EXPUNGE"); rep.Status != "OK" {
		return fmt.Errorf("expunge %s: %s", name, rep.Tagged)
	}
	w.c.Cmd("UNSELECT")
	w.built[n] = true
	return nil
}

func (w *c16Wire) readView() ([]c16Msg, error) {
	rep := w.c.Cmd("UID FETCH 1:* (FLAGS)")
	if rep.Err != nil || rep.Status != "OK" {
		return nil, fmt.Errorf("view: %s %v", rep.Tagged, rep.Err)
	}
	var out []c16Msg
	for _, u := range rep.Untagged {
		if m := c16ReFetch.FindStringSubmatch(u); m != nil {
			x := c16Msg{}
			x.seq, _ = strconv.Atoi(m[1])
			if y := c16ReUID.FindStringSubmatch(m[2]); y != nil {
				v, _ := strconv.ParseUint(y[1], 10, 32)
				x.uid = uint32(v)
			}
			if y := c16ReFlags.FindStringSubmatch(m[2]); y != nil {
				x.flags = strings.ToLower(y[1])
			}
			out = append(out, x)
		}
	}
	sort.Slice(out, func(i, j int) bool { return out[i].seq < out[j].seq })
	for i, m := range out {
		if m.seq != i+1 {
			return nil, fmt.Errorf("view: sequence numbers not 1..n: %v", out)
		}
	}
	return out, nil
}

func c16ParseUIDSet(s string) []uint32 {
	var out []uint32
	for _, it := range strings.Split(s, ",") {
		p := strings.Split(it, ":")
		lo, err1 := strconv.ParseUint(p[0], 10, 32)
		hi := lo
		var err2 error
		if len(p) == 2 {
			hi, err2 = strconv.ParseUint(p[1], 10, 32)
		}
		if err1 != nil || err2 != nil {
			continue
		}
		if lo > hi {
			lo, hi = hi, lo
		}
		for u := lo; u <= hi && u-lo < 100000; u++ {
			out = append(out, uint32(u))
		}
	}
	return out
}

type c16WireObs struct {
	uids   []uint32 // the view the command ran against
	status string   // OK NO BAD LOST PANIC
	seqs   []int    // sequence numbers (in that view) of the messages the command worked on
	gone   []int    // stale kinds: sequence numbers (in that view) expunged by the other session
	note   string
}

// run one case; the returned error is a harness problem, not a verdict
func (w *c16Wire) run(kind string, size int, text string) (obs c16WireObs, err error) {
	if w.c == nil {
		if err = w.connect(); err != nil {
			return
		}
	}
	if !w.built[size] {
		if err = w.build(size); err != nil {
			return
		}
	}
	name := fmt.Sprintf("T%d", size)
	if rep := w.c.Cmd("SELECT " + name); rep.Status != "OK" {
		return obs, fmt.Errorf("select %s: %s %v", name, rep.Tagged, rep.Err)
	}
	view, err := w.readView()
	if err != nil {
		return
	}
	for _, m := range view {
		obs.uids = append(obs.uids, m.uid)
	}
	seqOfUID := map[uint32]int{}
	for _, m := range view {
		seqOfUID[m.uid] = m.seq
	}
	fromUIDs := func(us []uint32) {
		for _, u := range us {
			if s, ok := seqOfUID[u]; ok {
				obs.seqs = append(obs.seqs, s)
			} else {
				obs.seqs = append(obs.seqs, 0) // a UID the view does not have: the judge flags it
			}
		}
	}
	var rep Reply
	if c16IsStale(kind) {
		if w.stateID == 0 {
			return obs, fmt.Errorf("no state id for the session (VerifStates)")
		}
		obs.gone = c16StaleDrop(size)
		w.sys.Server.VerifHold(w.stateID)
		defer func() {
			w.sys.Server.VerifRelease(w.stateID, -1, true)
			w.built[size] = false
			if w.c != nil {
				w.c.Cmd("NOOP")
				w.c.Cmd("UNSELECT")
			}
		}()
		if err = w.expungeElsewhere(name, obs.gone); err != nil {
			return obs, err
		}
	}
	switch kind {
	case "STALEFETCH", "STALEUIDFETCH":
		cmd := "FETCH " + text + " (UID)"
		if kind == "STALEUIDFETCH" {
			cmd = "UID FETCH " + text + " (FLAGS)"
		}
		rep = w.c.Cmd(cmd)
		for _, u := range rep.Untagged {
			if m := c16ReFetch.FindStringSubmatch(u); m != nil {
				s, _ := strconv.Atoi(m[1])
				uid := uint32(0)
				if y := c16ReUID.FindStringSubmatch(m[2]); y != nil {
					v, _ := strconv.ParseUint(y[1], 10, 32)
					uid = uint32(v)
				}
				if s < 1 || s > len(view) || view[s-1].uid != uid {
					s = 0
				}
				obs.seqs = append(obs.seqs, s)
			}
		}
	case "STALESTORE", "STALEUIDSTORE":
		// not silent: the untagged FETCH responses tell which messages the STORE worked on
		cmd := "STORE " + text + " +FLAGS (\\Flagged)"
		if kind == "STALEUIDSTORE" {
			cmd = "UID " + cmd
		}
		rep = w.c.Cmd(cmd)
		for _, u := range rep.Untagged {
			if m := c16ReFetch.FindStringSubmatch(u); m != nil {
				s, _ := strconv.Atoi(m[1])
				if s < 1 || s > len(view) {
					s = 0
				} else if y := c16ReUID.FindStringSubmatch(m[2]); y != nil {
					if v, _ := strconv.ParseUint(y[1], 10, 32); view[s-1].uid != uint32(v) {
						s = 0
					}
				}
				obs.seqs = append(obs.seqs, s)
			}
		}
	case "FETCH", "UIDFETCH":
		cmd := "FETCH " + text + " (UID)"
		if kind == "UIDFETCH" {
			cmd = "UID FETCH " + text + " (FLAGS)"
		}
		rep = w.c.Cmd(cmd)
		for _, u := range rep.Untagged {
			if m := c16ReFetch.FindStringSubmatch(u); m != nil {
				s, _ := strconv.Atoi(m[1])
				uid := uint32(0)
				if y := c16ReUID.FindStringSubmatch(m[2]); y != nil {
					v, _ := strconv.ParseUint(y[1], 10, 32)
					uid = uint32(v)
				}
				if s < 1 || s > len(view) || view[s-1].uid != uid {
					s = 0
				}
				obs.seqs = append(obs.seqs, s)
			}
		}
	case "SEARCH", "SEARCHUID", "UIDSEARCHUID":
		cmd := map[string]string{"SEARCH": "SEARCH ", "SEARCHUID": "SEARCH UID ", "UIDSEARCHUID": "UID SEARCH UID "}[kind] + text
		rep = w.c.Cmd(cmd)
		for _, u := range rep.Untagged {
			if m := c16ReSearch.FindStringSubmatch(u); m != nil {
				for _, f := range strings.Fields(m[1]) {
					v, _ := strconv.ParseUint(f, 10, 32)
					if kind == "UIDSEARCHUID" {
						fromUIDs([]uint32{uint32(v)})
					} else if int(v) >= 1 && int(v) <= len(view) {
						obs.seqs = append(obs.seqs, int(v))
					} else {
						obs.seqs = append(obs.seqs, 0)
					}
				}
			}
		}
	case "STORE", "UIDSTORE":
		cmd := "STORE " + text + " +FLAGS.SILENT (\\Flagged)"
		if kind == "UIDSTORE" {
			cmd = "UID " + cmd
		}
		rep = w.c.Cmd(cmd)
		if rep.Err == nil {
			after, verr := w.readView()
			if verr != nil {
				return obs, verr
			}
			for _, m := range after {
				if strings.Contains(m.flags, "\\flagged") {
					obs.seqs = append(obs.seqs, m.seq)
				}
			}
			w.c.Cmd("UID STORE 1:* -FLAGS.SILENT (\\Flagged)")
		}
	case "COPY", "UIDCOPY", "MOVE", "UIDMOVE":
		if w.dstN%40 == 0 {
			w.c.Cmd("DELETE DST")
			w.c.Cmd("CREATE DST")
		}
		w.dstN++
		verb := strings.TrimPrefix(kind, "UID")
		cmd := verb + " " + text + " DST"
		if strings.HasPrefix(kind, "UID") {
			cmd = "UID " + cmd
		}
		rep = w.c.Cmd(cmd)
		for _, l := range append(append([]string{}, rep.Untagged...), rep.Tagged) {
			if m := c16ReCopyUID.FindStringSubmatch(l); m != nil {
				fromUIDs(c16ParseUIDSet(m[1]))
			}
		}
		if verb == "MOVE" && rep.Status == "OK" && len(obs.seqs) > 0 {
			w.built[size] = false
		}
	case "UIDEXPUNGE":
		w.c.Cmd("UID STORE 1:* +FLAGS.SILENT (\\Deleted)")
		rep = w.c.Cmd("UID EXPUNGE " + text)
		if rep.Err == nil {
			after, verr := w.readView()
			if verr != nil {
				return obs, verr
			}
			left := map[uint32]bool{}
			for _, m := range after {
				left[m.uid] = true
			}
			for _, m := range view {
				if !left[m.uid] {
					obs.seqs = append(obs.seqs, m.seq)
				}
			}
			w.c.Cmd("UID STORE 1:* -FLAGS.SILENT (\\Deleted)")
			if len(obs.seqs) > 0 {
				w.built[size] = false
			}
		}
	default:
		return obs, fmt.Errorf("unknown kind %s", kind)
	}
	obs.status = rep.Status
	if rep.Status != "OK" {
		// the tagged line without its tag, internal table numbers masked (replays must be stable)
		t := rep.Tagged
		if i := strings.Index(t, " "); i >= 0 {
			t = t[i+1:]
		}
		obs.note = "tagged: " + c16ReTable.ReplaceAllString(t, "mailbox_message_N")
	}
	if panics := w.sys.Panics.Take(); len(panics) > 0 {
		obs.status = "PANIC"
		obs.note = panics[0]
	}
	if rep.Err != nil {
		if obs.status != "PANIC" {
			obs.status = "LOST"
		}
		w.c.Close()
		w.c = nil
		w.built[size] = false
		return obs, nil
	}
	if !c16IsStale(kind) {
		w.c.Cmd("UNSELECT")
	}
	return obs, nil
}

// canonical form of the observed sequence numbers: ascending; FETCH answers once per selected
// item (duplicates kept), everything else acts on a set
func c16CanonSeqs(kind string, in []int) string {
	seqs := append([]int{}, in...)
	sort.Ints(seqs)
	var p []string
	for i, s := range seqs {
		if i > 0 && seqs[i-1] == s && kind != "FETCH" && kind != "UIDFETCH" {
			continue
		}
		p = append(p, strconv.Itoa(s))
	}
	if len(p) == 0 {
		return "-"
	}
	return strings.Join(p, ",")
}

func c16HexText(text string) string {
	h := hex.EncodeToString([]byte(text))
	if h == "" {
		h = "-"
	}
	return h
}

func c16JudgeLine(kind string, obs c16WireObs, text string) string {
	if c16IsStale(kind) {
		g := make([]string, len(obs.gone))
		for i, x := range obs.gone {
			g[i] = strconv.Itoa(x)
		}
		return fmt.Sprintf("judge-c16-wire-stale %s %s %s %s => %s %s", kind, c16ShowUids(obs.uids), strings.Join(g, ","), c16HexText(text), obs.status, c16CanonSeqs(kind, obs.seqs))
	}
	return fmt.Sprintf("judge-c16-wire %s %s %s => %s %s", kind, c16ShowUids(obs.uids), c16HexText(text), obs.status, c16CanonSeqs(kind, obs.seqs))
}

func c16ModelLine(kind string, obs c16WireObs, text string) string {
	// the snapshot of a held session is the view it had: the model resolves against that view
	kind = strings.TrimPrefix(kind, "STALE")
	return fmt.Sprintf("c16-wire-model %s %s %s", kind, c16ShowUids(obs.uids), c16HexText(text))
}

func c16LeanJudge(driver string, lines []string) ([]string, error) {
	if driver == "" {
		return nil, fmt.Errorf("no model driver (VERIF_DRIVER)")
	}
	cmd := exec.Command(driver)
	cmd.Stdin = strings.NewReader(strings.Join(lines, "\n") + "\n")
	out, err := cmd.Output()
	if err != nil {
		return nil, err
	}
	ans := strings.Split(strings.TrimRight(string(out), "\n"), "\n")
	if len(ans) != len(lines) {
		return nil, fmt.Errorf("driver answered %d lines for %d", len(ans), len(lines))
	}
	return ans, nil
}

type c16WireCase struct {
	kind string
	size int
	text string
}

func runC16WireOracle(args []string) int {
	fs := flag.NewFlagSet("c16wire", flag.ExitOnError)
	seed := fs.Uint64("seed", 1, "")
	out := fs.String("out", "", "")
	replayDir := fs.String("replaydir", ".", "")
	replay := fs.String("replay", "", "")
	n := fs.Int("n", 300, "cases")
	driver := fs.String("driver", os.Getenv("VERIF_DRIVER"), "model driver")
	_ = fs.Parse(args)
	if *driver == "" {
		if exe, err := os.Executable(); err == nil {
			p := filepath.Join(filepath.Dir(filepath.Dir(exe)), "lean", ".lake", "build", "bin", "gluon_model_driver")
			if _, err := os.Stat(p); err == nil {
				*driver = p
			}
		}
	}
	res := &OracleResult{Stats: map[string]int{}}
	fail := func(msg string) int {
		fmt.Fprintln(os.Stderr, "c16wire:", msg)
		if *out != "" {
			name := filepath.Join(*replayDir, fmt.Sprintf("C16-wire-harness-%d.txt", *seed))
			_ = os.MkdirAll(*replayDir, 0o755)
			_ = os.WriteFile(name, []byte("oracle c16wire\n# harness problem, no verdict: "+msg+"\n"), 0o644)
			res.Violations = append(res.Violations, OracleViol{Desc: "C16 wire oracle could not run: " + msg, Replay: name})
			writeResult(*out, res)
		}
		return 0
	}

	var cases []c16WireCase
	if *replay != "" {
		b, err := os.ReadFile(*replay)
		if err != nil {
			fmt.Fprintln(os.Stderr, err)
			return 2
		}
		for _, l := range strings.Split(string(b), "\n") {
			f := strings.Split(l, " ")
			if len(f) >= 3 && f[0] == "case" {
				sz, _ := strconv.Atoi(f[2])
				text := ""
				if len(f) > 3 {
					text = f[3]
				}
				cases = append(cases, c16WireCase{f[1], sz, text})
			}
		}
	} else {
		r := NewRng(*seed).Fork()
		st := &Stats{Counts: map[string]int{}}
		// fixed cases first: the former reproducers of defect #1 and one per command kind
		for _, k := range c16WireKinds {
			cases = append(cases, c16WireCase{k, 5, "2:4"}, c16WireCase{k, 1, "4294967297"}, c16WireCase{k, 1, "18446744073709551617"},
				c16WireCase{k, 1, "4294967296"}, c16WireCase{k, 2, "3"}, c16WireCase{k, 0, "*"}, c16WireCase{k, 0, "1"}, c16WireCase{k, 0, "1:*"},
				c16WireCase{k, 2, "1,1"}, c16WireCase{k, 5, "1:3,2"})
		}
		for _, k := range c16StaleKinds {
			cases = append(cases, c16WireCase{k, 5, "1:5"}, c16WireCase{k, 5, "5"}, c16WireCase{k, 5, "3,6"}, c16WireCase{k, 5, "4:*"},
				c16WireCase{k, 2, "2"}, c16WireCase{k, 1, "1"}, c16WireCase{k, 40, "39:*"})
		}
		for len(cases) < *n {
			size := Pick(r, c16ResolveSizes)
			kind := Pick(r, c16WireKinds)
			if r.Chance(1, 6) { // a view that still holds messages expunged elsewhere
				kind = Pick(r, c16StaleKinds)
				if size == 0 {
					size = 5
				}
			}
			// the UIDs a freshly built template has
			total, drop := c16TemplatePlan(size)
			dropped := map[int]bool{}
			for _, d := range drop {
				dropped[d] = true
			}
			var uids []uint32
			for i := 1; i <= total; i++ {
				if !dropped[i] {
					uids = append(uids, uint32(i))
				}
			}
			items := c16GenSet(r, uids, c16KindUID(kind), 2, st)
			parts := make([]string, 0, len(items))
			for _, it := range items {
				s := c16NumText(it.a)
				if it.isRange {
					s += ":" + c16NumText(it.b)
				}
				parts = append(parts, s)
			}
			cases = append(cases, c16WireCase{kind, size, strings.Join(parts, ",")})
		}
	}

	sys, err := NewSys(SysOpts{})
	if err != nil {
		return fail("NewSys: " + err.Error())
	}
	defer sys.Close(true)
	w := &c16Wire{sys: sys, built: map[int]bool{}}
	var lines, mlines []string
	var kept []c16WireCase
	var obsAll []c16WireObs
	for _, cs := range cases {
		obs, err := w.run(cs.kind, cs.size, cs.text)
		if err != nil {
			return fail(fmt.Sprintf("case %s %d %s: %v", cs.kind, cs.size, cs.text, err))
		}
		res.Stats["kind."+cs.kind]++
		res.Stats["status."+obs.status]++
		lines = append(lines, c16JudgeLine(cs.kind, obs, cs.text))
		mlines = append(mlines, c16ModelLine(cs.kind, obs, cs.text))
		kept = append(kept, cs)
		obsAll = append(obsAll, obs)
	}
	ans, err := c16LeanJudge(*driver, lines)
	if err != nil {
		return fail("lean judge: " + err.Error())
	}
	mans, err := c16LeanJudge(*driver, mlines)
	if err != nil {
		return fail("lean wire model: " + err.Error())
	}
	seenClass := map[string]bool{}
	distinct := map[string]bool{}
	// (1) the wire against the Lean model (agreement; the model reproduces the shipped behaviour)
	for i, want := range mans {
		got := obsAll[i].status + " " + c16CanonSeqs(kept[i].kind, obsAll[i].seqs)
		if got == want {
			res.Stats["model.agree"]++
			continue
		}
		res.Stats["model.disagree"]++
		class := kept[i].kind + " model"
		if seenClass[class] {
			continue
		}
		seenClass[class] = true
		cs := kept[i]
		text := "oracle c16wire\n" + fmt.Sprintf("case %s %d %s\n", cs.kind, cs.size, cs.text)
		text += fmt.Sprintf("# view (UIDs by sequence number): %s\n# wire and Lean model (dialect c16-wire-model) disagree\n# wire:  %s %s\n# model: %s\n# replay: ./check C16 --replay <this file>\n", c16ShowUids(obsAll[i].uids), got, obsAll[i].note, want)
		name := filepath.Join(*replayDir, fmt.Sprintf("C16-wiremodel-%d-%d.txt", *seed, len(res.Violations)))
		_ = os.MkdirAll(*replayDir, 0o755)
		_ = os.WriteFile(name, []byte(text), 0o644)
		res.Violations = append(res.Violations, OracleViol{Desc: fmt.Sprintf("C16 wire-model disagreement: %s %s on a %d-message mailbox: wire %s, model %s", cs.kind, cs.text, cs.size, got, want), Replay: name})
	}
	// (2) the wire against the RFC reference selection (the property)
	for i, a := range ans {
		res.Evaluations++
		w := strings.Split(a, " ")
		key := w[0]
		if len(w) > 1 {
			key += ":" + w[1]
		}
		res.Stats["judge."+key]++
		if strings.HasPrefix(a, "ok nontrivial") {
			distinct[lines[i]] = true
		}
		if len(res.Samples) < 3 {
			res.Samples = append(res.Samples, map[string]string{"oracle": "c16wire", "case": fmt.Sprintf("%s %d %s", kept[i].kind, kept[i].size, kept[i].text), "observed": obsAll[i].status, "judge": a})
		}
		if strings.HasPrefix(a, "ok") {
			continue
		}
		class := kept[i].kind + " " + key
		if seenClass[class] {
			res.Stats["violations-not-reported-same-class"]++
			continue
		}
		seenClass[class] = true
		cs := kept[i]
		text := "oracle c16wire\n"
		text += fmt.Sprintf("case %s %d %s\n", cs.kind, cs.size, cs.text)
		text += fmt.Sprintf("# view (UIDs by sequence number): %s\n# command kind %s with message set %s answered %s, worked on sequence numbers %v %s\n", c16ShowUids(obsAll[i].uids), cs.kind, cs.text, obsAll[i].status, obsAll[i].seqs, obsAll[i].note)
		text += fmt.Sprintf("# property judge (judge-c16-wire): %s\n# replay: ./check C16 --replay <this file>\n", a)
		name := filepath.Join(*replayDir, fmt.Sprintf("C16-wire-%d-%d.txt", *seed, len(res.Violations)))
		_ = os.MkdirAll(*replayDir, 0o755)
		_ = os.WriteFile(name, []byte(text), 0o644)
		res.Violations = append(res.Violations, OracleViol{Desc: fmt.Sprintf("C16 wire: %s %s on a %d-message mailbox: %s", cs.kind, cs.text, cs.size, a), Replay: name})
	}
	res.DistinctNontrivial = len(distinct)
	if *out != "" {
		writeResult(*out, res)
	} else {
		for i, a := range ans {
			fmt.Println(lines[i], "->", a, "| model:", mans[i], obsAll[i].note)
		}
	}
	return 0
}

func init() {
	RegisterOracle(&Oracle{Name: "c16wire", Run: runC16WireOracle})
}
