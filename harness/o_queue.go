package main

// Oracle `c19queue` (C19): recorded histories of the real async.QueuedChannel, judged in Lean
// (dialect judge-c19-queue: "is this history a run of the transition system Conc.QState?"),
// plus the goroutine-leak probes.
//
//	vh oracle c19queue -seed S -out result.json -replaydir DIR [-n N] [-driver path]
//	vh oracle c19queue -replay FILE
//
// Scenario `hist`: 1..4 producers enqueue batches (ids p*10^6 + j*10^3 + k) with random pauses, one
// reader receives with random pauses until the channel is closed, a closer calls Close or
// CloseAndDiscardQueued after a random number of Enqueue calls. Recorded: per Enqueue call its
// return value and whether it had returned before the close call began; the receive order. After
// the run the consumer goroutine must be gone (Wait returns, runtime.NumGoroutine back to baseline).
// Scenario `probe`: no reader, k items pending, then Close / CloseAndDiscardQueued; the model says
// the consumer exits iff (discard or k <= buffer); the implementation must agree.
// Scenario `stateclose`: the real state.NewState + k unread updates + the real State.Close (hook
// verifhooks.StateCloseProbe): the consumer goroutine of the update queue must exit (theorem
// state_close_consumer_exits). Regression for finding #13a (repaired by 7b5e762: closeUpdateQueue
// uses CloseAndDiscardQueued; with plain Close it did not exit for k > 32).

import (
	"bufio"
	"bytes"
	"encoding/json"
	"flag"
	"fmt"
	"os"
	"os/exec"
	"path/filepath"
	"runtime"
	"sort"
	"strconv"
	"strings"
	"sync"
	"sync/atomic"
	"time"

	"github.com/ProtonMail/gluon/async"
	"github.com/ProtonMail/gluon/verifhooks"
)

type qBatch struct {
	p, j, n  int
	ret, pre bool
}

type qHistory struct {
	cap        int
	discard    bool
	closedSeen bool
	batches    []qBatch
	received   []int
	leak       string // "" or why the consumer goroutine was still there
	desc       string
}

func (h *qHistory) judgeLine() string {
	mode := "P"
	if h.discard {
		mode = "D"
	}
	var bs []string
	for _, b := range h.batches {
		bs = append(bs, fmt.Sprintf("%d:%d:%s:%s:%d", b.p, b.j, b01(b.ret), b01(b.pre), b.n))
	}
	var rs []string
	for _, r := range h.received {
		rs = append(rs, strconv.Itoa(r))
	}
	return fmt.Sprintf("judge-c19-queue %d %s %s %s %s", h.cap, mode, b01(h.closedSeen), dashJoin(bs, ";"), dashJoin(rs, ","))
}

func b01(b bool) string {
	if b {
		return "1"
	}
	return "0"
}

func dashJoin(xs []string, sep string) string {
	if len(xs) == 0 {
		return "-"
	}
	return strings.Join(xs, sep)
}

func qPause(r *Rng) {
	switch r.Intn(6) {
	case 0:
		runtime.Gosched()
	case 1:
		time.Sleep(time.Duration(r.Intn(200)) * time.Microsecond)
	}
}

// waitGoroutines waits until runtime.NumGoroutine() <= base (retries up to d).
func waitGoroutines(base int, d time.Duration) bool {
	deadline := time.Now().Add(d)
	for {
		if runtime.NumGoroutine() <= base {
			return true
		}
		if time.Now().After(deadline) {
			return false
		}
		time.Sleep(2 * time.Millisecond)
	}
}

func waitQueue(q *async.QueuedChannel[int], d time.Duration) bool {
	done := make(chan struct{})
	go func() { q.Wait(); close(done) }()
	select {
	case <-done:
		return true
	case <-time.After(d):
		return false
	}
}

type qScenario struct {
	cap       int
	discard   bool
	producers [][]int // batch sizes per producer
	closeAt   int     // close after this many Enqueue calls have returned (>= total: after all)
	seed      uint64
}

func (sc *qScenario) String() string {
	var ps []string
	for _, p := range sc.producers {
		var xs []string
		for _, n := range p {
			xs = append(xs, strconv.Itoa(n))
		}
		ps = append(ps, strings.Join(xs, ","))
	}
	return fmt.Sprintf("hist cap=%d discard=%v closeAt=%d pauses=%d producers=%s", sc.cap, sc.discard, sc.closeAt, sc.seed, strings.Join(ps, "/"))
}

func genQScenario(r *Rng) *qScenario {
	sc := &qScenario{cap: Pick(r, []int{0, 1, 1, 2, 4, 32}), discard: r.Chance(1, 3), seed: r.U64()}
	total := 0
	for p := r.Range(1, 4); p > 0; p-- {
		var bs []int
		for b := r.Range(1, 8); b > 0; b-- {
			bs = append(bs, r.Intn(5))
		}
		total += len(bs)
		sc.producers = append(sc.producers, bs)
	}
	sc.closeAt = r.Intn(total + 3)
	return sc
}

func runQScenario(sc *qScenario) *qHistory {
	base := runtime.NumGoroutine()
	q := async.NewQueuedChannel[int](sc.cap, 8, nil, "c19queue")
	h := &qHistory{cap: sc.cap, discard: sc.discard, desc: sc.String()}
	var mu sync.Mutex
	var closeStarted atomic.Bool
	var returned atomic.Int64
	closeNow := make(chan struct{})
	var closeOnce sync.Once
	var wg sync.WaitGroup
	for p, sizes := range sc.producers {
		wg.Add(1)
		go func(p int, sizes []int, r *Rng) {
			defer wg.Done()
			for j, n := range sizes {
				qPause(r)
				items := make([]int, n)
				for k := range items {
					items[k] = p*1000000 + j*1000 + k
				}
				ret := q.Enqueue(items...)
				pre := !closeStarted.Load()
				mu.Lock()
				h.batches = append(h.batches, qBatch{p: p, j: j, n: n, ret: ret, pre: pre})
				mu.Unlock()
				if int(returned.Add(1)) >= sc.closeAt {
					closeOnce.Do(func() { close(closeNow) })
				}
			}
		}(p, sizes, NewRng(sc.seed+uint64(p)+1))
	}
	// closer
	closerDone := make(chan struct{})
	go func() {
		defer close(closerDone)
		if sc.closeAt > 0 {
			allDone := make(chan struct{})
			go func() { wg.Wait(); close(allDone) }()
			select {
			case <-closeNow:
			case <-allDone:
			}
		}
		closeStarted.Store(true)
		if sc.discard {
			q.CloseAndDiscardQueued()
		} else {
			q.Close()
		}
	}()
	// reader
	readerDone := make(chan struct{})
	go func() {
		defer close(readerDone)
		r := NewRng(sc.seed + 99)
		watchdog := time.After(20 * time.Second)
		for {
			qPause(r)
			select {
			case v, ok := <-q.GetChannel():
				if !ok {
					h.closedSeen = true
					return
				}
				h.received = append(h.received, v)
			case <-watchdog:
				return
			}
		}
	}()
	wg.Wait()
	<-closerDone
	<-readerDone
	sort.Slice(h.batches, func(a, b int) bool {
		if h.batches[a].p != h.batches[b].p {
			return h.batches[a].p < h.batches[b].p
		}
		return h.batches[a].j < h.batches[b].j
	})
	switch {
	case !h.closedSeen:
		h.leak = "reader drained for 20 s after the close call and the channel was never closed (consumer goroutine alive)"
		// let it go: nothing else can be done
	case !waitQueue(q, 5*time.Second):
		h.leak = "channel closed but QueuedChannel.Wait() does not return"
	case !waitGoroutines(base, 5*time.Second):
		h.leak = fmt.Sprintf("goroutine count did not return to baseline %d (now %d)", base, runtime.NumGoroutine())
	}
	return h
}

// Scenario `stall` (directed + random, every seed): the reader does not read while one producer enqueues WAVES of
// growing size (sizes around the channel buffer, the initial queue capacity and the sizes a Go slice grows through);
// between two waves the consumer goroutine has filled the channel buffer and blocks with the rest of what it took
// from the queue, and the reader takes a few items or none. This is a session that is busy inside a command (its
// client does not read a large answer) while other sessions commit bursts of changes: State.updatesQueue is
// NewQueuedChannel(32, 128). Then plain Close and the reader drains: the history must be FIFO and loss-free like any
// other (queue_fifo_lossfree), which it is not when the consumer's batch and the queue share storage.
type qStall struct {
	cap, qcap   int
	waves       [][]int // per wave: the sizes of consecutive Enqueue calls
	readBetween []int   // items the reader takes after wave w (before the next one)
}

func (sc *qStall) String() string {
	var ws []string
	for w, wave := range sc.waves {
		var xs []string
		for _, n := range wave {
			xs = append(xs, strconv.Itoa(n))
		}
		ws = append(ws, strings.Join(xs, ",")+fmt.Sprintf("(read %d)", sc.readBetween[w]))
	}
	return fmt.Sprintf("stall cap=%d queuecap=%d waves=%s then Close, reader drains", sc.cap, sc.qcap, strings.Join(ws, "/"))
}

func genQStalls(r *Rng) []*qStall {
	one := func(k int) []int {
		xs := make([]int, k)
		for i := range xs {
			xs[i] = 1
		}
		return xs
	}
	out := []*qStall{
		{cap: 32, qcap: 128, waves: [][]int{{33}, {34}, {35}}},
		{cap: 32, qcap: 128, waves: [][]int{{34}, {65}, {129}}},
		{cap: 32, qcap: 128, waves: [][]int{{64}, one(40), {70}}},
		{cap: 32, qcap: 128, waves: [][]int{{1, 60}, {1, 70}}},
		{cap: 32, qcap: 128, waves: [][]int{{129}, {130}, {257}}},
		{cap: 32, qcap: 128, waves: [][]int{one(40), {50}, {51}}},
		{cap: 1, qcap: 8, waves: [][]int{{3}, {5}, {9}}},
		{cap: 0, qcap: 8, waves: [][]int{{2}, {3}, {4}}},
		{cap: 2, qcap: 8, waves: [][]int{{9}, {10}, {17}}},
	}
	sizes := []int{1, 2, 3, 7, 8, 9, 31, 32, 33, 34, 35, 48, 63, 64, 65, 66, 100, 127, 128, 129, 130, 200, 255, 256, 257}
	for i := 0; i < 12; i++ {
		sc := &qStall{cap: Pick(r, []int{0, 1, 2, 4, 32, 32, 32}), qcap: Pick(r, []int{8, 128, 128})}
		lo := 0
		for w := r.Range(2, 4); w > 0; w-- {
			var cand []int
			for _, x := range sizes {
				if x > lo {
					cand = append(cand, x)
				}
			}
			if len(cand) == 0 {
				break
			}
			k := cand[r.Intn(min(len(cand), 8))]
			lo = k
			switch r.Intn(4) {
			case 0:
				sc.waves = append(sc.waves, one(k))
			case 1:
				a := r.Range(1, k)
				sc.waves = append(sc.waves, []int{a, k - a})
			default:
				sc.waves = append(sc.waves, []int{k})
			}
		}
		out = append(out, sc)
	}
	for _, sc := range out {
		for range sc.waves {
			sc.readBetween = append(sc.readBetween, Pick(r, []int{0, 0, 0, 1, 2, 5}))
		}
	}
	return out
}

func runQStall(sc *qStall) *qHistory {
	base := runtime.NumGoroutine()
	q := async.NewQueuedChannel[int](sc.cap, sc.qcap, nil, "c19stall")
	h := &qHistory{cap: sc.cap, desc: sc.String()}
	pending, j := 0, 0
	for w, wave := range sc.waves {
		for _, n := range wave {
			items := make([]int, n)
			for k := range items {
				items[k] = j*1000 + k
			}
			ret := q.Enqueue(items...)
			h.batches = append(h.batches, qBatch{p: 0, j: j, n: n, ret: ret, pre: true})
			pending += n
			j++
		}
		// the consumer fills the channel buffer and blocks holding the next item
		for k := 0; k < 200 && len(q.GetChannel()) < min(sc.cap, pending); k++ {
			time.Sleep(250 * time.Microsecond)
		}
		time.Sleep(time.Millisecond)
		for k := 0; k < sc.readBetween[w] && pending > 0; k++ {
			select {
			case v := <-q.GetChannel():
				h.received = append(h.received, v)
				pending--
			case <-time.After(2 * time.Second):
			}
		}
		time.Sleep(time.Millisecond)
	}
	q.Close()
	watchdog := time.After(20 * time.Second)
drain:
	for {
		select {
		case v, ok := <-q.GetChannel():
			if !ok {
				h.closedSeen = true
				break drain
			}
			h.received = append(h.received, v)
		case <-watchdog:
			break drain
		}
	}
	switch {
	case !h.closedSeen:
		h.leak = "reader drained for 20 s after the close call and the channel was never closed (consumer goroutine alive)"
	case !waitQueue(q, 5*time.Second):
		h.leak = "channel closed but QueuedChannel.Wait() does not return"
	case !waitGoroutines(base, 5*time.Second):
		h.leak = fmt.Sprintf("goroutine count did not return to baseline %d (now %d)", base, runtime.NumGoroutine())
	}
	return h
}

// probe: k items pending, no reader, then close. Returns whether the consumer goroutine exited.
func runQProbe(cap, k int, discard bool) (exited bool, detail string) {
	base := runtime.NumGoroutine()
	q := async.NewQueuedChannel[int](cap, 8, nil, "c19probe")
	items := make([]int, k)
	for i := range items {
		items[i] = i
	}
	q.Enqueue(items...)
	// let the consumer fill the channel buffer
	time.Sleep(5 * time.Millisecond)
	if discard {
		q.CloseAndDiscardQueued()
	} else {
		q.Close()
	}
	exited = waitQueue(q, 400*time.Millisecond) && waitGoroutines(base, 400*time.Millisecond)
	detail = fmt.Sprintf("goroutines: baseline %d, %d after close", base, runtime.NumGoroutine())
	if !exited {
		// clean up so that later scenarios start from the baseline: drain as a reader would
		for range q.GetChannel() {
		}
		waitQueue(q, 5*time.Second)
		waitGoroutines(base, 5*time.Second)
	}
	return exited, detail
}

func qDriverPath(flagVal string) string {
	if flagVal != "" {
		return flagVal
	}
	exe, err := os.Executable()
	if err != nil {
		return ""
	}
	return filepath.Join(filepath.Dir(filepath.Dir(exe)), "lean", ".lake", "build", "bin", "gluon_model_driver")
}

func qJudge(driver string, lines []string) ([]string, error) {
	cmd := exec.Command(driver)
	cmd.Stdin = strings.NewReader(strings.Join(lines, "\n") + "\n")
	var out bytes.Buffer
	cmd.Stdout = &out
	if err := cmd.Run(); err != nil {
		return nil, fmt.Errorf("model driver %s: %w", driver, err)
	}
	var res []string
	sc := bufio.NewScanner(&out)
	sc.Buffer(make([]byte, 1<<20), 1<<26)
	for sc.Scan() {
		res = append(res, sc.Text())
	}
	if len(res) != len(lines) {
		return nil, fmt.Errorf("model driver answered %d lines for %d histories", len(res), len(lines))
	}
	return res, nil
}

type oracleViolation struct {
	Desc   string `json:"desc"`
	Replay string `json:"replay"`
}

type oracleResult struct {
	Evaluations        int               `json:"evaluations"`
	DistinctNontrivial int               `json:"distinct_nontrivial"`
	Stats              map[string]int    `json:"stats"`
	Samples            []map[string]any  `json:"samples"`
	Violations         []oracleViolation `json:"violations"`
}

func writeReplay(dir, name, text string) string {
	_ = os.MkdirAll(dir, 0o755)
	path := filepath.Join(dir, name)
	_ = os.WriteFile(path, []byte(text), 0o644)
	return path
}

func runOracleQueue(args []string) int {
	fs := flag.NewFlagSet("c19queue", flag.ExitOnError)
	seed := fs.Uint64("seed", 1, "seed")
	out := fs.String("out", "", "result json")
	replayDir := fs.String("replaydir", "replay", "where replay files go")
	replay := fs.String("replay", "", "replay file")
	n := fs.Int("n", 300, "number of histories")
	driver := fs.String("driver", "", "path of gluon_model_driver")
	_ = fs.Parse(args)
	drv := qDriverPath(*driver)
	res := &oracleResult{Stats: map[string]int{}, Samples: []map[string]any{}, Violations: []oracleViolation{}}
	addViolation := func(desc, name, text string) {
		for _, v := range res.Violations {
			if v.Desc == desc {
				return
			}
		}
		res.Violations = append(res.Violations, oracleViolation{Desc: desc, Replay: writeReplay(*replayDir, name, text)})
	}
	type probe struct {
		cap, k  int
		discard bool
	}
	var probes []probe
	var scenarios []*qScenario
	var stalls []*qStall
	var recorded []string // histories to re-judge only (replay)
	var statePending []int
	if *replay != "" {
		data, err := os.ReadFile(*replay)
		if err != nil {
			fmt.Fprintln(os.Stderr, err)
			return 2
		}
		for _, line := range strings.Split(string(data), "\n") {
			w := strings.Fields(line)
			if len(w) == 0 {
				continue
			}
			switch w[0] {
			case "probe":
				var p probe
				for _, kv := range w[1:] {
					k, v, _ := strings.Cut(kv, "=")
					switch k {
					case "cap":
						p.cap, _ = strconv.Atoi(v)
					case "items":
						p.k, _ = strconv.Atoi(v)
					case "close":
						p.discard = v == "CloseAndDiscardQueued"
					}
				}
				probes = append(probes, p)
			case "stateclose":
				for _, kv := range w[1:] {
					if k, v, _ := strings.Cut(kv, "="); k == "pending" {
						x, _ := strconv.Atoi(v)
						statePending = append(statePending, x)
					}
				}
			case "judge-c19-queue":
				recorded = append(recorded, line)
			}
		}
	} else {
		r := NewRng(*seed)
		for i := 0; i < *n; i++ {
			scenarios = append(scenarios, genQScenario(r))
		}
		stalls = genQStalls(r.Fork())
		for _, c := range []int{1, 2, 32} {
			probes = append(probes,
				probe{c, c, false}, probe{c, c - 1, false}, // boundary: fits into the buffer -> exits
				probe{c, c + 1 + r.Intn(40), true},                          // discard -> exits
				probe{c, c + 1, false}, probe{c, c + 2 + r.Intn(40), false}) // pinned (queue_close_blocks_without_reader)
		}
		statePending = []int{0, 1 + r.Intn(31), 32, 33, 34 + r.Intn(200)}
	}
	// histories
	var lines []string
	var hists []*qHistory
	for _, sc := range scenarios {
		h := runQScenario(sc)
		hists = append(hists, h)
		lines = append(lines, h.judgeLine())
		rej, race := false, false
		for _, b := range h.batches {
			rej = rej || !b.ret
			race = race || (b.ret && !b.pre)
		}
		if rej {
			res.Stats["hist.with-rejected-enqueue"]++
		}
		if race {
			res.Stats["hist.with-enqueue-racing-close"]++
		}
		if h.discard {
			res.Stats["hist.CloseAndDiscardQueued"]++
		} else {
			res.Stats["hist.Close"]++
		}
		if h.leak != "" {
			addViolation("c19queue: consumer goroutine left behind although the reader drained: "+h.leak, fmt.Sprintf("C19-c19queue-leak-%d.txt", *seed),
				fmt.Sprintf("oracle c19queue\n# %s\n# %s\n%s\n", h.leak, h.desc, h.judgeLine()))
		}
	}
	for _, sc := range stalls {
		h := runQStall(sc)
		hists = append(hists, h)
		lines = append(lines, h.judgeLine())
		res.Stats["hist.stalled-reader-bursts"]++
		if h.leak != "" {
			addViolation("c19queue: consumer goroutine left behind although the reader drained: "+h.leak, fmt.Sprintf("C19-c19queue-leak-%d.txt", *seed),
				fmt.Sprintf("oracle c19queue\n# %s\n# %s\n%s\n", h.leak, h.desc, h.judgeLine()))
		}
	}
	lines = append(lines, recorded...)
	if len(lines) > 0 {
		verdicts, err := qJudge(drv, lines)
		if err != nil {
			addViolation("c19queue: cannot run the Lean judge: "+err.Error(), "C19-c19queue-judge.txt", "oracle c19queue\n# "+err.Error()+"\n")
		}
		for i, v := range verdicts {
			res.Evaluations++
			w := strings.Fields(v)
			key := "judge." + strings.Join(w[:min(2, len(w))], ":")
			res.Stats[key]++
			if strings.HasPrefix(v, "ok nontrivial") {
				res.DistinctNontrivial++
			}
			if !strings.HasPrefix(v, "ok") {
				desc := ""
				if i < len(hists) {
					desc = hists[i].desc
				}
				addViolation("c19queue: recorded history of async.QueuedChannel is not a run of the model: "+v, fmt.Sprintf("C19-c19queue-hist-%d-%d.txt", *seed, i),
					fmt.Sprintf("oracle c19queue\n# Lean judge: %s\n# scenario: %s\n# the recorded history (re-judged on replay):\n%s\n", v, desc, lines[i]))
			}
			if i < 2 && i < len(hists) {
				res.Samples = append(res.Samples, map[string]any{"oracle": "c19queue", "scenario": hists[i].desc, "history": lines[i], "judge": v})
			}
		}
	}
	// probes
	for _, p := range probes {
		exited, detail := runQProbe(p.cap, p.k, p.discard)
		res.Evaluations++
		modelExits := p.discard || p.k <= p.cap
		closeName := "Close"
		if p.discard {
			closeName = "CloseAndDiscardQueued"
		}
		line := fmt.Sprintf("probe cap=%d items=%d close=%s reader=none", p.cap, p.k, closeName)
		res.Stats[fmt.Sprintf("probe.%s.exited=%v", closeName, exited)]++
		switch {
		case exited != modelExits:
			addViolation(fmt.Sprintf("c19queue: model and implementation disagree on consumer termination (%s): implementation exited=%v, model exits=%v", line, exited, modelExits),
				"C19-c19queue-probe-mismatch.txt", fmt.Sprintf("oracle c19queue\n# %s\n%s\n", detail, line))
		default:
			res.DistinctNontrivial++
		}
		if len(res.Samples) < 4 {
			res.Samples = append(res.Samples, map[string]any{"oracle": "c19queue", "probe": line, "consumer_exited": exited, "model_exits": modelExits})
		}
	}
	// the real State.Close with unread updates (last: a leaked goroutine cannot be cleaned up from here)
	sort.Ints(statePending)
	for _, k := range statePending {
		base := runtime.NumGoroutine()
		wait := verifhooks.StateCloseProbe(k)
		done := make(chan struct{})
		go func() { wait(); close(done) }()
		exited := false
		select {
		case <-done:
			exited = waitGoroutines(base, 2*time.Second)
		case <-time.After(500 * time.Millisecond):
		}
		res.Evaluations++
		res.Stats[fmt.Sprintf("stateclose.exited=%v", exited)]++
		line := fmt.Sprintf("stateclose pending=%d", k)
		if len(res.Samples) < 6 {
			res.Samples = append(res.Samples, map[string]any{"oracle": "c19queue", "probe": line, "consumer_exited": exited})
		}
		if exited {
			res.DistinctNontrivial++
			continue
		}
		addViolation("c19queue #13a: REGRESSION of 7b5e762: State.Close with unread updates leaves the consumer goroutine of the state's update queue blocked on `ch <- item` (closeUpdateQueue must use CloseAndDiscardQueued; theorems state_close_consumer_exits, queue_close_leak_witness)",
			"C19-c19queue-13a.txt",
			fmt.Sprintf("oracle c19queue\n# finding #13a: state.NewState, %d updates queued and not read, State.Close: the update queue's consumer goroutine is still alive 500 ms later (goroutines: %d before, %d now)\n# replay: ./check C19 --replay <this file>\n%s\n", k, base, runtime.NumGoroutine(), line))
	}
	if *out != "" {
		b, _ := json.MarshalIndent(res, "", " ")
		_ = os.WriteFile(*out, b, 0o644)
	} else {
		b, _ := json.MarshalIndent(res, "", " ")
		fmt.Println(string(b))
	}
	return 0
}

func init() {
	RegisterOracle(&Oracle{Name: "c19queue", Run: runOracleQueue})
}
