package main

// ScriptConn: a thin connector.Connector that pushes exactly the updates the script says (no echo,
// no merging) and answers the client-driven calls of gluon (APPEND, STORE, COPY, CREATE…) with
// plausible results. It keeps a small "remote" view of what it was told, only so that the generator
// can build realistic echoes (a real remote echoes what it knows, not what gluon's index says).
//
// Used by oracle c06updates; NewSysScript builds a whole server around it.

import (
	"bytes"
	"context"
	"fmt"
	"net"
	"os"
	"path/filepath"
	"sort"
	"sync"
	"time"

	"github.com/ProtonMail/gluon"
	"github.com/ProtonMail/gluon/connector"
	"github.com/ProtonMail/gluon/imap"
)

type cuRemoteMsg struct {
	flags   map[string]bool // lower-case short names: seen, flagged, …
	mboxes  map[string]bool // remote mailbox ids
	lit     string
	deleted bool
}

type ScriptConn struct {
	updateCh chan imap.Update
	quitCh   chan struct{}
	mu       sync.Mutex
	nextMsg  int
	nextMbox int
	flags    imap.FlagSet
	literals map[imap.MessageID][]byte
	state    connector.IMAPState
	// remote view
	msgs  map[string]*cuRemoteMsg
	mbox  map[string]string // remote id -> name
	calls []string          // client-driven calls since the last TakeCalls
}

func cuScriptFlagSet() imap.FlagSet {
	return imap.NewFlagSet(imap.FlagSeen, imap.FlagFlagged, imap.FlagDeleted, imap.FlagAnswered, imap.FlagDraft)
}

func NewScriptConn() *ScriptConn {
	return &ScriptConn{
		updateCh: make(chan imap.Update),
		quitCh:   make(chan struct{}),
		flags:    cuScriptFlagSet(),
		literals: map[imap.MessageID][]byte{},
		msgs:     map[string]*cuRemoteMsg{},
		mbox:     map[string]string{},
	}
}

func (c *ScriptConn) Init(_ context.Context, st connector.IMAPState) error { c.state = st; return nil }

func (c *ScriptConn) Authorize(_ context.Context, username string, password []byte) bool {
	return username == "user" && bytes.Equal(password, []byte(sysPassword))
}

func (c *ScriptConn) call(format string, a ...any) {
	c.calls = append(c.calls, fmt.Sprintf(format, a...))
}

// TakeCalls returns and clears the log of client-driven calls.
func (c *ScriptConn) TakeCalls() []string {
	c.mu.Lock()
	defer c.mu.Unlock()
	out := c.calls
	c.calls = nil
	return out
}

func (c *ScriptConn) CreateMailbox(_ context.Context, _ connector.IMAPStateWrite, name []string) (imap.Mailbox, error) {
	c.mu.Lock()
	defer c.mu.Unlock()
	c.nextMbox++
	id := fmt.Sprintf("cm%d", c.nextMbox)
	joined := cuJoinName(name)
	c.mbox[id] = joined
	c.call("mbox-created %s %s", id, joined)
	return imap.Mailbox{ID: imap.MailboxID(id), Name: name, Flags: c.flags, PermanentFlags: c.flags, Attributes: imap.NewFlagSet()}, nil
}

func cuJoinName(name []string) string {
	out := ""
	for i, n := range name {
		if i > 0 {
			out += "/"
		}
		out += n
	}
	return out
}

func (c *ScriptConn) GetMessageLiteral(_ context.Context, id imap.MessageID) ([]byte, error) {
	c.mu.Lock()
	defer c.mu.Unlock()
	if l, ok := c.literals[id]; ok {
		return l, nil
	}
	return nil, fmt.Errorf("no such message")
}

func (c *ScriptConn) GetMailboxVisibility(context.Context, imap.MailboxID) imap.MailboxVisibility {
	return imap.Visible
}

func (c *ScriptConn) UpdateMailboxName(_ context.Context, _ connector.IMAPStateWrite, mboxID imap.MailboxID, newName []string) error {
	c.mu.Lock()
	defer c.mu.Unlock()
	c.mbox[string(mboxID)] = cuJoinName(newName)
	c.call("mbox-renamed %s %s", mboxID, cuJoinName(newName))
	return nil
}

func (c *ScriptConn) DeleteMailbox(_ context.Context, _ connector.IMAPStateWrite, mboxID imap.MailboxID) error {
	c.mu.Lock()
	defer c.mu.Unlock()
	delete(c.mbox, string(mboxID))
	for _, m := range c.msgs {
		delete(m.mboxes, string(mboxID))
	}
	c.call("mbox-deleted %s", mboxID)
	return nil
}

func cuShortFlags(fs imap.FlagSet) map[string]bool {
	out := map[string]bool{}
	for _, f := range fs.ToSlice() {
		s := cuFlagShort(f)
		if s != "recent" && s != "deleted" {
			out[s] = true
		}
	}
	return out
}

func (c *ScriptConn) CreateMessage(_ context.Context, _ connector.IMAPStateWrite, mboxID imap.MailboxID, literal []byte, flags imap.FlagSet, date time.Time) (imap.Message, []byte, error) {
	c.mu.Lock()
	defer c.mu.Unlock()
	c.nextMsg++
	id := fmt.Sprintf("a%d", c.nextMsg)
	c.literals[imap.MessageID(id)] = literal
	c.msgs[id] = &cuRemoteMsg{flags: cuShortFlags(flags), mboxes: map[string]bool{string(mboxID): true}, lit: "app"}
	c.call("msg-created %s %s", id, mboxID)
	return imap.Message{ID: imap.MessageID(id), Flags: flags, Date: date}, literal, nil
}

func (c *ScriptConn) AddMessagesToMailbox(_ context.Context, _ connector.IMAPStateWrite, messageIDs []imap.MessageID, mboxID imap.MailboxID) error {
	c.mu.Lock()
	defer c.mu.Unlock()
	for _, id := range messageIDs {
		if m := c.msgs[string(id)]; m != nil {
			m.mboxes[string(mboxID)] = true
		}
		c.call("msg-added %s %s", id, mboxID)
	}
	return nil
}

func (c *ScriptConn) RemoveMessagesFromMailbox(_ context.Context, _ connector.IMAPStateWrite, messageIDs []imap.MessageID, mboxID imap.MailboxID) error {
	c.mu.Lock()
	defer c.mu.Unlock()
	for _, id := range messageIDs {
		if m := c.msgs[string(id)]; m != nil {
			delete(m.mboxes, string(mboxID))
		}
		c.call("msg-removed %s %s", id, mboxID)
	}
	return nil
}

func (c *ScriptConn) MoveMessages(_ context.Context, _ connector.IMAPStateWrite, messageIDs []imap.MessageID, from, to imap.MailboxID) (bool, error) {
	c.mu.Lock()
	defer c.mu.Unlock()
	for _, id := range messageIDs {
		if m := c.msgs[string(id)]; m != nil {
			delete(m.mboxes, string(from))
			m.mboxes[string(to)] = true
		}
		c.call("msg-moved %s %s %s", id, from, to)
	}
	return true, nil
}

func (c *ScriptConn) mark(kind, flag string, messageIDs []imap.MessageID, on bool) {
	c.mu.Lock()
	defer c.mu.Unlock()
	for _, id := range messageIDs {
		if m := c.msgs[string(id)]; m != nil {
			if on {
				m.flags[flag] = true
			} else {
				delete(m.flags, flag)
			}
		}
		c.call("msg-%s %s %v", kind, id, on)
	}
}

func (c *ScriptConn) MarkMessagesSeen(_ context.Context, _ connector.IMAPStateWrite, ids []imap.MessageID, seen bool) error {
	c.mark("seen", "seen", ids, seen)
	return nil
}

func (c *ScriptConn) MarkMessagesFlagged(_ context.Context, _ connector.IMAPStateWrite, ids []imap.MessageID, flagged bool) error {
	c.mark("flagged", "flagged", ids, flagged)
	return nil
}

func (c *ScriptConn) MarkMessagesForwarded(_ context.Context, _ connector.IMAPStateWrite, ids []imap.MessageID, fwd bool) error {
	c.mark("forwarded", "$forwarded", ids, fwd)
	return nil
}

func (c *ScriptConn) GetUpdates() <-chan imap.Update { return c.updateCh }

func (c *ScriptConn) Close(context.Context) error {
	c.mu.Lock()
	defer c.mu.Unlock()
	select {
	case <-c.quitCh:
	default:
		close(c.quitCh)
	}
	return nil
}

// cuUnknownUpdate is an update of a type user.apply's switch does not know (it embeds a real update,
// so it satisfies the sealed interface); it counts its own Done calls.
type cuUnknownUpdate struct {
	*imap.Noop
	mu    sync.Mutex
	dones int
}

func (u *cuUnknownUpdate) Done(err error) {
	u.mu.Lock()
	u.dones++
	n := u.dones
	u.mu.Unlock()
	if n == 1 {
		u.Noop.Done(err)
	}
}

func (u *cuUnknownUpdate) String() string { return "cuUnknownUpdate" }

// CuAckResult of one pushed update.
type CuAckResult struct {
	Taken  bool   // the server took it from the channel within the watchdog
	Acked  bool   // a result arrived within the watchdog
	Err    error  // the acknowledged error (nil = success)
	Second string // "" = the waiter was closed after the first result (normal); otherwise what else came
}

// Push sends one update and waits for its acknowledgement under a watchdog.
func (c *ScriptConn) Push(u imap.Update, watchdog time.Duration) CuAckResult {
	var res CuAckResult
	select {
	case c.updateCh <- u:
		res.Taken = true
	case <-time.After(watchdog):
		return res
	case <-c.quitCh:
		return res
	}
	ctx, cancel := context.WithTimeout(context.Background(), watchdog)
	err, ok := u.WaitContext(ctx)
	expired := ctx.Err() != nil
	cancel()
	if expired && !ok {
		return res // no acknowledgement
	}
	res.Acked = true
	if ok {
		res.Err = err
		if err == nil {
			res.Second = "a nil error was delivered as a value"
		}
	}
	// exactly once: after the first result the waiter must be closed and empty
	ctx2, cancel2 := context.WithTimeout(context.Background(), 200*time.Millisecond)
	err2, ok2 := u.WaitContext(ctx2)
	expired2 := ctx2.Err() != nil
	cancel2()
	switch {
	case ok2:
		res.Second = fmt.Sprintf("second result %v", err2)
	case expired2:
		res.Second = "waiter still open after the first result"
	}
	if uu, isU := u.(*cuUnknownUpdate); isU {
		uu.mu.Lock()
		if uu.dones != 1 {
			res.Second = fmt.Sprintf("Done called %d times", uu.dones)
		}
		uu.mu.Unlock()
	}
	return res
}

// NoteMessage / NoteMailbox record what the script pushed (remote view, used for echoes only).
func (c *ScriptConn) remoteMsgs() []string {
	c.mu.Lock()
	defer c.mu.Unlock()
	var out []string
	for k, m := range c.msgs {
		if !m.deleted {
			out = append(out, k)
		}
	}
	sort.Strings(out)
	return out
}

// ---- whole server around a ScriptConn -----------------------------------------------------

// NewSysScript is NewSys with a caller-supplied connector (Sys.Conn stays nil: use BarrierStates,
// never Sys.Barrier).
func NewSysScript(conn connector.Connector, o SysOpts) (*Sys, error) {
	if o.Delimiter == "" {
		o.Delimiter = "/"
	}
	dir, err := os.MkdirTemp("", "vh-sysc-")
	if err != nil {
		return nil, err
	}
	rec := &panicRecorder{}
	opts := []gluon.Option{
		gluon.WithDataDir(filepath.Join(dir, "store")),
		gluon.WithDatabaseDir(filepath.Join(dir, "db")),
		gluon.WithDelimiter(o.Delimiter),
		gluon.WithIdleBulkTime(o.IdleBulk),
		gluon.WithPanicHandler(rec),
	}
	if o.Limits != nil {
		opts = append(opts, gluon.WithIMAPLimits(*o.Limits))
	}
	if o.UIDValidity != nil {
		opts = append(opts, gluon.WithUIDValidityGenerator(o.UIDValidity))
	}
	srv, err := gluon.New(opts...)
	if err != nil {
		return nil, err
	}
	ctx, cancel := context.WithCancel(context.Background())
	userID, err := srv.AddUser(ctx, conn, []byte("passphrase"))
	if err != nil {
		cancel()
		return nil, err
	}
	ln, err := net.Listen("tcp", "127.0.0.1:0")
	if err != nil {
		cancel()
		return nil, err
	}
	if err := srv.Serve(ctx, ln); err != nil {
		cancel()
		return nil, err
	}
	go func() {
		for range srv.GetErrorCh() {
		}
	}()
	return &Sys{Server: srv, UserID: userID, Addr: ln.Addr().String(), Dir: dir, cancel: cancel, ln: ln, opts: o, Panics: rec}, nil
}

// BarrierStates: every session has applied every state update queued so far.
func (s *Sys) BarrierStates() error {
	ctx, c := context.WithTimeout(context.Background(), 20*time.Second)
	defer c()
	return s.Server.VerifBarrier(ctx, s.UserID)
}
