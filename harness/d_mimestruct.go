package main

// Dialects `mime-struct` (imap.NewParsedMessage against the Lean writer-call model
// GluonModel/Model/{ParamList,Structure}.lean) and `sexp` (the Go s-expression checker of the
// c12structure oracle against the Lean reader `parseSexp`).

import (
	"bytes"
	"fmt"
	"io"
	"net/mail"
	"sort"
	"strconv"
	"strings"

	"github.com/ProtonMail/gluon/imap"
	"github.com/ProtonMail/gluon/rfc5322"
	"github.com/ProtonMail/gluon/rfc822"
	"github.com/sirupsen/logrus"
)

func mimeQuietLogs() { logrus.SetOutput(io.Discard) }

// ---------------------------------------------------------------------------------------------
// s-expression checker (lenient grammar, DESIGN.md finding #20); mirrors Gluon.Mime.lex/parseToks

type sx struct {
	kind  byte // n # a s l (
	raw   []byte
	items []*sx
}

type sxTok struct {
	kind byte // ( ) s a l
	raw  []byte
}

func sxLex(b []byte) ([]sxTok, bool) {
	const (
		idle = iota
		atom
		str
		litN
		litCR
		litLF
		lit
	)
	var toks []sxTok
	st := idle
	var acc []byte
	esc := false
	n := 0
	for i := 0; i < len(b); i++ {
		c := b[i]
		switch st {
		case idle, atom:
			if st == atom {
				if c == ' ' || c == '(' || c == ')' || c == '"' {
					toks = append(toks, sxTok{'a', acc})
					st = idle
				} else {
					acc = append(acc, c)
					continue
				}
			}
			switch c {
			case ' ':
			case '(':
				toks = append(toks, sxTok{kind: '('})
			case ')':
				toks = append(toks, sxTok{kind: ')'})
			case '"':
				st, acc, esc = str, []byte{}, false
			case '{':
				st, n = litN, 0
			default:
				st, acc = atom, []byte{c}
			}
		case str:
			switch {
			case esc:
				acc, esc = append(acc, c), false
			case c == '\\':
				acc, esc = append(acc, c), true
			case c == '"':
				toks = append(toks, sxTok{'s', acc})
				st = idle
			default:
				acc = append(acc, c)
			}
		case litN:
			switch {
			case c >= '0' && c <= '9':
				n = n*10 + int(c-'0')
				if n > 1<<40 {
					n = 1 << 40
				}
			case c == '}':
				st = litCR
			default:
				return nil, false
			}
		case litCR:
			if c != '\r' {
				return nil, false
			}
			st = litLF
		case litLF:
			if c != '\n' {
				return nil, false
			}
			if n == 0 {
				toks = append(toks, sxTok{'l', []byte{}})
				st = idle
			} else {
				st, acc = lit, []byte{}
			}
		case lit:
			acc = append(acc, c)
			if n <= 1 {
				toks = append(toks, sxTok{'l', acc})
				st = idle
			} else {
				n--
			}
		}
	}
	switch st {
	case idle:
		return toks, true
	case atom:
		return append(toks, sxTok{'a', acc}), true
	}
	return nil, false
}

func sxAllDigits(b []byte) bool {
	for _, c := range b {
		if c < '0' || c > '9' {
			return false
		}
	}
	return true
}

// sxParse returns the items the text denotes; ok=false if it is not well-formed.
func sxParse(b []byte) ([]*sx, bool) {
	toks, ok := sxLex(b)
	if !ok {
		return nil, false
	}
	var stack [][]*sx
	var cur []*sx
	for _, t := range toks {
		switch t.kind {
		case '(':
			stack = append(stack, cur)
			cur = nil
		case ')':
			if len(stack) == 0 {
				return nil, false
			}
			l := &sx{kind: '(', items: cur}
			cur = append(stack[len(stack)-1], l)
			stack = stack[:len(stack)-1]
		case 'a':
			switch {
			case string(t.raw) == "NIL":
				cur = append(cur, &sx{kind: 'n'})
			case sxAllDigits(t.raw):
				cur = append(cur, &sx{kind: '#', raw: t.raw})
			default:
				cur = append(cur, &sx{kind: 'a', raw: t.raw})
			}
		default:
			cur = append(cur, &sx{kind: t.kind, raw: t.raw})
		}
	}
	if len(stack) != 0 {
		return nil, false
	}
	return cur, true
}

func sxShow(items []*sx, sb *strings.Builder) {
	for i, it := range items {
		if i > 0 {
			sb.WriteByte(' ')
		}
		switch it.kind {
		case 'n':
			sb.WriteByte('n')
		case '(':
			sb.WriteByte('(')
			sxShow(it.items, sb)
			sb.WriteByte(')')
		default:
			sb.WriteByte(it.kind)
			sb.WriteString(mimeHex(it.raw))
		}
	}
}

// sxIsParenList: exactly one item and it is a list.
func sxIsParenList(b []byte) bool {
	items, ok := sxParse(b)
	return ok && len(items) == 1 && items[0].kind == '('
}

func sxDepth(it *sx) int {
	if it.kind != '(' {
		return 0
	}
	d := 0
	for _, k := range it.items {
		d = max(d, sxDepth(k))
	}
	return d + 1
}

func implSexpCheck(args []string) string {
	if len(args) != 1 {
		return "bad-op"
	}
	items, ok := sxParse(mimeUnhex(args[0]))
	if !ok {
		return "malformed"
	}
	var sb strings.Builder
	sb.WriteString("ok ")
	sxShow(items, &sb)
	return sb.String()
}

func genSexpTexts(r *Rng, n int, w io.Writer, st *Stats) {
	r = r.Fork() // NewRng(seed+1) is NewRng(seed) advanced by one draw: decorrelate the seeds
	mimeQuietLogs()
	pieces := []string{"(", ")", " ", "\"", "\\", "NIL", "12", "a", "\"x y\"", "\"q\\\"r\"", "{3}\r\nabc", "{0}\r\n", "{", "}", "\r\n", "(NIL NIL)", "\"\\\\\"", "007", "N", "1a"}
	for i := 0; i < n; i++ {
		var text []byte
		switch c := r.Intn(10); {
		case c < 5: // what the real code produces
			msg := mimeGenMessage(r, st, "sexp")
			if pm, err := c12SafeParsed(msg); err == nil && pm != nil {
				text = []byte(Pick(r, []string{pm.Body, pm.Structure, pm.Envelope}))
			}
			st.Inc("sexp.real")
			if r.Chance(1, 3) && len(text) > 0 { // damaged
				pos := r.Intn(len(text))
				switch r.Intn(3) {
				case 0:
					text = append(text[:pos:pos], text[pos+1:]...)
				case 1:
					text = text[:pos]
				default:
					text = append(text[:pos:pos], append([]byte(Pick(r, pieces)), text[pos:]...)...)
				}
				st.Inc("sexp.real-damaged")
			}
		default:
			k := Pick(r, []int{0, 1, 2, 3, 5, 8, 13})
			for j := 0; j < k; j++ {
				text = append(text, Pick(r, pieces)...)
			}
			st.Inc("sexp.soup")
		}
		fmt.Fprintf(w, "sexp %s\n", mimeHex(text))
	}
}

// ---------------------------------------------------------------------------------------------
// mime-struct

func c12SafeParsed(msg []byte) (pm *imap.ParsedMessage, err error) {
	defer func() {
		if p := recover(); p != nil {
			pm, err = nil, fmt.Errorf("panic: %v", p)
		}
	}()
	return imap.NewParsedMessage(msg)
}

func implMimeStruct(args []string) (out string) {
	mimeQuietLogs()
	if len(args) != 3 {
		return "bad-op"
	}
	msg := mimeUnhex(args[0])
	defer func() {
		if p := recover(); p != nil {
			out = "panic"
		}
	}()
	pm, err := imap.NewParsedMessage(msg)
	if err != nil {
		return "err"
	}
	return fmt.Sprintf("ok %s %s %s", mimeHex([]byte(pm.Body)), mimeHex([]byte(pm.Structure)), mimeHex([]byte(pm.Envelope)))
}

type c12QSet map[string]bool

func (q c12QSet) add(s string) string { q[s] = true; return mimeHex([]byte(s)) }

func c12ShowPairs(q c12QSet, m map[string]string) string {
	if len(m) == 0 {
		return "*"
	}
	keys := make([]string, 0, len(m))
	for k := range m {
		keys = append(keys, k)
	}
	sort.Strings(keys)
	var sb []string
	for _, k := range keys {
		sb = append(sb, q.add(k)+"="+q.add(m[k]))
	}
	return strings.Join(sb, ";")
}

// the four lines of imap.tryParseAddressList (unexported)
func c12TryAddrs(val string) []*mail.Address {
	addr, err := rfc5322.ParseAddressList(val)
	if err != nil {
		return []*mail.Address{{Name: val}}
	}
	return addr
}

func c12ShowAddrs(q c12QSet, h *rfc822.Header, key string) string {
	v, ok := h.GetChecked(key)
	if !ok {
		return "~"
	}
	as := c12TryAddrs(v)
	if len(as) == 0 {
		return "*"
	}
	var sb []string
	for _, a := range as {
		sb = append(sb, q.add(a.Name)+"="+q.add(a.Address))
		if sp := strings.Split(a.Address, "@"); len(sp) == 2 {
			q.add(sp[0])
			q.add(sp[1])
		}
	}
	return strings.Join(sb, ";")
}

// c12DetailEntry: the abstract header results (HInfo of the Lean model) of one section, through the
// public API only.
func c12DetailEntry(q c12QSet, sec *rfc822.Section) string {
	h, err := sec.ParseHeader()
	if err != nil {
		return "ERR"
	}
	var ty, sub string
	var params map[string]string
	if ct, ps, err := sec.ContentType(); err == nil {
		ty, sub, params = ct.Type(), ct.SubType(), ps
	}
	disp := "~"
	if v, ps, err := rfc822.ParseMediaType(h.Get("Content-Disposition")); err == nil {
		disp = q.add(v) + "|" + c12ShowPairs(q, ps)
	}
	f := []string{
		q.add(ty), q.add(sub), c12ShowPairs(q, params),
		q.add(h.Get("Content-Id")), q.add(h.Get("Content-Description")), q.add(h.Get("Content-Transfer-Encoding")),
		q.add(h.Get("Content-MD5")), q.add(h.Get("Content-Language")), q.add(h.Get("Content-Location")),
		disp,
		q.add(h.Get("Date")), q.add(h.Get("Subject")), q.add(h.Get("In-Reply-To")), q.add(h.Get("Message-Id")),
		c12ShowAddrs(q, h, "From"), c12ShowAddrs(q, h, "Sender"), c12ShowAddrs(q, h, "Reply-To"),
		c12ShowAddrs(q, h, "To"), c12ShowAddrs(q, h, "Cc"), c12ShowAddrs(q, h, "Bcc"),
	}
	return strings.Join(f, ":")
}

// c12StructTables: (table, qtable) for a message.
func c12StructTables(msg []byte) (tbl string, qt string, ok bool) {
	defer func() {
		if p := recover(); p != nil {
			tbl, qt, ok = "-", "-", false
		}
	}()
	env := map[string]mimeEnvEntry{}
	det := map[string]string{}
	q := c12QSet{}
	mimeCollectEnv(rfc822.Parse(msg), env, func(s *rfc822.Section) {
		h, _ := rfc822.Split(s.Literal())
		det[string(h)] = c12DetailEntry(q, s)
	}, 0)
	keys := make([]string, 0, len(env))
	for k := range env {
		keys = append(keys, k)
	}
	sort.Strings(keys)
	var sb []string
	for _, k := range keys {
		e := env[k]
		if !e.ok {
			// header rejected by NewHeader: the section's header is empty, the model never looks
			// at the details of this block
			sb = append(sb, fmt.Sprintf("%s:0:o:-:-:-:*:-:-:-:-:-:-:~:-:-:-:-:~:~:~:~:~:~", mimeHex([]byte(k))))
			continue
		}
		sb = append(sb, fmt.Sprintf("%s:%s:%c:%s:%s", mimeHex([]byte(k)), b2s(e.ok), e.kind, mimeHex([]byte(e.bnd)), det[k]))
	}
	tbl = "-"
	if len(sb) > 0 {
		tbl = strings.Join(sb, ",")
	}
	var qs []string
	for s := range q {
		if s != "" {
			qs = append(qs, s)
		}
	}
	sort.Strings(qs)
	var qb []string
	for _, s := range qs {
		qb = append(qb, mimeHex([]byte(s))+"="+mimeHex([]byte(strconv.Quote(s))))
	}
	qt = "-"
	if len(qb) > 0 {
		qt = strings.Join(qb, ";")
	}
	return tbl, qt, true
}

func genMimeStruct(r *Rng, n int, w io.Writer, st *Stats) {
	r = r.Fork() // NewRng(seed+1) is NewRng(seed) advanced by one draw: decorrelate the seeds
	mimeQuietLogs()
	dir := c12DirectedMessages(r, n, st, "mime-struct")
	for i := 0; i < n; i++ {
		var msg []byte
		if i < len(dir) {
			msg = dir[i]
		} else {
			msg = mimeGenMessage(r, st, "mime-struct")
		}
		tbl, qt, _ := c12StructTables(msg)
		fmt.Fprintf(w, "mime-struct %s %s %s\n", mimeHex(msg), tbl, qt)
	}
}

var _ = bytes.Equal

func init() {
	Register(&Dialect{Name: "mime-struct", Impl: implMimeStruct, Gen: genMimeStruct})
	Register(&Dialect{Name: "sexp", Impl: implSexpCheck, Gen: genSexpTexts})
}
