package main

// Oracle c04uids, multi-party patterns (property C04).  Two families of histories that the free generator of
// o_uids.go reaches only by luck, built from the harness's knowledge of the history so far and executed step by step
// (so every one of them is an ordinary replayable step list):
//
//   - failed-then-reuse (c04PatFailed): a session's UIDVALIDITY- or UID-assigning command FAILS (CREATE of an existing /
//     malformed / reserved name, CREATE or RENAME-with-superiors refused by the connector, CREATE whose transaction is
//     rolled back, CREATE at the mailbox-count limit, RENAME onto an existing name / of a missing mailbox; APPEND /
//     COPY / MOVE that are refused, rolled back or hit the message-count limit), then ANOTHER party (a second session
//     or the connector) successfully creates, fills and deletes the very name (resp. adds to and expunges from the
//     very mailbox), then the first session's command on that name succeeds (CREATE X, CREATE X/kid, RENAME INBOX X,
//     RENAME e X/kid; APPEND / COPY / MOVE into the mailbox).  Whatever the failed command left behind in the session
//     must not surface: the name's UIDVALIDITY values still strictly increase, UIDs are fresh.
//   - stale-view COPY / MOVE (c04PatStale): a session that has NOT been told about other parties' expunges (no NOOP /
//     STATUS / APPEND / MOVE since; FETCH, SEARCH, STORE, COPY deliver none) copies or moves message sets that contain
//     the vanished messages at the start, in the middle, at the end, as ranges, lists, unordered lists, with
//     repetitions, by sequence number and by UID.  COPYUID must name equally many source and destination UIDs and
//     every pair must hold the same message.
//
// The same builders are called by gen() (o_uids.go) with the pool names, so that the patterns also occur inside the
// free histories (with restarts, renames, bumps around them).

import (
	"fmt"
	"sort"
	"strconv"
	"strings"
)

func c04S(i int, format string, a ...any) string {
	return fmt.Sprintf("S%d ", i) + fmt.Sprintf(format, a...)
}

// c04PatFailed: one round of failed-then-reuse on a mailbox NAME. a = the session whose command fails first, o = the
// other party (a session index, or -1: the connector). names: candidate names X (never INBOX). rich: variants that
// leave extra names behind (junk names on the remote, hierarchical names). Returns nil if nothing fits.
func (r *c04Run) c04PatFailed(g *Rng, a, o int, names []string, rich bool) []string {
	if len(names) == 0 {
		return nil
	}
	x := Pick(g, names)
	if strings.EqualFold(x, "INBOX") {
		return nil
	}
	var existing []string // existing flat names other than x
	for n := range r.exists {
		if n != x && !strings.Contains(n, " ") && !strings.Contains(n, "/") && !strings.HasPrefix(n, x+"/") {
			existing = append(existing, n)
		}
	}
	sort.Strings(existing)
	var existingNotInbox []string
	for _, n := range existing {
		if !strings.EqualFold(n, "INBOX") {
			existingNotInbox = append(existingNotInbox, n)
		}
	}
	for n := range r.exists { // x must not have inferiors (DELETE would leave it behind as \Noselect)
		if strings.HasPrefix(n, x+"/") {
			return nil
		}
	}
	r.mbSeq++
	junk := fmt.Sprintf("jk%d", r.mbSeq)
	var out []string

	// 1. the failing command(s) of session a
	fails := []string{"exists", "exists", "malformed", "recovered", "connfail", "rename-exists", "rename-missing"}
	if rich {
		fails = append(fails, "rollback", "rename-superior-connfail", "exists-trailing")
	}
	nf := 1
	if g.Chance(1, 4) {
		nf = 2
	}
	for k := 0; k < nf; k++ {
		switch Pick(g, fails) {
		case "exists":
			e := "INBOX"
			if len(existing) > 0 {
				e = Pick(g, existing)
			}
			if r.exists[x] && g.Chance(1, 2) {
				e = x // the very name, while it still exists
			}
			out = append(out, c04S(a, "CREATE %s", e))
		case "exists-trailing":
			e := "INBOX"
			if len(existing) > 0 {
				e = Pick(g, existing)
			}
			out = append(out, c04S(a, "CREATE %s/", e))
		case "malformed":
			out = append(out, c04S(a, "CREATE %s", Pick(g, []string{"/" + x, x + "//kid", "/"})))
		case "recovered":
			out = append(out, c04S(a, "CREATE %s", Pick(g, []string{"Recovered+Messages/" + x, "recovered+messages", "Recovered+Messages"})))
		case "connfail":
			out = append(out, "X FAILCONN mbcreate", c04S(a, "CREATE %s", junk))
		case "rollback":
			out = append(out, "X FAILCOMMIT 1", c04S(a, "CREATE %s", junk), "X FAILCOMMIT 0")
		case "rename-exists":
			if len(existingNotInbox) >= 1 && len(existing) >= 2 {
				e1 := Pick(g, existing) // (INBOX as the source: a new mailbox would be created under a fresh value)
				e2 := Pick(g, existingNotInbox)
				if e1 != e2 {
					out = append(out, c04S(a, "RENAME %s %s", e1, e2))
					break
				}
			}
			out = append(out, c04S(a, "CREATE INBOX"))
		case "rename-missing":
			out = append(out, c04S(a, "RENAME nosuchbox %s", x))
		case "rename-superior-connfail":
			if len(existingNotInbox) > 0 {
				out = append(out, "X FAILCONN mbcreate", c04S(a, "RENAME %s %s/kid", Pick(g, existingNotInbox), junk))
			} else {
				out = append(out, "X FAILCONN mbcreate", c04S(a, "CREATE %s", junk))
			}
		}
	}

	// 2. the other party creates and deletes x (once or twice), newer values are handed out meanwhile
	mk := func() string {
		if o < 0 {
			return "C MBCREATE " + x
		}
		return c04S(o, "CREATE %s", x)
	}
	rm := func(known bool) string {
		if o < 0 && known {
			return "C MBDELETE " + x
		}
		if o < 0 {
			return c04S(a, "DELETE %s", x) // the remote does not know this mailbox: the session itself deletes it
		}
		return c04S(o, "DELETE %s", x)
	}
	if r.exists[x] {
		_, known := r.conn.mboxID(x)
		out = append(out, rm(known))
	}
	rounds := 1
	if g.Chance(1, 4) {
		rounds = 2
	}
	for k := 0; k < rounds; k++ {
		out = append(out, mk())
		if g.Chance(1, 2) {
			if o < 0 {
				out = append(out, fmt.Sprintf("C NEW %s %s", r.newMarker(), x))
			} else {
				out = append(out, c04S(o, "APPEND %s %s", x, r.newMarker()))
			}
		}
		if rich && g.Chance(1, 4) && o >= 0 {
			out = append(out, c04S(o, "STATUS %s", x))
		}
		out = append(out, rm(true))
	}

	// 3. session a's command on x succeeds
	wins := []string{"create", "create", "create", "rename-inbox"}
	if rich {
		wins = append(wins, "create-kid", "rename-kid", "create-trailing")
	}
	switch Pick(g, wins) {
	case "create":
		out = append(out, c04S(a, "CREATE %s", x))
	case "create-trailing":
		out = append(out, c04S(a, "CREATE %s/", x))
	case "create-kid": // x comes into being as a superior, under the value of the CREATE
		out = append(out, c04S(a, "CREATE %s/kid%d", x, r.mbSeq), c04S(a, "DELETE %s/kid%d", x, r.mbSeq))
	case "rename-inbox": // a new mailbox x that receives INBOX's messages
		out = append(out, c04S(a, "RENAME INBOX %s", x))
	case "rename-kid": // x is created as a missing superior of the new name; the renamed mailbox then goes back
		if len(existingNotInbox) > 0 {
			e := Pick(g, existingNotInbox)
			kid := fmt.Sprintf("%s/kid%d", x, r.mbSeq)
			out = append(out, c04S(a, "RENAME %s %s", e, kid), c04S(a, "RENAME %s %s", kid, e))
		} else {
			out = append(out, c04S(a, "CREATE %s", x))
		}
	}
	if g.Chance(1, 2) {
		out = append(out, c04S(a, "APPEND %s %s", x, r.newMarker()))
	}
	if g.Chance(1, 3) {
		out = append(out, c04S(a, "STATUS %s", x))
	}
	return out
}

// c04PatFailedUID: one round of failed-then-reuse on the UIDs of mailbox mb: session a's APPEND / COPY / MOVE into mb
// fails, the other party adds to mb (and may expunge its top), then session a's command succeeds.
func (r *c04Run) c04PatFailedUID(g *Rng, a, o int, mb string) []string {
	if !r.exists[mb] {
		return nil
	}
	s := r.session(a)
	var out []string
	canCopy := s != nil && s.sel != "" && s.sel != mb && len(r.content[s.sel]) > 0 && r.exists[s.sel]
	kinds := []string{"append-bad", "append-rollback", "append-connfail", "append-missing"}
	if canCopy {
		kinds = append(kinds, "copy-rollback", "copy-connfail", "move-connfail", "copy-missing")
	}
	switch Pick(g, kinds) {
	case "append-bad":
		out = append(out, c04S(a, "APPENDBAD %s", mb))
	case "append-rollback":
		out = append(out, "X FAILCOMMIT 1", c04S(a, "APPEND %s %s", mb, r.newMarker()), "X FAILCOMMIT 0")
	case "append-connfail":
		out = append(out, "X FAILCONN create", c04S(a, "APPEND %s %s", mb, r.newMarker()))
	case "append-missing":
		out = append(out, c04S(a, "APPEND nosuchbox %s", r.newMarker()))
	case "copy-rollback":
		out = append(out, "X FAILCOMMIT 1", c04S(a, "%s 1:* %s", Pick(g, []string{"COPY", "UIDCOPY"}), mb), "X FAILCOMMIT 0")
	case "copy-connfail":
		out = append(out, "X FAILCONN add", c04S(a, "COPY 1:* %s", mb))
	case "move-connfail":
		if s.ro {
			out = append(out, "X FAILCONN add", c04S(a, "COPY 1:* %s", mb))
		} else {
			out = append(out, "X FAILCONN move", c04S(a, "MOVE 1:* %s", mb))
		}
	case "copy-missing":
		out = append(out, c04S(a, "COPY 1:* nosuchbox"))
	}
	// the other party
	_, known := r.conn.mboxID(mb)
	for k, n := 0, g.Range(1, 2); k < n; k++ {
		switch {
		case o < 0 && known && g.Chance(1, 2):
			out = append(out, fmt.Sprintf("C BATCH %s,%s %s", r.newMarker(), r.newMarker(), mb))
		case o < 0 && known:
			out = append(out, fmt.Sprintf("C NEW %s %s", r.newMarker(), mb))
		case o >= 0:
			out = append(out, c04S(o, "APPEND %s %s", mb, r.newMarker()))
		default:
			out = append(out, c04S(a, "STATUS %s", mb))
		}
	}
	if o >= 0 && g.Chance(1, 3) {
		out = append(out, c04S(o, "SELECT %s", mb), c04S(o, "DELTOP"))
	}
	// success
	if canCopy && g.Chance(1, 2) {
		verb := Pick(g, []string{"COPY", "UIDCOPY", "MOVE"})
		if s.ro {
			verb = "COPY"
		}
		out = append(out, c04S(a, "VIEW"), c04S(a, "%s 1:* %s", verb, mb))
	} else {
		out = append(out, c04S(a, "APPEND %s %s", mb, r.newMarker()))
	}
	return out
}

// c04StaleSets: message sets over a view of n messages (positions 0..n-1) that contain the victims (positions that
// have vanished behind the session's back): the whole range, a range around the victims, lists with the victims at the
// start / in the middle / at the end, only victims; optionally unordered and with a repetition.
func c04StaleSets(g *Rng, n int, victims []int, scrambled bool) [][]int {
	isV := map[int]bool{}
	for _, v := range victims {
		isV[v] = true
	}
	var surv []int
	for k := 0; k < n; k++ {
		if !isV[k] {
			surv = append(surv, k)
		}
	}
	all := make([]int, n)
	for k := range all {
		all[k] = k
	}
	sets := [][]int{all}
	// victims + a random non-empty choice of survivors
	if len(surv) > 0 {
		pickSome := func() []int {
			var p []int
			for _, k := range surv {
				if g.Chance(1, 2) {
					p = append(p, k)
				}
			}
			if len(p) == 0 {
				p = []int{Pick(g, surv)}
			}
			return p
		}
		mix := append(append([]int{}, victims...), pickSome()...)
		sort.Ints(mix)
		sets = append(sets, mix)
		// a victim and everything above it / below it
		v := Pick(g, victims)
		var above, below []int
		for k := 0; k < n; k++ {
			if k >= v {
				above = append(above, k)
			}
			if k <= v {
				below = append(below, k)
			}
		}
		sets = append(sets, above, below)
	}
	sets = append(sets, append([]int{}, victims...))
	if scrambled {
		for _, s := range sets[:len(sets):len(sets)] {
			if len(s) < 2 {
				continue
			}
			t := append([]int{}, s...)
			for k := len(t) - 1; k > 0; k-- { // Fisher-Yates
				j := g.Intn(k + 1)
				t[k], t[j] = t[j], t[k]
			}
			if g.Chance(1, 3) {
				t = append(t, t[0])
			}
			sets = append(sets, t)
		}
	}
	return sets
}

// c04RenderSet: positions of a view -> an IMAP set in sequence numbers or UIDs; ascending runs become ranges.
func c04RenderSet(view []c04Msg, pos []int, uidForm, ranges bool) string {
	val := func(p int) int {
		if uidForm {
			return view[p].uid
		}
		return p + 1
	}
	var parts []string
	for k := 0; k < len(pos); {
		j := k
		for ranges && j+1 < len(pos) && pos[j+1] == pos[j]+1 {
			j++
		}
		if j > k {
			parts = append(parts, fmt.Sprintf("%d:%d", val(pos[k]), val(pos[j])))
		} else {
			parts = append(parts, strconv.Itoa(val(pos[k])))
		}
		k = j + 1
	}
	return strings.Join(parts, ",")
}

// c04PatStale: one round of stale-view COPY/MOVE. view = what session a sees of mailbox src (it is in step with the
// server right now: the caller has just let it SELECT or VIEW); o = the party that removes messages behind a's back
// (a session that has src selected read-write, or -1: the connector); dsts = destination candidates.
func (r *c04Run) c04PatStale(g *Rng, a, o int, src string, view []c04Msg, dsts []string, scrambled bool) []string {
	n := len(view)
	if n < 2 || len(dsts) == 0 {
		return nil
	}
	sa := r.session(a)
	if sa == nil {
		return nil
	}
	// victims: one or two positions; first / middle / last / anywhere
	var victims []int
	switch g.Intn(5) {
	case 0:
		victims = []int{0}
	case 1:
		victims = []int{n - 1}
	case 2:
		victims = []int{n / 2}
	default:
		victims = []int{g.Intn(n)}
	}
	if n >= 4 && g.Chance(1, 3) {
		if w := g.Intn(n); w != victims[0] {
			victims = append(victims, w)
			sort.Ints(victims)
		}
	}
	var out []string
	// removal behind a's back
	var vu []int
	for _, v := range victims {
		vu = append(vu, view[v].uid)
	}
	connKnows := func() bool {
		if _, ok := r.conn.mboxID(src); !ok {
			return false
		}
		r.conn.mu.Lock()
		defer r.conn.mu.Unlock()
		for _, v := range victims {
			if _, ok := r.conn.msgIDs[view[v].marker]; !ok {
				return false
			}
		}
		return true
	}
	switch {
	case o < 0:
		if !connKnows() {
			return nil
		}
		for _, v := range victims {
			out = append(out, fmt.Sprintf("C REMOVE %s %s", view[v].marker, src))
		}
	case g.Chance(1, 4) && len(dsts) > 0: // moved away by the other session
		out = append(out, c04S(o, "VIEW"), c04S(o, "UIDMOVE %s %s", c04JoinInts(vu), Pick(g, dsts)))
	case len(victims) == 1 && victims[0] == n-1 && g.Chance(1, 2):
		out = append(out, c04S(o, "VIEW"), c04S(o, "DELTOP"))
	default:
		out = append(out, c04S(o, "DEL %s", c04JoinInts(vu)))
	}
	// a is busy meanwhile, with commands that deliver no EXPUNGE
	if g.Chance(1, 3) {
		out = append(out, c04S(a, "BUSY %s", Pick(g, []string{"fetch", "search", "store"})))
	}
	// the copies / moves (a MOVE ends the round: it brings the session up to date)
	sets := c04StaleSets(g, n, victims, scrambled)
	ncmd := g.Range(1, 2)
	for k := 0; k < ncmd; k++ {
		verb := Pick(g, []string{"COPY", "UIDCOPY", "COPY", "UIDCOPY", "MOVE", "UIDMOVE"})
		if sa.ro && strings.HasSuffix(verb, "MOVE") {
			verb = "UIDCOPY"
		}
		set := Pick(g, sets)
		if k == 0 && g.Chance(1, 2) && len(sets) > 1 {
			set = sets[1+g.Intn(2)%(len(sets)-1)] // favour the mixed sets: a victim with survivors above it
		}
		dst := Pick(g, dsts)
		out = append(out, c04S(a, "%s %s %s", verb, c04RenderSet(view, set, strings.HasPrefix(verb, "UID"), g.Chance(2, 3)), dst))
		r.stats["pattern.stale.cmd."+strings.ToLower(verb)]++
		if len(set) > 1 {
			r.stats["pattern.stale.cmd.multi"]++
		}
		if strings.HasSuffix(verb, "MOVE") {
			break
		}
	}
	return out
}

// c04PatternScript: a whole history of pattern rounds. kind = failed | stale.
func c04PatternScript(kind string, g *Rng, rounds int, scrambled bool) func(r *c04Run) error {
	return func(r *c04Run) error {
		run := func(steps ...string) error {
			for _, st := range steps {
				if err := r.exec(st); err != nil {
					return fmt.Errorf("step %q: %w", st, err)
				}
			}
			return nil
		}
		nsess := g.Range(2, 3)
		login := func() error {
			for i := 0; i < nsess; i++ {
				if r.session(i) == nil {
					if err := run(fmt.Sprintf("S%d LOGIN", i)); err != nil {
						return err
					}
				}
			}
			return nil
		}
		switch kind {
		case "failed":
			limited := g.Chance(1, 3)
			if limited {
				// INBOX + Recovered Messages + pa pb + room for one or two more; few messages per mailbox
				if err := run(fmt.Sprintf("X LIMITS %d %d", g.Range(5, 6), g.Range(3, 5))); err != nil {
					return err
				}
			}
			if err := login(); err != nil {
				return err
			}
			if err := run("C MBCREATE pa", "S0 CREATE pb", fmt.Sprintf("S0 APPEND pa %s", r.newMarker()), fmt.Sprintf("S1 APPEND pb %s", r.newMarker())); err != nil {
				return err
			}
			names := []string{"px", "py"}
			for k := 0; k < rounds; k++ {
				if err := login(); err != nil {
					return err
				}
				a := g.Intn(nsess)
				o := (a + 1 + g.Intn(nsess-1)) % nsess
				if g.Chance(1, 3) && !limited {
					// (at a limit a connector creation fails as well and would leave the remote with a mailbox the server lacks)
					o = -1
				}
				var steps []string
				switch {
				case limited && g.Chance(1, 2):
					steps = r.c04PatAtLimit(g, a, o, names)
				case g.Chance(1, 4):
					if s := r.session(a); s != nil && s.sel == "" && g.Chance(1, 2) {
						if err := run(c04S(a, "SELECT %s", Pick(g, []string{"pa", "pb"}))); err != nil {
							return err
						}
					}
					steps = r.c04PatFailedUID(g, a, o, Pick(g, []string{"pa", "pb", "INBOX"}))
				default:
					steps = r.c04PatFailed(g, a, o, names, true)
				}
				if steps == nil {
					r.stats["pattern.failed.skipped"]++
					continue
				}
				r.stats["pattern.failed.rounds"]++
				if err := run(steps...); err != nil {
					return err
				}
			}
		case "stale":
			if err := login(); err != nil {
				return err
			}
			if err := run("C MBCREATE src", "S0 CREATE dst", "C MBCREATE dst2"); err != nil {
				return err
			}
			for k := 0; k < rounds; k++ {
				if err := login(); err != nil {
					return err
				}
				if !r.exists["src"] {
					break
				}
				// additions first: the mailbox holds 3..7 messages
				for tries := 0; tries < 12 && (len(r.content["src"]) < 3 || (len(r.content["src"]) < 7 && g.Chance(1, 3))); tries++ {
					var st string
					switch g.Intn(3) {
					case 0:
						st = fmt.Sprintf("C BATCH %s,%s src", r.newMarker(), r.newMarker())
					case 1:
						st = fmt.Sprintf("C NEW %s src", r.newMarker())
					default:
						st = c04S(g.Intn(nsess), "APPEND src %s", r.newMarker())
					}
					if err := run(st); err != nil {
						return err
					}
				}
				a := g.Intn(nsess)
				o := (a + 1 + g.Intn(nsess-1)) % nsess
				if g.Chance(1, 4) {
					o = -1
				}
				// everybody involved has src selected and is up to date
				verb := "SELECT"
				if g.Chance(1, 6) {
					verb = "EXAMINE"
				}
				sa := r.session(a)
				if sa == nil {
					continue
				}
				if sa.sel != "src" || g.Chance(1, 4) {
					if err := run(c04S(a, "%s src", verb)); err != nil {
						return err
					}
				}
				if o >= 0 {
					if so := r.session(o); so == nil {
						continue
					} else if so.sel != "src" || so.ro {
						if err := run(c04S(o, "SELECT src")); err != nil {
							return err
						}
					}
				}
				if err := run(c04S(a, "VIEW")); err != nil {
					return err
				}
				sa = r.session(a)
				if sa == nil || sa.sel != "src" {
					continue
				}
				dsts := []string{"dst", "dst2"}
				if g.Chance(1, 8) {
					dsts = []string{"src"} // onto itself
				}
				steps := r.c04PatStale(g, a, o, "src", sa.view, dsts, scrambled)
				if steps == nil {
					r.stats["pattern.stale.skipped"]++
					continue
				}
				r.stats["pattern.stale.rounds"]++
				if err := run(steps...); err != nil {
					return err
				}
				if err := run(c04S(a, "VIEW")); err != nil {
					return err
				}
			}
		}
		return run("X CHECK")
	}
}

// c04PatAtLimit: the mailbox-count limit of the history (X LIMITS) is reached by filler CREATEs - the one that is
// refused is session a's failed command -, the other party makes room by deleting x, creates and deletes it again, and
// session a creates x.
func (r *c04Run) c04PatAtLimit(g *Rng, a, o int, names []string) []string {
	// (the harness cannot see the count the server compares with: it fills until a CREATE is refused, at most 4 times;
	// this builder returns the steps for the case that the limit leaves room for at most 2 more)
	x := Pick(g, names)
	var out []string
	if !r.exists[x] {
		out = append(out, c04S(a, "CREATE %s", x))
	}
	for k := 0; k < 3; k++ {
		r.mbSeq++
		out = append(out, c04S(a, "CREATE fill%d", r.mbSeq))
	}
	del := func(i int) string { return c04S(i, "DELETE %s", x) }
	if o < 0 {
		o = 1 - a%2 // (a connector creation at the limit fails as well and would leave the remote with a mailbox the server lacks)
	}
	out = append(out, del(o), c04S(o, "CREATE %s", x), c04S(o, "APPEND %s %s", x, r.newMarker()), del(o), c04S(a, "CREATE %s", x))
	// make room again for the next rounds
	for k := 0; k < 3; k++ {
		out = append(out, c04S(a, "DELETE fill%d", r.mbSeq-k))
	}
	return out
}
