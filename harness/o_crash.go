package main

// Oracle `c07crash` (property C07): fault enumeration over every storage-step boundary of every
// modelled operation, on the real server, with real process death.
//
//	parent                                   child  (`vh oracle c07child`, re-exec of this binary)
//	------                                   -----
//	reference runs per (op, instance):       phase run:   server on <dir>, scripted acknowledged prefix,
//	  before  (prefix, observe)                           then the marked operation with the fault taken
//	  none    (prefix, op, observe; trace)                from VH_FAULT_MODE / VH_FAULT_STEP
//	fault runs: mode x step index            phase check: restart on <dir>, audit store dir + rows,
//	  wait for the child to die / finish                  observe everything over IMAP
//	  run the check child, compare
//
// Verdict per fault run: restart view == before or == after (the WHOLE account as one state: LIST, LSUB, UIDVALIDITY,
// UIDNEXT, UIDs, flags, exact bytes modulo the X-Pm-Gluon-Id line of EVERY message of EVERY mailbox - for RENAME
// INBOX the before / after states are joint states of INBOX and the new mailbox); no message that cannot be fetched -
// the connector serves no literal again (except in the `redownload` scenario), so the bytes must come from the cache;
// no cache file without a row and no row marked deleted right after start-up. For injected errors
// also the live view of the still running server. For APPEND an injected error may additionally leave the
// message in "Recovered Messages" (what the model's failure handler says). The recorded trace of every run with an
// injected error goes to the Lean judge `judge-c07-fail` (Driver/DCrash.lean): what the operation does to the store
// after the failed step must keep the store discipline (`handlerOk`, Theorems/C07 fail_listed_is_cached).
//
// The operations (o_crash_env.go c07Ops x instances 0..2) include, for every kind, variants on objects the server
// ALREADY HAS: connector MessagesCreated naming known messages / duplicates in one batch (cknown), MessageUpdated of an
// existing message (cupdated), COPY / MOVE onto a mailbox that holds the message (dupcopy), RENAME INBOX with and
// without inferiors, RENAME / DELETE of mailboxes with messages and children (rename 2, rename2, delete, delete2).
//
// Restart states with a PARTLY LOST CACHE (modes `<mode>+lost1`, `<mode>+lostall`): gluon supports message rows without
// a cache file (the literal is downloaded again from the connector). For every scenario that writes the store (and for
// the start-up scenario with its planted stale file) the fault runs at and after the first store.Set are repeated with
// the cache files of one / of all COMMITTED messages of the prefix removed between the interrupted run and the
// restart, and a connector that serves literals: the restart state then holds rows without a file AND (from the
// interrupted operation) a file without a row. Same verdict: before- or after-state, every listed message fetched
// with its exact bytes (from the cache or downloaded again), no cache file without a row after start-up.

import (
	"encoding/json"
	"flag"
	"fmt"
	"os"
	"os/exec"
	"path/filepath"
	"runtime"
	"sort"
	"strings"
	"sync"
	"syscall"
	"time"
)

// ---- child ---------------------------------------------------------------------------------

type c07RunOut struct {
	Outcome string   `json:"outcome"`
	Steps   []string `json:"steps"`
	Fired   bool     `json:"fired"`
	View    *c07View `json:"view,omitempty"` // before (phase before), after (mode none), live (err modes)
	Panics  []string `json:"panics,omitempty"`
	Err     string   `json:"err,omitempty"`
	// CloseHang: Server.Close did not return within 8 s after the operation
	CloseHang bool `json:"close_hang,omitempty"`
}

type c07CheckOut struct {
	Audit  *c07Audit `json:"audit"`
	Audit2 *c07Audit `json:"audit2"`
	View   *c07View  `json:"view"`
	Panics []string  `json:"panics,omitempty"`
	Err    string    `json:"err,omitempty"`
	// Lost: cache files of committed messages removed before this restart (modes +lost1 / +lostall)
	Lost []string `json:"lost,omitempty"`
}

func writeJSON(path string, v any) {
	b, _ := json.Marshal(v)
	_ = os.WriteFile(path+".tmp", b, 0o644)
	_ = os.Rename(path+".tmp", path)
}

// c07BaseMode splits a run mode into the fault mode and the cache-loss variant ("" | "1" | "all").
func c07BaseMode(mode string) (string, string) {
	if i := strings.Index(mode, "+lost"); i >= 0 {
		return mode[:i], mode[i+len("+lost"):]
	}
	return mode, ""
}

// c07CommittedFiles: the cache files (full paths) of the rows that are not marked deleted, right now.
func (e *c07Env) c07CommittedFiles() []string {
	a, err := e.audit()
	if err != nil {
		return nil
	}
	skip := map[string]bool{}
	for _, id := range a.MarkedDeleted {
		skip[id] = true
	}
	files := map[string]bool{}
	for _, f := range a.StoreFiles {
		files[f] = true
	}
	var out []string
	for _, r := range a.Rows {
		if files[r] && !skip[r] {
			out = append(out, filepath.Join(e.ip.StorePath, r))
		}
	}
	sort.Strings(out)
	return out
}

// c07LoseCache removes, before the restart, the cache files of one (seed-chosen) or of all messages that were
// committed when the prefix ended (a cache that was partly lost / reset between two runs of the server).
func c07LoseCache(dir, lose string, seed uint64) (lost []string) {
	b, err := os.ReadFile(filepath.Join(dir, "prefix_files"))
	if err != nil {
		return nil
	}
	files := strings.Fields(string(b))
	if len(files) == 0 {
		return nil
	}
	if lose == "1" {
		rng := NewRng(seed ^ 0xc07105e)
		k := rng.Intn(len(files))
		files = files[k : k+1]
	}
	for _, f := range files {
		if os.Remove(f) == nil {
			lost = append(lost, filepath.Base(f))
		}
	}
	return lost
}

func runC07Child(args []string) int {
	fs := flag.NewFlagSet("c07child", flag.ExitOnError)
	dir := fs.String("dir", "", "")
	phase := fs.String("phase", "run", "run | before | check")
	op := fs.String("op", "", "")
	inst := fs.Int("inst", 0, "")
	seed := fs.Uint64("seed", 1, "")
	_ = fs.Parse(args)
	switch *phase {
	case "check":
		out := &c07CheckOut{}
		defer func() { writeJSON(filepath.Join(*dir, "check.json"), out) }()
		uid, err := os.ReadFile(filepath.Join(*dir, "userid"))
		if err != nil {
			out.Err = "no userid: " + err.Error()
			return 0
		}
		lose := os.Getenv("VH_C07_LOSE")
		if lose != "" {
			out.Lost = c07LoseCache(*dir, lose, *seed)
		}
		env, err := newC07Sys(*dir, strings.TrimSpace(string(uid)), 900000, Fault{})
		if err != nil {
			out.Err = "restart failed: " + err.Error()
			return 0
		}
		env.conn.serve = *op == "redownload" || lose != ""
		if out.Audit, err = env.audit(); err != nil {
			out.Err = "audit: " + err.Error()
		}
		if out.View, err = env.observe(); err != nil {
			out.Err = "observe: " + err.Error()
		}
		out.Audit2, _ = env.audit()
		out.Panics = env.sys.Panics.Take()
		env.sys.Close(false)
		return 0
	case "run", "before":
		out := &c07RunOut{}
		fault := FaultFromEnv()
		if *phase == "before" {
			fault = Fault{}
		}
		flush := func() { writeJSON(filepath.Join(*dir, "run.json"), out) }
		env, err := newC07Sys(*dir, "", 1000, fault)
		if err != nil {
			out.Err = "start failed: " + err.Error()
			flush()
			return 0
		}
		_ = os.WriteFile(filepath.Join(*dir, "userid"), []byte(env.sys.UserID), 0o644)
		env.seed, env.inst = *seed, *inst
		env.conn.serve = *op == "redownload"
		prefixOp := *op
		if *op == "startup" {
			prefixOp = "cdeleted"
		}
		if err := env.prefix(prefixOp); err != nil {
			out.Err = "prefix failed: " + err.Error()
			flush()
			return 0
		}
		_ = os.WriteFile(filepath.Join(*dir, "prefix_files"), []byte(strings.Join(env.c07CommittedFiles(), "\n")), 0o644)
		if *op == "startup" {
			// a row marked deleted that no session releases, a cache file without a row, clean shutdown:
			// the marked operation is the START-UP of the user (recovery), with the fault live from its first step
			_ = env.c.Cmd("LOGOUT")
			for k := 0; k < 3000 && len(env.sys.Server.VerifStates(env.sys.UserID)) > 0; k++ {
				time.Sleep(2 * time.Millisecond)
			}
			time.Sleep(50 * time.Millisecond)
			if _, err := env.runOp("cdeleted"); err != nil {
				out.Err = "prefix (cdeleted) failed: " + err.Error()
				flush()
				return 0
			}
			_ = os.WriteFile(filepath.Join(*dir, "prefix_files"), []byte(strings.Join(env.c07CommittedFiles(), "\n")), 0o644)
			_ = os.WriteFile(filepath.Join(env.ip.StorePath, "11111111-2222-4333-8444-555555555555"), []byte("GLUON-CACHE\x01\x00\x00\x00stale"), 0o600)
			if *phase == "before" {
				if out.View, err = env.observe(); err != nil {
					out.Err = "observe: " + err.Error()
				}
				flush()
				env.sys.Close(false)
				return 0
			}
			uid := env.sys.UserID
			env.c.Close()
			env.sys.Close(false)
			fault.EarlyArm = true
			// modes +lost1 / +lostall: the cache is partly lost BEFORE the interrupted start-up already
			lose := os.Getenv("VH_C07_LOSE")
			if lose != "" {
				c07LoseCache(*dir, lose, *seed)
			}
			env2, err := newC07Sys(*dir, uid, 500000, fault)
			if err == nil && lose != "" {
				env2.conn.serve = true
			}
			if err != nil {
				// an injected error may make the start-up fail: the next start must cope (check phase)
				out.Outcome = "start-failed"
				out.Fired = true
				flush()
				return 0
			}
			out.Steps = env2.ip.Disarm()
			out.Outcome = "started"
			out.Fired = env2.ip.Fired()
			env = env2
		} else {
			if *phase == "before" {
				if out.View, err = env.observe(); err != nil {
					out.Err = "observe: " + err.Error()
				}
				flush()
				env.sys.Close(false)
				return 0
			}
			if err := env.ip.Arm(); err != nil {
				out.Err = "arm: " + err.Error()
				flush()
				return 0
			}
			outcome, oerr := env.runOp(*op)
			out.Steps = env.ip.Disarm()
			out.Outcome = outcome
			out.Fired = env.ip.Fired()
			if oerr != nil {
				out.Outcome += " (" + oerr.Error() + ")"
			}
		}
		if strings.HasPrefix(fault.Mode, "kill") {
			// the fault index is the end of the operation (or beyond): die now, without any shutdown
			flush()
			_ = syscall.Kill(os.Getpid(), syscall.SIGKILL)
			select {}
		}
		if out.View, err = env.observe(); err != nil {
			out.Err = "observe: " + err.Error()
		}
		out.Panics = env.sys.Panics.Take()
		flush()
		// a clean shutdown must terminate; if it does not, say so and leave without it
		done := make(chan struct{})
		go func() { env.sys.Close(false); close(done) }()
		select {
		case <-done:
		case <-time.After(8 * time.Second):
			out.CloseHang = true
			flush()
			os.Exit(0)
		}
		return 0
	}
	return 2
}

// ---- parent --------------------------------------------------------------------------------

type c07Run struct {
	Op   string
	Inst int
	Mode string // before, none, kill, err, killnonce, killhalf, errhalf
	Step int
}

func (r c07Run) String() string { return fmt.Sprintf("run %s %d %s %d", r.Op, r.Inst, r.Mode, r.Step) }

type c07Result struct {
	Run      c07Run
	Dir      string
	Killed   bool
	ExitErr  string
	Out      *c07RunOut
	Check    *c07CheckOut
	Duration time.Duration
}

func readJSON(path string, v any) bool {
	b, err := os.ReadFile(path)
	if err != nil {
		return false
	}
	return json.Unmarshal(b, v) == nil
}

func c07Exec(self string, seed uint64, r c07Run, keep bool) *c07Result {
	t0 := time.Now()
	res := &c07Result{Run: r}
	dir, err := os.MkdirTemp("", "vh-c07-")
	if err != nil {
		res.ExitErr = err.Error()
		return res
	}
	res.Dir = dir
	if !keep {
		defer os.RemoveAll(dir)
	}
	phase := "run"
	if r.Mode == "before" {
		phase = "before"
	}
	child := func(phase string, env []string) (killed bool, errText string) {
		cmd := exec.Command(self, "oracle", "c07child", "-dir", dir, "-phase", phase, "-op", r.Op, "-inst", fmt.Sprint(r.Inst), "-seed", fmt.Sprint(seed))
		cmd.Env = append(os.Environ(), env...)
		cmd.Stdout, cmd.Stderr = nil, nil
		done := make(chan error, 1)
		if err := cmd.Start(); err != nil {
			return false, err.Error()
		}
		go func() { done <- cmd.Wait() }()
		select {
		case err := <-done:
			if err != nil {
				if ee, ok := err.(*exec.ExitError); ok {
					if ws, ok := ee.Sys().(syscall.WaitStatus); ok && ws.Signaled() && ws.Signal() == syscall.SIGKILL {
						return true, ""
					}
				}
				return false, err.Error()
			}
			return false, ""
		case <-time.After(120 * time.Second):
			_ = cmd.Process.Kill()
			<-done
			return false, "timeout (120s): the child hung"
		}
	}
	baseMode, lose := c07BaseMode(r.Mode)
	env := []string{"VH_FAULT_MODE=" + baseMode, fmt.Sprintf("VH_FAULT_STEP=%d", r.Step), "VH_FAULT_LOG=" + filepath.Join(dir, "fault.log")}
	if r.Mode == "before" || r.Mode == "none" {
		env = []string{"VH_FAULT_MODE=none"}
	}
	if lose != "" {
		env = append(env, "VH_C07_LOSE="+lose)
	}
	res.Killed, res.ExitErr = child(phase, env)
	out := &c07RunOut{}
	if readJSON(filepath.Join(dir, "run.json"), out) {
		res.Out = out
	}
	if r.Mode != "before" && res.ExitErr == "" {
		_, cerr := child("check", []string{"VH_FAULT_MODE=none", "VH_C07_LOSE=" + lose})
		ck := &c07CheckOut{}
		if readJSON(filepath.Join(dir, "check.json"), ck) {
			res.Check = ck
		} else {
			res.Check = &c07CheckOut{Err: "check child produced nothing: " + cerr}
		}
	}
	res.Duration = time.Since(t0)
	return res
}

// c07Recovered: is `v` the view `base` plus a "Recovered Messages" mailbox holding exactly the literal `hash`?
func c07Recovered(v, base *c07View, hash string) bool {
	rm, ok := v.Mailboxes["Recovered Messages"]
	if !ok || len(rm.Msgs) != 1 || rm.Msgs[0].Hash != hash {
		return false
	}
	w := &c07View{Mailboxes: map[string]*c07Mbox{}}
	for _, s := range v.Subs {
		if s != "Recovered Messages" {
			w.Subs = append(w.Subs, s)
		}
	}
	for k, m := range v.Mailboxes {
		if k != "Recovered Messages" {
			w.Mailboxes[k] = m
		}
	}
	return w.canon() == base.canon()
}

type c07Ref struct {
	before, after *c07View
	steps         []string
	appendHash    string
}

// classify a view against the reference views.
func (ref *c07Ref) classify(r c07Run, v *c07View) string {
	if v == nil {
		return "noview"
	}
	c := v.canon()
	switch {
	case c == ref.before.canon() && c == ref.after.canon():
		return "same"
	case c == ref.before.canon():
		return "before"
	case c == ref.after.canon():
		return "after"
	}
	if bm, _ := c07BaseMode(r.Mode); r.Op == "append" && (bm == "err" || bm == "errhalf") {
		if c07Recovered(v, ref.before, ref.appendHash) {
			return "before+recovered"
		}
		if c07Recovered(v, ref.after, ref.appendHash) {
			return "after+recovered"
		}
	}
	return "OTHER"
}

// c07Signature names the recognisable shapes of a wrong view (stable text for known-finding patterns).
func c07Signature(r c07Run, class string, v *c07View) string {
	if class == "after+recovered" {
		return " signature=append-committed-then-error-duplicates-into-recovery-mailbox"
	}
	if r.Op == "redownload" && v != nil {
		for _, mb := range v.Mailboxes {
			for _, m := range mb.Msgs {
				if m.Size == 0 {
					return " signature=partial-cache-file-of-existing-row-served-as-empty-message"
				}
			}
		}
	}
	return ""
}

func c07Diff(a, b string) string {
	la, lb := strings.Split(a, "\n"), strings.Split(b, "\n")
	var out []string
	m := map[string]bool{}
	for _, l := range lb {
		m[l] = true
	}
	for _, l := range la {
		if !m[l] {
			out = append(out, "    got:    "+l)
		}
	}
	m = map[string]bool{}
	for _, l := range la {
		m[l] = true
	}
	for _, l := range lb {
		if !m[l] {
			out = append(out, "    wanted: "+l)
		}
	}
	return strings.Join(out, "\n")
}

// judge one fault run; returns violation descriptions (empty = fine) and the classification for the stats.
func (ref *c07Ref) judge(res *c07Result) (viol []string, class string) {
	r := res.Run
	stepName := "<end of operation>"
	if r.Step < len(ref.steps) {
		stepName = ref.steps[r.Step]
	}
	where := fmt.Sprintf("%s at step %d/%d (%s) of %q", r.Mode, r.Step, len(ref.steps), stepName, c07OpText(r.Op, r.Inst))
	if _, lose := c07BaseMode(r.Mode); lose != "" {
		n := 0
		if res.Check != nil {
			n = len(res.Check.Lost)
		}
		where += fmt.Sprintf(" [cache partly lost before the restart: %d cache file(s) of committed messages removed (%s), the connector serves the literals again]", n, lose)
	}
	if res.ExitErr != "" {
		return []string{fmt.Sprintf("%s: child failed: %s", where, res.ExitErr)}, "child-error"
	}
	kill := strings.HasPrefix(r.Mode, "kill")
	if kill && !res.Killed {
		return []string{fmt.Sprintf("%s: the child was supposed to die but exited normally", where)}, "not-killed"
	}
	if !kill {
		if res.Out == nil || res.Out.Err != "" {
			e := "no output"
			if res.Out != nil {
				e = res.Out.Err
			}
			return []string{fmt.Sprintf("%s: run phase failed: %s", where, e)}, "run-error"
		}
		if len(res.Out.Panics) > 0 {
			viol = append(viol, fmt.Sprintf("%s: server panic after the injected error: %s", where, strings.Join(res.Out.Panics, " | ")))
		}
		if res.Out.CloseHang {
			viol = append(viol, fmt.Sprintf("%s: server shutdown hangs: Server.Close did not return within 8 s after the failed step (operation answered %s)", where, res.Out.Outcome))
		}
		lc := "start-failed"
		if res.Out.Outcome != "start-failed" {
			lc = ref.classify(r, res.Out.View)
		}
		if lc == "OTHER" || lc == "after+recovered" || lc == "noview" {
			viol = append(viol, fmt.Sprintf("%s: LIVE view after the failed step (operation answered %s) is neither the before- nor the after-state [%s]%s\n%s", where, res.Out.Outcome, lc, c07Signature(r, lc, res.Out.View), c07Diff(res.Out.View.canon(), ref.before.canon())))
		}
		class = "live:" + lc + " "
	}
	ck := res.Check
	if ck == nil || ck.Err != "" || ck.View == nil {
		e := "no check output"
		if ck != nil {
			e = ck.Err
		}
		return append(viol, fmt.Sprintf("%s: the server could not be restarted / observed on the same directories: %s", where, e)), class + "restart-error"
	}
	if len(ck.Panics) > 0 {
		viol = append(viol, fmt.Sprintf("%s: server panic after restart: %s", where, strings.Join(ck.Panics, " | ")))
	}
	rc := ref.classify(r, ck.View)
	class += "restart:" + rc
	if rc == "OTHER" || rc == "after+recovered" {
		viol = append(viol, fmt.Sprintf("%s: RESTART view is neither the before- nor the after-state [%s]"+c07Signature(r, rc, ck.View)+"\n  versus before:\n%s\n  versus after:\n%s", where, rc, c07Diff(ck.View.canon(), ref.before.canon()), c07Diff(ck.View.canon(), ref.after.canon())))
	}
	for name, mb := range ck.View.Mailboxes {
		if mb.Err != "" {
			viol = append(viol, fmt.Sprintf("%s: after restart mailbox %q cannot be opened: %s", where, name, mb.Err))
		}
		for _, m := range mb.Msgs {
			if strings.HasPrefix(m.Hash, "ERR") {
				viol = append(viol, fmt.Sprintf("%s: after restart message UID %d of %q is listed but cannot be fetched (%s)", where, m.UID, name, m.Hash))
			}
		}
	}
	if ck.Audit != nil {
		if len(ck.Audit.Unreferenced) > 0 {
			viol = append(viol, fmt.Sprintf("%s: after start-up %d cache file(s) without a message row remain (of %d files, %d rows)", where, len(ck.Audit.Unreferenced), len(ck.Audit.StoreFiles), len(ck.Audit.Rows)))
		}
		if len(ck.Audit.MarkedDeleted) > 0 {
			viol = append(viol, fmt.Sprintf("%s: after start-up %d message(s) marked for deletion remain", where, len(ck.Audit.MarkedDeleted)))
		}
	}
	return viol, class
}

func c07FaultRuns(op string, inst int, steps []string, tier string) []c07Run {
	var runs []c07Run
	n := len(steps)
	for i := 0; i <= n; i++ {
		runs = append(runs, c07Run{op, inst, "kill", i})
	}
	for i := 0; i < n; i++ {
		runs = append(runs, c07Run{op, inst, "err", i})
		if strings.HasPrefix(steps[i], "store.Set:") {
			runs = append(runs, c07Run{op, inst, "killnonce", i}, c07Run{op, inst, "killhalf", i}, c07Run{op, inst, "errhalf", i})
		}
	}
	// restart states with a partly lost cache: rows without a file together with what the interrupted operation left.
	// Only where a file without a row can exist: from the first store.Set of the operation on (and the whole start-up
	// scenario, whose prefix plants a stale file).
	first := -1
	for i, s := range steps {
		if strings.HasPrefix(s, "store.Set:") {
			first = i
			break
		}
	}
	if op == "startup" {
		first = 0
	}
	// not for MessageUpdated: the REMOTE literal of an existing message has changed by then (remote side effects of an
	// interrupted operation are not rolled back, see the assumptions), so a download of the lost file of that message
	// rightly shows the new bytes under the old row - neither the before- nor the after-state, and no defect
	if op == "cupdated" {
		first = -1
	}
	if first >= 0 {
		for _, r := range append([]c07Run{}, runs...) {
			if r.Step < first {
				continue
			}
			for _, lose := range []string{"+lost1", "+lostall"} {
				runs = append(runs, c07Run{op, inst, r.Mode + lose, r.Step})
			}
		}
	}
	return runs
}

func runC07Crash(args []string) int {
	fs := flag.NewFlagSet("c07crash", flag.ExitOnError)
	seed := fs.Uint64("seed", 1, "")
	out := fs.String("out", "", "")
	replayDir := fs.String("replaydir", ".", "")
	replay := fs.String("replay", "", "")
	insts := fs.String("insts", "0", "comma separated instance numbers")
	opsFlag := fs.String("ops", "", "comma separated operations (default all)")
	workers := fs.Int("workers", 0, "")
	keep := fs.Bool("keep", false, "keep the directories of failing runs")
	_ = fs.Parse(args)
	self, err := os.Executable()
	if err != nil {
		fmt.Fprintln(os.Stderr, err)
		return 1
	}
	if *workers <= 0 {
		*workers = runtime.NumCPU() * 3 / 4
		if *workers < 2 {
			*workers = 2
		}
		if *workers > 12 {
			*workers = 12
		}
	}
	res := &OracleResult{Stats: map[string]int{}}
	if err := c07CheckInterfaces(); err != nil {
		// nothing can be enumerated faithfully: say so as a violation of the check itself
		path := filepath.Join(*replayDir, "C07-c07crash-interface.txt")
		_ = os.MkdirAll(*replayDir, 0o755)
		_ = os.WriteFile(path, []byte("oracle c07crash\n# "+err.Error()+"\n"), 0o644)
		res.Violations = append(res.Violations, OracleViol{Desc: "C07: " + err.Error(), Replay: path})
		if *out != "" {
			writeResult(*out, res)
		}
		return 0
	}
	ops := append(append([]string{}, c07Ops...), "startup")
	if *opsFlag != "" {
		ops = strings.Split(*opsFlag, ",")
	}
	var instList []int
	for _, s := range strings.Split(*insts, ",") {
		var k int
		fmt.Sscan(s, &k)
		instList = append(instList, k)
	}
	var only map[string][]c07Run // replay: (op/inst) -> runs
	if *replay != "" {
		b, err := os.ReadFile(*replay)
		if err != nil {
			fmt.Fprintln(os.Stderr, err)
			return 1
		}
		only = map[string][]c07Run{}
		for _, l := range strings.Split(string(b), "\n") {
			f := strings.Fields(l)
			if len(f) == 5 && f[0] == "run" {
				var r c07Run
				r.Op, r.Mode = f[1], f[3]
				fmt.Sscan(f[2], &r.Inst)
				fmt.Sscan(f[4], &r.Step)
				k := fmt.Sprintf("%s/%d", r.Op, r.Inst)
				only[k] = append(only[k], r)
			} else if len(f) >= 3 && f[0] == "oracle" {
				for i := 2; i+1 < len(f); i++ {
					if f[i] == "-seed" {
						fmt.Sscan(f[i+1], seed)
					}
				}
			}
		}
	}
	var mu sync.Mutex
	type found struct {
		run  c07Run
		desc string
	}
	var all []found
	report := func(r c07Run, desc string) {
		mu.Lock()
		defer mu.Unlock()
		all = append(all, found{r, desc})
		res.Stats["violation."+r.Op+"."+r.Mode]++
	}
	// emit: deterministic order; the first two failing runs per (operation, fault mode) get a replay file
	emit := func() {
		sort.Slice(all, func(i, j int) bool {
			a, b := all[i].run, all[j].run
			if a.Op != b.Op {
				return a.Op < b.Op
			}
			if a.Inst != b.Inst {
				return a.Inst < b.Inst
			}
			if a.Mode != b.Mode {
				return a.Mode < b.Mode
			}
			return a.Step < b.Step
		})
		// one entry per run (the view comparison and the trace judge may both object to the same run)
		var merged []found
		for _, f := range all {
			if n := len(merged); n > 0 && merged[n-1].run == f.run {
				merged[n-1].desc += "\n" + f.desc
			} else {
				merged = append(merged, f)
			}
		}
		all = merged
		nViol := map[string]int{}
		for _, f := range all {
			r := f.run
			sig := r.Op + "|" + r.Mode
			nViol[sig]++
			if nViol[sig] > 2 {
				continue
			}
			text := fmt.Sprintf("oracle c07crash -seed %d\n%s\n# property C07: %s\n# replay: ./check C07 --replay <this file>\n", *seed, r.String(), strings.ReplaceAll(f.desc, "\n", "\n# "))
			name := fmt.Sprintf("C07-c07crash-%s-%d-%s-%d-s%d.txt", r.Op, r.Inst, r.Mode, r.Step, *seed)
			path := filepath.Join(*replayDir, name)
			_ = os.MkdirAll(*replayDir, 0o755)
			_ = os.WriteFile(path, []byte(text), 0o644)
			res.Violations = append(res.Violations, OracleViol{Desc: "C07: " + f.desc, Replay: path})
		}
	}

	// traces of the runs with an injected error, for the Lean judge `judge-c07-fail` (structural fact 3 of
	// Theorems/C07: what the operation's error handler does to the store after the roll-back)
	type failTrace struct {
		run  c07Run
		line string
	}
	var failTraces []failTrace
	type job struct {
		run c07Run
		ref *c07Ref
	}
	jobs := make(chan job, 4096)
	var wg sync.WaitGroup
	for w := 0; w < *workers; w++ {
		wg.Add(1)
		go func() {
			defer wg.Done()
			for j := range jobs {
				r := c07Exec(self, *seed, j.run, *keep)
				viol, class := j.ref.judge(r)
				mu.Lock()
				if (j.run.Mode == "err" || j.run.Mode == "errhalf") && j.run.Op != "startup" && r.Out != nil && r.Out.Fired && len(r.Out.Steps) > 0 {
					failTraces = append(failTraces, failTrace{j.run, fmt.Sprintf("judge-c07-fail %s %d %s %d => %s %s", j.run.Op, j.run.Inst, j.run.Mode, j.run.Step,
						strings.Fields(r.Out.Outcome + " -")[0], strings.Join(r.Out.Steps, " "))})
				}
				res.Evaluations++
				res.Stats["runs."+j.run.Mode]++
				res.Stats["class."+j.run.Op+"."+class]++
				if strings.Contains(class, "before") && !strings.Contains(class, "same") || strings.Contains(class, "after") {
					res.DistinctNontrivial++
				}
				mu.Unlock()
				if len(viol) > 0 {
					report(j.run, strings.Join(viol, "\n"))
				}
			}
		}()
	}
	// reference runs (in parallel per scenario), then enqueue the fault runs
	var refWG sync.WaitGroup
	sem := make(chan struct{}, *workers)
	for _, op := range ops {
		for _, inst := range instList {
			key := fmt.Sprintf("%s/%d", op, inst)
			if only != nil && only[key] == nil {
				continue
			}
			// instances above 2 only vary the literal size: they matter for the operations that write the store
			if inst > 2 && only == nil && !map[string]bool{"append": true, "ccreate": true, "cupdated": true, "redownload": true}[op] {
				continue
			}
			op, inst := op, inst
			refWG.Add(1)
			sem <- struct{}{}
			go func() {
				defer refWG.Done()
				defer func() { <-sem }()
				rb := c07Exec(self, *seed, c07Run{op, inst, "before", 0}, false)
				rn := c07Exec(self, *seed, c07Run{op, inst, "none", 0}, false)
				bad := func(what string, r *c07Result) bool {
					if r.ExitErr != "" || r.Out == nil || r.Out.Err != "" || r.Out.View == nil {
						e := r.ExitErr
						if r.Out != nil {
							e += " " + r.Out.Err
						}
						report(c07Run{op, inst, what, 0}, fmt.Sprintf("reference run (%s) of %q failed without any fault: %s", what, c07OpText(op, inst), e))
						return true
					}
					return false
				}
				if bad("before", rb) || bad("none", rn) {
					return
				}
				ref := &c07Ref{before: rb.Out.View, after: rn.Out.View, steps: rn.Out.Steps}
				if op == "redownload" {
					ref.before = ref.after
				}
				if op == "append" {
					e := &c07Env{seed: *seed, inst: inst}
					sz := map[int]int{0: 0, 1: 70_000}
					n, ok := sz[inst]
					if !ok {
						n = c07Size(inst)
					}
					ref.appendHash = c07Hash(e.msg("mA", n))
				}
				mu.Lock()
				res.Stats["steps."+op+fmt.Sprintf(".%d", inst)] = len(ref.steps)
				res.Stats["scenarios"]++
				if len(res.Samples) < 3 {
					res.Samples = append(res.Samples, map[string]any{"operation": c07OpText(op, inst), "steps": ref.steps, "outcome": rn.Out.Outcome})
				}
				mu.Unlock()
				// clean shutdown + restart keeps the acknowledged state
				if rn.Check == nil || rn.Check.View == nil || rn.Check.View.canon() != ref.after.canon() {
					d := "no view"
					if rn.Check != nil && rn.Check.View != nil {
						d = c07Diff(rn.Check.View.canon(), ref.after.canon())
					} else if rn.Check != nil {
						d = rn.Check.Err
					}
					report(c07Run{op, inst, "none", 0}, fmt.Sprintf("clean close and reopen after %q does not show the acknowledged state:\n%s", c07OpText(op, inst), d))
				}
				if rn.Check != nil && rn.Check.Audit != nil && (len(rn.Check.Audit.Unreferenced) > 0 || len(rn.Check.Audit.MarkedDeleted) > 0) {
					report(c07Run{op, inst, "none", 0}, fmt.Sprintf("clean close and reopen after %q: left-overs after start-up: %d unreferenced cache files, %d rows marked deleted", c07OpText(op, inst), len(rn.Check.Audit.Unreferenced), len(rn.Check.Audit.MarkedDeleted)))
				}
				var runs []c07Run
				if only != nil {
					runs = only[key]
				} else {
					runs = c07FaultRuns(op, inst, ref.steps, "")
				}
				for _, r := range runs {
					if r.Mode == "none" || r.Mode == "before" {
						continue
					}
					jobs <- job{r, ref}
				}
			}()
		}
	}
	refWG.Wait()
	close(jobs)
	wg.Wait()
	// the error handlers on the real traces, judged by the Lean model
	if len(failTraces) > 0 {
		sort.Slice(failTraces, func(i, j int) bool { return failTraces[i].line < failTraces[j].line })
		lines := make([]string, len(failTraces))
		for i, ft := range failTraces {
			lines[i] = ft.line
		}
		if ans, err := leanJudge(lines); err != nil || len(ans) != len(lines) {
			res.Stats["failjudge.skipped-no-model-driver"] = len(lines)
		} else {
			for i, a := range ans {
				f := strings.Fields(a)
				switch {
				case strings.HasPrefix(a, "ok") && len(f) >= 3:
					res.Stats["failjudge."+f[0]+"."+f[1]+"."+f[2]]++
				case strings.HasPrefix(a, "ok"):
					res.Stats["failjudge."+strings.Join(f, ".")]++
				default:
					res.Stats["failjudge.violation"]++
					r := failTraces[i].run
					stepName := "?"
					if w := strings.Fields(lines[i]); r.Step+7 < len(w) {
						stepName = w[r.Step+7]
					}
					report(r, fmt.Sprintf("%s at step %d (%s) of %q: property judge (judge-c07-fail) on the recorded trace: %s\n  trace: %s", r.Mode, r.Step, stepName, c07OpText(r.Op, r.Inst), a, lines[i]))
				}
			}
		}
	}
	emit()
	if *out != "" {
		writeResult(*out, res)
	}
	b, _ := json.Marshal(res.Stats)
	fmt.Fprintln(os.Stderr, string(b))
	for _, v := range res.Violations {
		fmt.Fprintln(os.Stderr, "VIOL", v.Desc, v.Replay)
	}
	return 0
}

func init() {
	RegisterOracle(&Oracle{Name: "c07crash", Run: runC07Crash})
	RegisterOracle(&Oracle{Name: "c07child", Run: runC07Child})
}
