package main

// Facts/Chunk.lean (C03, C08): shape of the SQL call sites in
// internal/db_impl/sqlite3/{read_ops,write_ops}.go.
//
//   - db.ChunkLimit (db/client.go)
//   - every `for _, chunk := range xslices.Chunk(X, N)`: N as a divisor of ChunkLimit, and for every
//     query/exec call in the loop body the number of `?` in the statement text and the number and
//     origin (chunk / un-chunked X) of the bind arguments, both as polynomials in slice lengths
//   - every SQL text handed to utils.Exec*/Map*/Query*/PrepareStatement: its verb and whether
//     what follows FROM/INTO/UPDATE/TABLE/JOIN is a table name
//
// Deliberately shallow: anything outside the handful of idioms the two files use is emitted as
// the atom "?" / Src.unknown / false and makes the Lean fact theorems fail.

import (
	"bytes"
	"fmt"
	"go/ast"
	"go/parser"
	"go/printer"
	"go/token"
	"path/filepath"
	"sort"
	"strconv"
	"strings"
)

func init() { factGens = append(factGens, factGen{"Chunk", factsChunk}) }

// ---- polynomials over slice lengths ---------------------------------------------------------

type mono struct {
	coef  int
	atoms []string
}
type poly []mono

func polyConst(n int) poly {
	if n == 0 {
		return nil
	}
	return poly{{n, nil}}
}
func polyAtom(a string) poly { return poly{{1, []string{a}}} }
func polyUnknown() poly      { return polyAtom("?") }

func (p poly) norm() poly {
	m := map[string]int{}
	keys := map[string][]string{}
	for _, x := range p {
		at := append([]string{}, x.atoms...)
		sort.Strings(at)
		k := strings.Join(at, "\x00")
		m[k] += x.coef
		keys[k] = at
	}
	var ks []string
	for k := range m {
		if m[k] != 0 {
			ks = append(ks, k)
		}
	}
	sort.Strings(ks)
	var out poly
	for _, k := range ks {
		out = append(out, mono{m[k], keys[k]})
	}
	return out
}
func polyAdd(a, b poly) poly { return append(append(poly{}, a...), b...).norm() }
func polyMul(a, b poly) poly {
	var out poly
	for _, x := range a {
		for _, y := range b {
			out = append(out, mono{x.coef * y.coef, append(append([]string{}, x.atoms...), y.atoms...)})
		}
	}
	return out.norm()
}
func (p poly) lean() string {
	var parts []string
	for _, m := range p.norm() {
		var at []string
		for _, a := range m.atoms {
			at = append(at, leanStr(a))
		}
		parts = append(parts, fmt.Sprintf("⟨%d, [%s]⟩", m.coef, strings.Join(at, ", ")))
	}
	return "[" + strings.Join(parts, ", ") + "]"
}

// ---- analysis of one function ------------------------------------------------------------------

type chunkStmt struct {
	ph   poly
	src  string // chunk | whole | unknown
	argc poly
	line int
}
type chunkSite struct {
	fn, file, over string
	line           int
	limitDiv       int
	stride         int
	stmts          []chunkStmt
}
type sqlStmt struct {
	fn, file, verb  string
	line            int
	verbOk, tableOk bool
}

type fnCtx struct {
	c    *factsCtx
	fd   *ast.FuncDecl
	file string
}

func exprText(fset *token.FileSet, e ast.Node) string {
	var b bytes.Buffer
	_ = printer.Fprint(&b, fset, e)
	return b.String()
}

// unwrap generic instantiation: utils.MapQueryRows[T](...) -> utils.MapQueryRows
func callQualified(call *ast.CallExpr) string {
	f := call.Fun
	if ix, ok := f.(*ast.IndexExpr); ok {
		f = ix.X
	}
	if ix, ok := f.(*ast.IndexListExpr); ok {
		f = ix.X
	}
	switch f := f.(type) {
	case *ast.Ident:
		return f.Name
	case *ast.SelectorExpr:
		if x, ok := f.X.(*ast.Ident); ok {
			return x.Name + "." + f.Sel.Name
		}
		return "_." + f.Sel.Name
	}
	return ""
}

// queryCallShape: index of the query text argument and of the first bind argument; ok=false if not a query call.
func queryCallShape(call *ast.CallExpr) (q, first int, ok bool) {
	switch callQualified(call) {
	case "utils.ExecQuery", "utils.ExecQueryAndCheckUpdatedNotZero", "utils.MapQueryRows", "utils.MapQueryRow", "utils.QueryExists":
		return 2, 3, true
	case "utils.MapQueryRowsFn", "utils.MapQueryRowFn", "utils.QueryForEachRow":
		return 2, 4, true
	}
	return 0, 0, false
}

// chunkLoop recognises `for _, v := range xslices.Chunk(X, N)`.
func chunkLoop(n ast.Node) (rs *ast.RangeStmt, x, nexpr ast.Expr, ok bool) {
	rs, ok = n.(*ast.RangeStmt)
	if !ok {
		return nil, nil, nil, false
	}
	call, ok := rs.X.(*ast.CallExpr)
	if !ok || callQualified(call) != "xslices.Chunk" || len(call.Args) != 2 {
		return nil, nil, nil, false
	}
	return rs, call.Args[0], call.Args[1], true
}

type loopCtx struct {
	f        *fnCtx
	chunkVar string
	overText string
	body     *ast.BlockStmt
}

// atomOf names the slice whose length is taken.
func (l *loopCtx) atomOf(e ast.Expr) string {
	t := exprText(l.f.c.fset, e)
	switch t {
	case l.chunkVar:
		return "chunk"
	case l.overText:
		return "whole"
	}
	if id, ok := e.(*ast.Ident); ok {
		return id.Name
	}
	return "?"
}

// countExpr: an int-valued Go expression as a polynomial in slice lengths.
func (l *loopCtx) countExpr(e ast.Expr) poly {
	switch e := e.(type) {
	case *ast.ParenExpr:
		return l.countExpr(e.X)
	case *ast.BasicLit:
		if n, err := strconv.Atoi(e.Value); err == nil {
			return polyConst(n)
		}
	case *ast.CallExpr:
		if callQualified(e) == "len" && len(e.Args) == 1 {
			return polyAtom(l.atomOf(e.Args[0]))
		}
		if sel, ok := e.Fun.(*ast.SelectorExpr); ok && sel.Sel.Name == "Len" && len(e.Args) == 0 {
			return polyAtom(l.atomOf(sel.X))
		}
	case *ast.BinaryExpr:
		switch e.Op {
		case token.MUL:
			return polyMul(l.countExpr(e.X), l.countExpr(e.Y))
		case token.ADD:
			return polyAdd(l.countExpr(e.X), l.countExpr(e.Y))
		case token.QUO:
			if lit, ok := e.Y.(*ast.BasicLit); ok {
				if c, ok := e.X.(*ast.CallExpr); ok && callQualified(c) == "len" && len(c.Args) == 1 {
					if a := l.atomOf(c.Args[0]); a != "?" {
						return polyAtom(a + "/" + lit.Value)
					}
				}
			}
		}
	}
	return polyUnknown()
}

// stmtsBefore: the simple statements of the loop body (not inside nested chunk loops), in order, with
// the enclosing `for … range R` loops of each.
type flatStmt struct {
	s      ast.Stmt
	ranges []ast.Expr // range expressions of the enclosing plain for-range loops inside the chunk loop
}

func (l *loopCtx) flatten(b *ast.BlockStmt, ranges []ast.Expr, out *[]flatStmt) {
	for _, s := range b.List {
		switch s := s.(type) {
		case *ast.BlockStmt:
			l.flatten(s, ranges, out)
		case *ast.RangeStmt:
			if _, _, _, ok := chunkLoop(s); ok {
				continue // a nested chunk loop is a site of its own
			}
			l.flatten(s.Body, append(append([]ast.Expr{}, ranges...), s.X), out)
		case *ast.IfStmt:
			*out = append(*out, flatStmt{s, ranges})
			// `if _, err := utils.ExecQuery(...); err != nil {` : the call lives in s.Init, handled by the caller
		default:
			*out = append(*out, flatStmt{s, ranges})
		}
	}
}

// definition of identifier `name` visible at position pos: last `name := …` / `name = …` before pos
// in the loop body, else in the function body (before the loop).
func (l *loopCtx) definition(name string, pos token.Pos, where ast.Node) ast.Expr {
	var found ast.Expr
	ast.Inspect(where, func(n ast.Node) bool {
		as, ok := n.(*ast.AssignStmt)
		if !ok || as.Pos() >= pos {
			return true
		}
		for i, lhs := range as.Lhs {
			if id, ok := lhs.(*ast.Ident); ok && id.Name == name && i < len(as.Rhs) && len(as.Lhs) == len(as.Rhs) {
				if c, ok := as.Rhs[i].(*ast.CallExpr); ok && callQualified(c) == "append" {
					continue // growth of a slice is handled by sliceShape
				}
				found = as.Rhs[i]
			}
		}
		return true
	})
	return found
}

// placeholders of a query text expression
func (l *loopCtx) placeholders(q ast.Expr, pos token.Pos) poly {
	switch e := q.(type) {
	case *ast.Ident:
		if d := l.definition(e.Name, pos, l.body); d != nil {
			return l.placeholders(d, d.Pos())
		}
		if d := l.definition(e.Name, pos, l.f.fd.Body); d != nil {
			return l.placeholders(d, d.Pos())
		}
		return polyUnknown()
	case *ast.BasicLit:
		if e.Kind == token.STRING {
			s, _ := strconv.Unquote(e.Value)
			return polyConst(strings.Count(s, "?"))
		}
	case *ast.BinaryExpr:
		if e.Op == token.ADD {
			return polyAdd(l.placeholders(e.X, pos), l.placeholders(e.Y, pos))
		}
	case *ast.SelectorExpr:
		return nil // a constant such as v1.MailboxesTableName: no placeholder
	case *ast.CallExpr:
		switch callQualified(e) {
		case "fmt.Sprintf":
			p := poly{}
			for _, a := range e.Args {
				p = polyAdd(p, l.placeholders(a, pos))
			}
			return p
		case "utils.GenSQLIn":
			if len(e.Args) == 1 {
				return l.countExpr(e.Args[0])
			}
		case "strings.Join":
			if len(e.Args) == 2 {
				if r, ok := e.Args[0].(*ast.CallExpr); ok && callQualified(r) == "xslices.Repeat" && len(r.Args) == 2 {
					if lit, ok := r.Args[0].(*ast.BasicLit); ok && lit.Kind == token.STRING {
						s, _ := strconv.Unquote(lit.Value)
						return polyMul(polyConst(strings.Count(s, "?")), l.countExpr(r.Args[1]))
					}
				}
			}
		default:
			if strings.HasSuffix(callQualified(e), "TableName") {
				return nil
			}
		}
	}
	return polyUnknown()
}

type shape struct {
	n      poly
	chunk  bool // built from the chunk variable
	whole  bool // built from the un-chunked slice
	unkSrc bool
}

func (a shape) plus(b shape) shape {
	return shape{polyAdd(a.n, b.n), a.chunk || b.chunk, a.whole || b.whole, a.unkSrc || b.unkSrc}
}

func (l *loopCtx) sliceOrigin(e ast.Expr, sh *shape) string {
	a := l.atomOf(e)
	switch a {
	case "chunk":
		sh.chunk = true
	case "whole":
		sh.whole = true
	case "?":
		sh.unkSrc = true
	}
	return a
}

// sliceShape: length and origin of a slice-valued expression used as bind arguments.
func (l *loopCtx) sliceShape(e ast.Expr, pos token.Pos, depth int) shape {
	if depth > 6 {
		return shape{n: polyUnknown(), unkSrc: true}
	}
	switch e := e.(type) {
	case *ast.Ident:
		if e.Name == l.chunkVar {
			return shape{n: polyAtom("chunk"), chunk: true}
		}
		// a local accumulator: its definition plus every append to it inside the loop body before pos
		def := l.definition(e.Name, pos, l.body)
		if def == nil {
			var sh shape
			a := l.sliceOrigin(e, &sh)
			sh.n = polyAtom(a)
			return sh
		}
		sh := l.sliceShape(def, def.Pos(), depth+1)
		var flat []flatStmt
		l.flatten(l.body, nil, &flat)
		for _, fs := range flat {
			as, ok := fs.s.(*ast.AssignStmt)
			if !ok || as.Pos() >= pos || as.Pos() <= def.Pos() || len(as.Lhs) != 1 || len(as.Rhs) != 1 {
				continue
			}
			if id, ok := as.Lhs[0].(*ast.Ident); !ok || id.Name != e.Name {
				continue
			}
			call, ok := as.Rhs[0].(*ast.CallExpr)
			if !ok || callQualified(call) != "append" || len(call.Args) < 1 || exprText(l.f.c.fset, call.Args[0]) != e.Name {
				sh.n, sh.unkSrc = polyUnknown(), true
				continue
			}
			add := l.appendTail(call, pos, depth)
			for _, r := range fs.ranges {
				var rs shape
				a := l.sliceOrigin(r, &rs)
				add.n = polyMul(add.n, polyAtom(a))
				add.chunk, add.whole, add.unkSrc = add.chunk || rs.chunk, add.whole || rs.whole, add.unkSrc || rs.unkSrc
			}
			sh = sh.plus(add)
		}
		return sh
	case *ast.CallExpr:
		switch callQualified(e) {
		case "make":
			return shape{}
		case "utils.MapSliceToAny":
			if len(e.Args) == 1 {
				var sh shape
				a := l.sliceOrigin(e.Args[0], &sh)
				sh.n = polyAtom(a)
				return sh
			}
		case "append":
			if len(e.Args) >= 1 {
				return l.sliceShape(e.Args[0], pos, depth+1).plus(l.appendTail(e, pos, depth))
			}
		}
	}
	return shape{n: polyUnknown(), unkSrc: true}
}

// what `append(S, tail…)` adds to S
func (l *loopCtx) appendTail(call *ast.CallExpr, pos token.Pos, depth int) shape {
	if call.Ellipsis.IsValid() {
		if len(call.Args) != 2 {
			return shape{n: polyUnknown(), unkSrc: true}
		}
		return l.sliceShape(call.Args[1], pos, depth+1)
	}
	return shape{n: polyConst(len(call.Args) - 1)}
}

func (l *loopCtx) analyseCall(call *ast.CallExpr) (chunkStmt, bool) {
	qi, first, ok := queryCallShape(call)
	if !ok || len(call.Args) <= qi {
		return chunkStmt{}, false
	}
	_, line := l.f.c.pos(call.Pos())
	st := chunkStmt{line: line}
	st.ph = l.placeholders(call.Args[qi], call.Pos())
	sh := shape{}
	args := call.Args[min(first, len(call.Args)):]
	for i, a := range args {
		if i == len(args)-1 && call.Ellipsis.IsValid() {
			sh = sh.plus(l.sliceShape(a, call.Pos(), 0))
		} else {
			sh = sh.plus(shape{n: polyConst(1)})
		}
	}
	st.argc = sh.n.norm()
	switch {
	case sh.unkSrc:
		st.src = "unknown"
	case sh.whole:
		st.src = "whole"
	case sh.chunk:
		st.src = "chunk"
	default:
		st.src = "unknown"
	}
	return st, true
}

// stride of the chunked slice: k if it is a local []any only ever grown by append(X, v1..vk).
func (f *fnCtx) strideOf(x ast.Expr) int {
	id, ok := x.(*ast.Ident)
	if !ok {
		return 1
	}
	for _, fl := range f.fd.Type.Params.List {
		for _, n := range fl.Names {
			if n.Name == id.Name {
				return 1
			}
		}
	}
	k := 0
	bad := false
	ast.Inspect(f.fd.Body, func(n ast.Node) bool {
		call, ok := n.(*ast.CallExpr)
		if !ok || callQualified(call) != "append" || len(call.Args) < 1 || exprText(f.c.fset, call.Args[0]) != id.Name {
			return true
		}
		if call.Ellipsis.IsValid() {
			bad = true
			return true
		}
		n2 := len(call.Args) - 1
		if k != 0 && k != n2 {
			bad = true
		}
		k = n2
		return true
	})
	if bad || k == 0 {
		return 0
	}
	return k
}

func (f *fnCtx) chunkSites(sites *[]chunkSite) {
	var visit func(n ast.Node, outer string)
	visit = func(n ast.Node, outer string) {
		ast.Inspect(n, func(m ast.Node) bool {
			if m == n {
				return true
			}
			rs, x, nexpr, ok := chunkLoop(m)
			if !ok {
				return true
			}
			l := &loopCtx{f: f, chunkVar: identLit(rs.Value), overText: exprText(f.c.fset, x), body: rs.Body}
			_, line := f.c.pos(rs.Pos())
			name := f.fd.Name.Name
			if outer != "" {
				name = outer + "." + l.overText
			}
			site := chunkSite{fn: name, file: f.file, line: line, over: l.overText, stride: f.strideOf(x)}
			if exprText(f.c.fset, nexpr) == "db.ChunkLimit" {
				site.limitDiv = 1
			} else if be, ok := nexpr.(*ast.BinaryExpr); ok && be.Op == token.QUO && exprText(f.c.fset, be.X) == "db.ChunkLimit" {
				if lit, ok := be.Y.(*ast.BasicLit); ok {
					if k, err := strconv.Atoi(lit.Value); err == nil && k > 0 {
						site.limitDiv = k
					}
				}
			}
			if l.chunkVar == "" || l.chunkVar == "_" {
				site.limitDiv = 0
			}
			// query calls of this loop, excluding nested chunk loops
			var calls []*ast.CallExpr
			var walk func(n ast.Node)
			walk = func(n ast.Node) {
				ast.Inspect(n, func(k ast.Node) bool {
					if k != n {
						if _, _, _, ok := chunkLoop(k); ok {
							return false
						}
					}
					if c, ok := k.(*ast.CallExpr); ok {
						if _, _, ok := queryCallShape(c); ok {
							calls = append(calls, c)
						}
					}
					return true
				})
			}
			walk(rs.Body)
			sort.Slice(calls, func(i, j int) bool { return calls[i].Pos() < calls[j].Pos() })
			for _, c := range calls {
				if st, ok := l.analyseCall(c); ok {
					site.stmts = append(site.stmts, st)
				}
			}
			*sites = append(*sites, site)
			visit(rs.Body, f.fd.Name.Name) // nested chunk loops
			return false
		})
	}
	visit(f.fd.Body, "")
}

// ---- SQL text shape ----------------------------------------------------------------------------

var sqlVerbs = map[string]bool{"SELECT": true, "INSERT": true, "UPDATE": true, "DELETE": true, "DROP": true, "CREATE": true}

// formatText: concatenated literal format string of a Sprintf first argument / a plain literal.
func formatText(e ast.Expr) (string, bool) {
	switch e := e.(type) {
	case *ast.BasicLit:
		if e.Kind == token.STRING {
			s, err := strconv.Unquote(e.Value)
			return s, err == nil
		}
	case *ast.BinaryExpr:
		if e.Op == token.ADD {
			a, ok1 := formatText(e.X)
			b, ok2 := formatText(e.Y)
			return a + b, ok1 && ok2
		}
	case *ast.ParenExpr:
		return formatText(e.X)
	}
	return "", false
}

func isTableNameExpr(e ast.Expr) bool {
	switch e := e.(type) {
	case *ast.SelectorExpr:
		return strings.HasSuffix(e.Sel.Name, "TableName")
	case *ast.Ident:
		return strings.HasSuffix(e.Name, "TableName") || strings.HasSuffix(e.Name, "tableName")
	case *ast.CallExpr:
		return strings.HasSuffix(callQualified(e), "TableName")
	}
	return false
}

// tableSlotsOK: every word that follows FROM/INTO/UPDATE/TABLE/JOIN is a literal identifier or a
// format verb whose argument is a table name.
func tableSlotsOK(format string, args []ast.Expr) bool {
	// map each %v / %[n]v occurrence to its argument index (fmt semantics)
	type verb struct{ pos, end, arg int }
	var verbs []verb
	next := 0
	for i := 0; i < len(format); i++ {
		if format[i] != '%' {
			continue
		}
		j := i + 1
		if j < len(format) && format[j] == '%' {
			i = j
			continue
		}
		idx := next
		if j < len(format) && format[j] == '[' {
			k := strings.IndexByte(format[j:], ']')
			if k < 0 {
				return false
			}
			n, err := strconv.Atoi(format[j+1 : j+k])
			if err != nil {
				return false
			}
			idx = n - 1
			j += k + 1
		}
		if j >= len(format) {
			return false
		}
		verbs = append(verbs, verb{i, j + 1, idx})
		next = idx + 1
		i = j
	}
	argAt := func(pos int) (ast.Expr, bool) {
		for _, v := range verbs {
			if v.pos == pos {
				if v.arg < 0 || v.arg >= len(args) {
					return nil, false
				}
				return args[v.arg], true
			}
		}
		return nil, false
	}
	words := strings.Fields(format)
	off := 0
	ok := true
	for i, w := range words {
		p := strings.Index(format[off:], w) + off
		off = p + len(w)
		if i == 0 {
			continue
		}
		switch strings.ToUpper(words[i-1]) {
		case "FROM", "INTO", "UPDATE", "TABLE", "JOIN":
		default:
			continue
		}
		name := strings.Trim(w, "`(),")
		if strings.HasPrefix(name, "%") {
			a, found := argAt(p + strings.Index(w, "%"))
			if !found || !isTableNameExpr(a) {
				ok = false
			}
		} else if name == "" || strings.ContainsAny(name, "%?'") {
			ok = false
		}
	}
	return ok
}

func (f *fnCtx) sqlStmts(out *[]sqlStmt) {
	resolve := func(e ast.Expr, pos token.Pos) ast.Expr {
		if id, ok := e.(*ast.Ident); ok {
			l := &loopCtx{f: f, body: f.fd.Body}
			if d := l.definition(id.Name, pos, f.fd.Body); d != nil {
				return d
			}
		}
		return e
	}
	ast.Inspect(f.fd.Body, func(n ast.Node) bool {
		call, ok := n.(*ast.CallExpr)
		if !ok {
			return true
		}
		qi := -1
		if q, _, ok := queryCallShape(call); ok {
			qi = q
		} else if sel, ok := call.Fun.(*ast.SelectorExpr); ok && sel.Sel.Name == "PrepareStatement" {
			qi = 1
		}
		if qi < 0 || len(call.Args) <= qi {
			return true
		}
		_, line := f.c.pos(call.Pos())
		st := sqlStmt{fn: f.fd.Name.Name, file: f.file, line: line, verb: "?"}
		q := resolve(call.Args[qi], call.Pos())
		var format string
		var args []ast.Expr
		fok := false
		if c, ok := q.(*ast.CallExpr); ok && strings.HasPrefix(callQualified(c), "v1.") {
			// a query built by a helper of package v1 (CreateMailboxMessageTableQuery): use the Sprintf it returns
			if r := f.c.v1Return(strings.TrimPrefix(callQualified(c), "v1.")); r != nil {
				q = r
			}
		}
		if c, ok := q.(*ast.CallExpr); ok && callQualified(c) == "fmt.Sprintf" && len(c.Args) >= 1 {
			format, fok = formatText(c.Args[0])
			args = c.Args[1:]
		} else {
			format, fok = formatText(q)
		}
		if fok {
			if w := strings.Fields(format); len(w) > 0 {
				st.verb = strings.ToUpper(w[0])
				st.verbOk = sqlVerbs[st.verb]
			}
			st.tableOk = tableSlotsOK(format, args)
		}
		*out = append(*out, st)
		return true
	})
}

// v1Return: the expression returned by function `name` of internal/db_impl/sqlite3/v1 (single return statement).
func (c *factsCtx) v1Return(name string) ast.Expr {
	for _, f := range c.parseDir("internal/db_impl/sqlite3/v1") {
		for _, d := range f.Decls {
			fd, ok := d.(*ast.FuncDecl)
			if !ok || fd.Name.Name != name || fd.Body == nil {
				continue
			}
			var out ast.Expr
			n := 0
			ast.Inspect(fd.Body, func(k ast.Node) bool {
				if r, ok := k.(*ast.ReturnStmt); ok && len(r.Results) == 1 {
					out = r.Results[0]
					n++
				}
				return true
			})
			if n == 1 {
				return out
			}
		}
	}
	return nil
}

// ---- driver ---------------------------------------------------------------------------------

func factsChunk(c *factsCtx, outdir string) error {
	// db.ChunkLimit
	limit := 0
	for _, f := range c.parseDir("db") {
		for _, d := range f.Decls {
			gd, ok := d.(*ast.GenDecl)
			if !ok || gd.Tok != token.CONST {
				continue
			}
			for _, s := range gd.Specs {
				vs := s.(*ast.ValueSpec)
				for i, n := range vs.Names {
					if n.Name == "ChunkLimit" && i < len(vs.Values) {
						if lit, ok := vs.Values[i].(*ast.BasicLit); ok {
							limit, _ = strconv.Atoi(lit.Value)
						}
					}
				}
			}
		}
	}
	var sites []chunkSite
	var sqls []sqlStmt
	for _, name := range []string{"read_ops.go", "write_ops.go"} {
		rel := filepath.Join("internal/db_impl/sqlite3", name)
		af, err := parser.ParseFile(c.fset, filepath.Join(c.repo, rel), nil, 0)
		if err != nil {
			return err
		}
		for _, d := range af.Decls {
			fd, ok := d.(*ast.FuncDecl)
			if !ok || fd.Body == nil {
				continue
			}
			f := &fnCtx{c: c, fd: fd, file: rel}
			f.chunkSites(&sites)
			f.sqlStmts(&sqls)
		}
	}
	var b strings.Builder
	b.WriteString("import GluonModel.Model.DBSite\n\nnamespace Gluon.Facts\nopen Gluon.DB\n\n")
	fmt.Fprintf(&b, "/-- `db.ChunkLimit` (db/client.go); 0 = not found -/\ndef chunkLimit : Nat := %d\n\n", limit)
	b.WriteString("/-- every `for _, chunk := range xslices.Chunk(X, N)` in internal/db_impl/sqlite3/{read,write}_ops.go -/\n")
	b.WriteString("def chunkSites : List ChunkSite := [\n")
	for i, s := range sites {
		sep := ","
		if i == len(sites)-1 {
			sep = ""
		}
		fmt.Fprintf(&b, "  -- %s:%d  for … range xslices.Chunk(%s, ChunkLimit/%d)\n", s.file, s.line, s.over, s.limitDiv)
		fmt.Fprintf(&b, "  { fn := %s, file := %s, line := %d, over := %s, limitDiv := %d, stride := %d, stmts := [\n", leanStr(s.fn), leanStr(s.file), s.line, leanStr(s.over), s.limitDiv, s.stride)
		for j, st := range s.stmts {
			sep2 := ","
			if j == len(s.stmts)-1 {
				sep2 = ""
			}
			fmt.Fprintf(&b, "      { ph := %s, args := .%s, argc := %s }%s  -- line %d\n", st.ph.lean(), st.src, st.argc.lean(), sep2, st.line)
		}
		fmt.Fprintf(&b, "    ] }%s\n", sep)
	}
	b.WriteString("]\n\n")
	b.WriteString("structure SqlStmt where\n  fn : String\n  file : String\n  line : Nat\n  verb : String\n  verbOk : Bool\n  tableOk : Bool\nderiving DecidableEq, Repr\n\n")
	b.WriteString("/-- every SQL text handed to utils.Exec*/Map*/Query*/PrepareStatement in the two files: first word, whether it is an SQL verb,\n    whether every FROM/INTO/UPDATE/TABLE/JOIN is followed by a table name -/\n")
	b.WriteString("def sqlStmts : List SqlStmt := [\n")
	for i, s := range sqls {
		sep := ","
		if i == len(sqls)-1 {
			sep = ""
		}
		fmt.Fprintf(&b, "  { fn := %s, file := %s, line := %d, verb := %s, verbOk := %v, tableOk := %v }%s\n", leanStr(s.fn), leanStr(s.file), s.line, leanStr(s.verb), s.verbOk, s.tableOk, sep)
	}
	b.WriteString("]\n\n")
	b.WriteString("/-- the loop of Go function `fn` (inner loops are named `<Func>.<X>`); unknown if there is none -/\n")
	b.WriteString("def site (fn : String) : ChunkSite := (chunkSites.find? (·.fn == fn)).getD (ChunkSite.unknown fn)\n\n")
	b.WriteString("/-- all SQL texts of Go function `fn` are well-formed (and there is at least one) -/\n")
	b.WriteString("def sqlOk (fn : String) : Bool :=\n  let l := sqlStmts.filter (·.fn == fn)\n  !l.isEmpty && l.all fun s => s.verbOk && s.tableOk\n\n")
	b.WriteString("end Gluon.Facts\n")
	return writeLean(outdir, "Chunk.lean", b.String())
}
