package main

// Dialect `sys` (C01, C02): a whole multi-session history, run on the REAL server (over TCP, a connector
// without echo, the hold / release / barrier hooks) and on the Lean system model
// (lean/GluonModel/Model/System.lean through Driver/DSys.lean). Syntax and output format: see DSys.lean.
//
// Scheduling is the history runner's (hist.go): before every session step all sessions have applied what
// is queued for them (state barrier), except that a session under `X HOLD` gets its updates only on
// `X RELEASE i k` (the model's `drain i k`). A held session that runs a command while updates are withheld
// is the "own update overtakes an earlier foreign one" schedule.

import (
	"database/sql"
	"fmt"
	"io"
	"path/filepath"
	"sort"
	"strconv"
	"strings"
	"time"

	"github.com/ProtonMail/gluon/imap"
)

var sysmMboxNames = []string{"INBOX", "mb1", "mb2"}

func sysmMboxRemote(name string) imap.MailboxID {
	if name == "INBOX" {
		return "0"
	}
	return imap.MailboxID(name)
}

type sysmRunner struct {
	sys      *Sys
	conn     *ScriptConn
	cl       []*Client
	stateID  []int64
	held     []bool
	selected []string
	rids     []string // remote id of the k-th message created in the history (index k-1)
	nconn    int
	outs     []string
	sqldb    *sql.DB
}

func sysmProperFlag(f string) string {
	if strings.HasPrefix(f, `\`) && len(f) > 1 {
		return `\` + strings.ToUpper(f[1:2]) + strings.ToLower(f[2:])
	}
	return f
}

func sysmFlagList(s string, sep string) string {
	var out []string
	for _, f := range splitNonEmpty(s, ",") {
		out = append(out, sysmProperFlag(f))
	}
	return strings.Join(out, sep)
}

func sysmFlagSet(s string) imap.FlagSet {
	fs := imap.NewFlagSet()
	for _, f := range splitNonEmpty(s, ",") {
		fs.AddToSelf(sysmProperFlag(f))
	}
	return fs
}

func sysmNew(n int) (*sysmRunner, error) {
	conn := NewScriptConn()
	sys, err := NewSysScript(conn, SysOpts{})
	if err != nil {
		return nil, err
	}
	r := &sysmRunner{sys: sys, conn: conn}
	fl := cuScriptFlagSet()
	for _, m := range sysmMboxNames {
		res := conn.Push(imap.NewMailboxCreated(imap.Mailbox{ID: sysmMboxRemote(m), Name: []string{m}, Flags: fl, PermanentFlags: fl, Attributes: imap.NewFlagSet()}), 10*time.Second)
		if !res.Acked || res.Err != nil {
			r.Close()
			return nil, fmt.Errorf("mailbox %s: %+v", m, res)
		}
	}
	for i := 0; i < n; i++ {
		before := map[int64]bool{}
		for _, st := range sys.Server.VerifStates(sys.UserID) {
			before[int64(st.ID)] = true
		}
		c, err := sys.Dial(fmt.Sprintf("s%dx", i))
		if err != nil {
			r.Close()
			return nil, err
		}
		r.cl = append(r.cl, c)
		if rep := c.Login("user"); rep.Status != "OK" {
			r.Close()
			return nil, fmt.Errorf("login: %v", rep)
		}
		var id int64
		for _, st := range sys.Server.VerifStates(sys.UserID) {
			if !before[int64(st.ID)] {
				id = int64(st.ID)
			}
		}
		r.stateID = append(r.stateID, id)
		r.held = append(r.held, false)
		r.selected = append(r.selected, "")
	}
	return r, nil
}

func (r *sysmRunner) Close() {
	for i, c := range r.cl {
		if r.held[i] {
			r.sys.Server.VerifRelease(r.stateID[i], -1, true)
		}
		c.Close()
	}
	if r.sqldb != nil {
		_ = r.sqldb.Close()
	}
	r.sys.Close(true)
}

// dbFlags: the flags the index holds for the message with this remote id.
func (r *sysmRunner) dbFlags(rid string) (imap.FlagSet, error) {
	if r.sqldb == nil {
		path := filepath.Join(r.sys.Dir, "db", r.sys.UserID+".db")
		d, err := sql.Open("sqlite3", "file:"+path+"?mode=ro&_journal=WAL&_busy_timeout=5000")
		if err != nil {
			return nil, err
		}
		r.sqldb = d
	}
	var s string
	if err := r.sqldb.QueryRow("SELECT COALESCE((SELECT GROUP_CONCAT(f.value, ' ') FROM message_flags_v2 AS f WHERE f.message_id = m.id), '') FROM messages_v2 AS m WHERE m.remote_id = ?", rid).Scan(&s); err != nil {
		return nil, err
	}
	return imap.NewFlagSet(strings.Fields(s)...), nil
}

// sysmCanonResps: EXISTS / EXPUNGE / FETCH in the codec's form, without RECENT and `\recent`, every run of
// consecutive FETCHes ordered by sequence number (gluon produces them in database row order).
func sysmCanonResps(untagged []string) string {
	var items []string
	for _, u := range untagged {
		c := canonResp(u)
		switch {
		case strings.HasPrefix(c, "E"), strings.HasPrefix(c, "X"):
			items = append(items, c)
		case strings.HasPrefix(c, "F"):
			p := strings.Split(c[1:], ":")
			if len(p) == 3 && p[1] != "~" {
				var fl []string
				for _, f := range parseFlags(p[1]) {
					if f != `\recent` {
						fl = append(fl, f)
					}
				}
				p[1] = showFlags(fl)
			}
			items = append(items, "F"+strings.Join(p, ":"))
		}
	}
	seqOf := func(s string) int {
		n, _ := strconv.Atoi(strings.SplitN(s[1:], ":", 2)[0])
		return n
	}
	for i := 0; i < len(items); {
		if items[i][0] != 'F' {
			i++
			continue
		}
		j := i
		for j < len(items) && items[j][0] == 'F' {
			j++
		}
		run := items[i:j]
		sort.SliceStable(run, func(a, b int) bool { return seqOf(run[a]) < seqOf(run[b]) })
		i = j
	}
	if len(items) == 0 {
		return "-"
	}
	return strings.Join(items, ";")
}

func sysmShowView(ms []FetchedMsg) string {
	if len(ms) == 0 {
		return "-"
	}
	var parts []string
	for _, m := range ms {
		var fl []string
		for _, f := range m.Flags {
			if !strings.EqualFold(f, `\Recent`) {
				fl = append(fl, f)
			}
		}
		parts = append(parts, fmt.Sprintf("%d:%s", m.UID, showFlags(fl)))
	}
	return strings.Join(parts, "+")
}

// sysmIssued appends the pseudo-response `I` when the tagged completion carries [EXPUNGEISSUED].
func sysmIssued(resps string, rep Reply) string {
	if rep.Status != "OK" || !strings.Contains(rep.Tagged, "[EXPUNGEISSUED]") {
		return resps
	}
	if resps == "-" {
		return "I"
	}
	return resps + ";I"
}

func sysmStatus(rep Reply) string {
	switch rep.Status {
	case "OK":
		return "ok"
	case "NO", "BAD":
		t := rep.Tagged
		switch {
		case strings.Contains(t, "strictly ascending"):
			return "no-outoforder"
		}
		return "refused"
	}
	if rep.Err != nil {
		return "hang"
	}
	return "status-" + rep.Status
}

// probe splits a FETCH 1:* (UID FLAGS) answer into the command's results and the trailing flush's responses.
func sysmProbe(c *Client) (string, string, Reply) {
	all, rep := c.FetchAll()
	var msgs []FetchedMsg
	for _, m := range all {
		if m.UID >= 0 {
			msgs = append(msgs, m)
		}
	}
	var rest []string
	for _, u := range rep.Untagged {
		cr := canonResp(u)
		if strings.HasPrefix(cr, "F") {
			p := strings.Split(cr[1:], ":")
			if len(p) == 3 && p[1] != "~" && p[2] != "~" {
				continue
			}
		}
		rest = append(rest, u)
	}
	return sysmShowView(msgs), sysmCanonResps(rest), rep
}

func (r *sysmRunner) push(u imap.Update) error {
	res := r.conn.Push(u, 10*time.Second)
	if !res.Acked {
		return fmt.Errorf("connector update not acknowledged")
	}
	return nil
}

func (r *sysmRunner) msgRid(w string) (string, bool) {
	if !strings.HasPrefix(w, "m") {
		return "", false
	}
	k, err := strconv.Atoi(w[1:])
	if err != nil || k < 1 || k > len(r.rids) {
		return "", false
	}
	return r.rids[k-1], true
}

func (r *sysmRunner) step(w []string) error {
	emit := func(s string) { r.outs = append(r.outs, s) }
	if len(w) < 2 {
		return fmt.Errorf("bad step %v", w)
	}
	switch w[0] {
	case "X":
		switch w[1] {
		case "HOLD":
			i := atoi(w[2])
			if !r.held[i] {
				// what was delivered so far has been applied before the hold starts
				if err := r.sys.BarrierStates(); err != nil {
					return err
				}
				r.sys.Server.VerifHold(r.stateID[i])
				r.held[i] = true
			}
		case "RELEASE":
			i, k := atoi(w[2]), atoi(w[3])
			if r.held[i] {
				r.sys.Server.VerifRelease(r.stateID[i], k, k < 0)
				if k < 0 {
					r.held[i] = false
				}
				if err := r.sys.BarrierStates(); err != nil {
					return err
				}
			}
		case "BARRIER":
			if err := r.sys.BarrierStates(); err != nil {
				return err
			}
		default:
			return fmt.Errorf("bad step %v", w)
		}
		emit("-")
		return nil
	case "C":
		switch w[1] {
		case "CREATE":
			r.nconn++
			rid := fmt.Sprintf("c%d", r.nconn)
			lit := SimpleMessage(rid, "connector message "+rid)
			parsed, err := imap.NewParsedMessage(lit)
			if err != nil {
				return err
			}
			if err := r.push(imap.NewMessagesCreated(false, &imap.MessageCreated{
				Message:       imap.Message{ID: imap.MessageID(rid), Flags: sysmFlagSet(w[3]), Date: time.Unix(1136214245, 0).UTC()},
				Literal:       lit,
				MailboxIDs:    []imap.MailboxID{sysmMboxRemote(w[2])},
				ParsedMessage: parsed,
			})); err != nil {
				return err
			}
			r.rids = append(r.rids, rid)
		case "BOXES":
			rid, ok := r.msgRid(w[2])
			if !ok {
				return fmt.Errorf("unknown message %s", w[2])
			}
			fl, err := r.dbFlags(rid)
			if err != nil {
				return err
			}
			var mbs []imap.MailboxID
			for _, m := range splitNonEmpty(w[3], ",") {
				mbs = append(mbs, sysmMboxRemote(m))
			}
			if err := r.push(imap.NewMessageMailboxesUpdated(imap.MessageID(rid), mbs, fl)); err != nil {
				return err
			}
		case "DELETE":
			rid, ok := r.msgRid(w[2])
			if !ok {
				return fmt.Errorf("unknown message %s", w[2])
			}
			if err := r.push(imap.NewMessagesDeleted(imap.MessageID(rid))); err != nil {
				return err
			}
		case "FLAG":
			rid, ok := r.msgRid(w[2])
			if !ok {
				return fmt.Errorf("unknown message %s", w[2])
			}
			fl, err := r.dbFlags(rid)
			if err != nil {
				return err
			}
			if w[4] == "1" {
				fl = fl.Add(sysmProperFlag(w[3]))
			} else {
				fl = fl.Remove(sysmProperFlag(w[3]))
			}
			if err := r.push(imap.NewMessageFlagsUpdated(imap.MessageID(rid), fl)); err != nil {
				return err
			}
		default:
			return fmt.Errorf("bad step %v", w)
		}
		emit("-")
		return nil
	}
	if !strings.HasPrefix(w[0], "S") {
		return fmt.Errorf("bad step %v", w)
	}
	i := atoi(w[0][1:])
	if i < 0 || i >= len(r.cl) {
		return fmt.Errorf("bad session %v", w)
	}
	c := r.cl[i]
	if err := r.sys.BarrierStates(); err != nil {
		return err
	}
	simple := func(line string) {
		rep := c.Cmd(line)
		emit(sysmStatus(rep) + ":" + sysmCanonResps(rep.Untagged))
	}
	switch w[1] {
	case "SELECT":
		rep := c.Cmd("SELECT " + w[2])
		if rep.Status == "OK" {
			r.selected[i] = w[2]
		} else {
			r.selected[i] = ""
		}
		emit(sysmStatus(rep) + ":" + sysmCanonResps(rep.Untagged))
	case "UNSELECT":
		rep := c.Cmd("UNSELECT")
		if rep.Status == "OK" {
			r.selected[i] = ""
		}
		emit(sysmStatus(rep) + ":" + sysmCanonResps(rep.Untagged))
	case "CLOSE":
		rep := c.Cmd("CLOSE")
		if rep.Status == "OK" {
			r.selected[i] = ""
		}
		emit(sysmStatus(rep) + ":" + sysmCanonResps(rep.Untagged))
	case "APPEND":
		before := r.connCount()
		marker := fmt.Sprintf("a%d", len(r.rids)+1)
		rep := c.Append(w[2], sysmFlagList(w[3], " "), SimpleMessage(marker, "appended "+marker))
		if rep.Status == "OK" {
			after := r.connCount()
			if after != before+1 {
				return fmt.Errorf("APPEND created %d remote messages", after-before)
			}
			r.rids = append(r.rids, fmt.Sprintf("a%d", after))
		}
		emit(sysmStatus(rep) + ":" + sysmCanonResps(rep.Untagged))
	case "STORE":
		op := map[string]string{"+": "+FLAGS", "-": "-FLAGS", "=": "FLAGS", "+s": "+FLAGS.SILENT", "-s": "-FLAGS.SILENT", "=s": "FLAGS.SILENT"}[w[3]]
		if op == "" {
			return fmt.Errorf("bad step %v", w)
		}
		rep := c.Cmd(fmt.Sprintf("STORE %s %s (%s)", w[2], op, sysmFlagList(w[4], " ")))
		emit(sysmStatus(rep) + ":" + sysmIssued(sysmCanonResps(rep.Untagged), rep))
	case "EXPUNGE":
		simple("EXPUNGE")
	case "COPY":
		simple(fmt.Sprintf("COPY %s %s", w[2], w[3]))
	case "MOVE":
		simple(fmt.Sprintf("MOVE %s %s", w[2], w[3]))
	case "NOOP":
		simple("NOOP")
	case "PROBE":
		if r.selected[i] == "" {
			emit("P:none")
			return nil
		}
		// FETCH 1:* is refused on an empty mailbox (the trailing flush still runs): the status is not compared
		v, rest, rep := sysmProbe(c)
		if rep.Err != nil {
			emit("hang")
			return nil
		}
		emit("P:" + v + "/" + sysmIssued(rest, rep))
	default:
		return fmt.Errorf("bad step %v", w)
	}
	return nil
}

func (r *sysmRunner) connCount() int {
	r.conn.mu.Lock()
	defer r.conn.mu.Unlock()
	return r.conn.nextMsg
}

// converge: the quiescent end of every history.
func (r *sysmRunner) converge() (string, error) {
	for i := range r.cl {
		if r.held[i] {
			r.sys.Server.VerifRelease(r.stateID[i], -1, true)
			r.held[i] = false
		}
	}
	if err := r.sys.BarrierStates(); err != nil {
		return "", err
	}
	var parts []string
	for i, c := range r.cl {
		if r.selected[i] == "" {
			parts = append(parts, fmt.Sprintf("S%d=none", i))
			continue
		}
		rep := c.Cmd("NOOP")
		v, _, _ := sysmProbe(c)
		parts = append(parts, fmt.Sprintf("S%d=%s:%s/%s", i, sysmStatus(rep), sysmCanonResps(rep.Untagged), v))
	}
	fresh, err := r.sys.Dial("fresh")
	if err != nil {
		return "", err
	}
	defer fresh.Close()
	fresh.Login("user")
	var fparts []string
	for k, m := range sysmMboxNames {
		v := "?"
		if rep := fresh.Cmd("EXAMINE " + m); rep.Status == "OK" {
			msgs, _ := fresh.FetchAll()
			v = sysmShowView(msgs)
		}
		fparts = append(fparts, fmt.Sprintf("F%d=%s", k, v))
	}
	fresh.Cmd("LOGOUT")
	return strings.Join(parts, " ") + " || " + strings.Join(fparts, " "), nil
}

func sysmSplitSteps(args []string) [][]string {
	var out [][]string
	var cur []string
	for _, w := range args {
		if w == ";" {
			if len(cur) > 0 {
				out = append(out, cur)
			}
			cur = nil
			continue
		}
		cur = append(cur, w)
	}
	if len(cur) > 0 {
		out = append(out, cur)
	}
	return out
}

func sysmImpl(args []string) string {
	if len(args) < 2 || !strings.HasPrefix(args[0], "N=") || args[1] != ";" {
		return "bad-op"
	}
	n, err := strconv.Atoi(args[0][2:])
	if err != nil || n < 1 || n > 8 {
		return "bad-op"
	}
	r, err := sysmNew(n)
	if err != nil {
		return "harness-error " + strings.ReplaceAll(err.Error(), " ", "_")
	}
	defer r.Close()
	for _, c := range r.cl {
		c.Timeout = 15 * time.Second
	}
	for _, st := range sysmSplitSteps(args[2:]) {
		if err := r.step(st); err != nil {
			return "harness-error " + strings.ReplaceAll(err.Error(), " ", "_")
		}
		if p := r.sys.Panics.Take(); len(p) > 0 {
			return "panic " + strings.ReplaceAll(strings.Join(p, "/"), " ", "_")
		}
	}
	end, err := r.converge()
	if err != nil {
		return "harness-error " + strings.ReplaceAll(err.Error(), " ", "_")
	}
	return strings.Join(r.outs, " | ") + " || " + end
}

// ---- generator ---------------------------------------------------------------------------------

type sysmGenSess struct {
	sel  int // -1 = none
	held bool
	seen int // rough number of messages the session shows
	lag  int // updates withheld since the hold started (rough)
}

var sysmStoreFlags = []string{`\seen`, `\flagged`, `\answered`, `\draft`}

func sysmGenHistory(r *Rng, st *Stats) string {
	n := r.Range(2, 3)
	nbox := r.Range(1, 2)
	overtaking := r.Chance(1, 2)
	steps := r.Range(10, 28)
	sess := make([]sysmGenSess, n)
	for i := range sess {
		sess[i].sel = -1
	}
	count := make([]int, 3) // rough message count per mailbox
	created := 0
	var out []string
	add := func(s string) { out = append(out, s) }
	seqs := func(k int) string {
		if k < 1 {
			k = 1
		}
		a := r.Range(1, k)
		if r.Chance(1, 12) {
			a = k + 1 + r.Intn(2) // beyond the count: refused
		}
		if k >= 2 && r.Chance(1, 3) {
			b := r.Range(1, k)
			return fmt.Sprintf("%d,%d", a, b)
		}
		return strconv.Itoa(a)
	}
	flags := func() string {
		f := Pick(r, sysmStoreFlags)
		switch r.Intn(6) {
		case 0:
			return `\deleted`
		case 1:
			return f + `,\deleted`
		}
		return f
	}
	bump := func(mb, d int, except int) {
		count[mb] += d
		if count[mb] < 0 {
			count[mb] = 0
		}
		for j := range sess {
			if j != except && sess[j].held && sess[j].sel >= 0 {
				sess[j].lag++
			}
		}
	}
	ovt := 0
	patterns := 0
	delPatterns := 0
	closePatterns := 0
	extra := 0 // steps of the directed deletion / CLOSE shapes: not charged to the history's budget
	for len(out)-extra < steps {
		i := r.Intn(n)
		force := -1
		if overtaking && r.Chance(2, 5) {
			// a held session with updates withheld runs a mutating command: the overtaking schedule
			for j := range sess {
				if sess[j].held && sess[j].lag > 0 && sess[j].sel >= 0 {
					i, force = j, 34+r.Intn(42)
				}
			}
		}
		s := &sess[i]
		// C05 trigger shapes (both inside NoOvertake: the observer runs no command while updates are withheld)
		if patterns < 2 && force < 0 && r.Chance(1, 7) {
			a, b := -1, -1
			for x := range sess {
				for y := range sess {
					if x != y && sess[x].sel >= 0 && sess[x].sel == sess[y].sel && !sess[x].held && !sess[y].held {
						a, b = x, y
					}
				}
			}
			if a >= 0 {
				mb := sess[a].sel
				name := sysmMboxNames[mb]
				patterns++
				if r.Bool() {
					// a removal + re-add is held back by a non-permitting flush together with the EXISTS of a NEW message;
					// the new message is then removed: its EXPUNGE must still reach the observer
					st.Inc("pattern.held-readd-then-new-removed")
					add(fmt.Sprintf("S%d APPEND %s -", b, name))
					created++
					add(fmt.Sprintf("S%d NOOP", b))
					add(fmt.Sprintf("S%d NOOP", a))
					add(fmt.Sprintf("S%d COPY 1 %s", b, name))
					add(fmt.Sprintf("C CREATE %s -", name))
					created++
					k := created
					if r.Bool() {
						add(fmt.Sprintf("S%d PROBE", a))
					} else {
						add(fmt.Sprintf("S%d STORE 1 %s %s", a, Pick(r, []string{"+", "+s", "-"}), Pick(r, sysmStoreFlags)))
					}
					add(fmt.Sprintf("C BOXES m%d -", k))
					if r.Bool() {
						add(fmt.Sprintf("S%d PROBE", a))
					}
					add(fmt.Sprintf("S%d NOOP", a))
					count[mb]++
					sess[a].seen, sess[b].seen = count[mb], count[mb]
				} else {
					// a message is added and removed while the observer has applied neither update
					st.Inc("pattern.add-remove-while-held")
					add(fmt.Sprintf("X HOLD %d", a))
					if r.Bool() {
						add(fmt.Sprintf("C CREATE %s -", name))
						created++
						add(fmt.Sprintf("C BOXES m%d -", created))
					} else {
						add(fmt.Sprintf("S%d APPEND %s \\deleted", b, name))
						created++
						add(fmt.Sprintf("S%d EXPUNGE", b))
					}
					add(fmt.Sprintf("X RELEASE %d %d", a, Pick(r, []int{-1, -1, 1})))
					add(fmt.Sprintf("S%d NOOP", a))
					add(fmt.Sprintf("X RELEASE %d -1", a))
				}
				continue
			}
		}
		// CLOSE shapes: the closing session expunges silently, the observer of the same mailbox is told by its next
		// permitting command (inside NoOvertake: the closer's queue is empty, the observer runs no mutating command)
		if closePatterns < 2 && force < 0 && r.Chance(1, 6) {
			a, b := -1, -1
			for x := range sess {
				for y := range sess {
					if x != y && sess[x].sel >= 0 && sess[x].sel == sess[y].sel && !sess[x].held && !sess[y].held {
						a, b = x, y
					}
				}
			}
			if a >= 0 {
				mb := sess[a].sel
				name := sysmMboxNames[mb]
				closePatterns++
				start := len(out)
				if r.Bool() {
					add(fmt.Sprintf("S%d APPEND %s %s", b, name, Pick(r, []string{`\deleted`, `\deleted,\seen`})))
					created++
				} else {
					add(fmt.Sprintf("S%d APPEND %s -", b, name))
					created++
					add(fmt.Sprintf("S%d STORE 1 %s \\deleted", b, Pick(r, []string{"+", "+s"})))
				}
				add(fmt.Sprintf("S%d NOOP", a))
				if r.Bool() {
					st.Inc("pattern.close-expunges-while-observer-holds")
					add(fmt.Sprintf("X HOLD %d", a))
					add(fmt.Sprintf("S%d CLOSE", b))
					add(fmt.Sprintf("S%d PROBE", a))
					add(fmt.Sprintf("X RELEASE %d -1", a))
					add(fmt.Sprintf("S%d PROBE", a))
					add(fmt.Sprintf("S%d NOOP", a))
				} else {
					st.Inc("pattern.close-expunges-observed")
					add(fmt.Sprintf("S%d CLOSE", b))
					add(fmt.Sprintf("S%d PROBE", a))
					add(fmt.Sprintf("S%d NOOP", a))
					add(fmt.Sprintf("S%d PROBE", b))
				}
				sess[b].sel = -1
				bump(0, 0, a)
				sess[a].seen = count[mb]
				extra += len(out) - start
				continue
			}
		}
		// connector deletion shapes (inside NoOvertake: the observer runs no mutating command while updates are withheld)
		if delPatterns < 2 && force < 0 && r.Chance(1, 6) {
			a := -1
			for x := range sess {
				if sess[x].sel >= 0 && !sess[x].held {
					a = x
				}
			}
			if a >= 0 {
				mb := sess[a].sel
				name := sysmMboxNames[mb]
				other := name
				if nbox > 1 {
					other = sysmMboxNames[(mb+1)%nbox]
				}
				delPatterns++
				start := len(out)
				add(fmt.Sprintf("C CREATE %s %s", name, Pick(r, []string{"-", `\seen`})))
				created++
				k := created
				two := other != name && r.Chance(2, 3)
				if r.Bool() {
					// the deletion (of a message that is in two mailboxes) is queued while the observer holds: nothing may
					// be announced before the release, no EXPUNGE without permission after it
					st.Inc("pattern.delete-queued-while-held")
					if two {
						add(fmt.Sprintf("C BOXES m%d %s,%s", k, name, other))
					}
					add(fmt.Sprintf("S%d NOOP", a))
					add(fmt.Sprintf("X HOLD %d", a))
					add(fmt.Sprintf("C DELETE m%d", k))
					add(fmt.Sprintf("S%d PROBE", a))
					add(fmt.Sprintf("X RELEASE %d %d", a, Pick(r, []int{-1, -1, 1})))
					add(fmt.Sprintf("S%d PROBE", a))
					add(fmt.Sprintf("S%d NOOP", a))
					add(fmt.Sprintf("X RELEASE %d -1", a))
				} else {
					// created, spread over two mailboxes and deleted while the observer has applied none of it; then
					// the connector puts the (still known) message back
					st.Inc("pattern.create-delete-while-held")
					add(fmt.Sprintf("X HOLD %d", a))
					if two {
						add(fmt.Sprintf("C BOXES m%d %s,%s", k, name, other))
					}
					add(fmt.Sprintf("C DELETE m%d", k))
					if r.Bool() {
						add(fmt.Sprintf("C BOXES m%d %s", k, name))
						count[mb]++
					}
					add(fmt.Sprintf("X RELEASE %d %d", a, Pick(r, []int{-1, 1, 2})))
					add(fmt.Sprintf("S%d PROBE", a))
					add(fmt.Sprintf("S%d NOOP", a))
					add(fmt.Sprintf("X RELEASE %d -1", a))
				}
				add(fmt.Sprintf("S%d NOOP", a))
				bump(0, 0, a)
				sess[a].seen = count[mb]
				extra += len(out) - start
				continue
			}
		}
		if s.sel < 0 {
			mb := r.Intn(nbox)
			if r.Chance(3, 4) {
				mb = 0
			}
			if s.held && s.lag > 0 {
				ovt++
			}
			add(fmt.Sprintf("S%d SELECT %s", i, sysmMboxNames[mb]))
			s.sel, s.seen = mb, count[mb]
			continue
		}
		c := r.Intn(100)
		if force >= 0 {
			c = force
		}
		if s.seen == 0 && c >= 34 && c < 76 {
			c = 22 // nothing to name in the session's view: append instead
		}
		switch {
		case c < 12 && overtaking:
			if s.held {
				k := Pick(r, []int{1, 2, -1, -1})
				add(fmt.Sprintf("X RELEASE %d %d", i, k))
				if k < 0 {
					s.held, s.lag = false, 0
				}
			} else {
				add(fmt.Sprintf("X HOLD %d", i))
				s.held, s.lag = true, 0
			}
		case c < 22: // connector
			switch k := r.Intn(5); {
			case k == 0 || created == 0:
				mb := r.Intn(nbox)
				fl := "-"
				if r.Chance(1, 3) {
					fl = Pick(r, []string{`\seen`, `\flagged`, `\flagged,\seen`})
				}
				add(fmt.Sprintf("C CREATE %s %s", sysmMboxNames[mb], fl))
				created++
				bump(mb, 1, -1)
			case k == 1:
				// one mailbox more or one less
				var mbs []string
				for b := 0; b < nbox; b++ {
					if r.Bool() {
						mbs = append(mbs, sysmMboxNames[b])
					}
				}
				x := "-"
				if len(mbs) > 0 {
					x = strings.Join(mbs, ",")
				}
				add(fmt.Sprintf("C BOXES m%d %s", r.Range(1, created), x))
				bump(0, 0, -1)
			case k == 2:
				// the connector deletes the message: it leaves every mailbox that holds it
				add(fmt.Sprintf("C DELETE m%d", r.Range(1, created)))
				bump(0, 0, -1)
			default:
				add(fmt.Sprintf("C FLAG m%d %s %d", r.Range(1, created), Pick(r, sysmStoreFlags[:2]), r.Intn(2)))
				bump(0, 0, -1)
			}
		case c < 34:
			mb := s.sel
			if nbox > 1 && r.Chance(1, 4) {
				mb = r.Intn(nbox)
			}
			fl := "-"
			if r.Chance(1, 3) {
				fl = flags()
			}
			if s.held && s.lag > 0 && mb == s.sel {
				ovt++
			}
			add(fmt.Sprintf("S%d APPEND %s %s", i, sysmMboxNames[mb], fl))
			created++
			bump(mb, 1, i)
			if mb == s.sel {
				s.seen++
			}
		case c < 52:
			if s.held && s.lag > 0 {
				ovt++
			}
			add(fmt.Sprintf("S%d STORE %s %s %s", i, seqs(s.seen), Pick(r, []string{"+", "-", "=", "+s", "-s", "=s", "+", "="}), flags()))
			bump(s.sel, 0, i)
		case c < 60:
			if s.held && s.lag > 0 {
				ovt++
			}
			add(fmt.Sprintf("S%d EXPUNGE", i))
			bump(s.sel, -1, i)
		case c < 68:
			dest := r.Intn(nbox)
			if s.held && s.lag > 0 {
				ovt++
			}
			add(fmt.Sprintf("S%d COPY %s %s", i, seqs(s.seen), sysmMboxNames[dest]))
			bump(dest, 1, i)
		case c < 76:
			dest := r.Intn(nbox)
			if s.held && s.lag > 0 {
				ovt++
			}
			add(fmt.Sprintf("S%d MOVE %s %s", i, seqs(s.seen), sysmMboxNames[dest]))
			bump(dest, 1, i)
			bump(s.sel, -1, i)
		case c < 86:
			add(fmt.Sprintf("S%d NOOP", i))
			if !s.held {
				s.seen = count[s.sel]
			}
		case c < 94:
			add(fmt.Sprintf("S%d PROBE", i))
			if !s.held {
				s.seen = count[s.sel]
			}
		case c < 96:
			if s.held && s.lag > 0 {
				ovt++
			}
			mb := r.Intn(nbox)
			add(fmt.Sprintf("S%d SELECT %s", i, sysmMboxNames[mb]))
			s.sel, s.seen = mb, count[mb]
		default:
			if r.Bool() {
				add(fmt.Sprintf("S%d UNSELECT", i))
			} else {
				// CLOSE: the silent EXPUNGE of the session's mailbox, then unselect
				if s.held && s.lag > 0 {
					ovt++
				}
				add(fmt.Sprintf("S%d CLOSE", i))
				bump(s.sel, -1, i)
			}
			s.sel = -1
		}
	}
	label := "fifo"
	if ovt > 0 {
		label = "overtake"
	}
	st.Inc("schedule." + label)
	st.Inc(fmt.Sprintf("sessions.%d", n))
	st.Inc(fmt.Sprintf("mailboxes.%d", nbox))
	st.Add("steps", len(out))
	for _, o := range out {
		f := strings.Fields(o)
		k := f[1]
		if f[0] == "C" || f[0] == "X" {
			k = f[0] + "." + f[1]
		}
		st.Inc("step." + k)
	}
	return fmt.Sprintf("sys N=%d ; %s", n, strings.Join(out, " ; "))
}

func sysmGen(r *Rng, n int, w io.Writer, st *Stats) {
	for k := 0; k < n; k++ {
		fmt.Fprintln(w, sysmGenHistory(r.Fork(), st))
	}
}

func init() { Register(&Dialect{Name: "sys", Impl: sysmImpl, Gen: sysmGen}) }
