package main

// Facts/UpdateTx.lean (C17): how many write transactions every connector-update handler
// (`func (user *user) apply…` in internal/backend/connector_updates.go) opens, and whether any of them is
// opened from inside a loop.
//
// A refused connector batch has no partial effect because the limit checks are made inside the ONE write
// transaction that carries the whole update: a refusal is an error return of the transaction body and everything
// is rolled back. That is a property of the SHAPE of the handler: exactly one transaction opened, not inside a
// `for` / `range` statement, neither directly nor through another method of `user` it calls. The table gives,
// per handler:
//
//	writes        calls of userDBWrite / userDBWriteResult / user.db.Write / db.ClientWriteType(…, user.db, …)
//	              written in the method's own body (closures included)
//	writesInLoop  those of them that have a for / range statement between them and the method
//	txTotal       writes + the txTotal of every `user.<method>(…)` call written in the body (transitively; a
//	              method that takes part in a call cycle counts 99)
//	txInLoop      a transaction is opened from inside a loop: writesInLoop > 0, or a method that opens one
//	              (txTotal > 0) is called from inside a loop, or a called method has txInLoop

import (
	"fmt"
	"go/ast"
	"sort"
	"strings"
)

func c17txIsWriteOpen(call *ast.CallExpr) bool {
	switch calleeName(call) {
	case "userDBWrite", "userDBWriteResult":
		return true
	case "Write":
		// user.db.Write(…)
		if sel, ok := call.Fun.(*ast.SelectorExpr); ok {
			if x, ok := sel.X.(*ast.SelectorExpr); ok && x.Sel.Name == "db" {
				return true
			}
		}
	case "ClientWriteType":
		return true
	}
	return false
}

func c17txInLoop(stack []ast.Node) bool {
	for _, n := range stack {
		switch n.(type) {
		case *ast.ForStmt, *ast.RangeStmt:
			return true
		}
	}
	return false
}

func factsC17Tx(c *factsCtx, outdir string) error {
	type callee struct {
		name   string
		inLoop bool
	}
	type shape struct {
		file, fn             string
		line                 int
		writes, writesInLoop int
		calls                []callee
	}
	shapes := map[string]*shape{}
	for _, f := range c.parseDir("internal/backend") {
		for _, d := range f.Decls {
			fd, ok := d.(*ast.FuncDecl)
			if !ok || fd.Body == nil {
				continue
			}
			fn := lfFuncDeclName(fd)
			if !strings.HasPrefix(fn, "user.") {
				continue
			}
			recv := ""
			if fd.Recv != nil && len(fd.Recv.List) == 1 && len(fd.Recv.List[0].Names) == 1 {
				recv = fd.Recv.List[0].Names[0].Name
			}
			s := &shape{fn: fn}
			s.file, s.line = c.pos(fd.Pos())
			lfWalkStack(fd.Body, func(n ast.Node, stack []ast.Node) {
				call, ok := n.(*ast.CallExpr)
				if !ok {
					return
				}
				if c17txIsWriteOpen(call) {
					s.writes++
					if c17txInLoop(stack) {
						s.writesInLoop++
					}
					return
				}
				if sel, ok := call.Fun.(*ast.SelectorExpr); ok && recv != "" {
					if x, ok := sel.X.(*ast.Ident); ok && x.Name == recv {
						s.calls = append(s.calls, callee{"user." + sel.Sel.Name, c17txInLoop(stack)})
					}
				}
			})
			shapes[fn] = s
		}
	}
	// transitive totals
	total := map[string]int{}
	inLoop := map[string]bool{}
	state := map[string]int{} // 1 = being computed, 2 = done
	var visit func(fn string) (int, bool)
	visit = func(fn string) (int, bool) {
		s := shapes[fn]
		if s == nil {
			return 0, false
		}
		switch state[fn] {
		case 2:
			return total[fn], inLoop[fn]
		case 1:
			return 99, true // a call cycle: unbounded
		}
		state[fn] = 1
		t, l := s.writes, s.writesInLoop > 0
		for _, cl := range s.calls {
			ct, cloop := visit(cl.name)
			t += ct
			if cloop || (cl.inLoop && ct > 0) {
				l = true
			}
		}
		if t > 99 {
			t = 99
		}
		total[fn], inLoop[fn], state[fn] = t, l, 2
		return t, l
	}
	var names []string
	for fn, s := range shapes {
		visit(fn)
		if strings.HasPrefix(fn, "user.apply") && strings.HasSuffix(s.file, "connector_updates.go") {
			names = append(names, fn)
		}
	}
	sort.Slice(names, func(i, j int) bool { return shapes[names[i]].line < shapes[names[j]].line })
	var b strings.Builder
	b.WriteString("namespace Gluon.Facts\n\n")
	b.WriteString("structure UpdateTxShape where\n  file : String\n  line : Nat\n  func : String\n  /-- userDBWrite / userDBWriteResult / user.db.Write / db.ClientWriteType calls written in the method's body -/\n  writes : Nat\n  /-- those of them inside a for / range statement -/\n  writesInLoop : Nat\n  /-- writes + those of the `user` methods it calls (transitively; 99 = call cycle) -/\n  txTotal : Nat\n  /-- a write transaction is opened from inside a loop (directly or through a called method) -/\n  txInLoop : Bool\nderiving DecidableEq, Repr\n\n")
	b.WriteString("/-- the connector-update handlers `func (user *user) apply…` of internal/backend/connector_updates.go -/\ndef updateTxShapes : List UpdateTxShape := [\n")
	for i, fn := range names {
		s := shapes[fn]
		sep := ","
		if i == len(names)-1 {
			sep = ""
		}
		fmt.Fprintf(&b, "  { file := %s, line := %d, func := %s, writes := %d, writesInLoop := %d, txTotal := %d, txInLoop := %v }%s\n",
			leanStr(s.file), s.line, leanStr(fn), s.writes, s.writesInLoop, total[fn], inLoop[fn], sep)
	}
	b.WriteString("]\n\nend Gluon.Facts\n")
	return writeLean(outdir, "UpdateTx.lean", b.String())
}

func init() {
	factGens = append(factGens, factGen{"UpdateTx", factsC17Tx})
}
