package main

// Dialect `c10pipe` (C10): a PIPELINED stream of 2..6 valid commands through ONE command.Parser, as the
// reader goroutine of internal/session/command.go runs it (one bufio.Reader -> InputCollector -> Scanner ->
// Parser per connection; InputCollector.Reset before every Parse; the parsed command.Command is handed to
// the session goroutine over cmdCh while the reader already parses the next command).
//
//	op:      c10pipe <seed> <hex stream> <written AST 1>|<written AST 2>|... <features>
//	result:  groups joined by " | ", one per Parse call, in the format of `parsen`:
//	           ok <tag>:<payload> used=<bytes read so far>
//	           err parse <ttype> used=<n> tag=<..> cmd=<..> exit|skip=ok|skip=eof
//	           err ioeof|other used=<n> exit        more        hang        panic
//	         followed, on the implementation side only, by one group per command whose value did not stay what
//	         it was when Parse returned it:
//	           changed <index from 1> <tag>:<payload as rendered right after its Parse returned>
//
// What makes this dialect different from `parsen`: the returned command values are KEPT (as the session
// keeps them while it executes them) and every one of them is rendered only AFTER the whole stream has
// been parsed. A payload that shares memory with anything the parser, the scanner, the input collector or
// the bufio.Reader reuses for later input (scratch buffers, pooled buffers, slices of a read buffer) is
// overwritten by then, and the late rendering differs from the written command (judge-c10-pipe) and from
// the model (whose values are immutable). The rendering taken right after Parse returned is only used to
// say which of the two happened (parsed wrongly at once / changed afterwards).
//
// The generator writes string arguments as literals far more often than `parse` does, with lengths on and
// around powers of two up to 65537 (0 1 2 ... 4095 4096 4097 ... 65535 65536 65537: thresholds a buffer
// or size-class scheme would plausibly use), and its directed part follows a command that keeps a byte slice
// (APPEND) with commands carrying literals of smaller, equal and larger length.

import (
	"bufio"
	"encoding/hex"
	"errors"
	"fmt"
	"io"
	"strconv"
	"strings"
	"time"

	"github.com/ProtonMail/gluon/imap/command"
	"github.com/ProtonMail/gluon/rfcparser"
)

func init() {
	Register(&Dialect{Name: "c10pipe", Impl: implC10Pipe, Gen: genC10Pipe})
}

// c10pReader hands the stream out in one of four ways (seed mod 4): small chunks (as chunkReader), everything
// that is asked for at once (the whole pipeline is already in the socket), chunks of up to 9000 bytes (around
// and above bufio's 4096), single bytes at every 64th position.
type c10pReader struct {
	chunkReader
	mode uint64
}

func (c *c10pReader) Read(p []byte) (int, error) {
	if c.mode == 0 || c.pos >= len(c.data) || c.kill.Load() {
		return c.chunkReader.Read(p)
	}
	n := len(p)
	switch c.mode {
	case 2:
		n = 1 + c.rng.Intn(9000)
	case 3:
		n = 64 - c.pos%64
	}
	if n > len(p) {
		n = len(p)
	}
	if n > len(c.data)-c.pos {
		n = len(c.data) - c.pos
	}
	copy(p, c.data[c.pos:c.pos+n])
	c.pos += n
	return n, nil
}

const c10pMaxCommands = 8

func c10pRunStream(data []byte, seed uint64) (out string) {
	src := &c10pReader{chunkReader: chunkReader{data: data, rng: NewRng(seed)}, mode: seed % 4}
	collector := command.NewInputCollector(bufio.NewReader(src))
	scanner := rfcparser.NewScannerWithReader(collector)
	parser := command.NewParserWithLiteralContinuationCb(scanner, func() error { return nil })
	timer := time.AfterFunc(60*time.Second, func() { src.kill.Store(true) })
	defer timer.Stop()
	type held struct {
		part  int // index into parts
		cmd   command.Command
		early string
		used  int
	}
	var parts []string
	var kept []held
	finish := func() string {
		// only now, after the last Parse, the commands that were returned earlier are looked at
		var changed []string
		for i, h := range kept {
			late := hexS(h.cmd.Tag) + ":" + showPayloadImpl(h.cmd.Payload)
			parts[h.part] = fmt.Sprintf("ok %s used=%d", late, h.used)
			if late != h.early {
				changed = append(changed, fmt.Sprintf("changed %d %s", i+1, h.early))
			}
		}
		return strings.Join(append(parts, changed...), " | ")
	}
	defer func() {
		if p := recover(); p != nil {
			if _, ok := p.(hangSentinel); ok {
				parts = append(parts, "hang")
			} else {
				parts = append(parts, "panic")
			}
			out = finish()
		}
	}()
	total := 0
	for i := 0; i < c10pMaxCommands; i++ {
		collector.Reset()
		cmd, err := parser.Parse()
		total += len(collector.Bytes())
		if err != nil {
			var perr *rfcparser.Error
			if !errors.As(err, &perr) {
				kind := "other"
				if errors.Is(err, io.EOF) {
					kind = "ioeof"
				}
				parts = append(parts, fmt.Sprintf("err %s used=%d exit", kind, total))
				return finish()
			}
			head := fmt.Sprintf("err parse %d used=%d tag=%s cmd=%s", int(perr.Token.TType), total, hexS(parser.LastParsedTag()), hexS(parser.LastParsedCommand()))
			if perr.IsEOF() {
				parts = append(parts, head+" exit")
				return finish()
			}
			collector.Reset()
			if err2 := parser.ConsumeInvalidInput(); err2 != nil {
				parts = append(parts, head+" skip=eof")
				return finish()
			}
			total += len(collector.Bytes())
			parts = append(parts, head+" skip=ok")
			continue
		}
		kept = append(kept, held{part: len(parts), cmd: cmd, early: hexS(cmd.Tag) + ":" + showPayloadImpl(cmd.Payload), used: total})
		parts = append(parts, "")
	}
	parts = append(parts, "more")
	return finish()
}

func implC10Pipe(args []string) string {
	if len(args) < 2 {
		return "bad-op"
	}
	seed, err := strconv.ParseUint(args[0], 10, 64)
	if err != nil {
		return "bad-op"
	}
	var data []byte
	if args[1] != "~" && args[1] != "-" {
		data, err = hex.DecodeString(args[1])
		if err != nil {
			return "bad-op"
		}
	}
	return c10pRunStream(data, seed)
}

// c10pSizes: lengths on and around the powers of two up to 2^16 (and 0).
func c10pSizes(maxExp int) []int {
	out := []int{0, 1, 2, 3}
	for e := 2; e <= maxExp; e++ {
		out = append(out, 1<<e-1, 1<<e, 1<<e+1)
	}
	return out
}

// c10pFollower: a command whose string arguments are all literals, the first of them of length n.
func (g *pgen) c10pFollower(kind string, n int) ([]byte, string) {
	sp := func(parts ...string) []byte { return []byte(strings.Join(parts, " ")) }
	v := g.sizedVal(n)
	lit := func(b []byte) string { return string(g.literal(b)) }
	small := g.sizedVal(g.r.Range(0, 9))
	switch kind {
	case "APPEND":
		return sp(string(g.kw("APPEND")), lit(small), lit(v)), "append(" + hexB(small) + ";-;none;" + hexB(v) + ")"
	case "LOGIN":
		return sp(string(g.kw("LOGIN")), lit(v), lit(small)), "login(" + hexB(v) + "," + hexB(small) + ")"
	case "LOGIN2":
		return sp(string(g.kw("LOGIN")), lit(small), lit(v)), "login(" + hexB(small) + "," + hexB(v) + ")"
	case "SEARCH":
		key := Pick(g.r, []string{"subject", "body", "text", "from", "to", "cc", "bcc"})
		return sp(string(g.kw("SEARCH")), string(g.kw(key)), lit(v)), "search(~;" + key + "(" + hexB(v) + "))"
	case "SEARCHHDR":
		return sp(string(g.kw("SEARCH")), string(g.kw("HEADER")), lit(small), lit(v)), "search(~;header(" + hexB(small) + "," + hexB(v) + "))"
	case "LIST":
		return sp(string(g.kw("LIST")), lit(v), `"*"`), "list(" + hexB(c10pInbox(v)) + ",2a)"
	case "SELECT", "CREATE", "STATUS", "COPY":
		mb := hexB(c10pInbox(v))
		switch kind {
		case "STATUS":
			return sp(string(g.kw("STATUS")), lit(v), "(MESSAGES)"), "status(" + mb + ";messages)"
		case "COPY":
			return sp(string(g.kw("COPY")), "1:*", lit(v)), "copy(1:*;" + mb + ")"
		}
		return sp(string(g.kw(kind)), lit(v)), strings.ToLower(kind) + "(" + mb + ")"
	case "RENAME":
		return sp(string(g.kw("RENAME")), lit(small), lit(v)), "rename(" + hexB(c10pInbox(small)) + "," + hexB(c10pInbox(v)) + ")"
	case "ID":
		return sp(string(g.kw("ID")), "("+lit([]byte("name")), lit(v)+")"), "idset(" + hexS("name") + "=" + hexB(v) + ")"
	case "FETCH":
		return sp(string(g.kw("FETCH")), "1", "BODY[HEADER.FIELDS ("+lit(v)+")]"), "fetch(1:1;b[hf(" + hexB(v) + ")])"
	}
	panic("c10pFollower " + kind)
}

// a mailbox argument that spells INBOX in any case is the mailbox INBOX
func c10pInbox(v []byte) []byte {
	if strings.EqualFold(string(v), "inbox") {
		return []byte("INBOX")
	}
	return v
}

var c10pFollowers = []string{"APPEND", "LOGIN", "LOGIN2", "SEARCH", "SEARCHHDR", "LIST", "SELECT", "CREATE", "STATUS", "COPY", "RENAME", "ID", "FETCH"}

func (g *pgen) c10pTagged(w []byte, c string) ([]byte, string) {
	tag := g.tag()
	wire := append(append(append([]byte(nil), tag...), ' '), w...)
	return append(wire, '\r', '\n'), hexB(tag) + ":" + c
}

func genC10Pipe(r *Rng, n int, w io.Writer, st *Stats) {
	r = r.Fork()
	g := &pgen{r: r, st: st, maxDepth: 3, allowZeroLit: true, noListLit: true, noLBrAtom: true}
	maxExp := 16
	all := c10pSizes(maxExp)
	// lengths above 8193 make op lines of hundreds of kilobytes: drawn less often
	pickSize := func() int {
		if r.Chance(1, 6) {
			return Pick(r, all)
		}
		return Pick(r, all[:4+3*12]) // up to 8193
	}
	emit := func(kind string, stream []byte, canon []string) {
		st.Inc("stream." + kind)
		st.Inc(fmt.Sprintf("commands.%d", len(canon)))
		fmt.Fprintf(w, "c10pipe %d %s %s -\n", r.U64()%1000000, hexB(stream), strings.Join(canon, "|"))
	}
	for i := 0; i < n; i++ {
		var stream []byte
		var canon []string
		add := func(wire []byte, c string) {
			stream = append(stream, wire...)
			canon = append(canon, c)
		}
		switch {
		case i%3 == 0:
			// directed: a command that keeps a byte slice (APPEND with a message of length a), then 1..3 commands
			// whose first string argument is a literal of length b (smaller, equal, larger), then any command
			a := pickSize()
			if a == 0 {
				a = 1
			}
			add(g.c10pTagged(g.c10pFollower("APPEND", a)))
			k := r.Range(1, 3)
			for j := 0; j < k; j++ {
				b := pickSize()
				switch r.Intn(4) {
				case 0:
					b = a
				case 1:
					b = r.Range(0, a)
				}
				kind := Pick(r, c10pFollowers)
				add(g.c10pTagged(g.c10pFollower(kind, b)))
			}
			if r.Bool() {
				_, wire, c := g.line()
				add(wire, c)
			}
			emit("directed", stream, canon)
		case i%3 == 1:
			// any valid commands, string arguments mostly as literals, lengths from the boundary list now and then
			g.litBias, g.sizes = 70, all[:4+3*12]
			if r.Chance(1, 8) {
				g.sizes = all
			}
			k := r.Range(2, 6)
			for j := 0; j < k; j++ {
				_, wire, c := g.line()
				add(wire, c)
			}
			g.litBias, g.sizes = 0, nil
			emit("literal-heavy", stream, canon)
		default:
			// any valid commands in the encodings `parse` uses
			k := r.Range(2, 6)
			for j := 0; j < k; j++ {
				_, wire, c := g.line()
				add(wire, c)
			}
			emit("plain", stream, canon)
		}
	}
}
