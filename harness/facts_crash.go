package main

// Facts/Crash.lean (C07):
//   * the method names of db.ReadOnly and db.Transaction (the model's statement table classifies every
//     Transaction method as read / recent / write; a new method changes the table and the theorems are
//     re-checked against it);
//   * for the functions the C07 model is anchored in: the storage calls (store.*, tx.*, rd.*, and calls of
//     the anchored functions themselves) in SOURCE ORDER. The theorems `source_*` of Theorems/C07.lean
//     decide on these lists what the model of start-up recovery and of the store-before-row order assumes.

import (
	"fmt"
	"go/ast"
	"go/types"
	"sort"
	"strings"
)

type crashTarget struct{ dir, fn string }

var crashTargets = []crashTarget{
	{"internal/backend", "newUser"},
	{"internal/backend", "user.deleteAllMessagesMarkedDeleted"},
	{"internal/backend", "user.cleanupStaleStoreData"},
	{"internal/backend", "user.removeState"},
	{"internal/backend", "user.applyMessagesCreated"},
	{"internal/backend", "user.applyMessageUpdated"},
	{"internal/backend", "user.applyMessageDeleted"},
	{"internal/state", "State.actionCreateMessage"},
	{"internal/state", "State.actionCreateRecoveredMessage"},
	{"internal/state", "State.getLiteral"},
	{"internal/state", "Mailbox.Append"},
	{"internal/state", "stateDBWrite"},
}

func crashInterfaceMethods(files []*ast.File, root string) []string {
	ifaces := map[string]*ast.InterfaceType{}
	for _, f := range files {
		for _, d := range f.Decls {
			gd, ok := d.(*ast.GenDecl)
			if !ok {
				continue
			}
			for _, s := range gd.Specs {
				if ts, ok := s.(*ast.TypeSpec); ok {
					if it, ok := ts.Type.(*ast.InterfaceType); ok {
						ifaces[ts.Name.Name] = it
					}
				}
			}
		}
	}
	seen := map[string]bool{}
	set := map[string]bool{}
	var walk func(n string)
	walk = func(n string) {
		if seen[n] || ifaces[n] == nil {
			return
		}
		seen[n] = true
		for _, m := range ifaces[n].Methods.List {
			if len(m.Names) == 0 {
				if id, ok := m.Type.(*ast.Ident); ok {
					walk(id.Name)
				}
				continue
			}
			set[m.Names[0].Name] = true
		}
	}
	walk(root)
	var out []string
	for n := range set {
		out = append(out, n)
	}
	sort.Strings(out)
	return out
}

func factsCrash(c *factsCtx, outdir string) error {
	dbFiles := c.parseDir("db")
	ro := crashInterfaceMethods(dbFiles, "ReadOnly")
	tx := crashInterfaceMethods(dbFiles, "Transaction")
	roSet := map[string]bool{}
	for _, n := range ro {
		roSet[n] = true
	}
	txSet := map[string]bool{}
	for _, n := range tx {
		txSet[n] = true
	}
	storeMethods := map[string]bool{"Get": true, "Set": true, "SetUnchecked": true, "Delete": true, "DeleteUnchecked": true, "List": true}
	anchored := map[string]bool{}
	for _, t := range crashTargets {
		n := t.fn
		if i := strings.LastIndex(n, "."); i >= 0 {
			n = n[i+1:]
		}
		anchored[n] = true
	}
	anchored["AppendRegular"] = true
	anchored["QueueOrApplyStateUpdate"] = true
	var b strings.Builder
	b.WriteString("namespace Gluon.Facts\n\n")
	fmt.Fprintf(&b, "/-- methods of `db.ReadOnly` (with the embedded interfaces) -/\ndef crashRoMethods : List String := %s\n\n", leanStrList(ro))
	fmt.Fprintf(&b, "/-- methods of `db.Transaction` (with the embedded interfaces) -/\ndef crashTxMethods : List String := %s\n\n", leanStrList(tx))
	b.WriteString("/-- storage calls of the anchored functions in source order: `store.<M>` (receiver mentions a store),\n    `tx.<M>` / `rd.<M>` (a db.Transaction / db.ReadOnly method on a receiver of that name), `call.<f>` (another anchored function), `db.Write` / `db.Read` (a transaction / read section on the user's db.Client), `check.recovered` (ids.IsRecoveredRemoteMessageID) -/\n")
	b.WriteString("def crashCallOrder : List (String × List String) := [\n")
	for ti, t := range crashTargets {
		var calls []string
		found := false
		for _, f := range c.parseDir(t.dir) {
			for _, d := range f.Decls {
				fd, ok := d.(*ast.FuncDecl)
				if !ok || fd.Body == nil || funcQualName(fd) != t.fn {
					continue
				}
				found = true
				ast.Inspect(fd.Body, func(n ast.Node) bool {
					ce, ok := n.(*ast.CallExpr)
					if !ok {
						return true
					}
					switch fn := ce.Fun.(type) {
					case *ast.SelectorExpr:
						recv := strings.ToLower(types.ExprString(fn.X))
						m := fn.Sel.Name
						switch {
						case storeMethods[m] && (strings.Contains(recv, "store") || recv == "st"):
							calls = append(calls, "store."+m)
						case txSet[m] && (recv == "tx"):
							calls = append(calls, "tx."+m)
						case roSet[m] && (recv == "client" || recv == "rd" || recv == "read"):
							calls = append(calls, "rd."+m)
						case m == "IsRecoveredRemoteMessageID":
							calls = append(calls, "check.recovered")
						case anchored[m]:
							calls = append(calls, "call."+m)
						case (m == "Write" || m == "Read") && strings.Contains(recv, "db"):
							calls = append(calls, "db."+m)
						}
					case *ast.Ident:
						if anchored[fn.Name] {
							calls = append(calls, "call."+fn.Name)
						}
					case *ast.IndexExpr: // generic instantiation f[T](...)
						if id, ok := fn.X.(*ast.Ident); ok && anchored[id.Name] {
							calls = append(calls, "call."+id.Name)
						}
					}
					return true
				})
			}
		}
		if !found {
			calls = []string{"unknown"}
		}
		sep := ","
		if ti == len(crashTargets)-1 {
			sep = ""
		}
		fmt.Fprintf(&b, "  (%s, %s)%s\n", leanStr(t.fn), leanStrList(calls), sep)
	}
	b.WriteString("]\n\nend Gluon.Facts\n")
	return writeLean(outdir, "Crash.lean", b.String())
}

func init() { factGens = append(factGens, factGen{"Crash", factsCrash}) }
