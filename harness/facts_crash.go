package main

// Facts/Crash.lean (C07):
//   * the method names of db.ReadOnly and db.Transaction (the model's statement table classifies every
//     Transaction method as read / recent / write; a new method changes the table and the theorems are
//     re-checked against it);
//   * for the functions the C07 model is anchored in: the storage calls (store.*, tx.*, rd.*, and calls of
//     the anchored functions themselves) in SOURCE ORDER. The theorems `source_*` of Theorems/C07.lean
//     decide on these lists what the model of start-up recovery and of the store-before-row order assumes.
//   * for the anchored functions that delete cache files inside a `range` loop: the collection the loop ranges over,
//     and for every collection of such a function the places where it GROWS (`x = append(x, ..)`, `x[k] = v`) with
//     the conditions of the enclosing if-statements (`!cond` for an else branch). `source_cleanup_ranges_over_new`
//     decides on them that the clean-up after a failed MessagesCreated transaction ranges over a collection that only
//     receives messages the database did not know (the model's `handlerOf`: delete the NEW ids only).
//   * the `return` statements of deleteAllMessagesMarkedDeleted / cleanupStaleStoreData with their guards
//     (`source_startup_cleanup_unconditional`: only a failed read ends a pass before its store.Delete - the model's
//     `recover` removes EVERY file without a row, whatever the two id lists look like).

import (
	"fmt"
	"go/ast"
	"go/types"
	"sort"
	"strings"
)

type crashTarget struct{ dir, fn string }

var crashTargets = []crashTarget{
	{"internal/backend", "newUser"},
	{"internal/backend", "user.deleteAllMessagesMarkedDeleted"},
	{"internal/backend", "user.cleanupStaleStoreData"},
	{"internal/backend", "user.removeState"},
	{"internal/backend", "user.applyMessagesCreated"},
	{"internal/backend", "user.applyMessageUpdated"},
	{"internal/backend", "user.applyMessageDeleted"},
	{"internal/state", "State.actionCreateMessage"},
	{"internal/state", "State.actionCreateRecoveredMessage"},
	{"internal/state", "State.getLiteral"},
	{"internal/state", "Mailbox.Append"},
	{"internal/state", "stateDBWrite"},
}

func crashInterfaceMethods(files []*ast.File, root string) []string {
	ifaces := map[string]*ast.InterfaceType{}
	for _, f := range files {
		for _, d := range f.Decls {
			gd, ok := d.(*ast.GenDecl)
			if !ok {
				continue
			}
			for _, s := range gd.Specs {
				if ts, ok := s.(*ast.TypeSpec); ok {
					if it, ok := ts.Type.(*ast.InterfaceType); ok {
						ifaces[ts.Name.Name] = it
					}
				}
			}
		}
	}
	seen := map[string]bool{}
	set := map[string]bool{}
	var walk func(n string)
	walk = func(n string) {
		if seen[n] || ifaces[n] == nil {
			return
		}
		seen[n] = true
		for _, m := range ifaces[n].Methods.List {
			if len(m.Names) == 0 {
				if id, ok := m.Type.(*ast.Ident); ok {
					walk(id.Name)
				}
				continue
			}
			set[m.Names[0].Name] = true
		}
	}
	walk(root)
	var out []string
	for n := range set {
		out = append(out, n)
	}
	sort.Strings(out)
	return out
}

func factsCrash(c *factsCtx, outdir string) error {
	dbFiles := c.parseDir("db")
	ro := crashInterfaceMethods(dbFiles, "ReadOnly")
	tx := crashInterfaceMethods(dbFiles, "Transaction")
	roSet := map[string]bool{}
	for _, n := range ro {
		roSet[n] = true
	}
	txSet := map[string]bool{}
	for _, n := range tx {
		txSet[n] = true
	}
	storeMethods := map[string]bool{"Get": true, "Set": true, "SetUnchecked": true, "Delete": true, "DeleteUnchecked": true, "List": true}
	anchored := map[string]bool{}
	for _, t := range crashTargets {
		n := t.fn
		if i := strings.LastIndex(n, "."); i >= 0 {
			n = n[i+1:]
		}
		anchored[n] = true
	}
	anchored["AppendRegular"] = true
	anchored["QueueOrApplyStateUpdate"] = true
	var b strings.Builder
	b.WriteString("namespace Gluon.Facts\n\n")
	fmt.Fprintf(&b, "/-- methods of `db.ReadOnly` (with the embedded interfaces) -/\ndef crashRoMethods : List String := %s\n\n", leanStrList(ro))
	fmt.Fprintf(&b, "/-- methods of `db.Transaction` (with the embedded interfaces) -/\ndef crashTxMethods : List String := %s\n\n", leanStrList(tx))
	b.WriteString("/-- storage calls of the anchored functions in source order: `store.<M>` (receiver mentions a store),\n    `tx.<M>` / `rd.<M>` (a db.Transaction / db.ReadOnly method on a receiver of that name), `call.<f>` (another anchored function), `db.Write` / `db.Read` (a transaction / read section on the user's db.Client), `check.recovered` (ids.IsRecoveredRemoteMessageID) -/\n")
	b.WriteString("def crashCallOrder : List (String × List String) := [\n")
	for ti, t := range crashTargets {
		var calls []string
		found := false
		for _, f := range c.parseDir(t.dir) {
			for _, d := range f.Decls {
				fd, ok := d.(*ast.FuncDecl)
				if !ok || fd.Body == nil || funcQualName(fd) != t.fn {
					continue
				}
				found = true
				ast.Inspect(fd.Body, func(n ast.Node) bool {
					ce, ok := n.(*ast.CallExpr)
					if !ok {
						return true
					}
					switch fn := ce.Fun.(type) {
					case *ast.SelectorExpr:
						recv := strings.ToLower(types.ExprString(fn.X))
						m := fn.Sel.Name
						switch {
						case storeMethods[m] && (strings.Contains(recv, "store") || recv == "st"):
							calls = append(calls, "store."+m)
						case txSet[m] && (recv == "tx"):
							calls = append(calls, "tx."+m)
						case roSet[m] && (recv == "client" || recv == "rd" || recv == "read"):
							calls = append(calls, "rd."+m)
						case m == "IsRecoveredRemoteMessageID":
							calls = append(calls, "check.recovered")
						case anchored[m]:
							calls = append(calls, "call."+m)
						case (m == "Write" || m == "Read") && strings.Contains(recv, "db"):
							calls = append(calls, "db."+m)
						}
					case *ast.Ident:
						if anchored[fn.Name] {
							calls = append(calls, "call."+fn.Name)
						}
					case *ast.IndexExpr: // generic instantiation f[T](...)
						if id, ok := fn.X.(*ast.Ident); ok && anchored[id.Name] {
							calls = append(calls, "call."+id.Name)
						}
					}
					return true
				})
			}
		}
		if !found {
			calls = []string{"unknown"}
		}
		sep := ","
		if ti == len(crashTargets)-1 {
			sep = ""
		}
		fmt.Fprintf(&b, "  (%s, %s)%s\n", leanStr(t.fn), leanStrList(calls), sep)
	}
	b.WriteString("]\n\n")
	// clean-up loops and growth sites
	var loops, sites []string
	for _, t := range crashTargets {
		for _, f := range c.parseDir(t.dir) {
			for _, d := range f.Decls {
				fd, ok := d.(*ast.FuncDecl)
				if !ok || fd.Body == nil || funcQualName(fd) != t.fn {
					continue
				}
				var fnLoops []string
				ast.Inspect(fd.Body, func(n ast.Node) bool {
					rs, ok := n.(*ast.RangeStmt)
					if !ok {
						return true
					}
					deletes := false
					ast.Inspect(rs.Body, func(m ast.Node) bool {
						if ce, ok := m.(*ast.CallExpr); ok {
							if se, ok := ce.Fun.(*ast.SelectorExpr); ok && (se.Sel.Name == "Delete" || se.Sel.Name == "DeleteUnchecked") && strings.Contains(strings.ToLower(types.ExprString(se.X)), "store") {
								deletes = true
							}
						}
						return true
					})
					if deletes {
						fnLoops = append(fnLoops, types.ExprString(rs.X))
					}
					return true
				})
				if len(fnLoops) == 0 {
					continue
				}
				for _, l := range fnLoops {
					loops = append(loops, fmt.Sprintf("(%s, %s)", leanStr(t.fn), leanStr(l)))
				}
				var walk func(n ast.Node, guards []string)
				walk = func(n ast.Node, guards []string) {
					switch x := n.(type) {
					case nil:
						return
					case *ast.IfStmt:
						if x.Init != nil {
							walk(x.Init, guards)
						}
						cond := types.ExprString(x.Cond)
						walk(x.Body, append(append([]string{}, guards...), cond))
						if x.Else != nil {
							walk(x.Else, append(append([]string{}, guards...), "!("+cond+")"))
						}
						return
					case *ast.AssignStmt:
						for i, lhs := range x.Lhs {
							switch l := lhs.(type) {
							case *ast.IndexExpr:
								sites = append(sites, fmt.Sprintf("(%s, %s, %s)", leanStr(t.fn), leanStr(types.ExprString(l.X)), leanStrList(guards)))
							case *ast.Ident:
								if i < len(x.Rhs) {
									if ce, ok := x.Rhs[i].(*ast.CallExpr); ok {
										if id, ok := ce.Fun.(*ast.Ident); ok && id.Name == "append" && len(ce.Args) > 0 && types.ExprString(ce.Args[0]) == l.Name {
											sites = append(sites, fmt.Sprintf("(%s, %s, %s)", leanStr(t.fn), leanStr(l.Name), leanStrList(guards)))
										}
									}
								}
							}
						}
					}
					// generic descent, keeping the guards
					ast.Inspect(n, func(m ast.Node) bool {
						if m == n || m == nil {
							return true
						}
						walk(m, guards)
						return false
					})
				}
				walk(fd.Body, nil)
			}
		}
	}
	b.WriteString("/-- (function, collection) for every `range` loop of an anchored function whose body deletes cache files -/\n")
	b.WriteString("def crashCleanupLoops : List (String × String) := [" + strings.Join(loops, ", ") + "]\n\n")
	b.WriteString("/-- (function, collection, conditions of the enclosing if-statements) for every statement of these functions that makes a collection grow (`x = append(x, ..)`, `x[k] = v`) -/\n")
	b.WriteString("def crashGrowthSites : List (String × String × List String) := [\n  " + strings.Join(sites, ",\n  ") + "\n]\n\n")
	// return statements of the two start-up clean-up passes (not those of nested function literals), in source order,
	// with the conditions of the enclosing if / for / switch statements: `source_startup_cleanup_unconditional` decides
	// on them that nothing but a failed read ends the pass before its store.Delete
	var rets []string
	for _, fn := range []string{"user.deleteAllMessagesMarkedDeleted", "user.cleanupStaleStoreData"} {
		for _, f := range c.parseDir("internal/backend") {
			for _, d := range f.Decls {
				fd, ok := d.(*ast.FuncDecl)
				if !ok || fd.Body == nil || funcQualName(fd) != fn {
					continue
				}
				var walk func(n ast.Node, guards []string)
				walk = func(n ast.Node, guards []string) {
					switch x := n.(type) {
					case nil:
						return
					case *ast.FuncLit:
						return
					case *ast.IfStmt:
						if x.Init != nil {
							walk(x.Init, guards)
						}
						cond := types.ExprString(x.Cond)
						walk(x.Body, append(append([]string{}, guards...), cond))
						if x.Else != nil {
							walk(x.Else, append(append([]string{}, guards...), "!("+cond+")"))
						}
						return
					case *ast.ForStmt:
						walk(x.Body, append(append([]string{}, guards...), "for"))
						return
					case *ast.RangeStmt:
						walk(x.Body, append(append([]string{}, guards...), "range"))
						return
					case *ast.SwitchStmt:
						walk(x.Body, append(append([]string{}, guards...), "switch"))
						return
					case *ast.TypeSwitchStmt:
						walk(x.Body, append(append([]string{}, guards...), "switch"))
						return
					case *ast.SelectStmt:
						walk(x.Body, append(append([]string{}, guards...), "select"))
						return
					case *ast.ReturnStmt:
						var rs []string
						for _, r := range x.Results {
							rs = append(rs, types.ExprString(r))
						}
						rets = append(rets, fmt.Sprintf("(%s, %s, %s)", leanStr(fn), leanStrList(guards), leanStr(strings.Join(rs, ", "))))
						return
					}
					ast.Inspect(n, func(m ast.Node) bool {
						if m == n || m == nil {
							return true
						}
						walk(m, guards)
						return false
					})
				}
				walk(fd.Body, nil)
			}
		}
	}
	b.WriteString("/-- (function, conditions of the enclosing if / loop / switch statements, returned expressions) for every `return` of the two start-up clean-up passes (nested function literals excluded), in source order -/\n")
	b.WriteString("def crashStartupReturns : List (String × List String × String) := [\n  " + strings.Join(rets, ",\n  ") + "\n]\n\nend Gluon.Facts\n")
	return writeLean(outdir, "Crash.lean", b.String())
}

func init() { factGens = append(factGens, factGen{"Crash", factsCrash}) }
