package main

// Oracle `c09store` (C09): the real store.NewOnDiskStore behind store.NewWriteControlledStore in a
// temporary directory.
//
//   roundtrip  every length class x compressibility: Get(Set(b)) == b
//   corrupt    every structural alteration of stored files (flip a byte in header, nonce, at the
//              start/middle/tag/end of every block; truncate at every structural offset; drop, swap,
//              duplicate whole blocks; append; wrong passphrase): Get must return an error or the
//              exact bytes, never different bytes
//   aligned    the corrupt sweep on contents constructed so that a sealed-block boundary (after 1, 2, 3 blocks)
//              coincides with an LZ4 data-block boundary (o_store_aligned.go): there a damaged later block is an
//              error only because the reader goroutine reports the decrypt failure as an error
//   lz4align   a message whose LZ4 frame has a data-block boundary exactly at the first AES block
//              boundary, file cut there (finding C09-F2)
//   craftswap  a message stored uncompressed with plausible LZ4 block headers at the right offsets,
//              two whole AES blocks exchanged (finding C09-F3)
//   lifetime, listflight, listconc, crash: see o_store_life.go (results stay what they were; List at every moment)
//   conc       8 goroutines doing Get/Set/Delete on one id / on four ids: every Get returns a complete
//              value that was Set for that id, or not-found
//   probe      the lock table alone (instant in-memory impl that detects two writers, or a writer and a
//              reader, inside impl for one id at the same time) (finding C09-F4)
//
// A replay file is `oracle c09store -case <name> <flags>` plus comment lines; `-replay FILE` re-runs it.

import (
	"bytes"
	"encoding/binary"
	"encoding/json"
	"errors"
	"flag"
	"fmt"
	"io"
	"io/fs"
	"os"
	"path/filepath"
	"runtime"
	"sort"
	"strings"
	"sync"
	"sync/atomic"
	"time"

	"github.com/ProtonMail/gluon/imap"
	"github.com/ProtonMail/gluon/store"
)

type c09Violation struct {
	Desc   string `json:"desc"`
	Replay string `json:"replay"`
}

type c09Result struct {
	Evaluations        int                      `json:"evaluations"`
	DistinctNontrivial int                      `json:"distinct_nontrivial"`
	Stats              map[string]int           `json:"stats"`
	Samples            []map[string]interface{} `json:"samples"`
	Violations         []c09Violation           `json:"violations"`
}

type c09Run struct {
	res       c09Result
	replayDir string
	seenClass map[string]bool
	mu        sync.Mutex
}

func (o *c09Run) inc(k string) {
	o.mu.Lock()
	o.res.Stats[k]++
	o.mu.Unlock()
}

// violate records one violation per class (the stats count all of them) with a self-contained replay file.
func (o *c09Run) violate(class, desc, replayArgs string) {
	o.mu.Lock()
	defer o.mu.Unlock()
	o.res.Stats["violation."+class]++
	if o.seenClass[class] {
		return
	}
	o.seenClass[class] = true
	text := fmt.Sprintf("oracle c09store %s\n# %s: %s\n# replay: ./check C09 --replay <this file>\n", replayArgs, class, desc)
	path := ""
	if o.replayDir != "" {
		_ = os.MkdirAll(o.replayDir, 0o755)
		name := strings.NewReplacer(" ", "_", "/", "_", ":", "_").Replace(class)
		path = filepath.Join(o.replayDir, fmt.Sprintf("C09-oracle-%s.txt", name))
		_ = os.WriteFile(path, []byte(text), 0o644)
	}
	o.res.Violations = append(o.res.Violations, c09Violation{Desc: class + ": " + desc, Replay: path})
}

func c09Content(kind string, n int, seed uint64) []byte {
	switch kind {
	case "z":
		return make([]byte, n)
	case "t":
		return storeTextBytes(n)
	case "m": // half compressible: 512 random bytes, 512 zeros, …
		b := storeRandBytes(seed, n)
		for i := 0; i < n; i++ {
			if (i/512)%2 == 1 {
				b[i] = 0
			}
		}
		return b
	default:
		return storeRandBytes(seed, n)
	}
}

type c09Env struct {
	dir string
	st  store.Store
}

func newC09Env(pass int) *c09Env {
	dir, err := os.MkdirTemp("", "vh-c09-oracle-")
	if err != nil {
		panic(err)
	}
	return &c09Env{dir: dir, st: openVerifStore(dir, pass)}
}

func (e *c09Env) close()                                  { _ = e.st.Close(); _ = os.RemoveAll(e.dir) }
func (e *c09Env) path(id imap.InternalMessageID) string { return filepath.Join(e.dir, id.String()) }

// ---- roundtrip ---------------------------------------------------------------------------------

// c09TuneRandomLen finds a length of pseudo-random content whose LZ4 frame is exactly `target` bytes long.
func c09TuneRandomLen(seed uint64, target int) int {
	length := target - 11 - 4*((target+65535)/65536)
	if length < 0 {
		length = 0
	}
	for try := 0; try < 8; try++ {
		got := len(c09Lz4Frame(storeRandBytes(seed, length)))
		if got == target {
			return length
		}
		length += target - got
		if length < 0 {
			length = 0
		}
	}
	return length
}

func (o *c09Run) roundtrip(kind string, n int, seed uint64) {
	env := newC09Env(0)
	defer env.close()
	b := c09Content(kind, n, seed)
	id := storeID(1)
	args := fmt.Sprintf("-case roundtrip -kind %s -len %d -cseed %d", kind, n, seed)
	o.res.Evaluations++
	if err := env.st.Set(id, bytes.NewReader(b)); err != nil {
		o.violate("roundtrip-set-error", fmt.Sprintf("Set of %d bytes (%s) failed: %v", n, kind, err), args)
		return
	}
	got, err := env.st.Get(id)
	if err != nil {
		o.violate("roundtrip-get-error", fmt.Sprintf("Get after Set of %d bytes (%s) failed: %v", n, kind, err), args)
		return
	}
	if !bytes.Equal(got, b) {
		o.violate("roundtrip-different-bytes", fmt.Sprintf("Get after Set of %d bytes (%s) returned %d different bytes", n, kind, len(got)), args)
		return
	}
	o.res.DistinctNontrivial++
	o.inc("roundtrip." + kind)
	if f, err := os.ReadFile(env.path(id)); err == nil {
		fm := c09Fmt()
		nb := (len(f) - fm.headerLen - fm.nonceLen + fm.blockSize + fm.overhead - 1) / (fm.blockSize + fm.overhead)
		o.inc(fmt.Sprintf("roundtrip.blocks=%d", nb))
		if !bytes.HasPrefix(f, append([]byte("GLUON-CACHE"), 1, 0, 0, 0)) {
			o.violate("header-constant", "stored file does not start with GLUON-CACHE\\x01\\x00\\x00\\x00", args)
		}
	}
}

func (o *c09Run) roundtrips(thorough bool) {
	storeBlockSize := c09Fmt().blockSize
	lens := []int{0, 1, 15, 16, 17, 255, 4095, 4096, 4097}
	kmax, bmax := 3, 2
	big := []int{3 << 20}
	if thorough {
		kmax, bmax = 6, 5
		big = []int{3 << 20, 5 << 20, 8<<20 + 3}
	}
	for k := 1; k <= kmax; k++ {
		lens = append(lens, k*65536-1, k*65536, k*65536+1)
	}
	for k := 1; k <= bmax; k++ {
		for _, d := range []int{-16, -1, 0, 1, 16} {
			lens = append(lens, k*storeBlockSize+d)
		}
	}
	lens = append(lens, big...)
	for _, kind := range []string{"z", "t", "r", "m"} {
		for i, n := range lens {
			o.roundtrip(kind, n, uint64(100+i))
		}
	}
	// incompressible content whose *compressed* length sits exactly around the AES block boundaries
	for k := 1; k <= bmax; k++ {
		for _, d := range []int{-16, -1, 0, 1, 16} {
			seed := uint64(500 + k)
			o.roundtrip("r", c09TuneRandomLen(seed, k*storeBlockSize+d), seed)
			o.inc("roundtrip.tuned-clen")
		}
	}
}

// ---- corrupt -----------------------------------------------------------------------------------

func c09SplitBlocks(f []byte) (head []byte, blocks [][]byte) {
	fm := c09Fmt()
	hn := fm.headerLen + fm.nonceLen
	if len(f) < hn {
		return f, nil
	}
	head = f[:hn]
	body := f[hn:]
	enc := fm.blockSize + fm.overhead
	for len(body) > 0 {
		k := enc
		if k > len(body) {
			k = len(body)
		}
		blocks = append(blocks, body[:k])
		body = body[k:]
	}
	return
}

func c09JoinBlocks(head []byte, blocks [][]byte) []byte {
	out := append([]byte{}, head...)
	for _, b := range blocks {
		out = append(out, b...)
	}
	return out
}

// c09ApplyMutation returns the altered file, or nil for the wrong-passphrase pseudo mutation / not applicable.
func c09ApplyMutation(f []byte, mut string) []byte {
	var a, b int
	head, blocks := c09SplitBlocks(f)
	switch {
	case c09Scan(mut, "flip:%d", &a):
		if a < 0 || a >= len(f) {
			return nil
		}
		g := append([]byte{}, f...)
		g[a] ^= 0x40
		return g
	case c09Scan(mut, "trunc:%d", &a):
		if a < 0 || a >= len(f) {
			return nil
		}
		return append([]byte{}, f[:a]...)
	case c09Scan(mut, "append:%d", &a):
		return append(append([]byte{}, f...), bytes.Repeat([]byte{0x5a}, a)...)
	case c09Scan(mut, "drop:%d", &a):
		if a >= len(blocks) {
			return nil
		}
		nb := append(append([][]byte{}, blocks[:a]...), blocks[a+1:]...)
		return c09JoinBlocks(head, nb)
	case c09Scan(mut, "swap:%d:%d", &a, &b):
		if a >= len(blocks) || b >= len(blocks) || a == b {
			return nil
		}
		nb := append([][]byte{}, blocks...)
		nb[a], nb[b] = nb[b], nb[a]
		return c09JoinBlocks(head, nb)
	case c09Scan(mut, "dup:%d:%d", &a, &b): // a copy of block a inserted after block b
		if a >= len(blocks) || b >= len(blocks) {
			return nil
		}
		nb := append([][]byte{}, blocks[:b+1]...)
		nb = append(nb, blocks[a])
		nb = append(nb, blocks[b+1:]...)
		return c09JoinBlocks(head, nb)
	}
	return nil
}

func c09Scan(s, format string, args ...interface{}) bool {
	n, err := fmt.Sscanf(s, format, args...)
	if err != nil || n != len(args) {
		return false
	}
	// reject trailing garbage: re-render and compare
	vals := make([]interface{}, len(args))
	for i, a := range args {
		vals[i] = *(a.(*int))
	}
	return fmt.Sprintf(format, vals...) == s
}

func c09MutationsFor(f []byte) []string {
	var muts []string
	add := func(format string, a ...interface{}) { muts = append(muts, fmt.Sprintf(format, a...)) }
	fm := c09Fmt()
	storeOverhead, storeBlockSize := fm.overhead, fm.blockSize
	hn := fm.headerLen + fm.nonceLen
	for i := 0; i < hn; i++ {
		add("flip:%d", i)
		add("trunc:%d", i)
	}
	add("trunc:%d", hn)
	_, blocks := c09SplitBlocks(f)
	off := hn
	for _, b := range blocks {
		for _, rel := range []int{0, 1, len(b) / 2, len(b) - storeOverhead - 1, len(b) - storeOverhead, len(b) - 1} {
			if rel >= 0 && rel < len(b) {
				add("flip:%d", off+rel)
				if off+rel > hn {
					add("trunc:%d", off+rel)
				}
			}
		}
		off += len(b)
		if off < len(f) {
			add("trunc:%d", off) // on a block boundary
		}
	}
	for _, n := range []int{1, 16, 17, storeBlockSize + storeOverhead} {
		add("append:%d", n)
	}
	if len(blocks) >= 2 {
		for i := range blocks {
			add("drop:%d", i)
			for j := range blocks {
				if i < j {
					add("swap:%d:%d", i, j)
				}
				add("dup:%d:%d", i, j)
			}
		}
	}
	muts = append(muts, "pass")
	// de-duplicate, keep order
	seen := map[string]bool{}
	var out []string
	for _, m := range muts {
		if !seen[m] {
			seen[m] = true
			out = append(out, m)
		}
	}
	return out
}

func c09MutClass(m string) string {
	if i := strings.Index(m, ":"); i >= 0 {
		return m[:i]
	}
	return m
}

// corruptOne: Set content, alter the file, Get. Returns (applicable, detected).
func (o *c09Run) corruptOne(kind string, n int, seed uint64, mut string) {
	env := newC09Env(0)
	defer env.close()
	o.corruptIn(env, kind, n, seed, mut, nil)
}

func (o *c09Run) corruptIn(env *c09Env, kind string, n int, seed uint64, mut string, orig []byte) {
	b := c09Content(kind, n, seed)
	args := fmt.Sprintf("-case corrupt -kind %s -len %d -cseed %d -mut %s", kind, n, seed, mut)
	o.corruptBytes(env, b, "kind "+kind, args, "corrupt", mut, orig)
}

// corruptBytes: content b is (or gets) stored, the file is altered by `mut`, Get must answer an error or b.
// Different bytes without an error are labelled by cause:
//   C09-F1  the file was cut right after the nonce
//   C09-F2  the file was cut exactly on a sealed-block boundary (no piece is damaged, every kept block opens) and a
//           non-empty strict prefix came back: the LZ4 reader took the end of the source for the end of the frame
//   cause=corrupt-later-block-accepted   intact leading blocks, then a piece that is NOT one of the sealed blocks of
//           the file (flipped bit, block cut short, garbage): that piece cannot open, yet Get returned a prefix
//   otherwise the kind of mutation (whole sealed blocks rearranged, …)
func (o *c09Run) corruptBytes(env *c09Env, b []byte, what, args, stat, mut string, orig []byte) {
	fm := c09Fmt()
	id := storeID(1)
	if orig == nil {
		if err := env.st.Set(id, bytes.NewReader(b)); err != nil {
			o.violate("roundtrip-set-error", fmt.Sprintf("Set failed: %v", err), args)
			return
		}
		f, err := os.ReadFile(env.path(id))
		if err != nil {
			panic(err)
		}
		orig = f
	}
	var got, g []byte
	var err error
	if mut == "pass" {
		g = orig
		if werr := os.WriteFile(env.path(id), orig, 0o600); werr != nil {
			panic(werr)
		}
		other := openVerifStore(env.dir, 1)
		got, err = other.Get(id)
	} else {
		g = c09ApplyMutation(orig, mut)
		if g == nil {
			o.inc(stat + ".not-applicable")
			return
		}
		if werr := os.WriteFile(env.path(id), g, 0o600); werr != nil {
			panic(werr)
		}
		got, err = env.st.Get(id)
	}
	o.res.Evaluations++
	cls := c09MutClass(mut)
	switch {
	case err != nil:
		o.inc(stat + "." + cls + ".error")
		o.res.DistinctNontrivial++
	case bytes.Equal(got, b):
		o.inc(stat + "." + cls + ".exact-bytes")
	default:
		hn := fm.headerLen + fm.nonceLen
		enc := fm.blockSize + fm.overhead
		_, blocks := c09SplitBlocks(orig)
		_, gblocks := c09SplitBlocks(g)
		// first piece of the altered file that is not the block the stored file has there
		first := 0
		for first < len(gblocks) && first < len(blocks) && bytes.Equal(gblocks[first], blocks[first]) {
			first++
		}
		damaged := false // … and is not a sealed block of the stored file at all
		if mut != "pass" && first < len(gblocks) && len(g) >= hn && bytes.Equal(g[:hn], orig[:hn]) {
			damaged = true
			for _, ob := range blocks {
				if bytes.Equal(ob, gblocks[first]) {
					damaged = false
				}
			}
		}
		cutOnBoundary := mut != "pass" && len(g) > hn && len(g) < len(orig) && bytes.HasPrefix(orig, g) && (len(g)-hn)%enc == 0
		strictPrefix := len(got) < len(b) && bytes.HasPrefix(b, got)
		class := "C09-altered-file-different-bytes " + cls
		extra := ""
		switch {
		case mut != "pass" && len(g) == hn && bytes.HasPrefix(orig, g):
			class = "C09-F1 truncate-after-nonce"
		case cutOnBoundary && strictPrefix && len(got) > 0:
			class = "C09-F2 truncate-at-lz4-block-boundary"
		case damaged && first >= 1 && strictPrefix:
			class = "C09-altered-file-different-bytes cause=corrupt-later-block-accepted"
			extra = fmt.Sprintf("; sealed blocks 0..%d are intact, the piece at block index %d (file offset %d, %d bytes) is not a sealed block of this file and cannot open, "+
				"yet no error was reported: the decrypt failure reached the LZ4 reader as a plain end of data (Lean: C09.alteration_detected_partial, C09.open_failure_is_pipe_error)",
				first-1, first, hn+first*enc, len(gblocks[first]))
		}
		o.violate(class, fmt.Sprintf("stored %d bytes (%s, %d blocks, file %d bytes); after %s Get returned %d bytes %s and no error%s",
			len(b), what, len(blocks), len(orig), mut, len(got), c09Relation(got, b), extra), args)
	}
}

func c09Relation(got, want []byte) string {
	switch {
	case len(got) == 0:
		return "(empty)"
	case bytes.HasPrefix(want, got):
		return "(a strict prefix of the stored bytes)"
	default:
		return "(not a prefix of the stored bytes)"
	}
}

type c09Base struct {
	kind string
	n    int
	seed uint64
}

func (o *c09Run) corruptions(thorough bool) {
	bases := []c09Base{
		{"t", 1000, 3}, {"r", 0, 1}, {"r", 1, 2}, {"z", 70000, 4}, // one block
		{"r", 300000, 5},  // 2 blocks
		{"m", 1200000, 6}, // compressible, about 2-3 blocks
		{"r", 600000, 7},  // 3 blocks
		{"r", 800000, 8},  // 4 blocks
		{"r", 1100000, 9}, // 5 blocks
	}
	if thorough {
		bases = append(bases, c09Base{"m", 2400000, 10}, c09Base{"r", c09TuneRandomLen(11, 2*c09Fmt().blockSize), 11}, c09Base{"r", 5 << 20, 12})
	}
	for _, bs := range bases {
		env := newC09Env(0)
		id := storeID(1)
		b := c09Content(bs.kind, bs.n, bs.seed)
		if err := env.st.Set(id, bytes.NewReader(b)); err != nil {
			env.close()
			continue
		}
		orig, err := os.ReadFile(env.path(id))
		if err != nil {
			panic(err)
		}
		_, blocks := c09SplitBlocks(orig)
		o.inc(fmt.Sprintf("corrupt.base.blocks=%d", len(blocks)))
		for _, m := range c09MutationsFor(orig) {
			o.corruptIn(env, bs.kind, bs.n, bs.seed, m, orig)
		}
		env.close()
	}
}

// ---- lz4align (C09-F2) -----------------------------------------------------------------------

// c09Lz4Boundaries: offsets in an LZ4 frame (no content size, no checksums) where a data block starts.
func c09Lz4Boundaries(c []byte) []int {
	var bs []int
	p := 7
	for p+4 <= len(c) {
		bs = append(bs, p)
		x := binary.LittleEndian.Uint32(c[p:])
		if x == 0 {
			break
		}
		p += 4 + int(x&0x7fffffff)
	}
	return bs
}

func c09Lz4AlignedContent(seed uint64, maxRun int) ([]byte, int, int) {
	base := storeRandBytes(seed, 5*65536)
	for run := 0; run < maxRun; run++ {
		c := append([]byte{}, base...)
		for i := 0; i < run; i++ {
			c[3*65536+1000+i] = 0
		}
		for _, b := range c09Lz4Boundaries(c09Lz4Frame(c)) {
			if b == c09Fmt().blockSize || b+4 == c09Fmt().blockSize {
				return c, run, b
			}
		}
	}
	return nil, -1, -1
}

func (o *c09Run) lz4align(seed uint64) {
	args := fmt.Sprintf("-case lz4align -cseed %d", seed)
	c, run, boundary := c09Lz4AlignedContent(seed, 3000)
	if c == nil {
		o.inc("lz4align.no-aligned-content-found")
		return
	}
	env := newC09Env(0)
	defer env.close()
	id := storeID(1)
	if err := env.st.Set(id, bytes.NewReader(c)); err != nil {
		o.violate("roundtrip-set-error", fmt.Sprintf("Set failed: %v", err), args)
		return
	}
	f, err := os.ReadFile(env.path(id))
	if err != nil {
		panic(err)
	}
	fm := c09Fmt()
	cut := fm.headerLen + fm.nonceLen + fm.blockSize + fm.overhead
	if len(f) <= cut {
		o.inc("lz4align.single-block")
		return
	}
	if err := os.WriteFile(env.path(id), f[:cut], 0o600); err != nil {
		panic(err)
	}
	got, err := env.st.Get(id)
	o.res.Evaluations++
	switch {
	case err != nil:
		o.inc("lz4align.error")
		o.res.DistinctNontrivial++
	case bytes.Equal(got, c):
		o.inc("lz4align.exact-bytes")
	default:
		o.violate("C09-F2 truncate-at-lz4-block-boundary",
			fmt.Sprintf("stored %d bytes (5 x 64 KiB pseudo-random, %d zeroed bytes in the 4th: the LZ4 frame has a data-block boundary at offset %d, the end of the first AES block); "+
				"file of %d bytes cut to %d (header + nonce + first sealed block): Get returned %d bytes %s and no error",
				len(c), run, boundary, len(f), cut, len(got), c09Relation(got, c)), args)
	}
}

// ---- craftswap (C09-F3) ----------------------------------------------------------------------

func (o *c09Run) craftswap(seed uint64) {
	args := fmt.Sprintf("-case craftswap -cseed %d", seed)
	n := 13
	c := storeRandBytes(seed, n*65536)
	for j := 0; j < n; j++ {
		// what the LZ4 reader will take for block headers ("uncompressed, 65536 bytes") once AES blocks 1 and 2 are exchanged
		copy(c[j*65536+12:], []byte{0, 0, 1, 0x80})
		copy(c[j*65536+65520:], []byte{0, 0, 1, 0x80})
	}
	env := newC09Env(0)
	defer env.close()
	id := storeID(1)
	if err := env.st.Set(id, bytes.NewReader(c)); err != nil {
		o.violate("roundtrip-set-error", fmt.Sprintf("Set failed: %v", err), args)
		return
	}
	f, err := os.ReadFile(env.path(id))
	if err != nil {
		panic(err)
	}
	g := c09ApplyMutation(f, "swap:1:2")
	if g == nil {
		o.inc("craftswap.not-applicable")
		return
	}
	if err := os.WriteFile(env.path(id), g, 0o600); err != nil {
		panic(err)
	}
	got, err := env.st.Get(id)
	o.res.Evaluations++
	switch {
	case err != nil:
		o.inc("craftswap.error")
		o.res.DistinctNontrivial++
	case bytes.Equal(got, c):
		o.inc("craftswap.exact-bytes")
	default:
		_, blocks := c09SplitBlocks(f)
		o.violate("C09-F3 crafted-block-swap",
			fmt.Sprintf("stored %d bytes (13 x 64 KiB pseudo-random with the bytes 00 00 01 80 at offsets 12 and 65520 of every 64 KiB; LZ4 stores them uncompressed), file of %d blocks; "+
				"after exchanging sealed blocks 1 and 2 Get returned %d bytes %s and no error", len(c), len(blocks), len(got), c09Relation(got, c)), args)
	}
}

// ---- conc --------------------------------------------------------------------------------------

func (o *c09Run) conc(goroutines, opsPer, nids int, seed uint64, withSem bool) {
	args := fmt.Sprintf("-case conc -goroutines %d -ops %d -ids %d -cseed %d -sem=%v", goroutines, opsPer, nids, seed, withSem)
	dir, err := os.MkdirTemp("", "vh-c09-conc-")
	if err != nil {
		panic(err)
	}
	defer os.RemoveAll(dir)
	var opts []store.Option
	if withSem {
		opts = append(opts, store.WithSemaphore(store.NewSemaphore(3, nil)))
	}
	disk, err := store.NewOnDiskStore(dir, storePass(0), opts...)
	if err != nil {
		panic(err)
	}
	st := store.NewWriteControlledStore(disk)
	var mu sync.Mutex
	written := map[int]map[string]bool{} // id -> digests ever passed to Set
	for i := 1; i <= nids; i++ {
		written[i] = map[string]bool{}
	}
	var wg sync.WaitGroup
	var evals, gotValue int64
	for g := 0; g < goroutines; g++ {
		wg.Add(1)
		go func(g int) {
			defer wg.Done()
			r := NewRng(seed*1000 + uint64(g))
			for k := 0; k < opsPer; k++ {
				idn := 1 + r.Intn(nids)
				id := storeID(idn)
				switch c := r.Intn(10); {
				case c < 4:
					n := Pick(r, []int{1, 100, 5000, 70000, 300000})
					b := c09Content(Pick(r, []string{"r", "m", "t"}), n, r.U64())
					if n >= 8 { // make every value distinct
						binary.LittleEndian.PutUint32(b, uint32(g))
						binary.LittleEndian.PutUint32(b[4:], uint32(k))
					} else {
						b = []byte{byte(g*31 + k)}
					}
					mu.Lock()
					written[idn][storeDigest(b)] = true
					mu.Unlock()
					if err := st.Set(id, bytes.NewReader(b)); err != nil {
						o.violate("conc-set-error", fmt.Sprintf("Set failed: %v", err), args)
					}
				case c < 8:
					b, err := st.Get(id)
					atomic.AddInt64(&evals, 1)
					if err != nil {
						if !errors.Is(err, fs.ErrNotExist) {
							o.violate("conc-get-error", fmt.Sprintf("Get under concurrent Set/Delete returned an error other than not-found (possibly a consequence of C09-F4): %v", err), args)
						}
						continue
					}
					mu.Lock()
					ok := written[idn][storeDigest(b)]
					mu.Unlock()
					if !ok {
						o.violate("conc-get-incomplete", fmt.Sprintf("Get returned %d bytes (digest %s) that were never Set for this id (possibly a consequence of C09-F4)", len(b), storeDigest(b)), args)
					} else {
						atomic.AddInt64(&gotValue, 1)
					}
				default:
					_ = st.Delete(id) // an error for a missing file is fine
				}
			}
		}(g)
	}
	wg.Wait()
	o.res.Evaluations += int(evals)
	o.res.DistinctNontrivial += int(gotValue)
	o.res.Stats[fmt.Sprintf("conc.ids=%d.sem=%v.gets", nids, withSem)] += int(evals)
	o.res.Stats[fmt.Sprintf("conc.ids=%d.sem=%v.gets-with-value", nids, withSem)] += int(gotValue)
}

// ---- probe (C09-F4) --------------------------------------------------------------------------

type c09ExclusionProbe struct {
	writers, readers int32
	violations, ops  int64
}

func (p *c09ExclusionProbe) write() {
	if atomic.AddInt32(&p.writers, 1) != 1 || atomic.LoadInt32(&p.readers) != 0 {
		atomic.AddInt64(&p.violations, 1)
	}
	runtime.Gosched()
	atomic.AddInt32(&p.writers, -1)
	atomic.AddInt64(&p.ops, 1)
}
func (p *c09ExclusionProbe) Get(imap.InternalMessageID) ([]byte, error) {
	atomic.AddInt32(&p.readers, 1)
	if atomic.LoadInt32(&p.writers) != 0 {
		atomic.AddInt64(&p.violations, 1)
	}
	atomic.AddInt32(&p.readers, -1)
	atomic.AddInt64(&p.ops, 1)
	return nil, nil
}
func (p *c09ExclusionProbe) Set(imap.InternalMessageID, io.Reader) error { p.write(); return nil }
func (p *c09ExclusionProbe) Delete(...imap.InternalMessageID) error      { p.write(); return nil }
func (p *c09ExclusionProbe) Close() error                                { return nil }
func (p *c09ExclusionProbe) List() ([]imap.InternalMessageID, error)     { return nil, nil }

func (o *c09Run) probe(goroutines, millis int) bool {
	args := fmt.Sprintf("-case probe -goroutines %d -ms 20000", goroutines)
	p := &c09ExclusionProbe{}
	w := store.NewWriteControlledStore(p)
	id := storeID(1)
	var wg sync.WaitGroup
	var stop int32
	for i := 0; i < goroutines; i++ {
		wg.Add(1)
		go func(i int) {
			defer wg.Done()
			for atomic.LoadInt32(&stop) == 0 {
				switch i % 3 {
				case 0:
					_ = w.Set(id, nil)
				case 1:
					_ = w.Delete(id)
				default:
					_, _ = w.Get(id)
				}
			}
		}(i)
	}
	deadline := time.Now().Add(time.Duration(millis) * time.Millisecond)
	for time.Now().Before(deadline) && atomic.LoadInt64(&p.violations) == 0 {
		time.Sleep(5 * time.Millisecond)
	}
	atomic.StoreInt32(&stop, 1)
	wg.Wait()
	o.res.Evaluations += int(p.ops)
	o.res.Stats[fmt.Sprintf("probe.g=%d.ops", goroutines)] += int(p.ops)
	if p.violations > 0 {
		o.violate("C09-F4 rw-exclusion-broken",
			fmt.Sprintf("WriteControlledStore let two writers (or a writer and a reader) into impl for the same id at the same time: %d overlaps in %d operations of %d goroutines "+
				"(Set/Delete/Get on one id, in-memory impl; stale releaseSyncRef deletes a fresh table entry, Lean: C09.rw_exclusion_fails). Not deterministic: re-run the replay if it passes",
				p.violations, p.ops, goroutines), args)
		return true
	}
	return false
}

// ---- driver ------------------------------------------------------------------------------------

func runC09Store(argv []string) int {
	fl := flag.NewFlagSet("c09store", flag.ContinueOnError)
	seed := fl.Uint64("seed", 1, "seed")
	out := fl.String("out", "", "result file")
	replayDir := fl.String("replaydir", "", "directory for replay files")
	replay := fl.String("replay", "", "replay file")
	tier := fl.String("tier", "quick", "quick|thorough")
	cas := fl.String("case", "", "run one case only")
	kind := fl.String("kind", "r", "content kind z|t|r|m")
	length := fl.Int("len", 1000, "content length")
	cseed := fl.Uint64("cseed", 1, "content seed")
	mut := fl.String("mut", "", "mutation")
	goroutines := fl.Int("goroutines", 8, "goroutines")
	ops := fl.Int("ops", 200, "operations per goroutine")
	ids := fl.Int("ids", 1, "number of ids")
	sem := fl.Bool("sem", false, "with store.WithSemaphore")
	ms := fl.Int("ms", 3000, "probe duration (ms)")
	good := fl.Int("good", 1, "aligned: number of sealed blocks in front of the coinciding boundary")
	layout := fl.Int("layout", 0, "aligned: 0 tuned chunk first, 1 tuned chunk last, 2 mixed compressibility")
	tail := fl.Int("tail", 100000, "aligned: pseudo-random bytes behind the boundary")
	threshold := fl.Int("threshold", 1<<20, "lifetime: size threshold")
	delta := fl.Int("delta", 0, "lifetime: message size = threshold + delta")
	mode := fl.String("mode", "wcs", "lifetime/listflight: wcs (WriteControlledStore) | unchecked (SetUnchecked) | direct (bare onDiskStore)")
	kbytes := fl.Int("k", 0, "listflight/crash: bytes the reader delivers before it waits")
	overwrite := fl.Bool("overwrite", false, "listflight/crash: the Set in progress overwrites a stored id")
	abort := fl.Bool("abort", false, "listflight: the reader of the held Set fails instead of completing")
	cdir := fl.String("dir", "", "crashchild: store directory")
	cid := fl.Int("id", 1, "crashchild: id")
	if err := fl.Parse(argv); err != nil {
		return 2
	}
	if *replay != "" {
		data, err := os.ReadFile(*replay)
		if err != nil {
			fmt.Fprintln(os.Stderr, err)
			return 2
		}
		first := strings.TrimSpace(strings.SplitN(string(data), "\n", 2)[0])
		words := strings.Fields(first)
		if len(words) < 2 || words[0] != "oracle" || words[1] != "c09store" {
			fmt.Fprintln(os.Stderr, "not a c09store replay file")
			return 2
		}
		if err := fl.Parse(words[2:]); err != nil {
			return 2
		}
	}
	if *cas == "crashchild" {
		return c09CrashChild(*cdir, *cid, *length, *cseed, *kbytes)
	}
	o := &c09Run{replayDir: *replayDir, seenClass: map[string]bool{}}
	o.res.Stats = map[string]int{}
	thorough := *tier == "thorough"
	if fm := c09Fmt(); fm.fromSource {
		o.inc("format.blockSize-and-header-from-source")
		if fm.blockSize != storeBlockSize || fm.headerLen != storeHeaderLen || fm.nonceLen != storeNonceLen || fm.overhead != storeOverhead {
			o.inc("format.differs-from-the-constants-of-d_store.go")
		}
	} else {
		o.inc("format.source-not-recognised-using-harness-constants")
	}
	switch *cas {
	case "":
		o.roundtrips(thorough)
		o.corruptions(thorough)
		o.alignedSweeps(*seed, thorough)
		o.lz4align(*seed)
		o.craftswap(*seed)
		o.lifetimes(*seed, thorough)
		o.listflights(*seed, thorough)
		o.crashes(*seed, thorough)
		o.multideletes(*seed)
		nops := 150
		if thorough {
			nops = 1500
		}
		o.conc(8, nops, 1, *seed, false)
		o.conc(8, nops, 4, *seed, false)
		o.conc(8, nops, 1, *seed, true)
		dur := 1500
		if thorough {
			dur = 6000
		}
		// the interleaving is up to the Go scheduler: several goroutine counts, stop at the first overlap
		for _, g := range []int{8, 12, 16, 6, 64, 4} {
			if o.probe(g, dur) {
				break
			}
		}
	case "roundtrip":
		o.roundtrip(*kind, *length, *cseed)
	case "corrupt":
		o.corruptOne(*kind, *length, *cseed, *mut)
	case "aligned":
		if *layout < 0 || *layout >= len(c09AlignedLayouts) || *good < 1 {
			fmt.Fprintln(os.Stderr, "bad -layout/-good")
			return 2
		}
		o.alignedSweep(*cseed, *good, *layout, *tail, *mut)
	case "lz4align":
		o.lz4align(*cseed)
	case "craftswap":
		o.craftswap(*cseed)
	case "conc":
		o.conc(*goroutines, *ops, *ids, *cseed, *sem)
	case "probe":
		o.probe(*goroutines, *ms)
	case "lifetime":
		o.lifetimeDirected(*threshold, *delta, *kind, *mode, *cseed)
	case "lifetime-random":
		o.lifetimeRandom(*cseed, *ops, *mode)
	case "lifetime-conc":
		o.lifetimeConc(*cseed, *goroutines, *ops)
	case "listflight":
		o.listflight(*mode, *kbytes, *overwrite, *abort, *cseed)
	case "listconc":
		o.listConc(*mode, *ms, *cseed)
	case "crash":
		o.crash(*kbytes, *overwrite, *cseed)
	case "multidelete":
		o.multidelete(*mode, *kbytes, *cseed)
	default:
		fmt.Fprintln(os.Stderr, "unknown case", *cas)
		return 2
	}
	keys := make([]string, 0, len(o.res.Stats))
	for k := range o.res.Stats {
		keys = append(keys, k)
	}
	sort.Strings(keys)
	o.res.Samples = []map[string]interface{}{
		{"oracle": "c09store", "case": "roundtrip", "what": "Get(Set(b)) == b for lengths around 64 KiB / 256 KiB multiples, zeros/text/random/mixed"},
		{"oracle": "c09store", "case": "corrupt", "what": "flip/truncate/drop/swap/dup/append/wrong passphrase on 1-5 block files: error or exact bytes"},
		{"oracle": "c09store", "case": "aligned", "what": "the same sweep on contents built so that sealed block 1, 2 or 3 starts exactly where an LZ4 data block starts (mixed compressibility): a damaged later block must be an error, not a silent prefix"},
		{"oracle": "c09store", "case": "lifetime", "what": "every slice Get returned is kept and compared again after later Gets (same id, other ids of smaller/equal/larger size), Set, overwrite, Delete, List; sizes around 64 KiB, 256 KiB, 1 MiB, 4 MiB"},
		{"oracle": "c09store", "case": "listflight+crash", "what": "List while a Set is held in progress / after its reader failed / after the process was killed: every stored id, nothing that was never given to Set; Get of the interrupted id is an error or exact bytes"},
		{"oracle": "c09store", "case": "conc+probe", "what": "8 goroutines Get/Set/Delete through WriteControlledStore; lock-table exclusion probe"},
	}
	if o.res.Violations == nil {
		o.res.Violations = []c09Violation{}
	}
	if *out != "" {
		data, _ := json.MarshalIndent(o.res, "", " ")
		if err := os.WriteFile(*out, data, 0o644); err != nil {
			fmt.Fprintln(os.Stderr, err)
			return 2
		}
	} else {
		data, _ := json.MarshalIndent(o.res, "", " ")
		fmt.Println(string(data))
	}
	return 0
}

func init() {
	RegisterOracle(&Oracle{Name: "c09store", Run: runC09Store})
}
