package main

// Dialects `parse` (C10: grammar-derived valid commands) and `parsebad` (C11: malformed streams):
// the real imap/command.Parser against the Lean model GluonModel/Model/Parse/*.lean.
//
//	op:      parse <seed> <hex input> <expected AST | ?>
//	result:  ok <tag>:<payload> conts=<n> used=<n> cmd=<LastParsedCommand>
//	         err parse <Token.TType of the *rfcparser.Error> used=<n> tag=<LastParsedTag> cmd=<LastParsedCommand>
//	             skip=<ok|eof> used2=<n>                  (after ConsumeInvalidInput, as the session does)
//	         err ioeof|other used=<n>                     (errors that are NOT *rfcparser.Error; ioeof = input ended in a literal)
//	         hang                                          (parser keeps reading at end of input)
//	         panic <text>
//
// The parser is constructed as internal/session does it: bufio.Reader -> command.InputCollector ->
// rfcparser.NewScannerWithReader -> command.NewParserWithLiteralContinuationCb; the reader below
// hands the bytes out in chunks whose sizes derive from <seed>. `used` is the number of bytes the
// InputCollector saw, i.e. what the scanner consumed. The generators live in d_parse_gen.go.

import (
	"bufio"
	"encoding/hex"
	"errors"
	"fmt"
	"io"
	"sort"
	"strconv"
	"strings"
	"sync/atomic"
	"time"

	"github.com/ProtonMail/gluon/imap/command"
	"github.com/ProtonMail/gluon/rfcparser"
)

func init() {
	Register(&Dialect{Name: "parse", Impl: implParse, Gen: genParseValid})
	Register(&Dialect{Name: "parsebad", Impl: implParse, Gen: genParseBad})
	Register(&Dialect{Name: "parsen", Impl: implParseN, Gen: genParseN})
}

type hangSentinel struct{ why string }

// chunkReader delivers data in chunks of pseudo-random size; after the data it returns io.EOF. A
// parser that keeps asking at end of input (an infinite loop, #7) is stopped by a panic carrying
// hangSentinel after eofLimit further reads (deterministic, no wall clock); a wall-clock backstop
// sets `kill` for any other kind of hang.
type chunkReader struct {
	data     []byte
	pos      int
	rng      *Rng
	eofReads int
	kill     atomic.Bool
}

const eofLimit = 1000

func (c *chunkReader) Read(p []byte) (int, error) {
	if c.kill.Load() {
		panic(hangSentinel{"timeout"})
	}
	if c.pos >= len(c.data) {
		c.eofReads++
		if c.eofReads > eofLimit {
			panic(hangSentinel{"eof"})
		}
		return 0, io.EOF
	}
	n := 1 + c.rng.Intn(7)
	if c.rng.Chance(1, 4) {
		n = 1 + c.rng.Intn(64)
	}
	if n > len(p) {
		n = len(p)
	}
	if n > len(c.data)-c.pos {
		n = len(c.data) - c.pos
	}
	copy(p, c.data[c.pos:c.pos+n])
	c.pos += n
	return n, nil
}

func hexB(b []byte) string {
	if len(b) == 0 {
		return "~"
	}
	return hex.EncodeToString(b)
}

func hexS(s string) string { return hexB([]byte(s)) }

func joinOr(empty string, l []string) string {
	if len(l) == 0 {
		return empty
	}
	return strings.Join(l, ",")
}

func showStrs(l []string) string {
	var out []string
	for _, s := range l {
		out = append(out, hexS(s))
	}
	return joinOr("-", out)
}

func showSeqNumI(n int) string {
	if n == 0 {
		return "*"
	}
	return strconv.Itoa(n)
}

func showSeqSetImpl(s []command.SeqRange) string {
	var out []string
	for _, r := range s {
		out = append(out, showSeqNumI(int(r.Begin))+":"+showSeqNumI(int(r.End)))
	}
	return joinOr("-", out)
}

func showTimeDate(t time.Time) string { return strconv.FormatInt(t.Unix(), 10) }

func showTimeDT(t time.Time) string {
	_, off := t.Zone()
	return fmt.Sprintf("%dz%d", t.Unix(), off)
}

func showSecTextImpl(s command.BodySection) string {
	switch v := s.(type) {
	case *command.BodySectionHeader:
		return "header"
	case *command.BodySectionText:
		return "text"
	case *command.BodySectionMIME:
		return "mime"
	case *command.BodySectionHeaderFields:
		if v.Negate {
			return "hfn(" + showStrs(v.Fields) + ")"
		}
		return "hf(" + showStrs(v.Fields) + ")"
	}
	return fmt.Sprintf("?section:%T", s)
}

func showSectionImpl(s command.BodySection) string {
	if p, ok := s.(*command.BodySectionPart); ok {
		var nums []string
		for _, n := range p.Part {
			nums = append(nums, strconv.Itoa(n))
		}
		sub := ""
		if p.Section != nil {
			sub = showSecTextImpl(p.Section)
		}
		return "part(" + strings.Join(nums, ".") + "/" + sub + ")"
	}
	return showSecTextImpl(s)
}

func showFetchAttrImpl(a command.FetchAttribute) string {
	switch v := a.(type) {
	case *command.FetchAttributeAll:
		return "all"
	case *command.FetchAttributeFull:
		return "full"
	case *command.FetchAttributeFast:
		return "fast"
	case *command.FetchAttributeEnvelope:
		return "envelope"
	case *command.FetchAttributeFlags:
		return "flags"
	case *command.FetchAttributeInternalDate:
		return "internaldate"
	case *command.FetchAttributeRFC822Header:
		return "rfc822.header"
	case *command.FetchAttributeRFC822Size:
		return "rfc822.size"
	case *command.FetchAttributeRFC822:
		return "rfc822"
	case *command.FetchAttributeRFC822Text:
		return "rfc822.text"
	case *command.FetchAttributeBodyStructure:
		return "bodystructure"
	case *command.FetchAttributeBody:
		return "body"
	case *command.FetchAttributeUID:
		return "uid"
	case *command.FetchAttributeBodySection:
		s := "b["
		if v.Peek {
			s = "p["
		}
		if v.Section != nil {
			s += showSectionImpl(v.Section)
		}
		s += "]"
		if v.Partial != nil {
			s += fmt.Sprintf("<%d.%d>", v.Partial.Offset, v.Partial.Count)
		}
		return s
	}
	return fmt.Sprintf("?attr:%T", a)
}

func showKeyImpl(k command.SearchKey) string {
	switch v := k.(type) {
	case *command.SearchKeyAll:
		return "all"
	case *command.SearchKeyAnswered:
		return "answered"
	case *command.SearchKeyDeleted:
		return "deleted"
	case *command.SearchKeyFlagged:
		return "flagged"
	case *command.SearchKeyNew:
		return "new"
	case *command.SearchKeyOld:
		return "old"
	case *command.SearchKeyRecent:
		return "recent"
	case *command.SearchKeySeen:
		return "seen"
	case *command.SearchKeyUnanswered:
		return "unanswered"
	case *command.SearchKeyUndeleted:
		return "undeleted"
	case *command.SearchKeyUnflagged:
		return "unflagged"
	case *command.SearchKeyUnseen:
		return "unseen"
	case *command.SearchKeyDraft:
		return "draft"
	case *command.SearchKeyUndraft:
		return "undraft"
	case *command.SearchKeyBCC:
		return "bcc(" + hexS(v.Value) + ")"
	case *command.SearchKeyBody:
		return "body(" + hexS(v.Value) + ")"
	case *command.SearchKeyCC:
		return "cc(" + hexS(v.Value) + ")"
	case *command.SearchKeyFrom:
		return "from(" + hexS(v.Value) + ")"
	case *command.SearchKeySubject:
		return "subject(" + hexS(v.Value) + ")"
	case *command.SearchKeyText:
		return "text(" + hexS(v.Value) + ")"
	case *command.SearchKeyTo:
		return "to(" + hexS(v.Value) + ")"
	case *command.SearchKeyKeyword:
		return "keyword(" + hexS(v.Value) + ")"
	case *command.SearchKeyUnkeyword:
		return "unkeyword(" + hexS(v.Value) + ")"
	case *command.SearchKeyHeader:
		return "header(" + hexS(v.Field) + "," + hexS(v.Value) + ")"
	case *command.SearchKeyBefore:
		return "before(" + showTimeDate(v.Value) + ")"
	case *command.SearchKeyOn:
		return "on(" + showTimeDate(v.Value) + ")"
	case *command.SearchKeySince:
		return "since(" + showTimeDate(v.Value) + ")"
	case *command.SearchKeySentBefore:
		return "sentbefore(" + showTimeDate(v.Value) + ")"
	case *command.SearchKeySentOn:
		return "senton(" + showTimeDate(v.Value) + ")"
	case *command.SearchKeySentSince:
		return "sentsince(" + showTimeDate(v.Value) + ")"
	case *command.SearchKeyLarger:
		return fmt.Sprintf("larger(%d)", v.Value)
	case *command.SearchKeySmaller:
		return fmt.Sprintf("smaller(%d)", v.Value)
	case *command.SearchKeyUID:
		return "uid(" + showSeqSetImpl(v.SeqSet) + ")"
	case *command.SearchKeySeqSet:
		return "seq(" + showSeqSetImpl(v.SeqSet) + ")"
	case *command.SearchKeyNot:
		return "not(" + showKeyImpl(v.Key) + ")"
	case *command.SearchKeyOr:
		return "or(" + showKeyImpl(v.Key1) + "," + showKeyImpl(v.Key2) + ")"
	case *command.SearchKeyList:
		var out []string
		for _, x := range v.Keys {
			out = append(out, showKeyImpl(x))
		}
		return "list(" + strings.Join(out, ",") + ")"
	}
	return fmt.Sprintf("?key:%T", k)
}

func showPayloadImpl(p command.Payload) string {
	switch v := p.(type) {
	case *command.Done:
		return "done"
	case *command.Capability:
		return "capability"
	case *command.Idle:
		return "idle"
	case *command.Noop:
		return "noop"
	case *command.Logout:
		return "logout"
	case *command.Check:
		return "check"
	case *command.Close:
		return "close"
	case *command.Expunge:
		return "expunge"
	case *command.Unselect:
		return "unselect"
	case *command.StartTLS:
		return "starttls"
	case *command.Login:
		return "login(" + hexS(v.UserID) + "," + hexS(v.Password) + ")"
	case *command.Select:
		return "select(" + hexS(v.Mailbox) + ")"
	case *command.Examine:
		return "examine(" + hexS(v.Mailbox) + ")"
	case *command.Create:
		return "create(" + hexS(v.Mailbox) + ")"
	case *command.Delete:
		return "delete(" + hexS(v.Mailbox) + ")"
	case *command.Subscribe:
		return "subscribe(" + hexS(v.Mailbox) + ")"
	case *command.Unsubscribe:
		return "unsubscribe(" + hexS(v.Mailbox) + ")"
	case *command.Rename:
		return "rename(" + hexS(v.From) + "," + hexS(v.To) + ")"
	case *command.List:
		return "list(" + hexS(v.Mailbox) + "," + hexS(v.ListMailbox) + ")"
	case *command.LSub:
		return "lsub(" + hexS(v.Mailbox) + "," + hexS(v.LSubMailbox) + ")"
	case *command.Status:
		var out []string
		for _, a := range v.Attributes {
			out = append(out, strings.ToLower(a.String()))
		}
		return "status(" + hexS(v.Mailbox) + ";" + joinOr("-", out) + ")"
	case *command.Store:
		act := "?"
		switch v.Action {
		case command.StoreActionAddFlags:
			act = "add"
		case command.StoreActionRemFlags:
			act = "rem"
		case command.StoreActionSetFlags:
			act = "set"
		}
		return "store(" + showSeqSetImpl(v.SeqSet) + ";" + act + ";" + b2s(v.Silent) + ";" + showStrs(v.Flags) + ")"
	case *command.Copy:
		return "copy(" + showSeqSetImpl(v.SeqSet) + ";" + hexS(v.Mailbox) + ")"
	case *command.Move:
		return "move(" + showSeqSetImpl(v.SeqSet) + ";" + hexS(v.Mailbox) + ")"
	case *command.UID:
		return "uid(" + showPayloadImpl(v.Command) + ")"
	case *command.UIDExpunge:
		return "uidexpunge(" + showSeqSetImpl(v.SeqSet) + ")"
	case *command.Fetch:
		var out []string
		for _, a := range v.Attributes {
			out = append(out, showFetchAttrImpl(a))
		}
		return "fetch(" + showSeqSetImpl(v.SeqSet) + ";" + joinOr("-", out) + ")"
	case *command.Append:
		dt := "none"
		if v.HasDateTime() {
			dt = showTimeDT(v.DateTime)
		}
		return "append(" + hexS(v.Mailbox) + ";" + showStrs(v.Flags) + ";" + dt + ";" + hexB(v.Literal) + ")"
	case *command.Search:
		var out []string
		for _, k := range v.Keys {
			out = append(out, showKeyImpl(k))
		}
		return "search(" + hexS(v.Charset) + ";" + joinOr("-", out) + ")"
	case *command.IDGet:
		return "idget"
	case *command.IDSet:
		var out []string
		for k, val := range v.Values {
			out = append(out, hexS(k)+"="+hexS(val))
		}
		sort.Strings(out)
		return "idset(" + joinOr("-", out) + ")"
	}
	return fmt.Sprintf("?payload:%T", p)
}

// runRealParser feeds data to a fresh command.Parser (constructed like internal/session does) and
// calls Parse once.
func runRealParser(data []byte, seed uint64) (out string) {
	src := &chunkReader{data: data, rng: NewRng(seed)}
	collector := command.NewInputCollector(bufio.NewReader(src))
	scanner := rfcparser.NewScannerWithReader(collector)
	conts := 0
	parser := command.NewParserWithLiteralContinuationCb(scanner, func() error { conts++; return nil })
	timer := time.AfterFunc(20*time.Second, func() { src.kill.Store(true) })
	defer timer.Stop()
	defer func() {
		if p := recover(); p != nil {
			if h, ok := p.(hangSentinel); ok {
				if h.why == "eof" {
					out = "hang"
				} else {
					out = "hang " + h.why
				}
				return
			}
			msg := fmt.Sprint(p)
			if len(msg) > 60 {
				msg = msg[:60]
			}
			out = "panic " + strings.ReplaceAll(msg, " ", "_")
		}
	}()
	cmd, err := parser.Parse()
	used := len(collector.Bytes())
	if err != nil {
		var perr *rfcparser.Error
		switch {
		case errors.As(err, &perr):
			tag, lc := parser.LastParsedTag(), parser.LastParsedCommand()
			skip, used2 := "ok", 0
			if err2 := parser.ConsumeInvalidInput(); err2 != nil {
				skip, used2 = "eof", len(data) // InputCollector does not record a failed ReadBytes
			} else {
				used2 = len(collector.Bytes())
			}
			return fmt.Sprintf("err parse %d used=%d tag=%s cmd=%s skip=%s used2=%d", int(perr.Token.TType), used, hexS(tag), hexS(lc), skip, used2)
		case errors.Is(err, io.EOF):
			return fmt.Sprintf("err ioeof used=%d", used)
		}
		return fmt.Sprintf("err other used=%d", used)
	}
	return fmt.Sprintf("ok %s:%s conts=%d used=%d cmd=%s", hexS(cmd.Tag), showPayloadImpl(cmd.Payload), conts, used, hexS(parser.LastParsedCommand()))
}

func implParse(args []string) string {
	if len(args) < 2 {
		return "bad-op"
	}
	seed, err := strconv.ParseUint(args[0], 10, 64)
	if err != nil {
		return "bad-op"
	}
	var data []byte
	if args[1] != "~" && args[1] != "-" {
		data, err = hex.DecodeString(args[1])
		if err != nil {
			return "bad-op"
		}
	}
	return runRealParser(data, seed)
}

// runRealParserN: the reader loop of internal/session/command.go startCommandReader on one parser: Parse;
// on a parser error that is not EOF, ConsumeInvalidInput and carry on; any other error ends the loop.
func runRealParserN(data []byte, seed uint64) (out string) {
	src := &chunkReader{data: data, rng: NewRng(seed)}
	collector := command.NewInputCollector(bufio.NewReader(src))
	scanner := rfcparser.NewScannerWithReader(collector)
	parser := command.NewParserWithLiteralContinuationCb(scanner, func() error { return nil })
	timer := time.AfterFunc(20*time.Second, func() { src.kill.Store(true) })
	defer timer.Stop()
	var parts []string
	defer func() {
		if p := recover(); p != nil {
			if _, ok := p.(hangSentinel); ok {
				parts = append(parts, "hang")
			} else {
				parts = append(parts, "panic")
			}
			out = strings.Join(parts, "|")
		}
	}()
	total := 0
	for i := 0; i < 8; i++ {
		collector.Reset()
		cmd, err := parser.Parse()
		total += len(collector.Bytes())
		if err != nil {
			var perr *rfcparser.Error
			if !errors.As(err, &perr) {
				kind := "other"
				if errors.Is(err, io.EOF) {
					kind = "ioeof"
				}
				parts = append(parts, fmt.Sprintf("err %s used=%d exit", kind, total))
				return strings.Join(parts, "|")
			}
			head := fmt.Sprintf("err parse %d used=%d tag=%s cmd=%s", int(perr.Token.TType), total, hexS(parser.LastParsedTag()), hexS(parser.LastParsedCommand()))
			if perr.IsEOF() {
				parts = append(parts, head+" exit")
				return strings.Join(parts, "|")
			}
			collector.Reset()
			if err2 := parser.ConsumeInvalidInput(); err2 != nil {
				parts = append(parts, head+" skip=eof")
				return strings.Join(parts, "|")
			}
			total += len(collector.Bytes())
			parts = append(parts, head+" skip=ok")
			continue
		}
		parts = append(parts, fmt.Sprintf("ok %s:%s used=%d", hexS(cmd.Tag), showPayloadImpl(cmd.Payload), total))
	}
	parts = append(parts, "more")
	return strings.Join(parts, "|")
}

func implParseN(args []string) string {
	if len(args) < 2 {
		return "bad-op"
	}
	seed, err := strconv.ParseUint(args[0], 10, 64)
	if err != nil {
		return "bad-op"
	}
	var data []byte
	if args[1] != "~" && args[1] != "-" {
		data, err = hex.DecodeString(args[1])
		if err != nil {
			return "bad-op"
		}
	}
	return runRealParserN(data, seed)
}
