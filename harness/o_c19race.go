package main

// Oracle `c19race` (C19, thorough tier, SEARCH ONLY): builds this harness with the race detector and
// runs the queue histories, the teardown scenarios and the snapshot-race scenario under it. Every
// distinct `WARNING: DATA RACE` (by the first gluon frames of the two accesses) is listed in the
// result's stats/samples and reported:
//
//	c19race #13b ...       one access is snapMsgList.has reached from user.removeState (another session's
//	                       goroutine reads a State's snapshot: other.HasMessage) - stable label, known finding
//	c19race data-race ...  any other race with a gluon frame
//
// Data-race freedom of fields that no lock guards is the part of C19 that no theorem decides
// (DESIGN.md section 11); the race detector has no false positives, but finding a race is luck.
//
//	vh oracle c19race -seed S -out result.json -replaydir DIR [-hist N] [-teardown N] [-snaprace N] [-updrace N]
//	vh oracle c19race -replay FILE       (re-runs the snapshot-race and the updates-vs-login scenario under the race build)

import (
	"encoding/json"
	"flag"
	"fmt"
	"os"
	"os/exec"
	"path/filepath"
	"sort"
	"strings"
)

// raceSignatures: signature -> count; is13b[signature] if the block shows removeState reading a snapshot.
func raceSignatures(log string, is13b map[string]bool, first map[string]string) map[string]int {
	sigs := map[string]int{}
	for _, blk := range strings.Split(log, "WARNING: DATA RACE")[1:] {
		if i := strings.Index(blk, "=================="); i >= 0 {
			blk = blk[:i]
		}
		var parts []string
		for _, sec := range strings.Split(blk, "\n\n") {
			lines := strings.Split(strings.TrimSpace(sec), "\n")
			if len(lines) == 0 {
				continue
			}
			head := strings.Fields(lines[0])
			if len(head) == 0 || !(head[0] == "Read" || head[0] == "Write" || head[0] == "Previous") {
				continue
			}
			kind := head[0]
			if kind == "Previous" && len(head) > 1 {
				kind = "prev-" + head[1]
			}
			frame := ""
			for _, l := range lines[1:] {
				l = strings.TrimSpace(l)
				if strings.HasPrefix(l, "github.com/ProtonMail/gluon/") {
					frame = strings.TrimPrefix(l, "github.com/ProtonMail/gluon/")
					if i := strings.Index(frame, "("); i > 0 && !strings.HasPrefix(frame[i:], "(*") {
						frame = frame[:i]
					}
					break
				}
			}
			parts = append(parts, kind+" "+frame)
		}
		sig := strings.Join(parts, " | ")
		sigs[sig]++
		if strings.Contains(blk, "internal/state.(*snapMsgList).has") && strings.Contains(blk, "(*user).removeState") {
			is13b[sig] = true
		}
		if _, ok := first[sig]; !ok {
			first[sig] = blk
		}
	}
	return sigs
}

func runOracleRace(args []string) int {
	fs := flag.NewFlagSet("c19race", flag.ExitOnError)
	seed := fs.Uint64("seed", 1, "seed")
	outPath := fs.String("out", "", "result json")
	replayDir := fs.String("replaydir", "replay", "where replay files go")
	replay := fs.String("replay", "", "replay file")
	hist := fs.Int("hist", 3000, "queue histories")
	td := fs.Int("teardown", 30, "teardown scenarios")
	snap := fs.Int("snaprace", 6, "rounds of the snapshot-race scenario")
	upd := fs.Int("updrace", 30, "sessions of the updates-vs-login/logout scenario")
	skip := fs.Bool("skip", false, "do nothing (quick tier)")
	_ = fs.Parse(args)
	res := &oracleResult{Stats: map[string]int{}, Samples: []map[string]any{}, Violations: []oracleViolation{}}
	write := func() int {
		b, _ := json.MarshalIndent(res, "", " ")
		if *outPath != "" {
			_ = os.WriteFile(*outPath, b, 0o644)
		} else {
			fmt.Println(string(b))
		}
		return 0
	}
	if *replay != "" {
		*hist, *td, *snap, *upd = 0, 0, 15, 40
		if data, err := os.ReadFile(*replay); err == nil {
			for _, w := range strings.Fields(string(data)) {
				if k, v, ok := strings.Cut(w, "="); ok && k == "rounds" {
					fmt.Sscan(v, snap)
				} else if ok && k == "updrace" {
					fmt.Sscan(v, upd)
				}
			}
		}
	}
	if *skip && *replay == "" {
		res.Stats["skipped-in-quick-tier"]++
		return write()
	}
	exe, err := os.Executable()
	if err != nil {
		res.Stats["no-executable-path"]++
		return write()
	}
	root := filepath.Dir(filepath.Dir(exe))
	raceBin := filepath.Join(filepath.Dir(exe), "vh-race")
	build := exec.Command("go", "build", "-race", "-tags", "verif", "-o", raceBin, ".")
	build.Dir = filepath.Join(root, "harness")
	build.Env = append(os.Environ(), "CGO_ENABLED=1")
	if out, err := build.CombinedOutput(); err != nil {
		// search only: an environment without a working race build is reported, not flagged
		res.Stats["race-build-failed"]++
		res.Samples = append(res.Samples, map[string]any{"oracle": "c19race", "build_error": string(out)})
		return write()
	}
	tmp, _ := os.MkdirTemp("", "c19race")
	defer os.RemoveAll(tmp)
	runs := [][]string{
		{"oracle", "c19queue", "-seed", fmt.Sprint(*seed), "-n", fmt.Sprint(*hist), "-replaydir", tmp, "-out", filepath.Join(tmp, "q.json"),
			"-driver", filepath.Join(root, "lean", ".lake", "build", "bin", "gluon_model_driver")},
		{"oracle", "c19teardown", "-seed", fmt.Sprint(*seed), "-n", fmt.Sprint(*td), "-snaprace", fmt.Sprint(*snap), "-updrace", fmt.Sprint(*upd), "-nohang", "-replaydir", tmp, "-out", filepath.Join(tmp, "t.json")},
	}
	if *td == 0 {
		runs[1] = append(runs[1], "-nodirected") // replay: only the two race scenarios
	}
	all := map[string]int{}
	is13b := map[string]bool{}
	first := map[string]string{}
	if *hist == 0 {
		runs = runs[1:]
	}
	for _, r := range runs {
		cmd := exec.Command(raceBin, r...)
		cmd.Env = append(os.Environ(), "GORACE=halt_on_error=0")
		out, err := cmd.CombinedOutput()
		res.Stats["run."+r[1]]++
		if err != nil {
			res.Stats["run."+r[1]+".exit-nonzero"]++ // the race runtime exits 66 when it reported something
		}
		for k, v := range raceSignatures(string(out), is13b, first) {
			all[k] += v
		}
		for _, f := range []string{"q.json", "t.json"} {
			if b, err := os.ReadFile(filepath.Join(tmp, f)); err == nil {
				var sub oracleResult
				if json.Unmarshal(b, &sub) == nil {
					res.Evaluations += sub.Evaluations
					_ = os.Remove(filepath.Join(tmp, f))
				}
			}
		}
	}
	var keys []string
	for k := range all {
		keys = append(keys, k)
	}
	sort.Strings(keys)
	res.Stats["distinct-data-races"] = len(keys)
	reported13b := false
	for i, k := range keys {
		res.Stats["race: "+k] = all[k]
		res.Samples = append(res.Samples, map[string]any{"oracle": "c19race", "data_race": k, "reports": all[k], "is_13b": is13b[k]})
		if !strings.Contains(k, "/") && !strings.Contains(k, ".") {
			continue // no gluon frame on either side: a race inside the harness itself, listed only
		}
		text := fmt.Sprintf("oracle c19race\n# go build -race; scenarios: `snaprace` (sessions A and B select the same mailbox, the connector deletes messages, B logs out while A issues NOOP/FETCH/CHECK), `updrace` (connector updates are applied while sessions of the user log in, NOOP, log out / drop) and the teardown scenarios of c19teardown\n# race detector report (first of %d):\n#%s\n# replay: ./check C19 --tier thorough --replay <this file>\nsnaprace rounds=%d updrace=%d\n", all[k], strings.ReplaceAll(strings.TrimRight(first[k], "\n"), "\n", "\n#"), *snap, *upd)
		if is13b[k] {
			if reported13b {
				continue
			}
			reported13b = true
			res.Violations = append(res.Violations, oracleViolation{
				Desc:   "c19race #13b: data race on a State's snapshot: user.removeState of another session reads it (other.HasMessage -> snapMsgList.has) while the owning session's goroutine changes the same map (concurrent map read and map write can kill the process): " + k,
				Replay: writeReplay(*replayDir, "C19-c19race-13b.txt", text)})
			continue
		}
		res.Violations = append(res.Violations, oracleViolation{Desc: "c19race data-race: " + k, Replay: writeReplay(*replayDir, fmt.Sprintf("C19-c19race-%d.txt", i), text)})
	}
	res.DistinctNontrivial = res.Evaluations
	return write()
}

func init() {
	RegisterOracle(&Oracle{Name: "c19race", Run: runOracleRace})
}
