package main

// Oracle `c19race` (C19, thorough tier, SEARCH ONLY, report-only): builds this harness with the race
// detector and runs the queue histories, the teardown scenarios and the snapshot-race scenario under
// it. Every distinct `WARNING: DATA RACE` (by the first gluon frames of the two accesses) is listed in
// the result's stats/samples. It never flags: data-race freedom of fields that no lock guards is the
// part of C19 that is not decided here (DESIGN.md section 11, finding #13b).
//
//	vh oracle c19race -seed S -out result.json -replaydir DIR [-hist N] [-teardown N] [-snaprace N]

import (
	"encoding/json"
	"flag"
	"fmt"
	"os"
	"os/exec"
	"path/filepath"
	"sort"
	"strings"
)

func raceSignatures(log string) map[string]int {
	sigs := map[string]int{}
	for _, blk := range strings.Split(log, "WARNING: DATA RACE")[1:] {
		if i := strings.Index(blk, "=================="); i >= 0 {
			blk = blk[:i]
		}
		var parts []string
		for _, sec := range strings.Split(blk, "\n\n") {
			lines := strings.Split(strings.TrimSpace(sec), "\n")
			if len(lines) == 0 {
				continue
			}
			head := strings.Fields(lines[0])
			if len(head) == 0 || !(head[0] == "Read" || head[0] == "Write" || head[0] == "Previous") {
				continue
			}
			kind := head[0]
			if kind == "Previous" && len(head) > 1 {
				kind = "prev-" + head[1]
			}
			frame := ""
			for _, l := range lines[1:] {
				l = strings.TrimSpace(l)
				if strings.HasPrefix(l, "github.com/ProtonMail/gluon/") {
					frame = strings.TrimPrefix(l, "github.com/ProtonMail/gluon/")
					if i := strings.Index(frame, "("); i > 0 && !strings.HasPrefix(frame[i:], "(*") {
						frame = frame[:i]
					}
					break
				}
			}
			parts = append(parts, kind+" "+frame)
		}
		sigs[strings.Join(parts, " | ")]++
	}
	return sigs
}

func runOracleRace(args []string) int {
	fs := flag.NewFlagSet("c19race", flag.ExitOnError)
	seed := fs.Uint64("seed", 1, "seed")
	outPath := fs.String("out", "", "result json")
	_ = fs.String("replaydir", "replay", "unused")
	_ = fs.String("replay", "", "unused")
	hist := fs.Int("hist", 3000, "queue histories")
	td := fs.Int("teardown", 30, "teardown scenarios")
	snap := fs.Int("snaprace", 6, "rounds of the snapshot-race scenario")
	skip := fs.Bool("skip", false, "do nothing (quick tier)")
	_ = fs.Parse(args)
	res := &oracleResult{Stats: map[string]int{}, Samples: []map[string]any{}, Violations: []oracleViolation{}}
	write := func() int {
		b, _ := json.MarshalIndent(res, "", " ")
		if *outPath != "" {
			_ = os.WriteFile(*outPath, b, 0o644)
		} else {
			fmt.Println(string(b))
		}
		return 0
	}
	if *skip {
		res.Stats["skipped-in-quick-tier"]++
		return write()
	}
	exe, err := os.Executable()
	if err != nil {
		res.Stats["no-executable-path"]++
		return write()
	}
	root := filepath.Dir(filepath.Dir(exe))
	raceBin := filepath.Join(filepath.Dir(exe), "vh-race")
	build := exec.Command("go", "build", "-race", "-tags", "verif", "-o", raceBin, ".")
	build.Dir = filepath.Join(root, "harness")
	build.Env = append(os.Environ(), "CGO_ENABLED=1")
	if out, err := build.CombinedOutput(); err != nil {
		// search only: an environment without a working race build is reported, not flagged
		res.Stats["race-build-failed"]++
		res.Samples = append(res.Samples, map[string]any{"oracle": "c19race", "build_error": string(out)})
		return write()
	}
	tmp, _ := os.MkdirTemp("", "c19race")
	defer os.RemoveAll(tmp)
	runs := [][]string{
		{"oracle", "c19queue", "-seed", fmt.Sprint(*seed), "-n", fmt.Sprint(*hist), "-replaydir", tmp, "-out", filepath.Join(tmp, "q.json"),
			"-driver", filepath.Join(root, "lean", ".lake", "build", "bin", "gluon_model_driver")},
		{"oracle", "c19teardown", "-seed", fmt.Sprint(*seed), "-n", fmt.Sprint(*td), "-snaprace", fmt.Sprint(*snap), "-nohang", "-replaydir", tmp, "-out", filepath.Join(tmp, "t.json")},
	}
	all := map[string]int{}
	for _, r := range runs {
		cmd := exec.Command(raceBin, r...)
		cmd.Env = append(os.Environ(), "GORACE=halt_on_error=0")
		out, err := cmd.CombinedOutput()
		res.Stats["run."+r[1]]++
		if err != nil {
			res.Stats["run."+r[1]+".exit-nonzero"]++ // the race runtime exits 66 when it reported something
		}
		for k, v := range raceSignatures(string(out)) {
			all[k] += v
		}
		for _, f := range []string{"q.json", "t.json"} {
			if b, err := os.ReadFile(filepath.Join(tmp, f)); err == nil {
				var sub oracleResult
				if json.Unmarshal(b, &sub) == nil {
					res.Evaluations += sub.Evaluations
					_ = os.Remove(filepath.Join(tmp, f))
				}
			}
		}
	}
	var keys []string
	for k := range all {
		keys = append(keys, k)
	}
	sort.Strings(keys)
	res.Stats["distinct-data-races"] = len(keys)
	for _, k := range keys {
		res.Stats["race: "+k] = all[k]
		res.Samples = append(res.Samples, map[string]any{"oracle": "c19race", "report_only": true, "data_race": k, "reports": all[k]})
	}
	res.DistinctNontrivial = res.Evaluations
	return write()
}

func init() {
	RegisterOracle(&Oracle{Name: "c19race", Run: runOracleRace})
}
