package main

// Facts/UserFiles.lean (C18, isolation of users on disk): how an application-chosen user id becomes the names of the
// user's database file and store directory, and how the database file name reaches SQLite.
//
//   internal/db_impl/sqlite3/client.go
//     getDatabasePath(dir, userID)        -> return filepath.Join(dir, fmt.Sprintf("%v.db", userID))
//     getDatabaseConn(dir, userID, path)  -> escapedPath := url.PathEscape(path)
//                                            return fmt.Sprintf("file:%v?cache=shared&_fk=1&_journal=WAL", escapedPath)
//     NewClient(dir, userID, …)           -> path := getDatabasePath(dir, userID); pathExists(path);
//                                            sql.Open("sqlite3", getDatabaseConn(dir, userID, path))
//   store/disk.go  OnDiskStoreBuilder.New / Delete -> storePath := filepath.Join(path, userID)
//   db/deferred_delete.go DeleteDB(dir, userID)    -> which files are moved away
//
// The DSN is an SQLite URI filename: `?` ends the file name (for SQLite and for go-sqlite3, which cuts its own
// parameters at the first `?`), `#` starts a fragment, `%HH` is decoded.  The model (Model/UserFiles.lean) proves that
// a path escaped with url.PathEscape is opened as exactly that path; any other expression in that position is emitted
// as "unknown: <source text>" and the theorem `dsn_path_is_escaped` stops checking.

import (
	"fmt"
	"go/ast"
	"go/token"
	"sort"
	"strconv"
	"strings"
)

// ufImportPath: the import path the package identifier `name` stands for in the file that holds fd
func ufImportPath(files []*ast.File, fd *ast.FuncDecl, name string) string {
	for _, f := range files {
		if fd.Pos() < f.Pos() || fd.End() > f.End() {
			continue
		}
		for _, im := range f.Imports {
			p, err := strconv.Unquote(im.Path.Value)
			if err != nil {
				continue
			}
			local := p[strings.LastIndex(p, "/")+1:]
			if im.Name != nil {
				local = im.Name.Name
			}
			if local == name {
				return p
			}
		}
	}
	return ""
}

// ufParams: the parameter names of fd in order
func ufParams(fd *ast.FuncDecl) []string {
	var out []string
	if fd.Type.Params != nil {
		for _, f := range fd.Type.Params.List {
			for _, n := range f.Names {
				out = append(out, n.Name)
			}
		}
	}
	return out
}

// ufBodyStmts: the statements of fd rendered, in order (comments are not statements)
func (c *factsCtx) ufBodyStmts(fd *ast.FuncDecl) []string {
	var out []string
	for _, st := range fd.Body.List {
		out = append(out, c.render(st))
	}
	return out
}

func factsUserFiles(c *factsCtx, outdir string) error {
	var b strings.Builder
	b.WriteString("namespace Gluon.Facts\n\n")

	sq := c.parseDir("internal/db_impl/sqlite3")
	// --- getDatabasePath
	pathExpr := "unknown: func getDatabasePath not found"
	if fd := findFunc(sq, "getDatabasePath", false); fd != nil {
		pathExpr = "unknown: " + strings.Join(c.ufBodyStmts(fd), " ; ")
		if len(fd.Body.List) == 1 {
			if r, ok := fd.Body.List[0].(*ast.ReturnStmt); ok && len(r.Results) == 1 {
				pathExpr = c.render(r.Results[0])
			}
		}
		fmt.Fprintf(&b, "/-- parameters of `getDatabasePath` -/\ndef dbPathParams : List String := %s\n\n", leanStrList(ufParams(fd)))
	} else {
		b.WriteString("def dbPathParams : List String := []\n\n")
	}
	fmt.Fprintf(&b, "/-- the expression `getDatabasePath` returns (its whole body is that one return) -/\ndef dbPathExpr : String := %s\n\n", leanStr(pathExpr))

	// --- getDatabaseConn
	format, arg, argDef, escaper, escImport := "unknown", "unknown", "unknown", "unknown", ""
	writes := 0
	var params, stmts []string
	if fd := findFunc(sq, "getDatabaseConn", false); fd != nil {
		params = ufParams(fd)
		stmts = c.ufBodyStmts(fd)
		pathParam := ""
		if len(params) > 0 {
			pathParam = params[len(params)-1]
		}
		// the last statement: return fmt.Sprintf(<literal>, <ident>)
		if n := len(fd.Body.List); n > 0 {
			if r, ok := fd.Body.List[n-1].(*ast.ReturnStmt); ok && len(r.Results) == 1 {
				if call, ok := r.Results[0].(*ast.CallExpr); ok && calleeQualified(call) == "fmt.Sprintf" && len(call.Args) == 2 {
					if lit, ok := call.Args[0].(*ast.BasicLit); ok && lit.Kind == token.STRING {
						if s, err := strconv.Unquote(lit.Value); err == nil {
							format = s
						}
					}
					arg = c.render(call.Args[1])
				} else {
					format = "unknown: " + c.render(r.Results[0])
				}
			}
		}
		// every write to that identifier in the function
		var defs []ast.Expr
		ast.Inspect(fd.Body, func(n ast.Node) bool {
			switch x := n.(type) {
			case *ast.AssignStmt:
				for i, l := range x.Lhs {
					if dfRootIdent(l) == arg {
						writes++
						if len(x.Lhs) == len(x.Rhs) {
							defs = append(defs, x.Rhs[i])
						}
					}
				}
			case *ast.IncDecStmt:
				if dfRootIdent(x.X) == arg {
					writes++
				}
			case *ast.UnaryExpr:
				if x.Op == token.AND && dfRootIdent(x.X) == arg {
					writes++
				}
			case *ast.ValueSpec:
				for _, nm := range x.Names {
					if nm.Name == arg {
						writes++
						defs = append(defs, x.Values...)
					}
				}
			}
			return true
		})
		if arg == pathParam {
			// the path is formatted into the DSN as it is
			argDef, escaper = pathParam, "none"
		} else if writes == 1 && len(defs) == 1 {
			argDef = c.render(defs[0])
			escaper = "unknown: " + argDef
			// <pkg>.<Func>(<the path parameter>) and nothing else
			if call, ok := defs[0].(*ast.CallExpr); ok && len(call.Args) == 1 {
				if id, ok := call.Args[0].(*ast.Ident); ok && id.Name == pathParam {
					if sel, ok := call.Fun.(*ast.SelectorExpr); ok {
						if pk, ok := sel.X.(*ast.Ident); ok {
							if ip := ufImportPath(sq, fd, pk.Name); ip != "" {
								escaper, escImport = pk.Name+"."+sel.Sel.Name, ip
							}
						}
					}
				}
			}
		} else {
			escaper = fmt.Sprintf("unknown: %d writes to %s", writes, arg)
		}
		// the path parameter itself must not be rewritten before it is escaped
		if w := dfWrites(fd)[pathParam]; w != 0 {
			escaper = fmt.Sprintf("unknown: parameter %s is written %d times", pathParam, w)
		}
	} else {
		stmts = []string{"unknown: func getDatabaseConn not found"}
	}
	fmt.Fprintf(&b, "/-- parameters of `getDatabaseConn` (the last one is the database path) -/\ndef dsnParams : List String := %s\n\n", leanStrList(params))
	fmt.Fprintf(&b, "/-- the statements of `getDatabaseConn` -/\ndef dsnStmts : List String := %s\n\n", leanStrList(stmts))
	fmt.Fprintf(&b, "/-- the format string of the DSN (`return fmt.Sprintf(<format>, <arg>)` is the last statement) -/\ndef dsnFormat : String := %s\n\n", leanStr(format))
	fmt.Fprintf(&b, "/-- the expression formatted into the DSN, and the only value it is ever given -/\ndef dsnArg : String := %s\ndef dsnArgDef : String := %s\ndef dsnArgWrites : Nat := %d\n\n", leanStr(arg), leanStr(argDef), writes)
	fmt.Fprintf(&b, "/-- the function applied to the path parameter (and to nothing else) to get that value: `<pkg>.<Func>` with the import\n    path of `<pkg>`; \"none\" = the path is formatted in as it is; anything else = \"unknown: <source>\" -/\ndef dsnEscaper : String := %s\ndef dsnEscaperImport : String := %s\n\n", leanStr(escaper), leanStr(escImport))

	// --- NewClient: the same path is checked for existence and opened
	newClient := []string{}
	if fd := findFunc(sq, "NewClient", false); fd != nil {
		ast.Inspect(fd.Body, func(n ast.Node) bool {
			switch x := n.(type) {
			case *ast.AssignStmt:
				for i, l := range x.Lhs {
					if id, ok := l.(*ast.Ident); ok && id.Name == "path" && len(x.Lhs) == len(x.Rhs) {
						newClient = append(newClient, "path := "+c.render(x.Rhs[i]))
					}
				}
			case *ast.CallExpr:
				switch calleeQualified(x) {
				case "pathExists", "sql.Open":
					newClient = append(newClient, c.render(x))
				}
			}
			return true
		})
	} else {
		newClient = []string{"unknown: func NewClient not found"}
	}
	fmt.Fprintf(&b, "/-- `NewClient`: where `path` comes from, what is checked for existence, what is opened (source order) -/\ndef newClientPathUses : List String := %s\n\n", leanStrList(newClient))

	// --- store directory
	var storePaths []string
	for _, f := range c.parseDir("store") {
		for _, d := range f.Decls {
			fd, ok := d.(*ast.FuncDecl)
			if !ok || fd.Body == nil || fd.Recv == nil {
				continue
			}
			q := funcQualName(fd)
			if q != "OnDiskStoreBuilder.New" && q != "OnDiskStoreBuilder.Delete" {
				continue
			}
			ast.Inspect(fd.Body, func(n ast.Node) bool {
				if as, ok := n.(*ast.AssignStmt); ok && len(as.Lhs) == 1 && len(as.Rhs) == 1 {
					if id, ok := as.Lhs[0].(*ast.Ident); ok && id.Name == "storePath" {
						storePaths = append(storePaths, q+": "+strings.Join(ufParams(fd), ",")+": "+c.render(as.Rhs[0]))
					}
				}
				return true
			})
		}
	}
	sort.Strings(storePaths)
	fmt.Fprintf(&b, "/-- `OnDiskStoreBuilder.New` / `.Delete`: `<method>: <parameters>: <value of storePath>` -/\ndef storePathExprs : List String := %s\n\n", leanStrList(storePaths))

	// --- DeleteDB: which files of the database directory go away with a user
	sel := []string{}
	var delParams, callees []string
	if fd := findFunc(c.parseDir("db"), "DeleteDB", false); fd != nil {
		delParams = ufParams(fd)
		sel = append(sel, "params: "+strings.Join(delParams, ","))
		ast.Inspect(fd.Body, func(n ast.Node) bool {
			switch x := n.(type) {
			case *ast.CallExpr:
				q := calleeQualified(x)
				if strings.HasPrefix(q, "filepath.") || strings.HasPrefix(q, "os.") || strings.HasPrefix(q, "ioutil.") || strings.HasPrefix(q, "fs.") {
					sel = append(sel, "call: "+c.render(x))
					callees = append(callees, q)
				}
			case *ast.RangeStmt:
				sel = append(sel, "range: "+c.render(x.X))
			}
			return true
		})
	} else {
		sel = []string{"unknown: func DeleteDB not found"}
	}
	fmt.Fprintf(&b, "/-- `db.DeleteDB`: its parameters, its file system calls and what its loops range over (source order) -/\ndef deleteDBSelectors : List String := %s\n\n/-- its parameters; the qualified names of the os / filepath / fs functions it calls (source order) -/\ndef deleteDBParams : List String := %s\ndef deleteDBCallees : List String := %s\n\nend Gluon.Facts\n", leanStrList(sel), leanStrList(delParams), leanStrList(callees))
	return writeLean(outdir, "UserFiles.lean", b.String())
}

func init() { factGens = append(factGens, factGen{"UserFiles", factsUserFiles}) }
