package main

// Dialects of C14 (LIST/LSUB name selection): the real match / listSuperiors / listInferiors /
// getMatches of internal/state (through verifhooks) against GluonModel/Model/Match.lean.
// Strings are hex-encoded (`~` = empty), lists `,`-joined (`-` = empty list).

import (
	"encoding/hex"
	"fmt"
	"io"
	"sort"
	"strings"

	"github.com/ProtonMail/gluon/verifhooks"
)

func hx(s string) string {
	if s == "" {
		return "~"
	}
	return hex.EncodeToString([]byte(s))
}

func unhx(s string) string {
	if s == "~" {
		return ""
	}
	b, err := hex.DecodeString(s)
	if err != nil {
		panic("bad hex " + s)
	}
	return string(b)
}

func hxList(l []string) string {
	if len(l) == 0 {
		return "-"
	}
	out := make([]string, len(l))
	for i, s := range l {
		out[i] = hx(s)
	}
	return strings.Join(out, ",")
}

func unhxList(s string) []string {
	if s == "-" {
		return nil
	}
	var out []string
	for _, p := range strings.Split(s, ",") {
		out = append(out, unhx(p))
	}
	return out
}

func implMatch(args []string) string {
	if len(args) != 4 {
		return "bad-op"
	}
	res, ok, p := verifhooks.Match(unhx(args[0]), unhx(args[1]), unhx(args[2]), unhx(args[3]))
	if p != nil {
		return "panic"
	}
	return fmt.Sprintf("ok %s %s", hx(res), b2s(ok))
}

func implSuperiors(args []string) string {
	if len(args) != 2 {
		return "bad-op"
	}
	return hxList(verifhooks.ListSuperiors(unhx(args[1]), unhx(args[0])))
}

func implInferiors(args []string) string {
	if len(args) != 3 {
		return "bad-op"
	}
	return hxList(verifhooks.ListInferiors(unhx(args[1]), unhx(args[0]), unhxList(args[2])))
}

func implGetMatches(args []string) string {
	if len(args) != 5 {
		return "bad-op"
	}
	var mboxes []verifhooks.MatchMailbox
	if args[4] != "-" {
		for _, it := range strings.Split(args[4], ";") {
			p := strings.Split(it, ":")
			if len(p) != 4 {
				return "bad-op"
			}
			m := verifhooks.MatchMailbox{Name: unhx(p[0]), Subscribed: p[1] == "1", Exists: p[2] == "1"}
			if p[3] != "-" {
				for _, a := range strings.Split(p[3], "+") {
					m.Attributes = append(m.Attributes, `\`+a)
				}
			}
			mboxes = append(mboxes, m)
		}
	}
	out, err, p := verifhooks.GetMatches(mboxes, unhx(args[0]), unhx(args[1]), unhx(args[2]), args[3] == "1")
	if p != nil {
		return "panic"
	}
	if err != nil {
		return "err"
	}
	if len(out) == 0 {
		return "ok -"
	}
	var parts []string
	for name, atts := range out {
		seen := map[string]bool{}
		var as []string
		for _, a := range atts {
			a = strings.ToLower(strings.TrimPrefix(a, `\`))
			if !seen[a] {
				seen[a] = true
				as = append(as, a)
			}
		}
		sort.Strings(as)
		parts = append(parts, hx(name)+"="+strings.Join(as, "+"))
	}
	sort.Strings(parts)
	return "ok " + strings.Join(parts, ";")
}

// ---------------------------------------------------------------------------------------------
// generators

var (
	matchGoodDelims = []string{"/", "/", "/", ".", ".", "|", "|", "]", "^", "-", "[", ":", "$", "+", "?", "(", "é"}
	matchBadDelims  = []string{`\`, `\`, "*", "%"}
	matchSegPool    = []string{
		"a", "b", "ab", "c", "a", "b", "x",
		"INBOX", "inbox", "Inbox", "iNbOx", "INBOXa", "aINBOX", "ınbox", "İNBOX",
		".", "+", "(", ")", "[", "]", "{", "}", "^", "$", "|", "?", `\`, "-", " ", "a.b", "(a)", "[^a]", "a{2}", "^a$", "a|b", `\d`, `\`,
		"é", "K", "ſ", "日本", "a\nb", "*", "%", "a*", "%b",
	}
	matchCharPool = []string{"a", "b", "c", ".", "+", "(", ")", "[", "]", "{", "}", "^", "$", "|", "?", `\`, "-", "é", "I", "i"}
	attrPool      = []string{"Noinferiors", "Marked", "Custom", "marked", "Unmarked"}
)

func genSeg(r *Rng, del string) string {
	for {
		var s string
		if r.Chance(3, 4) {
			s = Pick(r, matchSegPool)
		} else {
			n := r.Range(1, 3)
			for i := 0; i < n; i++ {
				s += Pick(r, matchCharPool)
			}
		}
		if r.Chance(9, 10) && strings.Contains(s, del) {
			continue // mostly keep the segment free of the delimiter (else it is just more segments)
		}
		return s
	}
}

// genName: depth <= 6, sometimes leading / trailing / doubled delimiter, sometimes empty.
func genName(r *Rng, del string, st *Stats) string {
	if r.Chance(1, 40) {
		return ""
	}
	depth := Pick(r, []int{1, 1, 2, 2, 2, 3, 3, 4, 5, 6})
	segs := make([]string, depth)
	for i := range segs {
		segs[i] = genSeg(r, del)
	}
	name := strings.Join(segs, del)
	if r.Chance(1, 12) {
		name = del + name
		st.Inc("name.leading-delim")
	}
	if r.Chance(1, 10) {
		name += del
		st.Inc("name.trailing-delim")
	}
	if r.Chance(1, 15) && depth > 1 {
		name = strings.Replace(name, del, del+del, 1)
		st.Inc("name.double-delim")
	}
	st.Inc(fmt.Sprintf("name.depth=%d", depth))
	return name
}

func runes(s string) []string {
	var out []string
	for _, c := range s {
		out = append(out, string(c))
	}
	return out
}

// genPattern derives a pattern from a name (so that matches are frequent) or builds a random one.
func genPattern(r *Rng, del, name string, st *Stats) string {
	if r.Chance(1, 30) {
		return ""
	}
	var p string
	switch c := r.Intn(10); {
	case c < 6 && name != "": // mutate the name: replace stretches by wildcards
		rs := runes(name)
		nmut := r.Range(1, 3)
		for k := 0; k < nmut && len(rs) > 0; k++ {
			i := r.Intn(len(rs) + 1)
			j := i + Pick(r, []int{0, 0, 1, 1, 2, 3, 5, 50})
			if j > len(rs) {
				j = len(rs)
			}
			w := Pick(r, []string{"*", "%", "%", "*%", "%*", "**", "%%"})
			rs = append(append(append([]string{}, rs[:i]...), w), rs[j:]...)
		}
		p = strings.Join(rs, "")
		if r.Chance(1, 5) { // change the case of INBOX spellings
			p = strings.NewReplacer("INBOX", "inbox", "inbox", "InBoX", "Inbox", "INBOX").Replace(p)
		}
	case c < 8: // segment-wise pattern
		depth := r.Range(1, 4)
		segs := make([]string, depth)
		for i := range segs {
			switch r.Intn(5) {
			case 0:
				segs[i] = "%"
			case 1:
				segs[i] = "*"
			case 2:
				segs[i] = genSeg(r, del) + Pick(r, []string{"%", "*"})
			case 3:
				segs[i] = Pick(r, []string{"%", "*"}) + genSeg(r, del)
			default:
				segs[i] = genSeg(r, del)
			}
		}
		p = strings.Join(segs, del)
	default: // character soup
		n := r.Range(1, 6)
		for i := 0; i < n; i++ {
			switch r.Intn(4) {
			case 0:
				p += Pick(r, []string{"%", "*"})
			case 1:
				p += del
			default:
				p += Pick(r, matchCharPool)
			}
		}
	}
	if r.Chance(1, 6) {
		p += Pick(r, []string{"%", "*", del + "%", del + "*", del})
	}
	if r.Chance(1, 12) {
		p = Pick(r, []string{"%", "*", del}) + p
	}
	switch {
	case strings.HasSuffix(p, "%"):
		st.Inc("pattern.trailing-pct")
	case strings.ContainsAny(p, "*%"):
		st.Inc("pattern.wildcards")
	default:
		st.Inc("pattern.literal")
	}
	return p
}

// splitRefPattern moves a prefix of the pattern into the reference.
func splitRefPattern(r *Rng, del, p string) (string, string) {
	if p == "" {
		if r.Chance(1, 2) {
			return "", ""
		}
		return Pick(r, []string{"a", "a" + del, del, del + "a", "a" + del + "b", "#news" + del + "comp", del + del, "inbox" + del + "x"}), ""
	}
	if r.Chance(3, 5) {
		return "", p
	}
	rs := runes(p)
	i := r.Intn(len(rs)) // pattern keeps at least one character
	return strings.Join(rs[:i], ""), strings.Join(rs[i:], "")
}

func genMatchWith(delims []string, bad bool) func(r *Rng, n int, w io.Writer, st *Stats) {
	return func(r *Rng, n int, w io.Writer, st *Stats) {
		for i := 0; i < n; i++ {
			del := Pick(r, delims)
			name := genName(r, del, st)
			base := name
			if r.Chance(1, 4) {
				base = genName(r, del, st) // unrelated pattern
			}
			ref, pat := splitRefPattern(r, del, genPattern(r, del, base, st))
			if bad && r.Chance(1, 10) {
				// reference/pattern that is not valid UTF-8: the expression text does not compile -> "no match"
				if r.Bool() {
					pat = Pick(r, []string{"\xff", "a\xff%", "\xc3", "*\x80", "%\xfe*"})
				} else {
					ref = Pick(r, []string{"\xff", "a/\xc3", "\x80/"})
					if pat == "" {
						pat = "*"
					}
				}
				del = "/"
				st.Inc("pattern.invalid-utf8")
			}
			st.Inc("delim=" + hx(del))
			fmt.Fprintf(w, "%s %s %s %s %s\n", map[bool]string{false: "match", true: "match-baddelim"}[bad], hx(ref), hx(pat), hx(del), hx(name))
		}
	}
}

// genMatchSmall enumerates (not samples) every pattern of length <= 4 over {a / % *} with every name of
// length <= 5 over {a b /}, delimiter "/" (124 124 pairs); n caps the output, the seed is not used.
func genMatchSmall(r *Rng, n int, w io.Writer, st *Stats) {
	words := func(alpha []string, maxLen int) []string {
		out := []string{""}
		prev := []string{""}
		for l := 1; l <= maxLen; l++ {
			var next []string
			for _, p := range prev {
				for _, a := range alpha {
					next = append(next, p+a)
				}
			}
			out = append(out, next...)
			prev = next
		}
		return out
	}
	pats := words([]string{"a", "/", "%", "*"}, 4)
	names := words([]string{"a", "b", "/"}, 5)
	k := 0
	for _, p := range pats {
		for _, nm := range names {
			if k >= n {
				return
			}
			k++
			fmt.Fprintf(w, "match-small ~ %s 2f %s\n", hx(p), hx(nm))
		}
	}
	st.Add("match-small.pairs", k)
}

func genSuperiors(r *Rng, n int, w io.Writer, st *Stats) {
	for i := 0; i < n; i++ {
		del := Pick(r, append(append([]string{}, matchGoodDelims...), matchBadDelims...))
		name := genName(r, del, st)
		st.Inc("delim=" + hx(del))
		fmt.Fprintf(w, "superiors %s %s\n", hx(del), hx(name))
	}
}

// genTree: a set of names sharing prefixes.
func genTree(r *Rng, del string, st *Stats) []string {
	count := Pick(r, []int{0, 1, 2, 3, 4, 6, 8})
	var names []string
	for k := 0; k < count; k++ {
		if len(names) > 0 && r.Chance(3, 5) {
			base := Pick(r, names)
			switch r.Intn(5) {
			case 4: // sibling hierarchy that differs in the case of one letter (mailbox names are case-sensitive)
				tw := nsFlipCase(r, base, r.Chance(1, 3))
				if r.Bool() {
					tw += del + genSeg(r, del)
				}
				names = append(names, tw)
			case 0: // child
				names = append(names, base+del+genSeg(r, del))
			case 1: // sibling with a common string prefix (not a child)
				names = append(names, base+genSeg(r, del))
			case 2: // grand-child, parent missing
				names = append(names, base+del+genSeg(r, del)+del+genSeg(r, del))
			default: // duplicate
				names = append(names, base)
			}
		} else {
			names = append(names, genName(r, del, st))
		}
	}
	return names
}

func genInferiors(r *Rng, n int, w io.Writer, st *Stats) {
	for i := 0; i < n; i++ {
		del := Pick(r, append(append([]string{}, matchGoodDelims...), matchBadDelims...))
		names := genTree(r, del, st)
		parent := genName(r, del, st)
		if len(names) > 0 && r.Chance(4, 5) {
			parent = Pick(r, names)
			if sup := strings.Split(parent, del); len(sup) > 1 && r.Chance(1, 2) {
				parent = strings.Join(sup[:r.Range(1, len(sup)-1)], del)
			}
			if r.Chance(1, 6) { // another spelling of an existing level: its inferiors are not this name's
				parent = nsFlipCase(r, parent, r.Chance(1, 3))
			}
		}
		st.Inc(fmt.Sprintf("inferiors.names=%d", len(names)))
		fmt.Fprintf(w, "inferiors %s %s %s\n", hx(del), hx(parent), hxList(names))
	}
}

func genGetMatches(r *Rng, n int, w io.Writer, st *Stats) {
	for i := 0; i < n; i++ {
		del := Pick(r, matchGoodDelims)
		names := genTree(r, del, st)
		lsub := r.Chance(2, 5)
		stateList := r.Chance(4, 5) // inputs as State.List builds them
		var parts []string
		for _, nm := range names {
			sub, ent := r.Bool(), true
			if stateList {
				sub = lsub
				if lsub && r.Chance(1, 5) {
					ent = false // deleted but still subscribed
				}
			} else {
				ent = r.Chance(4, 5)
			}
			attrs := "-"
			if ent && r.Chance(1, 2) {
				k := r.Range(1, 2)
				var as []string
				for j := 0; j < k; j++ {
					as = append(as, Pick(r, attrPool))
				}
				attrs = strings.Join(as, "+")
			}
			parts = append(parts, fmt.Sprintf("%s:%s:%s:%s", hx(nm), b2s(sub), b2s(ent), attrs))
		}
		base := ""
		if len(names) > 0 {
			base = Pick(r, names)
		}
		var p string
		if r.Chance(1, 3) {
			p = Pick(r, []string{"*", "%", "%" + del + "%", "*" + del + "%", "*%", "%*", "a*", "a%", "*a", "inbox", "INBOX" + del + "%", "inbox*", ""})
		} else {
			p = genPattern(r, del, base, st)
		}
		ref, pat := splitRefPattern(r, del, p)
		mb := "-"
		if len(parts) > 0 {
			mb = strings.Join(parts, ";")
		}
		st.Inc(fmt.Sprintf("getmatches.lsub=%v", lsub))
		st.Inc(fmt.Sprintf("getmatches.names=%d", len(names)))
		st.Inc("delim=" + hx(del))
		fmt.Fprintf(w, "getmatches %s %s %s %s %s\n", hx(ref), hx(pat), hx(del), b2s(lsub), mb)
	}
}

func init() {
	Register(&Dialect{Name: "match", Impl: implMatch, Gen: genMatchWith(matchGoodDelims, false)})
	Register(&Dialect{Name: "match-baddelim", Impl: implMatch, Gen: genMatchWith(matchBadDelims, true)})
	Register(&Dialect{Name: "match-small", Impl: implMatch, Gen: genMatchSmall})
	Register(&Dialect{Name: "superiors", Impl: implSuperiors, Gen: genSuperiors})
	Register(&Dialect{Name: "inferiors", Impl: implInferiors, Gen: genInferiors})
	Register(&Dialect{Name: "getmatches", Impl: implGetMatches, Gen: genGetMatches})
}
