package main

// Oracle `c10pipeline` (C10 at the wire): commands PIPELINED on one connection are executed as written.
//
// The command reader of a session (internal/session/command.go) parses the next command while the session
// goroutine still executes the previous one; the parsed command crosses a channel by reference. A client
// that does not wait for the tagged reply before sending its next command (allowed by RFC 3501 section 5.5
// as long as there is no ambiguity) therefore exercises something no strictly sequential test does: the
// command that is being executed must not share memory with anything the reader uses for later input.
//
// One server over TCP, one logged-in client. A case is a pipeline: 1..3 APPENDs of different messages into a
// fresh (selected) mailbox, mixed with commands that carry literals (SEARCH, STATUS, LIST, SELECT, LOGIN, ID),
// then NOOP. The pipeline is sent
//
//	blast      all bytes in ONE write, literals included, without waiting for anything
//	compliant  the client waits for the `+` continuation request before every literal (as RFC 3501
//	           synchronising literals demand) but never for a tagged reply
//
// and after the last tagged reply `FETCH 1:* (UID BODY.PEEK[])` reads the mailbox back. Checked, directly on
// the bytes: every APPEND was answered OK; the mailbox holds exactly as many messages as were appended; the
// i-th message is byte for byte the i-th message written (modulo gluon's X-Pm-Gluon-Id header line); a
// pipelined SEARCH HEADER X-Marker <literal> for the first message answers `* SEARCH 1`; a pipelined
// STATUS <mailbox as literal> (MESSAGES) counts the APPENDs before it. Message and literal lengths are taken
// on and around 4096 and 65536 as well as small.
//
//	vh oracle c10pipeline -seed S -out result.json -replaydir DIR [-rounds N]
//	vh oracle c10pipeline -replay FILE
//
// Replay file: line 1 `oracle c10pipeline`, then `case <mode> <item>,<item>,...` lines; item =
// A<message length> | S<n> SEARCH SUBJECT literal of length n | H SEARCH HEADER X-Marker <marker of message 1>
// | T STATUS <mailbox literal> | L LIST <reference literal> "*" | E SELECT <mailbox literal>
// | G<n> LOGIN <literal n> <literal> | I<n> ID ("name" <literal n>). A replayed case is run 20 times (whether the
// reader overwrites before the handler reads is a matter of goroutine timing).

import (
	"bytes"
	"encoding/json"
	"flag"
	"fmt"
	"os"
	"regexp"
	"sort"
	"strconv"
	"strings"
	"time"
)

type c10pItem struct {
	kind byte
	n    int
}

type c10pCase struct {
	mode  string
	items []c10pItem
}

func (c c10pCase) String() string {
	var it []string
	for _, i := range c.items {
		s := string(i.kind)
		if strings.IndexByte("ASGI", i.kind) >= 0 {
			s += strconv.Itoa(i.n)
		}
		it = append(it, s)
	}
	return "case " + c.mode + " " + strings.Join(it, ",")
}

func c10pParseCase(line string) (c10pCase, bool) {
	f := strings.Fields(line)
	if len(f) != 3 || f[0] != "case" || (f[1] != "blast" && f[1] != "compliant") {
		return c10pCase{}, false
	}
	c := c10pCase{mode: f[1]}
	for _, w := range strings.Split(f[2], ",") {
		if w == "" || strings.IndexByte("ASHTLEGI", w[0]) < 0 {
			return c10pCase{}, false
		}
		it := c10pItem{kind: w[0]}
		if len(w) > 1 {
			n, err := strconv.Atoi(w[1:])
			if err != nil || n < 0 || n > 1<<22 {
				return c10pCase{}, false
			}
			it.n = n
		}
		c.items = append(c.items, it)
	}
	return c, len(c.items) > 0
}

// c10pMessage: a valid message of exactly n bytes (or the shortest possible if n is smaller), no two alike.
func c10pMessage(marker string, n int, r *Rng) []byte {
	base := SimpleMessage(marker, "")
	if n <= len(base) {
		return base
	}
	const letters = "abcdefghijklmnopqrstuvwxyzABCDEFGHIJKLMNOPQRSTUVWXYZ0123456789 "
	body := make([]byte, n-len(base))
	for i := range body {
		switch {
		case i%72 == 70 && i+1 < len(body):
			body[i] = '\r'
		case i%72 == 71:
			body[i] = '\n'
		default:
			body[i] = letters[r.Intn(len(letters))]
		}
	}
	return SimpleMessage(marker, string(body))
}

func c10pFill(n int, r *Rng) []byte {
	const letters = "abcdefghijklmnopqrstuvwxyz0123456789"
	b := make([]byte, n)
	for i := range b {
		b[i] = letters[r.Intn(len(letters))]
	}
	return b
}

var (
	c10pReGluonID = regexp.MustCompile(`(?im)^X-Pm-Gluon-Id:[^\r\n]*\r\n`)
	c10pReBody    = regexp.MustCompile(`^\* (\d+) FETCH \(.*BODY\[\] \{(\d+)\}\r\n`)
)

type c10pRunner struct {
	sys   *Sys
	cl    *Client
	rng   *Rng
	mboxN int
	stats map[string]int
}

func c10pTrunc(b []byte) string {
	if len(b) > 160 {
		return fmt.Sprintf("%q… (%d bytes)", b[:160], len(b))
	}
	return fmt.Sprintf("%q", b)
}

// run executes one case; returns a description of what went wrong ("" = as written).
func (r *c10pRunner) run(c c10pCase) string {
	r.mboxN++
	mbox := fmt.Sprintf("c10p%d", r.mboxN)
	for _, cmd := range []string{"CREATE " + mbox, "CREATE " + mbox + "/kid", "SELECT " + mbox} {
		if rep := r.cl.Cmd(cmd); rep.Status != "OK" {
			return fmt.Sprintf("setup %s answered %q (%v)", cmd, rep.Tagged, rep.Err)
		}
	}
	type sent struct {
		tag  string
		item c10pItem
		text string
	}
	var wire [][]byte // segments; every segment but the last ends with a literal announcement `{n}CRLF`
	var cur []byte
	var cmds []sent
	var msgs [][]byte
	lit := func(b []byte) {
		cur = append(cur, []byte(fmt.Sprintf("{%d}\r\n", len(b)))...)
		wire = append(wire, cur)
		cur = append([]byte(nil), b...)
	}
	str := func(s string) { cur = append(cur, s...) }
	statusWant := map[string]int{}
	for _, it := range append(append([]c10pItem(nil), c.items...), c10pItem{kind: 'N'}) {
		r.cl.tagN++
		tag := fmt.Sprintf("%s%d", r.cl.Name, r.cl.tagN)
		str(tag + " ")
		text := ""
		switch it.kind {
		case 'A':
			m := c10pMessage(fmt.Sprintf("%s-m%d-%d", mbox, len(msgs)+1, r.rng.Intn(1000000)), it.n, r.rng)
			msgs = append(msgs, m)
			str("APPEND " + mbox + " ")
			lit(m)
			text = fmt.Sprintf("APPEND %s {%d}", mbox, len(m))
		case 'S':
			str("SEARCH SUBJECT ")
			lit(c10pFill(it.n, r.rng))
			text = fmt.Sprintf("SEARCH SUBJECT {%d}", it.n)
		case 'H':
			marker := "none"
			if len(msgs) > 0 {
				marker = string(regexp.MustCompile(`X-Marker: ([^\r\n]*)`).FindSubmatch(msgs[0])[1])
			}
			str("SEARCH HEADER X-Marker ")
			lit([]byte(marker))
			text = "SEARCH HEADER X-Marker {" + marker + "}"
		case 'T':
			str("STATUS ")
			lit([]byte(mbox))
			str(" (MESSAGES)")
			statusWant[tag] = len(msgs)
			text = "STATUS {" + mbox + "} (MESSAGES)"
		case 'L':
			ref := mbox + "/"
			str("LIST ")
			lit([]byte(ref))
			str(` "*"`)
			text = "LIST {" + ref + `} "*"`
		case 'E':
			str("SELECT ")
			lit([]byte(mbox))
			text = "SELECT {" + mbox + "}"
		case 'G':
			str("LOGIN ")
			lit(c10pFill(it.n, r.rng))
			str(" ")
			lit(c10pFill(8, r.rng))
			text = fmt.Sprintf("LOGIN {%d} {8}", it.n)
		case 'I':
			str(`ID ("name" `)
			lit(c10pFill(it.n, r.rng))
			str(")")
			text = fmt.Sprintf(`ID ("name" {%d})`, it.n)
		case 'N':
			str("NOOP")
			text = "NOOP"
		}
		str("\r\n")
		cmds = append(cmds, sent{tag, it, text})
	}
	wire = append(wire, cur)

	// send
	tagged := map[string]string{}
	untaggedBefore := map[string][]string{}
	var pendingUntagged []string
	readOne := func() (plus bool, err error) {
		b, err := r.cl.readLogical()
		if err != nil {
			return false, err
		}
		s := string(b)
		if strings.HasPrefix(s, "+") {
			return true, nil
		}
		for _, cm := range cmds {
			if strings.HasPrefix(s, cm.tag+" ") {
				tagged[cm.tag] = s
				untaggedBefore[cm.tag] = pendingUntagged
				pendingUntagged = nil
				return false, nil
			}
		}
		pendingUntagged = append(pendingUntagged, s)
		return false, nil
	}
	_ = r.cl.conn.SetWriteDeadline(time.Now().Add(r.cl.Timeout))
	if c.mode == "blast" {
		if _, err := r.cl.conn.Write(bytes.Join(wire, nil)); err != nil {
			return "write failed: " + err.Error()
		}
	} else {
		for i, seg := range wire {
			if _, err := r.cl.conn.Write(seg); err != nil {
				return "write failed: " + err.Error()
			}
			if i == len(wire)-1 {
				break
			}
			for {
				plus, err := readOne()
				if err != nil {
					return fmt.Sprintf("no continuation request for literal %d of the pipeline: %v", i+1, err)
				}
				if plus {
					break
				}
			}
		}
	}
	last := cmds[len(cmds)-1].tag
	for tagged[last] == "" {
		if _, err := readOne(); err != nil {
			return fmt.Sprintf("the pipeline was not answered completely (%d of %d tagged replies): %v", len(tagged), len(cmds), err)
		}
	}

	// judge
	var bad []string
	for _, cm := range cmds {
		rep, ok := tagged[cm.tag]
		if !ok {
			bad = append(bad, fmt.Sprintf("%s: no tagged reply", cm.text))
			continue
		}
		st := ""
		if f := strings.Fields(rep); len(f) > 1 {
			st = f[1]
		}
		switch cm.item.kind {
		case 'A', 'S', 'H', 'T', 'L', 'E', 'N':
			if st != "OK" {
				bad = append(bad, fmt.Sprintf("%s answered %q", cm.text, rep))
				continue
			}
		}
		unt := strings.Join(untaggedBefore[cm.tag], "\n")
		switch cm.item.kind {
		case 'H':
			if len(msgs) > 0 && !regexp.MustCompile(`(?m)^\* SEARCH 1$`).MatchString(unt) {
				bad = append(bad, fmt.Sprintf("%s (the marker of message 1, appended earlier in the pipeline) answered %q instead of `* SEARCH 1`", cm.text, unt))
			}
		case 'T':
			if !strings.Contains(unt, fmt.Sprintf("(MESSAGES %d)", statusWant[cm.tag])) {
				bad = append(bad, fmt.Sprintf("%s after %d pipelined APPENDs answered %q", cm.text, statusWant[cm.tag], unt))
			}
		case 'L':
			if !strings.Contains(unt, mbox+"/kid") {
				bad = append(bad, fmt.Sprintf("%s does not list %s/kid: %q", cm.text, mbox, unt))
			}
		}
	}
	rep := r.cl.Cmd("FETCH 1:* (UID BODY.PEEK[])")
	if rep.Status != "OK" && len(msgs) > 0 {
		bad = append(bad, fmt.Sprintf("FETCH 1:* answered %q (%v)", rep.Tagged, rep.Err))
	}
	got := map[int][]byte{}
	for _, u := range rep.Untagged {
		if m := c10pReBody.FindStringSubmatch(u); m != nil {
			seq, _ := strconv.Atoi(m[1])
			n, _ := strconv.Atoi(m[2])
			body := u[len(m[0]):]
			if n <= len(body) {
				got[seq] = c10pReGluonID.ReplaceAll([]byte(body[:n]), nil)
			}
		}
	}
	if len(got) != len(msgs) {
		bad = append(bad, fmt.Sprintf("%d messages appended, the mailbox holds %d", len(msgs), len(got)))
	}
	var seqs []int
	for s := range got {
		seqs = append(seqs, s)
	}
	sort.Ints(seqs)
	for _, s := range seqs {
		if s < 1 || s > len(msgs) {
			continue
		}
		if !bytes.Equal(got[s], msgs[s-1]) {
			which := ""
			for j, m := range msgs {
				if bytes.Equal(got[s], m) {
					which = fmt.Sprintf(" (these are the bytes of message %d of the pipeline)", j+1)
				}
			}
			at := 0
			for at < len(got[s]) && at < len(msgs[s-1]) && got[s][at] == msgs[s-1][at] {
				at++
			}
			bad = append(bad, fmt.Sprintf("message %d is not the message that was written%s: first difference at byte %d; written %s stored %s", s, which, at, c10pTrunc(msgs[s-1]), c10pTrunc(got[s])))
		}
	}
	_ = r.cl.Cmd("CLOSE")
	return strings.Join(bad, "; ")
}

func c10pCases(r *Rng, rounds int) []c10pCase {
	sizes := []int{0, 1000, 4095, 4096, 4097, 8192, 65535, 65536, 65537}
	small := []int{1, 2, 64, 150, 4095, 4096, 4097}
	var out []c10pCase
	add := func(items ...c10pItem) {
		for _, m := range []string{"blast", "compliant"} {
			out = append(out, c10pCase{mode: m, items: items})
		}
	}
	A := func(n int) c10pItem { return c10pItem{'A', n} }
	for round := 0; round < rounds; round++ {
		a, b, c := Pick(r, sizes), Pick(r, sizes), Pick(r, sizes)
		if round == 0 {
			a, b, c = 0, 0, 0 // the shortest messages: the everyday case
		}
		s := Pick(r, small)
		add(A(a), A(b))
		add(A(a), A(b), A(c))
		add(A(a), c10pItem{'S', s})
		add(A(a), c10pItem{'H', 0}, A(b))
		add(A(a), c10pItem{'T', 0}, A(b), c10pItem{'T', 0})
		add(A(a), c10pItem{'L', 0})
		add(A(a), c10pItem{'E', 0}, A(b))
		add(A(a), c10pItem{'G', s})
		add(A(a), c10pItem{'I', s}, c10pItem{'H', 0})
		add(A(a), c10pItem{'S', Pick(r, small)}, A(b), c10pItem{'I', Pick(r, small)}, A(c), c10pItem{'H', 0})
	}
	return out
}

func runOracleC10Pipeline(args []string) int {
	fs := flag.NewFlagSet("c10pipeline", flag.ExitOnError)
	seed := fs.Uint64("seed", 1, "seed")
	outPath := fs.String("out", "", "result json")
	replayDir := fs.String("replaydir", "replay", "where replay files go")
	replay := fs.String("replay", "", "replay file")
	rounds := fs.Int("rounds", 4, "rounds of the case table (each with its own lengths)")
	_ = fs.Parse(args)
	res := &oracleResult{Stats: map[string]int{}, Samples: []map[string]any{}, Violations: []oracleViolation{}}
	write := func() int {
		b, _ := json.MarshalIndent(res, "", " ")
		if *outPath != "" {
			_ = os.WriteFile(*outPath, b, 0o644)
		} else {
			fmt.Println(string(b))
		}
		return 0
	}
	rng := NewRng(*seed).Fork()
	var cases []c10pCase
	repeat := 1
	if *replay != "" {
		data, err := os.ReadFile(*replay)
		if err != nil {
			fmt.Fprintln(os.Stderr, err)
			return 2
		}
		for _, l := range strings.Split(string(data), "\n") {
			if c, ok := c10pParseCase(strings.TrimSpace(l)); ok {
				cases = append(cases, c)
			}
		}
		repeat = 20
	} else {
		cases = c10pCases(rng, *rounds)
	}
	sys, err := NewSys(SysOpts{})
	if err != nil {
		res.Violations = append(res.Violations, oracleViolation{Desc: "c10pipeline: cannot start the server: " + err.Error()})
		return write()
	}
	defer sys.Close(true)
	cl, err := sys.Dial("p")
	if err != nil {
		res.Violations = append(res.Violations, oracleViolation{Desc: "c10pipeline: cannot connect: " + err.Error()})
		return write()
	}
	defer cl.Close()
	cl.Timeout = 20 * time.Second
	if rep := cl.Login("user"); rep.Status != "OK" {
		res.Violations = append(res.Violations, oracleViolation{Desc: "c10pipeline: LOGIN failed: " + rep.Tagged})
		return write()
	}
	run := &c10pRunner{sys: sys, cl: cl, rng: rng, stats: res.Stats}
	distinct := map[string]bool{}
	reported := map[string]bool{}
	for _, c := range cases {
		for k := 0; k < repeat; k++ {
			res.Evaluations++
			res.Stats["mode."+c.mode]++
			distinct[c.String()] = true
			why := run.run(c)
			if len(res.Samples) < 2 {
				res.Samples = append(res.Samples, map[string]any{"oracle": "c10pipeline", "case": c.String(), "outcome": map[bool]string{true: "as written", false: why}[why == ""]})
			}
			if why == "" {
				res.Stats["as-written"]++
				continue
			}
			res.Stats["violations"]++
			if strings.Contains(why, "not answered completely") || strings.Contains(why, "write failed") || strings.Contains(why, "no continuation") || strings.HasPrefix(why, "setup") {
				// the connection is out of step: start a new one
				cl.Close()
				if cl, err = sys.Dial(fmt.Sprintf("p%d", res.Evaluations)); err != nil {
					return write()
				}
				cl.Timeout = 20 * time.Second
				if rep := cl.Login("user"); rep.Status != "OK" {
					return write()
				}
				run.cl = cl
			}
			if reported[c.String()] || len(res.Violations) >= 4 {
				continue
			}
			reported[c.String()] = true
			text := fmt.Sprintf("oracle c10pipeline\n# a pipeline (commands sent without waiting for the tagged reply of the previous one; mode %s) was not executed as written:\n# %s\n# (items: A<n> APPEND of an n-byte message, S<n> SEARCH SUBJECT {n}, H SEARCH HEADER X-Marker {marker of message 1}, T STATUS {mailbox} (MESSAGES), L LIST {ref} \"*\", E SELECT {mailbox}, G<n> LOGIN {n} {8}, I<n> ID (\"name\" {n}); then NOOP)\n# replay: ./check C10 --replay <this file>   (runs the case 20 times: goroutine timing)\n%s\n", c.mode, why, c.String())
			name := fmt.Sprintf("C10-c10pipeline-%d.txt", len(res.Violations)+1)
			res.Violations = append(res.Violations, oracleViolation{Desc: "c10pipeline pipelined-command-not-executed-as-written: " + c.String() + ": " + why, Replay: writeReplay(*replayDir, name, text)})
		}
	}
	for _, p := range sys.Panics.Take() {
		res.Violations = append(res.Violations, oracleViolation{Desc: "c10pipeline server-panic: " + p, Replay: writeReplay(*replayDir, "C10-c10pipeline-panic.txt", "oracle c10pipeline\n# a server goroutine panicked: "+strings.ReplaceAll(p, "\n", " ")+"\n")})
	}
	res.DistinctNontrivial = len(distinct)
	return write()
}

func init() {
	RegisterOracle(&Oracle{Name: "c10pipeline", Run: runOracleC10Pipeline})
}
