package main

// Directed scenarios of the oracle `c15search` (property C15), in the script format of o_search.go.
//
//   dates   internal dates and Date headers exactly on, one second before and one second after a day boundary: the
//           instant is midnight UTC (written in +0000 and in +0530 / -0500 / +1400), or the wall clock of the zone reads
//           midnight; every date key (BEFORE ON SINCE SENTBEFORE SENTON SENTSINCE, plain and under NOT) for the days
//           the messages lie on, the day before and the day after; `ident` lines: ON d, NOT BEFORE d BEFORE d+1 and
//           SINCE d BEFORE d+1 must select the same messages (SINCE up to the recorded deviation since-zone).
//   big     a view of `size` small messages (sizes: primes just above 128 / 256 / …, coprime to any number of workers)
//           whose distinguished messages are the first and the last ones of the view; `par 2`: the script runs on the
//           server with parallel evaluation and on the one with gluon.WithDisableParallelism, every answer is judged by
//           the Lean model and the two answers are compared.

import (
	"fmt"
	"strconv"
	"strings"
	"time"
)

func c15DayText(day int64) string { return time.Unix(day*86400, 0).UTC().Format("2-Jan-2006") }

func c15Pre(mode string) string {
	if mode == "uid" {
		return "UID SEARCH "
	}
	return "SEARCH "
}

// the three searches of an `ident <mode> <day>` line
func c15IdentSearches(mode string, day int64) []string {
	d, d1 := c15DayText(day), c15DayText(day+1)
	return []string{
		c15Search(mode, "absent", fmt.Sprintf("L1,on:%d", day), c15Pre(mode)+"ON "+d),
		c15Search(mode, "absent", fmt.Sprintf("L2,not,before:%d,before:%d", day, day+1), c15Pre(mode)+"NOT BEFORE "+d+" BEFORE "+d1),
		c15Search(mode, "absent", fmt.Sprintf("L2,since:%d,before:%d", day, day+1), c15Pre(mode)+"SINCE "+d+" BEFORE "+d1),
	}
}

// c15Comparable: may the answers of two servers to this `search` line be compared? Each server gives a message its own
// random X-Pm-Gluon-Id, which TEXT and HEADER X-Pm-Gluon-Id keys can see.
func c15Comparable(line string) bool {
	f := strings.Fields(line)
	if len(f) != 6 {
		return false
	}
	const idLine = "x-pm-gluon-id: 0123456789abcdef"
	for _, tok := range strings.Split(f[4], ",") {
		p := strings.Split(tok, ":")
		switch {
		case p[0] == "text" && len(p) == 2:
			if f[2] != "absent" {
				return false
			}
			outside := false
			for _, c := range strings.ToLower(string(c15UnhexOrTilde(p[1]))) {
				if !strings.ContainsRune(idLine, c) {
					outside = true
				}
			}
			if !outside {
				return false
			}
		case p[0] == "header" && len(p) == 3:
			if strings.EqualFold(string(c15UnhexOrTilde(p[1])), "X-Pm-Gluon-Id") {
				return false
			}
		}
	}
	return true
}

func c15Shuffle[T any](r *Rng, xs []T) {
	for i := len(xs) - 1; i > 0; i-- {
		j := r.Intn(i + 1)
		xs[i], xs[j] = xs[j], xs[i]
	}
}

func genC15DateWorld(r *Rng, par int, stats map[string]int) []string {
	stats["world.dates"]++
	day0 := c15Base/86400 + int64(r.Range(1, 7))
	zones := []int64{19800, -18000, 50400}
	edges := []int64{-1, 0, 1}
	var internal, sents []c15Time
	for dd := int64(0); dd < 2; dd++ {
		for _, e := range edges {
			u := (day0+dd)*86400 + e
			// the instant is on / next to midnight UTC, written in +0000 and in another zone
			internal = append(internal, c15Time{u, 0}, c15Time{u, Pick(r, zones)})
			sents = append(sents, c15Time{u, Pick(r, []int64{0, 19800, -18000, 50400})})
			// the wall clock of the zone is on / next to midnight
			z := Pick(r, zones)
			sents = append(sents, c15Time{u - z, z})
		}
	}
	z := Pick(r, zones)
	for _, e := range edges {
		internal = append(internal, c15Time{(day0+int64(r.Range(0, 1)))*86400 + e - z, z})
	}
	c15Shuffle(r, internal)
	c15Shuffle(r, sents)
	lines := []string{fmt.Sprintf("par %d", par)}
	for i, t := range internal {
		sent := sents[i%len(sents)]
		layout := "Mon, 02 Jan 2006 15:04:05 -0700"
		if r.Chance(1, 3) {
			layout = "02 Jan 2006 15:04:05 -0700"
		}
		var flags []string
		if r.Bool() {
			flags = append(flags, "\\Seen")
		}
		fields := [][2]string{{"From", "d@example.com"}, {"Date", sent.Go().Format(layout)}, {"Subject", "edge " + strconv.Itoa(i+1)}}
		lines = append(lines, c15MkMsg(flags, t, fields, "body\r\n", &sent).line())
	}
	lines = append(lines, "observe "+Pick(r, []string{"select", "examine"}), "mode none")
	names := []string{"before", "on", "since", "sentbefore", "senton", "sentsince"}
	for day := day0 - 1; day <= day0+2; day++ {
		for _, name := range names {
			mode := Pick(r, []string{"seq", "seq", "uid"})
			wire := strings.ToUpper(name) + " " + c15DayText(day)
			lines = append(lines, c15Search(mode, "absent", fmt.Sprintf("L1,%s:%d", name, day), c15Pre(mode)+wire))
			stats["key."+name]++
			if r.Bool() {
				lines = append(lines, c15Search(mode, "absent", fmt.Sprintf("L1,not,%s:%d", name, day), c15Pre(mode)+"NOT "+wire))
				stats["key.not"]++
			}
		}
		lines = append(lines, fmt.Sprintf("ident %s %d", Pick(r, []string{"seq", "uid"}), day))
	}
	return lines
}

func genC15BigWorld(r *Rng, size int, stats map[string]int) []string {
	stats[fmt.Sprintf("world.big.%d", size)]++
	g := &c15Gen{r: r}
	day := func(d int64, h int64) c15Time { return c15Time{c15Base + d*86400 + h*3600, 0} }
	lines := []string{"par 2"}
	fillers := []string{"wheat", "thaw", "quiz", "zenith"}
	maxFill := 0
	for i := 0; i < size; i++ {
		var m *c15Msg
		switch i {
		case 0:
			t := day(1, 5)
			m = c15MkMsg([]string{"\\Flagged", "Foo"}, t, [][2]string{{"From", "head@example.com"}, {"Date", t.Go().Format(time.RFC1123Z)},
				{"Subject", "zeta-head one"}}, "", &t)
		case size - 2:
			t := day(7, 23)
			m = c15MkMsg([]string{"\\Draft"}, t, [][2]string{{"From", "f@example.com"}, {"Date", t.Go().Format(time.RFC1123Z)},
				{"Subject", "zeta-tail two"}}, "quiz\r\n", &t)
		case size - 1:
			t := day(8, 0)
			m = c15MkMsg([]string{"\\Flagged", "\\Answered", "$Label1"}, t, [][2]string{{"From", "tail@example.com"}, {"Date", t.Go().Format(time.RFC1123Z)},
				{"Subject", "zeta-tail three"}, {"X-Tag", "wow-tail"}}, "quux-tail and some more words to be the largest message of them all\r\n", &t)
		default:
			t := day(int64(r.Range(3, 5)), int64(r.Range(0, 23)))
			var flags []string
			if r.Bool() {
				flags = append(flags, "\\Seen")
			}
			if r.Chance(1, 9) {
				flags = append(flags, "bar")
			}
			m = c15MkMsg(flags, t, [][2]string{{"From", "f@example.com"}, {"Date", t.Go().Format(time.RFC1123Z)},
				{"Subject", Pick(r, fillers) + " " + strconv.Itoa(i%10)}}, Pick(r, fillers)+"\r\n", &t)
			maxFill = max(maxFill, len(m.Lit)+53)
		}
		g.msgs = append(g.msgs, m)
		lines = append(lines, m.line())
	}
	lines = append(lines, "observe select", "mode none")
	add := func(keys, wire string) {
		mode := Pick(r, []string{"seq", "seq", "uid"})
		lines = append(lines, c15Search(mode, "absent", keys, c15Pre(mode)+wire))
	}
	str := func(name, v string) (string, string) {
		return name + ":" + c15hx(v), strings.ToUpper(name) + " \"" + v + "\""
	}
	add("L1,all", "ALL")
	add("L1,not,all", "NOT ALL")
	for _, k := range []string{"flagged", "unflagged", "answered", "draft", "seen", "unseen", "recent"} {
		add("L1,"+k, strings.ToUpper(k))
		stats["key."+k]++
	}
	add("L1,not,flagged", "NOT FLAGGED")
	add("L1,not,unanswered", "NOT UNANSWERED")
	add("L1,keyword:"+c15hx("$label1"), "KEYWORD $label1")
	add("L1,unkeyword:"+c15hx("$Label1"), "UNKEYWORD $Label1")
	add("L1,keyword:"+c15hx("FOO"), "KEYWORD FOO")
	for _, kv := range [][2]string{{"subject", "zeta-tail"}, {"subject", "zeta-head"}, {"subject", "ZETA"}, {"subject", "three"}, {"body", "quux-tail"},
		{"text", "wow-tail"}, {"text", "zeta-head"}, {"from", "tail@"}, {"from", "head@"}, {"body", Pick(r, fillers)}, {"subject", Pick(r, fillers)}} {
		k, w := str(kv[0], kv[1])
		add("L1,"+k, w)
		stats["key."+kv[0]]++
		if r.Bool() {
			add("L1,not,"+k, "NOT "+w)
			stats["key.not"]++
		}
	}
	add("L1,header:"+c15hx("X-Tag")+":"+c15hx("wow"), "HEADER X-Tag wow")
	add(fmt.Sprintf("L1,larger:%d", maxFill), fmt.Sprintf("LARGER %d", maxFill))
	add(fmt.Sprintf("L1,not,smaller:%d", maxFill), fmt.Sprintf("NOT SMALLER %d", maxFill))
	add(fmt.Sprintf("L1,smaller:%d", len(g.msgs[0].Lit)+54), fmt.Sprintf("SMALLER %d", len(g.msgs[0].Lit)+54))
	d8, d2 := c15Base/86400+8, c15Base/86400+2
	add(fmt.Sprintf("L1,since:%d", d8), "SINCE "+c15DayText(d8))
	add(fmt.Sprintf("L1,on:%d", d8), "ON "+c15DayText(d8))
	add(fmt.Sprintf("L1,not,before:%d", d8), "NOT BEFORE "+c15DayText(d8))
	add(fmt.Sprintf("L1,before:%d", d2), "BEFORE "+c15DayText(d2))
	add(fmt.Sprintf("L1,sentsince:%d", d8-1), "SENTSINCE "+c15DayText(d8-1))
	add(fmt.Sprintf("L1,senton:%d", d8), "SENTON "+c15DayText(d8))
	add(fmt.Sprintf("L1,not,sentsince:%d", d2), "NOT SENTSINCE "+c15DayText(d2))
	add("L1,seq:0_0", "*")
	add(fmt.Sprintf("L1,seq:%d_%d", size, size), strconv.Itoa(size))
	add("L1,seq:1_1", "1")
	add(fmt.Sprintf("L1,seq:%d_0", size-2), fmt.Sprintf("%d:*", size-2))
	add(fmt.Sprintf("L1,not,seq:2_%d", size-1), fmt.Sprintf("NOT 2:%d", size-1))
	add(fmt.Sprintf("L1,uid:%d_%d", size, size), fmt.Sprintf("UID %d", size))
	add("L1,uid:1_0", "UID 1:*")
	add("L1,uid:0_0", "UID *")
	add("L1,or,flagged,draft", "OR FLAGGED DRAFT")
	add("L1,or,subject:"+c15hx("zeta-tail")+",subject:"+c15hx("zeta-head"), "OR SUBJECT zeta-tail SUBJECT zeta-head")
	add("L1,L2,answered,flagged", "(ANSWERED FLAGGED)")
	add("L2,flagged,not,answered", "FLAGGED NOT ANSWERED")
	add("L2,not,seen,not,subject:"+c15hx("w"), "NOT SEEN NOT SUBJECT w")
	for i := 0; i < 10; i++ {
		lines = append(lines, g.genSearch(stats))
	}
	return lines
}
