package main

// Oracle `c18auth` (C18): wire-level tie of the session-protocol model GluonModel/Model/Auth.lean to a
// whole gluon server with 2-3 users (each its own connector / database / store), and the property
// oracle for authentication gating, user isolation and the login jail.
//
// One *sequence* = one fresh server + a list of steps over several client connections.  Every step is
// one IMAP command on one connection; the harness records per step the completion class of the
// reply (ok / no / bad / bye / byeonly / none), which users' markers were visible in the untagged data,
// send / receive times and whether the text was "too many login attempts".  The whole trace goes to
// the Lean judge `judge-c18-wire` (Driver/DJudgeAuth.lean) which runs `Gluon.Auth.step` with the
// regenerated dispatch facts over it: the model predicts class and protocol state for every step,
// the jail arithmetic (`Gluon.Auth.attempt`) bounds the reply times from below, and the users whose
// before/after snapshots differ must be users the model says a handled command ran for.
//
// Replay file:
//   oracle c18auth
//   cfg users=<n> jail=<ms>
//   user <k> <name> <password>                      (quoted when empty or not an atom)
//   userid <k> <Go-quoted string>                   (optional: the application-chosen user id handed to Server.LoadUser - it becomes
//                                                    the name of the user's database file and store directory; without the line the
//                                                    user is created by Server.AddUser, which draws a UUID)
//   C<conn> <PayloadType> <wire command | LOGIN user pass | APPEND mailbox marker>
//   ADMIN remove <k> | ADMIN add <k> <password>     (Server.RemoveUser / Server.LoadUser with the same user id and a fresh connector)
//   ADMIN removefiles <k>                           (Server.RemoveUser(removeFiles=true): the user's database and store are deleted; an
//                                                    `ADMIN add` after it finds a new database and builds the user's marker fixture again)
//   ADMIN restart                                   (every client connection is closed; every user on the server is removed - files
//                                                    stay - and loaded again under its id with a fresh connector: what a restart of
//                                                    the embedding application does; nobody's view may change)
//
// User ids are inputs of the isolation clause ("every mix of users on one server"): besides server-drawn UUIDs the generator
// uses ids that contain URL / DSN / path metacharacters and are equal up to such a character, ids that are prefixes of one
// another, ids that differ in letter case only (a case-insensitive file system is out of scope: the check runs on Linux),
// ids that are percent-encodings of one another, ids with leading dots, non-ASCII ids and very long ids.  Ids that gluon hands
// to the file system unvalidated and that name something else than one new directory entry (`..`, `.`, the empty id, ids with
// `/`) and ids with glob metacharacters (`*`, `[`, `\`) are generated only with -hostile-ids.
//
// Observers: every user has one extra session of the harness (logged in before the first step with the user's valid pair,
// never selected, not part of the judged trace) that reads the user's view - LIST "" "*" and STATUS (MESSAGES UIDNEXT
// UIDVALIDITY UNSEEN) of every listed mailbox - after every step.  The judge gets, per step, the users whose view changed
// in that step and the (observer, foreign marker) pairs: a view may change only in a step of a session authenticated as that
// user (or an ADMIN step on that user), and no observer may ever list a marker of another user.
//
// Credentials: user names of one server may be prefixes of one another, differ in letter case only, or be built so
// that two valid pairs collide when name and password are joined (with or without a separator); besides the plain wrong
// kinds the generator derives adversarial pairs from valid ones (every other split of name||password, separator
// variants, truncations, empty password, swapped, other user's password / name) and presents them before and after the
// owner of the valid pair has logged in (same server, other connection), after its logout, after the user was removed
// and after it was added again (with the same or a new password).  Which connector accepts a pair is the harness'
// table (the rule of connector.Dummy.Authorize over the users currently on the server).  After every LOGIN that is
// answered OK the harness itself issues the identity probe `LIST "" "*"` on that session: the judge requires the
// listing to show the marker mailboxes of exactly the user whose connector accepts the presented pair.
//
// Generation is offline (no feedback from the server), deterministic from the seed; sequences are
// executed by a pool of workers (each sequence has its own server; every timing check is a lower
// bound, so load can only make replies later, never cause an alarm).

import (
	"context"
	"flag"
	"fmt"
	"net"
	"os"
	"path/filepath"
	"regexp"
	"sort"
	"strconv"
	"strings"
	"sync"
	"time"

	"github.com/ProtonMail/gluon"
	"github.com/ProtonMail/gluon/connector"
	"github.com/ProtonMail/gluon/imap"
)

// ---- server with several users -------------------------------------------------------------

type authUser struct {
	Name, Pass string
	ID         string
	Conn       *connector.Dummy
	Removed    bool
	NoFiles    bool // removed with removeFiles=true: the next LoadUser finds a new database, the fixture is built again
}

type authSys struct {
	srv    *gluon.Server
	users  []*authUser
	addr   string
	dir    string
	ctx    context.Context
	cancel context.CancelFunc
	panics *panicRecorder
	// observers[k]: the harness' own session of user k (nil: none), lastView[k]: what it read last
	observers []*Client
	lastView  []string
	fresh     []bool // observer k has not read a view yet that a change could be measured against
	notes     []string // informational (API results, what is on disk); never a verdict
	causes    []string // what the harness saw on disk that explains a later verdict (classification only)
}

func authAllFlags() imap.FlagSet {
	return imap.NewFlagSet(imap.FlagSeen, imap.FlagFlagged, imap.FlagDeleted, imap.FlagAnswered, imap.FlagDraft)
}

// removeUser: Server.RemoveUser (files stay unless asked); blocks until the user's sessions have released their states.
func (a *authSys) removeUser(k int, files bool) error {
	u := a.users[k]
	if u.Removed {
		return fmt.Errorf("user %d is not on the server", k)
	}
	a.closeObserver(k)
	ctx, c := context.WithTimeout(a.ctx, 20*time.Second)
	defer c()
	done := make(chan error, 1)
	go func() { done <- a.srv.RemoveUser(ctx, u.ID, files) }()
	select {
	case err := <-done:
		if err != nil {
			return err
		}
	case <-time.After(25 * time.Second):
		return fmt.Errorf("RemoveUser did not return within 25s")
	}
	u.Removed = true
	a.fresh[k] = true // the next observer of this user starts from what it reads first
	if files {
		u.NoFiles = true
	}
	return nil
}

// addUser: the removed user comes back under its id with a fresh connector that accepts (name, pass).
func (a *authSys) addUser(k int, pass string) error {
	u := a.users[k]
	if !u.Removed {
		return fmt.Errorf("user %d is on the server", k)
	}
	all := authAllFlags()
	conn := connector.NewDummy([]string{u.Name}, []byte(pass), time.Hour, all, all, imap.NewFlagSet())
	conn.SetUpdatesAllowedToFail(true)
	isNew, err := a.srv.LoadUser(a.ctx, conn, u.ID, []byte("passphrase-"+u.Name))
	if err != nil {
		return err
	}
	u.Conn, u.Pass, u.Removed = conn, pass, false
	if isNew != u.NoFiles {
		a.notes = append(a.notes, fmt.Sprintf("LoadUser(%q) of user %d reported isNew=%v, files removed before=%v", u.ID, k, isNew, u.NoFiles))
	}
	if u.NoFiles {
		// the user's files were deleted: it starts again with its marker fixture (never for a user that was removed
		// without its files - its data has to be there still)
		u.NoFiles = false
		if err := conn.Sync(a.ctx); err != nil {
			return err
		}
		if err := a.populate(k); err != nil {
			return err
		}
	}
	return nil
}

func authMarker(k int) string { return fmt.Sprintf("mk%dk", k) }

var reAuthMarker = regexp.MustCompile(`mk(\d)k`)

func authStable(k int) []string {
	return []string{"INBOX", authMarker(k) + "box", authMarker(k) + "arc"}
}

// populate: distinguishable content of user k through its connector - mailboxes and subjects carry the user's marker
func (a *authSys) populate(k int) error {
	conn := a.users[k].Conn
	all := authAllFlags()
	mk := authMarker(k)
	for _, mb := range authStable(k)[1:] {
		if err := conn.MailboxCreated(imap.Mailbox{ID: imap.MailboxID(mb), Name: []string{mb}, Flags: all, PermanentFlags: all, Attributes: imap.NewFlagSet()}); err != nil {
			return err
		}
	}
	n := 0
	for _, mb := range authStable(k) {
		cnt := 2
		if strings.HasSuffix(mb, "arc") {
			cnt = 1
		}
		for j := 0; j < cnt; j++ {
			n++
			marker := fmt.Sprintf("%ssubj%d", mk, n)
			fl := imap.NewFlagSet()
			if j == 1 {
				fl = imap.NewFlagSet(imap.FlagSeen)
			}
			if err := conn.MessageCreated(imap.Message{ID: imap.MessageID(marker), Flags: fl, Date: time.Unix(1136214245, 0).UTC()},
				SimpleMessage(marker, "body of "+marker), []imap.MailboxID{mboxID(mb)}); err != nil {
				return err
			}
		}
	}
	conn.Flush()
	return nil
}

// ids: nil or "" entries = the server draws the id (Server.AddUser); else the application-chosen id (Server.LoadUser)
func newAuthSys(names, passes, ids []string, jail time.Duration) (*authSys, error) {
	dir, err := os.MkdirTemp("", "vh-auth-")
	if err != nil {
		return nil, err
	}
	rec := &panicRecorder{}
	// the server's directories are two levels below the temporary directory: an id that climbs out of them stays inside it
	root := filepath.Join(dir, "srv", "data")
	srv, err := gluon.New(
		gluon.WithDataDir(filepath.Join(root, "store")),
		gluon.WithDatabaseDir(filepath.Join(root, "db")),
		gluon.WithDelimiter("/"),
		gluon.WithPanicHandler(rec),
		gluon.WithLoginJailTime(jail),
	)
	if err != nil {
		_ = os.RemoveAll(dir)
		return nil, err
	}
	ctx, cancel := context.WithCancel(context.Background())
	a := &authSys{srv: srv, dir: dir, ctx: ctx, cancel: cancel, panics: rec}
	fail := func(err error) (*authSys, error) {
		a.Close()
		return nil, err
	}
	all := authAllFlags()
	for k := range names {
		// every user gets its own connector (own credentials) => own database and store in the backend
		conn := connector.NewDummy([]string{names[k]}, []byte(passes[k]), time.Hour, all, all, imap.NewFlagSet())
		conn.SetUpdatesAllowedToFail(true)
		var id string
		if k < len(ids) && ids[k] != "" {
			id = ids[k]
			isNew, err := srv.LoadUser(ctx, conn, id, []byte("passphrase-"+names[k]))
			if err != nil {
				return fail(fmt.Errorf("LoadUser(%q): %w", id, err))
			}
			if !isNew {
				a.notes = append(a.notes, fmt.Sprintf("LoadUser(%q) of user %d on an empty directory reported an existing database (isNew=false)", id, k))
			}
		} else {
			id, err = srv.AddUser(ctx, conn, []byte("passphrase-"+names[k]))
			if err != nil {
				return fail(err)
			}
		}
		if err := conn.Sync(ctx); err != nil {
			return fail(err)
		}
		a.users = append(a.users, &authUser{Name: names[k], Pass: passes[k], ID: id, Conn: conn})
		if err := a.populate(k); err != nil {
			return fail(err)
		}
	}
	a.observers = make([]*Client, len(names))
	a.lastView = make([]string, len(names))
	a.fresh = make([]bool, len(names))
	for k := range a.fresh {
		a.fresh[k] = true
	}
	ln, err := net.Listen("tcp", "127.0.0.1:0")
	if err != nil {
		return fail(err)
	}
	if err := srv.Serve(ctx, ln); err != nil {
		return fail(err)
	}
	go func() {
		for range srv.GetErrorCh() {
		}
	}()
	a.addr = ln.Addr().String()
	return a, nil
}

// disk: what is in the server's database and store directories (informational: names only, sorted), and whether every
// user on the server has a database file and a store directory of its own name
func (a *authSys) disk() (string, bool) {
	root := filepath.Join(a.dir, "srv", "data")
	var parts []string
	for _, d := range []string{"db", "store"} {
		ents, _ := os.ReadDir(filepath.Join(root, d))
		var names []string
		for _, e := range ents {
			n := e.Name()
			if e.IsDir() {
				n += "/"
			}
			names = append(names, strconv.Quote(n))
		}
		sort.Strings(names)
		parts = append(parts, d+"=["+strings.Join(names, " ")+"]")
	}
	var outside []string
	_ = filepath.Walk(a.dir, func(p string, info os.FileInfo, err error) error {
		if err != nil || p == a.dir {
			return nil
		}
		rel, _ := filepath.Rel(a.dir, p)
		if rel == "srv" || rel == filepath.Join("srv", "data") {
			return nil
		}
		if strings.HasPrefix(rel, filepath.Join("srv", "data", "db")) || strings.HasPrefix(rel, filepath.Join("srv", "data", "store")) {
			return filepath.SkipDir
		}
		outside = append(outside, strconv.Quote(rel))
		if info.IsDir() {
			return filepath.SkipDir
		}
		return nil
	})
	own := len(outside) == 0
	if !own {
		parts = append(parts, "outside-the-server-directories=["+strings.Join(outside, " ")+"]")
	}
	for _, u := range a.users {
		if u.Removed {
			continue
		}
		if st, err := os.Lstat(filepath.Join(root, "db", u.ID+".db")); err != nil || st.IsDir() {
			own = false
		}
		if st, err := os.Lstat(filepath.Join(root, "store", u.ID)); err != nil || !st.IsDir() || u.ID == "." || u.ID == ".." {
			own = false
		}
	}
	return strings.Join(parts, " "), own
}

// hasFiles: user k's database file <id>.db / store directory <id> exist in the server's directories
func (a *authSys) hasFiles(k int) (db, store bool) {
	root := filepath.Join(a.dir, "srv", "data")
	if st, err := os.Lstat(filepath.Join(root, "db", a.users[k].ID+".db")); err == nil && !st.IsDir() {
		db = true
	}
	if st, err := os.Lstat(filepath.Join(root, "store", a.users[k].ID)); err == nil && st.IsDir() {
		store = true
	}
	return
}

// ---- observers -----------------------------------------------------------------------------

func (a *authSys) closeObserver(k int) {
	if k < len(a.observers) && a.observers[k] != nil {
		c := a.observers[k]
		c.Timeout = 5 * time.Second
		c.Cmd("LOGOUT")
		c.Close()
		a.observers[k] = nil
	}
}

// openObserver: a session of the harness for user k, logged in with the user's valid pair.  Only called when the login
// counter of the server is known not to be disturbed by it (before the first step; inside ADMIN restart, which the judge
// is told about).
func (a *authSys) openObserver(k int) bool {
	a.closeObserver(k)
	c, err := a.dial(fmt.Sprintf("obs%d", k))
	if err != nil {
		return false
	}
	u := a.users[k]
	if rep := c.Cmd(authLoginArg(u.Name, u.Pass, true)); rep.Status != "OK" {
		c.Close()
		return false
	}
	a.observers[k] = c
	return true
}

// view: what observer k reads now - the listing and the counters of every listed mailbox, canonicalised
func (a *authSys) view(k int) string {
	c := a.observers[k]
	rep := c.Cmd(`LIST "" "*"`)
	if rep.Status != "OK" {
		return "list " + rep.Status + " " + rep.Tagged
	}
	var ls, names []string
	for _, l := range rep.Untagged {
		if m := reAuthList.FindStringSubmatch(l); m != nil {
			attrs := strings.Fields(strings.ToLower(m[2]))
			sort.Strings(attrs)
			name := authUnquote(m[4])
			ls = append(ls, fmt.Sprintf("list %s (%s)", name, strings.Join(attrs, " ")))
			if !strings.Contains(strings.ToLower(m[2]), `\noselect`) {
				names = append(names, name)
			}
		}
	}
	sort.Strings(ls)
	sort.Strings(names)
	for _, name := range names {
		rep := c.Cmd(`STATUS "` + name + `" (MESSAGES UIDNEXT UIDVALIDITY UNSEEN)`)
		st := "?"
		for _, l := range rep.Untagged {
			if m := reAuthStatus.FindStringSubmatch(l); m != nil {
				st = m[1]
			}
		}
		ls = append(ls, fmt.Sprintf("status %s %s %s", name, rep.Status, st))
	}
	return strings.Join(ls, "\n")
}

// observe: every observer reads its user's view.  chg = users whose view differs from what their observer read last,
// leak = (observer, user) pairs: the observer's view holds a marker of that other user
func (a *authSys) observe() (chg []int, leak [][2]int) {
	for k, c := range a.observers {
		if c == nil {
			continue
		}
		v := a.view(k)
		if v != a.lastView[k] && !a.fresh[k] {
			chg = append(chg, k)
		}
		a.lastView[k], a.fresh[k] = v, false
		seen := map[int]bool{}
		for _, m := range reAuthMarker.FindAllStringSubmatch(v, -1) {
			if x, _ := strconv.Atoi(m[1]); x != k && !seen[x] {
				seen[x] = true
				leak = append(leak, [2]int{k, x})
			}
		}
	}
	sort.Slice(leak, func(i, j int) bool { return leak[i][0]*10+leak[i][1] < leak[j][0]*10+leak[j][1] })
	return chg, leak
}

// restart: what a restart of the embedding application does to the users - every client connection is gone (the caller
// closes its own), every user on the server is removed (files stay) and loaded again under its id with a fresh
// connector.  Observers come back by a LOGIN with the valid pair: n = how many of them were accepted.
func (a *authSys) restart() (n int, err error) {
	var present []int
	for k, u := range a.users {
		if !u.Removed {
			present = append(present, k)
		}
	}
	had := make([]bool, len(a.users))
	for _, k := range present {
		had[k] = a.observers[k] != nil && !a.fresh[k]
		if e := a.removeUser(k, false); e != nil && err == nil {
			err = fmt.Errorf("RemoveUser of user %d: %w", k, e)
		}
	}
	for _, k := range present {
		if a.users[k].Removed {
			if e := a.addUser(k, a.users[k].Pass); e != nil && err == nil {
				err = fmt.Errorf("LoadUser of user %d: %w", k, e)
			}
		}
	}
	for _, k := range present {
		if !a.users[k].Removed && a.openObserver(k) {
			n++
			// the view an observer read before the restart is what the new observer's first view is compared with
			a.fresh[k] = !had[k]
		}
	}
	return n, err
}

func (a *authSys) Close() {
	for _, c := range a.observers {
		if c != nil {
			c.Close()
		}
	}
	ctx, c := context.WithTimeout(context.Background(), 20*time.Second)
	defer c()
	done := make(chan struct{})
	go func() {
		_ = a.srv.Close(ctx)
		close(done)
	}()
	select {
	case <-done:
	case <-time.After(5 * time.Second):
		// Server.Close waits for every session state to be released; a state leaked by the server under test
		// would block it for ever. The run has its verdict already: abandon the server.
	}
	a.cancel()
	_ = os.RemoveAll(a.dir)
}

func (a *authSys) dial(name string) (*Client, error) {
	s := &Sys{Addr: a.addr}
	c, err := s.Dial(name)
	if c != nil {
		c.Timeout = 30 * time.Second
	}
	return c, err
}

// ---- snapshots through fresh sessions ------------------------------------------------------

var (
	reAuthList    = regexp.MustCompile(`^\* (LIST|LSUB) \(([^)]*)\) "?([^" ]*)"? (.*)$`)
	reAuthSubject = regexp.MustCompile(`(?i)Subject: *([^\r\n]*)`)
	reAuthStatus  = regexp.MustCompile(`^\* STATUS .*\((.*)\)$`)
)

func authUnquote(s string) string {
	s = strings.TrimSpace(s)
	if len(s) >= 2 && s[0] == '"' && s[len(s)-1] == '"' {
		return s[1 : len(s)-1]
	}
	return s
}

// snapshot: the user's whole view through a fresh session — LIST, LSUB, and per mailbox STATUS +
// EXAMINE + FETCH 1:* (UID FLAGS BODY.PEEK[HEADER.FIELDS (Subject)]), canonicalised (sorted, no \Recent).
func (a *authSys) snapshot(k int) (string, error) {
	c, err := a.dial(fmt.Sprintf("snap%d", k))
	if err != nil {
		return "", err
	}
	defer c.Close()
	u := a.users[k]
	if rep := c.Cmd(authLoginArg(u.Name, u.Pass, false)); rep.Status != "OK" {
		return "", fmt.Errorf("snapshot login of user %d failed: %q %v", k, rep.Tagged, rep.Err)
	}
	var out []string
	var names []string
	for _, cmd := range []string{"LIST", "LSUB"} {
		rep := c.Cmd(cmd + ` "" "*"`)
		if rep.Status != "OK" {
			return "", fmt.Errorf("snapshot %s failed: %q %v", cmd, rep.Tagged, rep.Err)
		}
		var ls []string
		for _, l := range rep.Untagged {
			if m := reAuthList.FindStringSubmatch(l); m != nil {
				attrs := strings.Fields(strings.ToLower(m[2]))
				sort.Strings(attrs)
				name := authUnquote(m[4])
				ls = append(ls, fmt.Sprintf("%s %s (%s)", strings.ToLower(m[1]), name, strings.Join(attrs, " ")))
				if cmd == "LIST" && !strings.Contains(strings.ToLower(m[2]), `\noselect`) {
					names = append(names, name)
				}
			}
		}
		sort.Strings(ls)
		out = append(out, ls...)
	}
	sort.Strings(names)
	for _, name := range names {
		q := `"` + name + `"`
		rep := c.Cmd("STATUS " + q + " (MESSAGES UIDNEXT UIDVALIDITY UNSEEN)")
		st := "?"
		for _, l := range rep.Untagged {
			if m := reAuthStatus.FindStringSubmatch(l); m != nil {
				st = m[1]
			}
		}
		out = append(out, fmt.Sprintf("status %s %s %s", name, rep.Status, st))
		if rep := c.Cmd("EXAMINE " + q); rep.Status != "OK" {
			out = append(out, fmt.Sprintf("examine %s %s", name, rep.Status))
			continue
		}
		rep = c.Cmd("FETCH 1:* (UID FLAGS BODY.PEEK[HEADER.FIELDS (Subject)])")
		var ms []string
		for _, l := range rep.Untagged {
			if !strings.Contains(l, " FETCH (") {
				continue
			}
			uid, flags, subj := "?", "", ""
			if x := reUID.FindStringSubmatch(l); x != nil {
				uid = x[1]
			}
			if x := reFlags.FindStringSubmatch(l); x != nil {
				var fl []string
				for _, f := range strings.Fields(strings.ToLower(x[1])) {
					if f != `\recent` {
						fl = append(fl, f)
					}
				}
				sort.Strings(fl)
				flags = strings.Join(fl, ",")
			}
			if x := reAuthSubject.FindStringSubmatch(l); x != nil {
				subj = strings.TrimSpace(x[1])
			}
			n, _ := strconv.Atoi(uid)
			ms = append(ms, fmt.Sprintf("%08d msg %s uid=%s flags=%s subject=%s", n, name, uid, flags, subj))
		}
		sort.Strings(ms)
		for _, m := range ms {
			out = append(out, m[9:])
		}
		// (a mailbox with no message answers FETCH 1:* with BAD/NO: the status is part of the view, the text is not)
		out = append(out, fmt.Sprintf("fetch %s %s %d", name, rep.Status, len(ms)))
	}
	c.Cmd("LOGOUT")
	return strings.Join(out, "\n"), nil
}

// ---- steps ---------------------------------------------------------------------------------

type authStep struct {
	Conn int
	Ty   string // Go payload type name = the model's Cmd.ty
	Arg  string
}

func (s authStep) String() string {
	switch s.Ty {
	case "AdminRemove":
		return "ADMIN remove " + s.Arg
	case "AdminRemoveFiles":
		return "ADMIN removefiles " + s.Arg
	case "AdminAdd":
		return "ADMIN add " + s.Arg
	case "AdminRestart":
		return "ADMIN restart"
	}
	if s.Arg == "" {
		return fmt.Sprintf("C%d %s", s.Conn, s.Ty)
	}
	return fmt.Sprintf("C%d %s %s", s.Conn, s.Ty, s.Arg)
}

func parseAuthStep(l string) (authStep, error) {
	if strings.HasPrefix(l, "ADMIN remove ") {
		return authStep{Conn: -1, Ty: "AdminRemove", Arg: strings.TrimSpace(l[len("ADMIN remove "):])}, nil
	}
	if strings.HasPrefix(l, "ADMIN removefiles ") {
		return authStep{Conn: -1, Ty: "AdminRemoveFiles", Arg: strings.TrimSpace(l[len("ADMIN removefiles "):])}, nil
	}
	if strings.TrimSpace(l) == "ADMIN restart" {
		return authStep{Conn: -1, Ty: "AdminRestart"}, nil
	}
	if strings.HasPrefix(l, "ADMIN add ") {
		return authStep{Conn: -1, Ty: "AdminAdd", Arg: strings.TrimSpace(l[len("ADMIN add "):])}, nil
	}
	f := strings.SplitN(l, " ", 3)
	if len(f) < 2 || !strings.HasPrefix(f[0], "C") {
		return authStep{}, fmt.Errorf("bad step %q", l)
	}
	c, err := strconv.Atoi(f[0][1:])
	if err != nil {
		return authStep{}, fmt.Errorf("bad step %q", l)
	}
	st := authStep{Conn: c, Ty: f[1]}
	if len(f) == 3 {
		st.Arg = f[2]
	}
	return st, nil
}

type authSeq struct {
	Names, Passes []string
	IDs           []string // nil, or per user the application-chosen id ("" = drawn by the server)
	JailMS        int
	Steps         []authStep
}

func (q *authSeq) withSteps(steps []authStep) *authSeq {
	return &authSeq{Names: q.Names, Passes: q.Passes, IDs: q.IDs, JailMS: q.JailMS, Steps: steps}
}

func (q *authSeq) text() string {
	var b strings.Builder
	fmt.Fprintf(&b, "oracle c18auth\ncfg users=%d jail=%d\n", len(q.Names), q.JailMS)
	for k := range q.Names {
		fmt.Fprintf(&b, "user %d %s %s\n", k, authWord(q.Names[k], false), authWord(q.Passes[k], false))
	}
	for k := range q.IDs {
		if q.IDs[k] != "" {
			fmt.Fprintf(&b, "userid %d %s\n", k, strconv.Quote(q.IDs[k]))
		}
	}
	for _, s := range q.Steps {
		b.WriteString(s.String() + "\n")
	}
	return b.String()
}

func parseAuthSeq(text string) (*authSeq, error) {
	q := &authSeq{JailMS: 300}
	for i, l := range strings.Split(text, "\n") {
		l = strings.TrimRight(l, "\r")
		if i == 0 || l == "" || strings.HasPrefix(l, "#") {
			continue
		}
		if strings.HasPrefix(l, "userid ") {
			// userid <k> <Go-quoted string>
			rest := strings.TrimSpace(l[len("userid "):])
			sp := strings.IndexByte(rest, ' ')
			if sp < 0 {
				return nil, fmt.Errorf("bad line %q", l)
			}
			k, err := strconv.Atoi(rest[:sp])
			id, err2 := strconv.Unquote(strings.TrimSpace(rest[sp+1:]))
			if err != nil || err2 != nil || k < 0 || k > 8 {
				return nil, fmt.Errorf("bad line %q", l)
			}
			for len(q.IDs) <= k {
				q.IDs = append(q.IDs, "")
			}
			q.IDs[k] = id
			continue
		}
		f := authSplitArgs(l)
		if len(f) == 0 {
			continue
		}
		switch {
		case f[0] == "cfg":
			for _, kv := range f[1:] {
				if strings.HasPrefix(kv, "jail=") {
					q.JailMS, _ = strconv.Atoi(kv[5:])
				}
			}
		case f[0] == "user" && len(f) == 4:
			q.Names = append(q.Names, f[2])
			q.Passes = append(q.Passes, f[3])
		default:
			st, err := parseAuthStep(l)
			if err != nil {
				return nil, err
			}
			q.Steps = append(q.Steps, st)
		}
	}
	if len(q.Names) == 0 {
		return nil, fmt.Errorf("replay file declares no users")
	}
	return q, nil
}

// what the harness observed for one step
type authObs struct {
	Status  string // ok no bad bye byeonly none
	Seen    []int  // users whose markers occurred in the untagged data
	Sent    int64  // ms since the start of the run, taken just before the first byte was written
	Recv    int64  // ms, taken after the completion was read
	Blocked bool   // text "too many login attempts"
	Full    bool   // the command was the full listing LIST "" "*"
	Untag   bool   // the completion was an untagged NO/BAD (the line had no tag: DONE outside IDLE)
	Acc     []int  // LOGIN: users whose connector accepts the credentials (from the harness' credential table)
	Probed  bool   // LOGIN answered OK: the harness issued the identity probe LIST "" "*" on the session
	Who     []int  // users whose markers the identity probe showed
	Admin   bool   // not a command: ADMIN remove / add / removefiles / restart
	AdminK  int    // ADMIN: the user, or for restart the number of observers that logged in again
	Chg     []int  // users whose observer read another view after this step than before it
	Leak    [][2]int // (observer, user): the observer's view held a marker of that other user
	Raw     string
}

type authRun struct {
	seq      *authSeq
	obs      []authObs
	changed  []int
	before   []string
	after    []string
	panics   []string
	judge    string // judge answer
	judgeIn  string
	setupErr error
	hang     string // a command got no completion within the client timeout: the run stops there
	notes    []string // informational: API results, what is on disk
	causes   []string // disk observations that classify a verdict
	ownFiles bool     // after the set-up every user had a database file and a store directory of its own id
}

func authClass(rep Reply) string {
	bye := false
	for _, u := range rep.Untagged {
		if strings.HasPrefix(u, "* BYE") {
			bye = true
		}
	}
	if rep.Tagged == "" {
		if bye {
			return "byeonly" // the server said BYE and hung up without completing the command
		}
		return "none"
	}
	if bye {
		return "bye"
	}
	switch rep.Status {
	case "OK":
		return "ok"
	case "NO":
		return "no"
	case "BAD":
		return "bad"
	}
	return "other:" + rep.Status
}

func authSeen(untagged []string) []int {
	set := map[int]bool{}
	for _, u := range untagged {
		for _, m := range reAuthMarker.FindAllStringSubmatch(u, -1) {
			k, _ := strconv.Atoi(m[1])
			set[k] = true
		}
	}
	var out []int
	for k := range set {
		out = append(out, k)
	}
	sort.Ints(out)
	return out
}

// execStep runs one step on its connection.
func execAuthStep(c *Client, st authStep) Reply {
	switch st.Ty {
	case "Append":
		f := strings.Fields(st.Arg)
		if len(f) != 2 {
			return Reply{Err: fmt.Errorf("bad APPEND step")}
		}
		return c.Append(f[0], "", SimpleMessage(f[1], "appended "+f[1]))
	case "Idle":
		// IDLE, and DONE as soon as the server has sent the continuation
		c.tagN++
		tag := fmt.Sprintf("%s%d", c.Name, c.tagN)
		_ = c.conn.SetWriteDeadline(time.Now().Add(c.Timeout))
		if _, err := c.conn.Write([]byte(tag + " IDLE\r\n")); err != nil {
			return Reply{Tag: tag, Err: err}
		}
		rep := Reply{Tag: tag}
		for {
			b, err := c.readLogical()
			if err != nil {
				rep.Err = err
				return rep
			}
			s := string(b)
			if strings.HasPrefix(s, "+") {
				break
			}
			if strings.HasPrefix(s, tag+" ") {
				rep.Tagged = s
				if f := strings.Fields(s); len(f) > 1 {
					rep.Status = f[1]
				}
				return rep
			}
			rep.Untagged = append(rep.Untagged, s)
		}
		if _, err := c.conn.Write([]byte("DONE\r\n")); err != nil {
			rep.Err = err
			return rep
		}
		r2 := c.readReply(tag)
		r2.Untagged = append(rep.Untagged, r2.Untagged...)
		return r2
	case "Done":
		// a stray DONE line has no tag: the server answers it with an untagged `* NO bad command` (a response
		// to a line without a parsable tag is untagged) and no tagged completion follows.  That untagged
		// NO / BAD is the completion of this step.  (The older form with an empty tag, " NO …", is read the same way.)
		_ = c.conn.SetWriteDeadline(time.Now().Add(c.Timeout))
		if _, err := c.conn.Write([]byte("DONE\r\n")); err != nil {
			return Reply{Err: err}
		}
		rep := Reply{}
		for {
			b, err := c.readLogical()
			if err != nil {
				rep.Err = err
				return rep
			}
			s := string(b)
			f := strings.Fields(s)
			if len(f) >= 2 && f[0] == "*" && (f[1] == "NO" || f[1] == "BAD") {
				rep.Tagged, rep.Status = s, f[1]
				return rep
			}
			if strings.HasPrefix(s, "* ") {
				rep.Untagged = append(rep.Untagged, s)
				continue
			}
			rep.Tagged = s
			if len(f) > 0 {
				rep.Status = f[0]
			}
			return rep
		}
	default:
		return c.Cmd(st.Arg)
	}
}

// authSplitArgs: the words of a line; a word in double quotes may be empty or contain spaces (no escapes: the
// generator never puts `"` or `\` into a name or password).
func authSplitArgs(l string) []string {
	var out []string
	for i := 0; i < len(l); {
		switch {
		case l[i] == ' ':
			i++
		case l[i] == '"':
			j := strings.IndexByte(l[i+1:], '"')
			if j < 0 {
				out = append(out, l[i+1:])
				return out
			}
			out = append(out, l[i+1:i+1+j])
			i += j + 2
		default:
			j := strings.IndexByte(l[i:], ' ')
			if j < 0 {
				j = len(l) - i
			}
			out = append(out, l[i:i+j])
			i += j
		}
	}
	return out
}

// authWord: an IMAP astring for s - an atom when it can be one (and quoting is not asked for), else a quoted string
func authWord(s string, quote bool) string {
	atom := s != ""
	for _, c := range []byte(s) {
		if !(c >= 'a' && c <= 'z' || c >= 'A' && c <= 'Z' || c >= '0' && c <= '9') {
			atom = false
		}
	}
	if atom && !quote {
		return s
	}
	return `"` + s + `"`
}

func authLoginArg(user, pass string, quote bool) string {
	return "LOGIN " + authWord(user, quote) + " " + authWord(pass, quote)
}

// authCreds: the pair a LOGIN step presents
func authCreds(arg string) (user, pass string, ok bool) {
	f := authSplitArgs(arg)
	if len(f) != 3 {
		return "", "", false
	}
	return f[1], f[2], true
}

// authAccepting: the users whose connector accepts the pair - the rule of connector.Dummy.Authorize (exact user name
// of that connector and its password) over the users that are on the server
func authAccepting(names, passes []string, removed []bool, arg string) []int {
	var out []int
	user, pass, ok := authCreds(arg)
	if !ok {
		return out
	}
	for k := range names {
		if (removed == nil || !removed[k]) && names[k] == user && passes[k] == pass {
			out = append(out, k)
		}
	}
	return out
}

func authQuoteAll(l []string) []string {
	out := make([]string, len(l))
	for i, x := range l {
		out[i] = strconv.Quote(x)
	}
	return out
}

func (q *authSeq) accepting(arg string) []int { return authAccepting(q.Names, q.Passes, nil, arg) }

func runAuthSeq(q *authSeq, verbose bool) *authRun {
	run := &authRun{seq: q}
	a, err := newAuthSys(q.Names, q.Passes, q.IDs, time.Duration(q.JailMS)*time.Millisecond)
	if err != nil {
		run.setupErr = err
		return run
	}
	defer a.Close()
	defer func() { run.notes = append(run.notes, a.notes...); run.causes = append(run.causes, a.causes...) }()
	idOf := func(k int) string { return strconv.Quote(a.users[k].ID) }
	d, own := a.disk()
	run.ownFiles = own
	a.notes = append(a.notes, "on disk after the set-up: "+d)
	if !own {
		a.notes = append(a.notes, "after the set-up not every user has a database file <id>.db and a store directory <id> of its own inside the server's directories")
	}
	for k := range q.Names {
		s, err := a.snapshot(k)
		if err != nil {
			run.setupErr = err
			return run
		}
		// a session opened with user k's own valid pair must show user k's data and nobody else's
		for _, m := range reAuthMarker.FindAllStringSubmatch(s, -1) {
			if x, _ := strconv.Atoi(m[1]); x != k {
				run.before = append(run.before, s)
				if strings.Contains(s, authMarker(k)) {
					run.panics = append(run.panics, fmt.Sprintf("property isolation users-share-data: before any step, the session opened with the valid pair of user %d (user id %s) shows, next to its own data, the data of user %d (user id %s; marker %s)", k, idOf(k), x, idOf(x), m[0]))
				} else {
					run.panics = append(run.panics, fmt.Sprintf("property identity login-bound-to-another-user: before any step, the session opened with the valid pair of user %d (%s) shows the data of user %d (marker %s); users logged in before it: 0..%d", k, authLoginArg(q.Names[k], q.Passes[k], true), x, m[0], k-1))
				}
				return run
			}
		}
		// the fixture must be what the generator assumes: every stable mailbox, only this user's markers
		broken := ""
		for _, mb := range authStable(k) {
			if !strings.Contains(s, "list "+mb+" ") {
				broken = fmt.Sprintf("user %d has no mailbox %s", k, mb)
			}
		}
		if n := strings.Count(s, "subject="+authMarker(k)+"subj"); n != 5 && broken == "" {
			broken = fmt.Sprintf("user %d shows %d of its 5 messages", k, n)
		}
		if broken != "" {
			if len(q.IDs) > 0 && len(q.Names) > 1 {
				// the same fixture is complete for server-drawn ids: the chosen ids of the users interfere
				run.before = append(run.before, s)
				run.panics = append(run.panics, fmt.Sprintf("property isolation fixture-damaged-at-set-up: %s after all users (ids %s) were loaded", broken, strings.Join(authQuoteAll(q.IDs), " ")))
				return run
			}
			run.setupErr = fmt.Errorf("fixture: %s:\n%s", broken, s)
			return run
		}
		run.before = append(run.before, s)
	}
	// observers: logged in before the first step (the login counter is at zero and stays there)
	for k := range q.Names {
		if !a.openObserver(k) {
			run.setupErr = fmt.Errorf("observer of user %d cannot log in", k)
			return run
		}
	}
	if _, leak := a.observe(); len(leak) > 0 {
		run.panics = append(run.panics, fmt.Sprintf("property isolation observer-lists-marker-of-another-user before any step: session of user %d (user id %s) lists a marker of user %d (user id %s)", leak[0][0], idOf(leak[0][0]), leak[0][1], idOf(leak[0][1])))
		return run
	}
	conns := map[int]*Client{}
	defer func() {
		for _, c := range conns {
			c.Close()
		}
	}()
	t0 := time.Now()
	ms := func() int64 { return int64(time.Since(t0) / time.Millisecond) }
	// the credential table follows ADMIN steps
	curPass := append([]string{}, q.Passes...)
	removed := make([]bool, len(q.Names))
	for i, st := range q.Steps {
		if st.Conn < 0 {
			o := authObs{Admin: true, Status: "admin", Sent: ms()}
			f := authSplitArgs(st.Arg)
			k := -1
			if len(f) >= 1 {
				k, _ = strconv.Atoi(f[0])
			}
			var err error
			o.AdminK = k
			switch {
			case st.Ty == "AdminRestart":
				for _, c := range conns {
					c.Close()
				}
				conns = map[int]*Client{}
				o.AdminK, err = a.restart()
				if err == nil && o.AdminK == 0 {
					err = fmt.Errorf("no user's observer could log in again")
				}
			case k < 0 || k >= len(q.Names):
				err = fmt.Errorf("no such user")
			case st.Ty == "AdminRemove" || st.Ty == "AdminRemoveFiles":
				type have struct{ db, store bool }
				before := make([]have, len(a.users))
				for j := range a.users {
					before[j].db, before[j].store = a.hasFiles(j)
				}
				if err = a.removeUser(k, st.Ty == "AdminRemoveFiles"); err == nil {
					removed[k] = true
				}
				for j := range a.users {
					db, store := a.hasFiles(j)
					if j != k && !a.users[j].Removed && before[j].db && !db {
						a.causes = append(a.causes, fmt.Sprintf("cause=%s-removed-database-file-of-another-user step=%d: %s.db of user %d is gone from the database directory", strings.ToLower(st.Ty[5:]), i, strconv.Quote(a.users[j].ID), j))
					}
					if j != k && !a.users[j].Removed && before[j].store && !store {
						a.causes = append(a.causes, fmt.Sprintf("cause=%s-removed-store-directory-of-another-user step=%d: directory %s of user %d is gone from the store directory", strings.ToLower(st.Ty[5:]), i, strconv.Quote(a.users[j].ID), j))
					}
				}
			case st.Ty == "AdminAdd" && len(f) == 2:
				if err = a.addUser(k, f[1]); err == nil {
					removed[k], curPass[k] = false, f[1]
				}
			default:
				err = fmt.Errorf("bad ADMIN step")
			}
			o.Recv = ms()
			o.Raw = "done"
			if err != nil {
				o.Raw = "<" + err.Error() + ">"
				run.panics = append(run.panics, fmt.Sprintf("admin step=%d %s failed: %v", i, st.String(), err))
			}
			o.Chg, o.Leak = a.observe()
			if d, _ := a.disk(); true {
				a.notes = append(a.notes, fmt.Sprintf("on disk after step %d (%s): %s", i, st.String(), d))
			}
			run.obs = append(run.obs, o)
			if verbose {
				fmt.Fprintf(os.Stderr, "  %-60s => %s views-changed-of=%v observer-sees-foreign-marker=%v\n", st.String(), o.Raw, o.Chg, o.Leak)
			}
			continue
		}
		c := conns[st.Conn]
		if c == nil {
			c, err = a.dial(fmt.Sprintf("c%dx", st.Conn))
			if err != nil {
				run.setupErr = fmt.Errorf("step %d: cannot connect: %w", i, err)
				return run
			}
			conns[st.Conn] = c
		}
		o := authObs{}
		if st.Ty == "Login" {
			o.Acc = authAccepting(q.Names, curPass, removed, st.Arg)
		}
		o.Full = st.Ty == "List" && st.Arg == `LIST "" "*"`
		o.Sent = ms()
		rep := execAuthStep(c, st)
		o.Recv = ms()
		o.Status = authClass(rep)
		o.Seen = authSeen(rep.Untagged)
		o.Blocked = strings.Contains(rep.Tagged, "too many login attempts")
		o.Untag = strings.HasPrefix(rep.Tagged, "* ")
		o.Raw = rep.Tagged
		if rep.Tagged == "" && rep.Err != nil {
			o.Raw = "<" + rep.Err.Error() + ">"
		}
		if st.Ty == "Login" && o.Status == "ok" {
			// identity probe: whose mailboxes does the session that was just accepted list?
			pr := c.Cmd(`LIST "" "*"`)
			o.Probed = true
			o.Who = authSeen(pr.Untagged)
			if pr.Status != "OK" {
				o.Who = append(o.Who, 9) // not a user: the probe itself was refused
			}
		}
		timedOut := false
		if ne, ok := rep.Err.(net.Error); ok && ne.Timeout() && rep.Tagged == "" {
			timedOut = true
		}
		if !timedOut {
			o.Chg, o.Leak = a.observe()
		}
		run.obs = append(run.obs, o)
		if verbose {
			fmt.Fprintf(os.Stderr, "  %-60s => %-4s seen=%v %dms %q", st.String(), o.Status, o.Seen, o.Recv-o.Sent, o.Raw)
			if len(o.Chg) > 0 || len(o.Leak) > 0 {
				fmt.Fprintf(os.Stderr, " views-changed-of=%v observer-sees-foreign-marker=%v", o.Chg, o.Leak)
			}
			if o.Probed {
				fmt.Fprintf(os.Stderr, " accepted-by=%v session-lists-mailboxes-of=%v", o.Acc, o.Who)
			}
			fmt.Fprintln(os.Stderr)
		}
		if ne, ok := rep.Err.(net.Error); ok && ne.Timeout() && rep.Tagged == "" {
			// the connection is open and the server does not answer: stop (every further command would wait as long)
			run.hang = fmt.Sprintf("no-completion-within-%s step=%d %s", c.Timeout, i, st.String())
			for _, p := range a.panics.Take() {
				run.panics = append(run.panics, "server-panic (fatal for the whole process with the default panic handler): "+p)
			}
			return run
		}
	}
	for _, c := range conns {
		c.Close()
	}
	conns = map[int]*Client{}
	for k := range q.Names {
		if removed[k] {
			// a sequence that ends with a user removed: its view is taken after it has come back
			if err := a.addUser(k, curPass[k]); err != nil {
				run.panics = append(run.panics, fmt.Sprintf("admin: user %d cannot be added back at the end: %v", k, err))
			}
		}
		s, err := a.snapshot(k)
		if err != nil {
			// the view of a user can no longer be taken: that is a change
			s = "snapshot failed: " + err.Error()
		}
		run.after = append(run.after, s)
		if s != run.before[k] {
			run.changed = append(run.changed, k)
		}
		// a user's own view must never contain another user's markers
		for _, m := range reAuthMarker.FindAllStringSubmatch(s, -1) {
			if x, _ := strconv.Atoi(m[1]); x != k {
				run.panics = append(run.panics, fmt.Sprintf("isolation: the fresh view of user %d contains marker %s of another user", k, m[0]))
				break
			}
		}
	}
	for _, p := range a.panics.Take() {
		run.panics = append(run.panics, "server-panic (fatal for the whole process with the default panic handler): "+p)
	}
	run.judgeIn = run.judgeLine()
	return run
}

func digits(xs []int) string {
	if len(xs) == 0 {
		return "-"
	}
	var b strings.Builder
	for _, x := range xs {
		b.WriteString(strconv.Itoa(x))
	}
	return b.String()
}

// leakPairs: `-` or `<observer><user>` pairs joined by `.`
func leakPairs(l [][2]int) string {
	if len(l) == 0 {
		return "-"
	}
	var out []string
	for _, p := range l {
		out = append(out, fmt.Sprintf("%d%d", p[0], p[1]))
	}
	return strings.Join(out, ".")
}

// judgeLine: `judge-c18-wire <jail ms> <nusers> <events>`; event = conn,type,accepting,status,seen,sent,recv,flags,probe,changed,leak
// (probe: `-` none, `p<users>` = the identity probe after an accepted LOGIN listed these users' mailboxes; changed = users whose
// observer read another view after the step; leak = <observer><user> pairs, the observer listed a marker of that other user);
// `A,<what>,<user | restart: observers logged in again>,<changed>,<leak>,<ms>` = ADMIN step
func (r *authRun) judgeLine() string {
	var ev []string
	for i, st := range r.seq.Steps {
		o := r.obs[i]
		if o.Admin {
			ev = append(ev, fmt.Sprintf("A,%s,%d,%s,%s,%d", st.Ty, o.AdminK, digits(o.Chg), leakPairs(o.Leak), o.Sent))
			continue
		}
		fl := ""
		if o.Blocked {
			fl += "b"
		}
		if o.Full {
			fl += "f"
		}
		if o.Untag {
			fl += "u"
		}
		if fl == "" {
			fl = "-"
		}
		who := "-"
		if o.Probed {
			who = "p" + strings.TrimPrefix(digits(o.Who), "-")
		}
		ev = append(ev, fmt.Sprintf("%d,%s,%s,%s,%s,%d,%d,%s,%s,%s,%s", st.Conn, st.Ty, digits(o.Acc), o.Status, digits(o.Seen), o.Sent, o.Recv, fl, who, digits(o.Chg), leakPairs(o.Leak)))
	}
	ev = append(ev, "E,"+digits(r.changed))
	return fmt.Sprintf("judge-c18-wire %d %d %s", r.seq.JailMS, len(r.seq.Names), strings.Join(ev, ";"))
}

// ---- generator -----------------------------------------------------------------------------

var authAllTypes = []string{"Append", "Capability", "Check", "Close", "Copy", "Create", "Delete", "Done", "Examine", "Expunge", "Fetch",
	"IDGet", "IDSet", "Idle", "LSub", "List", "Login", "Logout", "Move", "Noop", "Rename", "Search", "Select", "StartTLS", "Status",
	"Store", "Subscribe", "UID", "UIDExpunge", "Unselect", "Unsubscribe"}

// protocol-state labels (the judge computes the authoritative ones from the model's run; these steer the generator):
// N0 not authenticated, NF not authenticated after a failed LOGIN, A authenticated, S selected,
// AC authenticated after CLOSE/UNSELECT, X connection ended by LOGOUT
var authLabels = []string{"N0", "NF", "A", "S", "AC", "X"}

type authGen struct {
	hostile bool // ids that are not one directory entry / glob patterns are generated too
	r       *Rng
	deck    map[string]int // label/type -> times generated
	stat    map[string]int // what was generated (credential kinds, connections)
	scratch int
	appN    int
}

func (g *authGen) pickType(label string, exclude map[string]bool) string {
	best, bestN := []string{}, 1<<30
	for _, ty := range authAllTypes {
		if exclude[ty] {
			continue
		}
		n := g.deck[label+"/"+ty]
		if n < bestN {
			best, bestN = []string{ty}, n
		} else if n == bestN {
			best = append(best, ty)
		}
	}
	ty := Pick(g.r, best)
	g.deck[label+"/"+ty]++
	return ty
}

type authConnPlan struct {
	owner  int
	victim int
	label  string
	steps  []authStep
	conn   int
	known  []string // scratch mailboxes this connection believes to exist
}

func (g *authGen) mailboxArg(p *authConnPlan, allowOther bool) string {
	r := g.r
	c := r.Intn(100)
	switch {
	case c < 60:
		return Pick(r, authStable(p.owner))
	case c < 80 && allowOther:
		return Pick(r, authStable(p.victim)[1:])
	case c < 90 && len(p.known) > 0:
		return Pick(r, p.known)
	default:
		return "nosuchbox"
	}
}

func (g *authGen) newScratch(p *authConnPlan) string {
	g.scratch++
	return fmt.Sprintf("%stmp%d", authMarker(p.owner), g.scratch)
}

// credsFrom builds the pair of the given kind out of the valid pair of user `base` (other = another user of the
// server).  Every kind but "right" is meant to be refused: should the construction hit a configured pair (colliding
// names are generated on purpose), the password is extended until it does not.
func (g *authGen) credsFrom(q *authSeq, base, other int, kind, label string) string {
	r := g.r
	user, pass := q.Names[base], q.Passes[base]
	g.stat["gen.credentials."+kind+"."+label]++
	switch kind {
	case "right":
	case "wrongpw":
		pass = pass + "x"
	case "unknown":
		user = "nobody" + strconv.Itoa(r.Intn(3))
		if r.Bool() {
			pass = "whatever"
		}
	case "otherpw":
		pass = q.Passes[other]
	case "case":
		switch {
		case strings.ToUpper(user) != user && r.Bool():
			user = strings.ToUpper(user)
		case strings.ToLower(user) != user:
			user = strings.ToLower(user)
		default:
			user = strings.ToUpper(user[:1]) + user[1:]
		}
	case "othername":
		user, pass = q.Names[other], q.Passes[base]
	case "split":
		// another split of the same bytes name||password; half of the time one whose first part is a configured user name
		cat := user + pass
		var named, any []int
		for i := 1; i <= len(cat); i++ {
			if i == len(user) {
				continue
			}
			any = append(any, i)
			for _, n := range q.Names {
				if cat[:i] == n {
					named = append(named, i)
				}
			}
		}
		i := Pick(r, any)
		if len(named) > 0 && r.Bool() {
			i = Pick(r, named)
			g.stat["gen.credentials.split.first-part-is-a-user-name"]++
		}
		user, pass = cat[:i], cat[i:]
	case "sep":
		sep := Pick(r, []string{":", " ", ".", "|", "/", "=", "%", "*"})
		switch r.Intn(4) {
		case 0:
			user = user + sep
		case 1:
			pass = sep + pass
		case 2:
			user, pass = user+sep+pass, ""
		default:
			user, pass = user+sep, sep+pass
		}
	case "emptypw":
		pass = ""
	case "trunc":
		switch r.Intn(3) {
		case 0:
			user = user[:len(user)-1]
		case 1:
			pass = pass[:len(pass)-1]
		default:
			user = user[1:]
		}
		if user == "" {
			user = "x"
		}
	case "swap":
		user, pass = pass, user
	}
	if kind != "right" {
		for len(authAccepting(q.Names, q.Passes, nil, authLoginArg(user, pass, true))) > 0 {
			pass += "x"
			g.stat["gen.credentials.derived-pair-was-valid-extended"]++
		}
	}
	return authLoginArg(user, pass, r.Chance(1, 4))
}

func (g *authGen) creds(q *authSeq, p *authConnPlan, kind string) string {
	other := (p.owner + 1 + g.r.Intn(len(q.Names)-1)) % len(q.Names)
	base := p.owner
	if kind == "split" && g.r.Bool() {
		base, other = other, base // the bytes of somebody else's valid pair
	}
	return g.credsFrom(q, base, other, kind, p.label)
}

var authWrongKinds = []string{"wrongpw", "unknown", "otherpw", "case", "othername", "split", "split", "sep", "emptypw", "trunc", "swap"}

// kinds derived from one valid pair (the probes below present them after that pair has been accepted)
var authDerivedKinds = []string{"split", "split", "split", "sep", "emptypw", "trunc", "case", "otherpw", "othername", "wrongpw", "swap"}

// command builds one valid wire command of the payload type.
func (g *authGen) command(q *authSeq, p *authConnPlan, ty string) authStep {
	r := g.r
	st := authStep{Conn: p.conn, Ty: ty}
	authed := p.label == "A" || p.label == "S" || p.label == "AC"
	switch ty {
	case "Capability":
		st.Arg = "CAPABILITY"
	case "Noop":
		st.Arg = "NOOP"
	case "IDGet":
		st.Arg = "ID NIL"
	case "IDSet":
		st.Arg = `ID ("name" "vh" "version" "1")`
	case "Logout":
		st.Arg = "LOGOUT"
	case "StartTLS":
		st.Arg = "STARTTLS"
	case "Login":
		kind := Pick(r, authWrongKinds)
		if authed && r.Bool() {
			kind = "right" // already authenticated: even the right credentials are refused (BAD) and must not count
		}
		st.Arg = g.creds(q, p, kind)
	case "Select":
		st.Arg = "SELECT " + g.mailboxArg(p, true)
	case "Examine":
		st.Arg = "EXAMINE " + g.mailboxArg(p, true)
	case "Create":
		n := g.newScratch(p)
		if authed {
			p.known = append(p.known, n)
		}
		st.Arg = "CREATE " + n
	case "Delete":
		// never a stable mailbox of the owner (another session may have it selected); other users' names must be refused
		switch {
		case len(p.known) > 0 && r.Chance(1, 2):
			i := r.Intn(len(p.known))
			st.Arg = "DELETE " + p.known[i]
			if authed {
				p.known = append(p.known[:i], p.known[i+1:]...)
			}
		case r.Chance(1, 2):
			st.Arg = "DELETE " + Pick(r, authStable(p.victim)[1:])
		default:
			st.Arg = "DELETE nosuchbox"
		}
	case "Rename":
		n := g.newScratch(p)
		switch {
		case len(p.known) > 0 && r.Chance(1, 2):
			i := r.Intn(len(p.known))
			st.Arg = "RENAME " + p.known[i] + " " + n
			if authed {
				p.known[i] = n
			}
		case r.Chance(1, 2):
			st.Arg = "RENAME " + Pick(r, authStable(p.victim)[1:]) + " " + n
		default:
			st.Arg = "RENAME nosuchbox " + n
		}
	case "Subscribe", "Unsubscribe":
		st.Arg = strings.ToUpper(ty) + " " + g.mailboxArg(p, false)
	case "List", "LSub":
		cmd := "LIST"
		if ty == "LSub" {
			cmd = "LSUB"
		}
		switch r.Intn(4) {
		case 0:
			st.Arg = cmd + ` "" "*"`
		case 1:
			st.Arg = cmd + ` "" "%"`
		case 2:
			st.Arg = cmd + ` "" "` + authMarker(p.victim) + `*"`
		default:
			st.Arg = cmd + ` "` + authMarker(p.victim) + `box" "*"`
		}
	case "Status":
		st.Arg = "STATUS " + g.mailboxArg(p, true) + " (MESSAGES UIDNEXT UNSEEN)"
	case "Append":
		g.appN++
		st.Arg = fmt.Sprintf("%s %sapp%d", g.mailboxArg(p, true), authMarker(p.owner), g.appN)
	case "Check":
		st.Arg = "CHECK"
	case "Close":
		st.Arg = "CLOSE"
	case "Unselect":
		st.Arg = "UNSELECT"
	case "Expunge":
		st.Arg = "EXPUNGE"
	case "UIDExpunge":
		st.Arg = "UID EXPUNGE " + Pick(r, []string{"1:*", "1", "2:3"})
	case "Search":
		st.Arg = Pick(r, []string{"SEARCH ALL", "SEARCH UNSEEN", `SEARCH SUBJECT "` + authMarker(p.victim) + `"`, `SEARCH SUBJECT "` + authMarker(p.owner) + `"`})
	case "Fetch":
		st.Arg = "FETCH " + Pick(r, []string{"1:*", "1", "2"}) + " " + Pick(r, []string{"(UID FLAGS)", "(UID FLAGS BODY.PEEK[HEADER.FIELDS (Subject)])", "(BODY[])", "(ENVELOPE)"})
	case "Store":
		st.Arg = "STORE " + Pick(r, []string{"1:*", "1", "2"}) + " " + Pick(r, []string{"+FLAGS", "-FLAGS", "FLAGS", "+FLAGS.SILENT"}) + " (" + Pick(r, []string{`\Flagged`, `\Seen`, `\Answered`, `\Deleted`}) + ")"
	case "Copy":
		st.Arg = "COPY " + Pick(r, []string{"1:*", "1"}) + " " + g.mailboxArg(p, true)
	case "Move":
		st.Arg = "MOVE " + Pick(r, []string{"1", "2"}) + " " + g.mailboxArg(p, true)
	case "UID":
		switch r.Intn(5) {
		case 0:
			st.Arg = "UID FETCH 1:* (FLAGS BODY.PEEK[HEADER.FIELDS (Subject)])"
		case 1:
			st.Arg = `UID STORE 1:* +FLAGS.SILENT (\Answered)`
		case 2:
			st.Arg = "UID COPY 1:* " + g.mailboxArg(p, true)
		case 3:
			st.Arg = "UID MOVE 1 " + g.mailboxArg(p, true)
		default:
			st.Arg = "UID SEARCH ALL"
		}
	case "Idle", "Done":
	}
	return st
}

func (g *authGen) emit(q *authSeq, p *authConnPlan, ty string) {
	p.steps = append(p.steps, g.command(q, p, ty))
}

// block: n commands chosen by the coverage deck for the connection's current label; none of them moves the label
func (g *authGen) block(q *authSeq, p *authConnPlan, n int) {
	for i := 0; i < n; i++ {
		ex := map[string]bool{"Logout": p.label != "X"}
		switch p.label {
		case "N0":
			ex["Login"] = true // a LOGIN in N0 moves the label: scheduled by the plan
		case "A", "AC":
			ex["Select"], ex["Examine"] = true, true
		case "S":
			ex["Close"], ex["Unselect"] = true, true
		}
		ty := g.pickType(p.label, ex)
		if (ty == "Select" || ty == "Examine") && p.label == "S" {
			// re-select inside the selected state: stays selected whatever the outcome
			p.steps = append(p.steps, g.command(q, p, ty))
			continue
		}
		g.emit(q, p, ty)
	}
}

func (g *authGen) count(label, ty string) { g.deck[label+"/"+ty]++ }

// planConn: one connection's walk through the protocol states, ending in the state `end` with the terminal `term`.
func (g *authGen) planConn(q *authSeq, p *authConnPlan, end string, term string, noAuth bool) {
	r := g.r
	terminal := func() {
		if term != "" {
			g.count(p.label, term)
			g.emit(q, p, term)
			p.label = "X"
			g.block(q, p, r.Range(1, 4))
		}
	}
	p.label = "N0"
	g.block(q, p, r.Range(1, 4))
	if end == "N0" {
		terminal()
		return
	}
	fails := 0
	if end == "NF" || noAuth || r.Chance(1, 2) {
		fails = r.Range(1, 4)
	}
	for i := 0; i < fails; i++ {
		g.count(p.label, "Login")
		p.steps = append(p.steps, authStep{Conn: p.conn, Ty: "Login", Arg: g.creds(q, p, Pick(r, authWrongKinds))})
		p.label = "NF"
		if r.Chance(2, 3) {
			g.block(q, p, r.Range(1, 3))
		}
	}
	if end == "NF" || noAuth {
		terminal()
		return
	}
	g.count(p.label, "Login")
	p.steps = append(p.steps, authStep{Conn: p.conn, Ty: "Login", Arg: g.creds(q, p, "right")})
	p.label = "A"
	g.count(p.label, "List")
	p.steps = append(p.steps, authStep{Conn: p.conn, Ty: "List", Arg: `LIST "" "*"`})
	g.block(q, p, r.Range(1, 5))
	if end == "A" {
		terminal()
		return
	}
	rounds := r.Range(1, 2)
	for k := 0; k < rounds; k++ {
		ty := Pick(r, []string{"Select", "Select", "Examine"})
		g.count(p.label, ty)
		p.steps = append(p.steps, authStep{Conn: p.conn, Ty: ty, Arg: strings.ToUpper(ty) + " " + Pick(r, authStable(p.owner))})
		p.label = "S"
		g.block(q, p, r.Range(2, 6))
		if end == "S" && k == rounds-1 {
			terminal()
			return
		}
		ty = Pick(r, []string{"Close", "Unselect"})
		g.count(p.label, ty)
		g.emit(q, p, ty)
		p.label = "AC"
		g.block(q, p, r.Range(1, 5))
	}
	terminal()
}

func (g *authGen) letters(n int) string {
	b := make([]byte, n)
	for i := range b {
		b[i] = byte('a' + g.r.Intn(26))
	}
	return string(b)
}

// genUsers: user names and passwords of one server.  Besides unrelated names: a name that is a prefix of another,
// names that differ in letter case only (with different or with the same password), and two valid pairs that become
// the same bytes when name and password are joined with a separator (or with none).
func (g *authGen) genUsers(q *authSeq, nu int) {
	r := g.r
	pw := func(k int) string { return fmt.Sprintf("pw%d%04x", k, r.Intn(1<<16)) }
	scheme := Pick(r, []string{"plain", "prefix", "collide", "case"})
	g.stat["gen.users."+scheme]++
	names, passes := make([]string, nu), make([]string, nu)
	switch scheme {
	case "plain":
		for k := 0; k < nu; k++ {
			names[k], passes[k] = fmt.Sprintf("usr%d", k), pw(k)
		}
	case "prefix":
		n := "u" + g.letters(2)
		for k := 0; k < nu; k++ {
			names[k], passes[k] = n, pw(k)
			n += g.letters(r.Range(1, 2))
		}
	case "collide":
		// (stem, ext+sep+p) and (stem+sep+ext, p)
		sep := Pick(r, []string{"", "", "", ":", " ", ".", "|", "/"})
		stem, ext, p := "u"+g.letters(2), g.letters(2), pw(0)
		names[0], passes[0] = stem, ext+sep+p
		names[1], passes[1] = stem+sep+ext, p
		if nu > 2 {
			names[2], passes[2] = "usr2", pw(2)
			if r.Bool() {
				names[2] = stem + sep + ext + sep + p // the whole joined string as a name
			}
		}
		if sep != "" {
			g.stat["gen.users.collide.with-separator"]++
		}
	case "case":
		n := "u" + g.letters(3)
		vs := []string{n, strings.ToUpper(n), strings.ToUpper(n[:2]) + n[2:]}
		same := r.Bool()
		for k := 0; k < nu; k++ {
			names[k], passes[k] = vs[k], pw(k)
			if same {
				passes[k] = passes[0]
			}
		}
		if same {
			g.stat["gen.users.case.same-password"]++
		}
	}
	// which index (marker, fixture) gets which pair must not matter
	perm := make([]int, nu)
	for i := range perm {
		perm[i] = i
	}
	for i := nu - 1; i > 0; i-- {
		j := r.Intn(i + 1)
		perm[i], perm[j] = perm[j], perm[i]
	}
	for k := 0; k < nu; k++ {
		q.Names = append(q.Names, names[perm[k]])
		q.Passes = append(q.Passes, passes[perm[k]])
	}
}

// ---- user ids ------------------------------------------------------------------------------

// characters with a meaning in a URL, an SQLite URI filename / go-sqlite3 DSN (`file:<path>?cache=shared&_fk=1...`), a
// path or a shell: a user id is handed to all of these.  The first group is cycled through first.
var authIDMetas = []string{"?", "#", "%", "&", "=", ";", "+", " ", ":", "@", "..", ".",
	"~", "!", "$", "'", ",", "(", ")", "|", "<", ">", "^", "`", "{", "}", "\"", "\t", "\n", "%00", "%2F", "?mode=memory&", "-", "_"}

// ids that are patterns for filepath.Glob / filepath.Match next to an id they match (removing the files of the one must
// leave the other's alone)
var authIDPatterns = [][]string{
	{"ab", "a\\b"}, {"x", "[x]"}, {"xy", "x*"}, {"xy", "x?"}, {"x-y", "x[!a]y"}, {"abc", "a?c"}, {"ab", "*"}, {"q", "[a-z]"},
}

// ids that are not one new directory entry: gluon hands ids to filepath.Join as they are and documents no validation; the
// embedding application chooses them (assumption of the check: single clean path elements).  Only with -hostile-ids.
var authIDHostile = [][]string{
	{"x", "./x"}, {"x", "y/../x"}, {"x", "x/"}, {"x", "x/."}, {"x", "."}, {"x", ".."}, {"x", "../x"},
}

func authPct(s string, lower bool) string {
	var b strings.Builder
	for _, c := range []byte(s) {
		if lower {
			fmt.Fprintf(&b, "%%%02x", c)
		} else {
			fmt.Fprintf(&b, "%%%02X", c)
		}
	}
	return b.String()
}

// idsMeta: ids that are equal up to a metacharacter; with three users the third is what a parser that stops at the
// character would keep (the stem alone, or the stem and the character)
func authIDsMeta(stem, ch string, nu int, variant int) []string {
	tails := []string{"account=alice", "account=bob", "zed"}
	ids := make([]string, nu)
	for k := 0; k < nu; k++ {
		ids[k] = stem + ch + tails[k]
	}
	switch variant % 4 {
	case 1:
		ids[nu-1] = stem
	case 2:
		ids[nu-1] = stem + ch
	case 3:
		ids[0] = stem + ch + ch + tails[0]
	}
	return ids
}

// genUserIDs: the ids the application hands to Server.LoadUser (q.IDs stays nil for server-drawn ids).
func (g *authGen) genUserIDs(q *authSeq, nu int, hostile bool) {
	r := g.r
	schemes := []string{"server", "server", "meta", "meta", "meta", "meta", "prefix", "prefix", "prefix", "case", "case", "urlenc", "urlenc", "urlenc", "long", "long", "dots", "utf8", "suffix", "pattern", "pattern"}
	if hostile {
		schemes = append(schemes, "hostile", "hostile", "hostile", "hostile")
	}
	scheme := Pick(r, schemes)
	g.stat["gen.userids."+scheme]++
	stem := Pick(r, []string{"imap", "u", "usr-" + g.letters(3), g.letters(6), "A1"})
	ids := make([]string, nu)
	switch scheme {
	case "server":
		return
	case "meta":
		// the least used metacharacter first (every one of them comes up in a run of a hundred sequences)
		best, bestN := []string{}, 1<<30
		for _, m := range authIDMetas {
			if n := g.deck["idmeta/"+m]; n < bestN {
				best, bestN = []string{m}, n
			} else if n == bestN {
				best = append(best, m)
			}
		}
		ch := best[0]
		g.deck["idmeta/"+ch]++
		ids = authIDsMeta(stem, ch, nu, r.Intn(4))
	case "prefix":
		// every id is a prefix of the next: digits appended (user1 / user10 / user100), or letters
		ids[0] = stem + Pick(r, []string{"1", "7", "", "x"})
		if ids[0] == "" {
			ids[0] = "u"
		}
		for k := 1; k < nu; k++ {
			ids[k] = ids[k-1] + Pick(r, []string{"0", "1", "a", "-b", "_", " ", ".", "0000"})
		}
	case "suffix":
		// ids that look like the names gluon itself derives from an id: <id>.db, <id>.db-wal, <id>.db-shm, deferred_delete
		all := []string{stem, stem + ".db", stem + ".db-wal", stem + ".db-shm", "deferred_delete", stem + ".db.db"}
		for k := 0; k < nu; k++ {
			i := r.Intn(len(all))
			ids[k] = all[i]
			all = append(all[:i], all[i+1:]...)
		}
	case "case":
		n := stem + g.letters(3)
		vs := []string{strings.ToLower(n), strings.ToUpper(n), strings.ToUpper(n[:1]) + strings.ToLower(n[1:])}
		copy(ids, vs)
	case "urlenc":
		// an id, its percent-encoding, the percent-encoding of that; `+` / space / %20
		ch := Pick(r, []string{"?", "#", "%", "/", " ", "&", "+", ";"})
		tail := g.letters(2)
		var vs []string
		switch {
		case ch == "/":
			vs = []string{stem + "%2F" + tail, stem + "%2f" + tail, stem + "%252F" + tail}
		case ch == " " || ch == "+":
			vs = []string{stem + " " + tail, stem + "+" + tail, stem + "%20" + tail, stem + "%2B" + tail}
		default:
			vs = []string{stem + ch + tail, stem + authPct(ch, false) + tail, stem + "%25" + authPct(ch, false)[1:] + tail}
			if lo := authPct(ch, true); lo != authPct(ch, false) {
				vs = append(vs, stem+lo+tail)
			}
		}
		for k := 0; k < nu; k++ {
			i := r.Intn(len(vs))
			ids[k] = vs[i]
			vs = append(vs[:i], vs[i+1:]...)
		}
	case "long":
		// long ids (file name limit 255 bytes for <id>.db-shm) that differ in the last byte, in the middle, or in length
		n := Pick(r, []int{120, 200, 240, 244}) // (<id>.db-journal is the longest name derived from an id)
		base := strings.Repeat(Pick(r, []string{"L", "ab", "0123456789", "a?", "%41"}), n)[:n]
		ids[0] = base
		ids[1] = base[:n-1] + "~"
		if nu > 2 {
			ids[2] = base[:n/2] + "~" + base[n/2+1:]
			if r.Bool() {
				ids[2] = base[:n-1]
			}
		}
	case "dots":
		vs := []string{"." + stem, ".." + stem, stem + ".", stem + "..", "...", stem, ".db", "-" + stem, "~" + stem, " " + stem, stem + " "}
		for k := 0; k < nu; k++ {
			i := r.Intn(len(vs))
			ids[k] = vs[i]
			vs = append(vs[:i], vs[i+1:]...)
		}
	case "utf8":
		vs := []string{"\u00e9" + stem, "e\u0301" + stem, "\u00c9" + stem, "\u00fc", "\u4e2d\u6587", "\U0001F600", "\xff\xfe" + stem}
		for k := 0; k < nu; k++ {
			i := r.Intn(len(vs))
			ids[k] = vs[i]
			vs = append(vs[:i], vs[i+1:]...)
		}
	case "pattern":
		h := Pick(r, authIDPatterns)
		ids[0], ids[1] = h[0], h[1]
		if nu > 2 {
			ids[2] = h[0] + h[1]
		}
	case "hostile":
		h := Pick(r, authIDHostile)
		ids[0], ids[1] = h[0], h[1]
		if nu > 2 {
			ids[2] = "zed"
		}
	}
	// which index gets which id must not matter
	for i := nu - 1; i > 0; i-- {
		j := r.Intn(i + 1)
		ids[i], ids[j] = ids[j], ids[i]
	}
	for i := range ids {
		for j := 0; j < i; j++ {
			if ids[i] == ids[j] || ids[i] == "" {
				panic(fmt.Sprintf("c18auth generator: scheme %s gives the ids %q", scheme, ids))
			}
		}
	}
	q.IDs = ids
}

// authDirectedIDSeqs: short sequences, one per metacharacter and id relation, run before the generated ones: two or three
// users whose ids are related, each changes its own mailboxes and tries the others' by name; then a restart.
func authDirectedIDSeqs(jailMS int, hostile bool) ([]*authSeq, []string) {
	var seqs []*authSeq
	var origin []string
	mk := func(what string, ids []string, files bool) {
		nu := len(ids)
		q := &authSeq{JailMS: jailMS, IDs: ids}
		for k := 0; k < nu; k++ {
			q.Names = append(q.Names, fmt.Sprintf("usr%d", k))
			q.Passes = append(q.Passes, fmt.Sprintf("pw%d%04x", k, 4660+k))
		}
		add := func(c int, ty, arg string) { q.Steps = append(q.Steps, authStep{Conn: c, Ty: ty, Arg: arg}) }
		for k := 0; k < nu; k++ {
			o := (k + 1) % nu
			add(k, "Login", authLoginArg(q.Names[k], q.Passes[k], false))
			add(k, "List", `LIST "" "*"`)
			add(k, "Create", fmt.Sprintf("CREATE %stmp%d", authMarker(k), k+1))
			add(k, "Append", fmt.Sprintf("%sbox %sapp%d", authMarker(k), authMarker(k), k+1))
			add(k, "Status", fmt.Sprintf("STATUS %sbox (MESSAGES UIDNEXT UNSEEN)", authMarker(o)))
			add(k, "Delete", fmt.Sprintf("DELETE %sarc", authMarker(o)))
			add(k, "Append", fmt.Sprintf("%sbox %sapp%d", authMarker(o), authMarker(k), k+10))
			add(k, "Delete", fmt.Sprintf("DELETE %sarc", authMarker(k)))
			add(k, "Logout", "LOGOUT")
		}
		if files {
			// the first user goes away with its files and comes back: the others keep everything - also over a restart
			add(-1, "AdminRemoveFiles", "0")
			add(nu, "Login", authLoginArg(q.Names[0], q.Passes[0], false))
			add(-1, "AdminRestart", "")
			add(-1, "AdminAdd", "0 "+q.Passes[0])
			add(nu+1, "Login", authLoginArg(q.Names[0], q.Passes[0], false))
			add(nu+1, "List", `LIST "" "*"`)
			add(nu+1, "Logout", "LOGOUT")
		}
		add(-1, "AdminRestart", "")
		for k := 0; k < nu; k++ {
			add(nu+2+k, "Login", authLoginArg(q.Names[k], q.Passes[k], false))
			add(nu+2+k, "List", `LIST "" "*"`)
		}
		seqs = append(seqs, q)
		origin = append(origin, "directed ids: "+what)
	}
	for i, ch := range authIDMetas {
		mk(fmt.Sprintf("equal up to %q", ch), authIDsMeta("imap", ch, 2+i%2, i), false)
	}
	mk("percent-encodings of one another", []string{"a?b", "a%3Fb", "a%253Fb"}, false)
	mk("percent-encodings of one another", []string{"a b", "a+b", "a%20b"}, false)
	mk("letter case", []string{"Usr", "usr", "USR"}, false)
	mk("prefix", []string{"user1", "user10", "user100"}, false)
	mk("prefix, the shorter one removed with its files", []string{"user1", "user10"}, true)
	mk("metacharacter, one removed with its files", []string{"imap?a", "imap?b", "imap"}, true)
	mk("names gluon derives from an id", []string{"u", "u.db", "u.db-wal"}, true)
	mk("long", []string{strings.Repeat("L", 240), strings.Repeat("L", 239) + "~"}, false)
	for _, h := range authIDPatterns {
		mk(fmt.Sprintf("pattern %q next to %q, the pattern removed with its files", h[1], h[0]), []string{h[1], h[0]}, true)
	}
	mk("pattern ids only", []string{"*", "?", "[a-z]"}, true)
	if hostile {
		for _, h := range authIDHostile {
			mk(fmt.Sprintf("hostile %q %q", h[0], h[1]), []string{h[0], h[1]}, false)
			mk(fmt.Sprintf("hostile %q %q, the second removed with its files", h[0], h[1]), []string{h[1], h[0]}, true)
		}
	}
	return seqs, origin
}

// remembered-login probe: user o logs in on one connection (and, sometimes, out again); then a *fresh* connection
// presents pairs derived from o's valid pair - none of which any connector accepts - each followed by the full
// listing (refused: not authenticated), and at the end sometimes the right pair of another user (whose session must
// then list that user's mailboxes, not o's).  With `admin`, o is then removed from the server: its own right pair and
// the derived ones must be refused; it comes back with the same or a new password: the old one must be refused once
// it has changed, the new one accepted and bound to o's data.
func (g *authGen) probePlan(q *authSeq, o int, others []int, conn int, admin bool) *authConnPlan {
	r := g.r
	nu := len(q.Names)
	oth := (o + 1 + r.Intn(nu-1)) % nu
	p := &authConnPlan{owner: o, victim: oth, conn: conn, label: "N0"}
	add := func(c int, ty, arg string) { p.steps = append(p.steps, authStep{Conn: c, Ty: ty, Arg: arg}) }
	list := func(c int) { add(c, "List", `LIST "" "*"`) }
	derived := func(c, n int, label string) {
		for i := 0; i < n; i++ {
			add(c, "Login", g.credsFrom(q, o, oth, Pick(r, authDerivedKinds), label))
			if r.Chance(2, 3) {
				list(c)
			}
		}
	}
	add(conn, "Login", g.credsFrom(q, o, oth, "right", "probe"))
	list(conn)
	loggedOut := admin || r.Chance(1, 3)
	if loggedOut {
		add(conn, "Logout", "LOGOUT")
	}
	derived(conn+1, r.Range(1, 2), "probe-after-login")
	if len(others) > 0 && r.Chance(1, 2) {
		w := Pick(r, others)
		add(conn+1, "Login", g.credsFrom(q, w, o, "right", "probe"))
		list(conn + 1)
		add(conn+1, "Logout", "LOGOUT")
	}
	if !admin {
		return p
	}
	g.stat["gen.sequences.with-remove-and-add-user"]++
	rm := "AdminRemove"
	if r.Bool() {
		// with its files: the database and the store of o are deleted - everybody else's stay
		rm = "AdminRemoveFiles"
		g.stat["gen.sequences.with-remove-user-and-files"]++
	}
	p.steps = append(p.steps, authStep{Conn: -1, Ty: rm, Arg: strconv.Itoa(o)})
	add(conn+2, "Login", g.credsFrom(q, o, oth, "right", "probe-removed")) // nobody's pair now
	list(conn + 2)
	derived(conn+2, r.Range(0, 1), "probe-removed")
	newPass := q.Passes[o]
	if r.Bool() {
		newPass = fmt.Sprintf("np%d%04x", o, r.Intn(1<<16))
		g.stat["gen.sequences.with-password-change"]++
	}
	p.steps = append(p.steps, authStep{Conn: -1, Ty: "AdminAdd", Arg: fmt.Sprintf("%d %s", o, authWord(newPass, false))})
	if newPass != q.Passes[o] {
		add(conn+2, "Login", g.credsFrom(q, o, oth, "right", "probe-old-password"))
		list(conn + 2)
	}
	add(conn+3, "Login", authLoginArg(q.Names[o], newPass, r.Chance(1, 4)))
	list(conn + 3)
	add(conn+3, "Logout", "LOGOUT")
	return p
}

// genAuthSeq: one sequence (users, passwords, interleaved steps of 2-4 connections).
func (g *authGen) genAuthSeq(r *Rng, jailMS int) *authSeq {
	g.r = r
	g.scratch, g.appN = 0, 0
	nu := r.Range(2, 3)
	q := &authSeq{JailMS: jailMS}
	g.genUsers(q, nu)
	g.genUserIDs(q, nu, g.hostile)
	// the victim never gets an authenticated session in this sequence: its view must stay identical
	victim := r.Intn(nu)
	unauthOnly := r.Chance(1, 5) // nobody logs in successfully: every view must stay identical
	nc := r.Range(2, 4)
	var plans []*authConnPlan
	for c := 0; c < nc; c++ {
		owner := r.Intn(nu)
		if c == 1 && r.Chance(1, 2) {
			owner = plans[0].owner // two connections of the same user
		}
		noAuth := unauthOnly || owner == victim
		// cross-user attempts aim at the victim (for the victim's own connections: at the next user)
		p := &authConnPlan{owner: owner, victim: victim, conn: c}
		if p.victim == p.owner {
			p.victim = (owner + 1) % nu
		}
		// end state and terminal: the least exercised (label, terminal) pair among those this connection can reach
		ends := []string{"N0", "NF", "A", "S", "AC"}
		if noAuth {
			ends = []string{"N0", "NF"}
		}
		best, bestN := [][2]string{}, 1<<30
		for _, e := range ends {
			for _, t := range []string{"Logout"} {
				n := g.deck[e+"/"+t]
				if n < bestN {
					best, bestN = [][2]string{{e, t}}, n
				} else if n == bestN {
					best = append(best, [2]string{e, t})
				}
			}
		}
		et := Pick(r, best)
		if r.Chance(1, 4) {
			et = [2]string{Pick(r, ends), ""} // stays connected to the end
			if !noAuth {
				et[0] = "AC"
			}
		}
		g.planConn(q, p, et[0], et[1], noAuth)
		for _, o := range plans {
			if o.owner == p.owner {
				g.stat["gen.connection-pairs.same-user"]++
			} else {
				g.stat["gen.connection-pairs.different-users"]++
			}
		}
		g.stat["gen.connections"]++
		plans = append(plans, p)
	}
	// a dedicated jail probe in some sequences: three failures in a row, then one more attempt (right or wrong), then again
	if unauthOnly {
		g.stat["gen.sequences.nobody-authenticates"]++
	}
	if r.Chance(1, 3) {
		g.stat["gen.sequences.with-jail-probe"]++
		owner := r.Intn(nu)
		p := &authConnPlan{owner: owner, victim: (owner + 1) % nu, conn: nc, label: "N0"}
		right := "wrongpw"
		if !unauthOnly && owner != victim {
			right = "right"
		}
		kinds := []string{Pick(r, authWrongKinds), Pick(r, authWrongKinds), Pick(r, authWrongKinds), Pick(r, []string{right, "wrongpw"})}
		if r.Chance(1, 3) && right == "right" {
			// a success in between resets the counter: the third failure after it is the blocked one
			kinds = []string{Pick(r, authWrongKinds), Pick(r, authWrongKinds), "right"}
		}
		for _, k := range kinds {
			g.count(p.label, "Login")
			p.steps = append(p.steps, authStep{Conn: p.conn, Ty: "Login", Arg: g.creds(q, p, k)})
			if k == "right" {
				p.label = "A"
			} else if p.label == "N0" {
				p.label = "NF"
			}
		}
		plans = append(plans, p)
	}
	// remembered-login probe (one plan over several fresh connections: its own order is kept by the interleaving)
	if !unauthOnly && r.Chance(1, 2) {
		var cands []int
		for k := 0; k < nu; k++ {
			if k != victim {
				cands = append(cands, k)
			}
		}
		// remove / add only a user no other connection of this sequence belongs to (RemoveUser ends its sessions)
		var alone []int
		for _, k := range cands {
			used := false
			for _, pl := range plans {
				if pl.owner == k {
					used = true
				}
			}
			if !used {
				alone = append(alone, k)
			}
		}
		o, admin := Pick(r, cands), false
		if len(alone) > 0 && r.Chance(2, 3) {
			o, admin = Pick(r, alone), true
		}
		var others []int
		for _, k := range cands {
			if k != o {
				others = append(others, k)
			}
		}
		g.stat["gen.sequences.with-remembered-login-probe"]++
		plans = append(plans, g.probePlan(q, o, others, nc+1, admin))
	}
	// random interleaving that keeps every connection's own order
	idx := make([]int, len(plans))
	for {
		var live []int
		for i, p := range plans {
			if idx[i] < len(p.steps) {
				live = append(live, i)
			}
		}
		if len(live) == 0 {
			break
		}
		i := Pick(r, live)
		// a connection tends to issue a few commands in a row
		burst := r.Range(1, 3)
		for b := 0; b < burst && idx[i] < len(plans[i].steps); b++ {
			q.Steps = append(q.Steps, plans[i].steps[idx[i]])
			idx[i]++
		}
	}
	// a restart at the end (always after a user was removed together with its files): everybody's data is still there,
	// and a session opened afterwards lists its own user's mailboxes
	withFiles := false
	for _, st := range q.Steps {
		if st.Ty == "AdminRemoveFiles" {
			withFiles = true
		}
	}
	if withFiles || r.Chance(1, 4) {
		g.stat["gen.sequences.with-restart"]++
		q.Steps = append(q.Steps, authStep{Conn: -1, Ty: "AdminRestart"})
		for k := 0; k < nu; k++ {
			if unauthOnly || k == victim || r.Chance(1, 3) {
				continue
			}
			c := nc + 10 + k
			// (a user that was removed and added again with another password by the probe: its ADMIN add step tells which)
			pass := q.Passes[k]
			for _, st := range q.Steps {
				if st.Ty == "AdminAdd" {
					if f := authSplitArgs(st.Arg); len(f) == 2 && f[0] == strconv.Itoa(k) {
						pass = f[1]
					}
				}
			}
			q.Steps = append(q.Steps, authStep{Conn: c, Ty: "Login", Arg: authLoginArg(q.Names[k], pass, false)},
				authStep{Conn: c, Ty: "List", Arg: `LIST "" "*"`})
			if r.Bool() {
				q.Steps = append(q.Steps, authStep{Conn: c, Ty: "Status", Arg: "STATUS " + Pick(r, authStable((k+1)%nu)[1:]) + " (MESSAGES)"})
			}
		}
	}
	return q
}

// ---- oracle ------------------------------------------------------------------------------

var reAuthPair = regexp.MustCompile(`^([A-Z0-9]+):([A-Za-z]+)>([a-z-]+)$`)

func runAuthOracle(args []string) int {
	fs := flag.NewFlagSet("c18auth", flag.ExitOnError)
	seed := fs.Uint64("seed", 1, "")
	out := fs.String("out", "", "")
	replayDir := fs.String("replaydir", ".", "")
	replay := fs.String("replay", "", "")
	n := fs.Int("n", 100, "sequences")
	jail := fs.Int("jail", 300, "login jail time in ms")
	workers := fs.Int("workers", 8, "")
	verbose := fs.Bool("v", false, "")
	hostile := fs.Bool("hostile-ids", false, "also user ids that are not one directory entry (., .., with /) or glob patterns")
	directed := fs.Bool("directed-ids", true, "run the directed user-id sequences first")
	_ = fs.Parse(args)
	res := &OracleResult{Stats: map[string]int{}, Samples: []any{}, Violations: []OracleViol{}}

	judgeAll := func(runs []*authRun) error {
		var lines []string
		var idx []int
		for i, r := range runs {
			if r.setupErr == nil && r.hang == "" && r.judgeIn != "" {
				lines = append(lines, r.judgeIn)
				idx = append(idx, i)
			}
		}
		if len(lines) == 0 {
			return nil
		}
		ans, err := leanJudge(lines)
		if err != nil {
			return err
		}
		if len(ans) != len(lines) {
			return fmt.Errorf("lean judge answered %d lines for %d traces", len(ans), len(lines))
		}
		for j, i := range idx {
			runs[i].judge = ans[j]
		}
		return nil
	}
	verdict := func(r *authRun) string {
		switch {
		case r.setupErr != nil:
			return "harness: " + r.setupErr.Error()
		case len(r.panics) > 0:
			return r.panics[0]
		case r.hang != "":
			return r.hang
		case !strings.HasPrefix(r.judge, "ok"):
			return r.judge
		}
		return ""
	}
	report := func(r *authRun, q *authSeq, why, note string) {
		text := q.text()
		text += fmt.Sprintf("# property C18: %s\n# %s\n", why, note)
		if r != nil {
			for i, st := range r.seq.Steps {
				if i < len(r.obs) {
					text += fmt.Sprintf("#   %-3d %-64s => %-4s seen=%s %q", i, st.String(), r.obs[i].Status, digits(r.obs[i].Seen), r.obs[i].Raw)
					if r.obs[i].Probed {
						text += fmt.Sprintf(" pair-accepted-by-connector-of=%s session-lists-mailboxes-of=%s", digits(r.obs[i].Acc), digits(r.obs[i].Who))
					}
					if len(r.obs[i].Chg) > 0 || len(r.obs[i].Leak) > 0 {
						text += fmt.Sprintf(" observers: views-changed-of=%s observer-user-pairs-with-a-foreign-marker=%s", digits(r.obs[i].Chg), leakPairs(r.obs[i].Leak))
					}
					text += "\n"
				}
			}
			for _, n := range r.causes {
				text += "# " + n + "\n"
			}
			for _, n := range r.notes {
				text += "# note (informational): " + strings.ReplaceAll(n, "\n", " | ") + "\n"
			}
			for _, k := range r.changed {
				text += fmt.Sprintf("# view of user %d changed:\n#   before: %s\n#   after:  %s\n", k, strings.ReplaceAll(r.before[k], "\n", " | "), strings.ReplaceAll(r.after[k], "\n", " | "))
			}
		}
		text += "# replay: ./check C18 --replay <this file>\n"
		name := fmt.Sprintf("C18-auth-%d-%d.txt", *seed, len(res.Violations))
		path := filepath.Join(*replayDir, name)
		_ = os.MkdirAll(*replayDir, 0o755)
		_ = os.WriteFile(path, []byte(text), 0o644)
		res.Violations = append(res.Violations, OracleViol{Desc: "C18: " + why, Replay: path})
	}
	account := func(r *authRun) {
		res.Evaluations += len(r.seq.Steps)
		res.Stats["sequences"]++
		res.Stats["steps"] += len(r.seq.Steps)
		res.Stats[fmt.Sprintf("users.%d", len(r.seq.Names))]++
		if len(r.seq.IDs) > 0 {
			res.Stats["userids.chosen-by-the-application"]++
		} else {
			res.Stats["userids.drawn-by-the-server"]++
		}
		if r.ownFiles {
			res.Stats["disk.sequences-every-user-has-files-of-its-own-id"]++
		} else {
			res.Stats["disk.sequences-some-user-without-files-of-its-own-id"]++
		}
		for _, o := range r.obs {
			res.Stats["observers.views-read-changed"] += len(o.Chg)
		}
		if len(r.changed) == 0 {
			res.Stats["views.all-unchanged"]++
		}
		res.Stats["views.changed-users"] += len(r.changed)
		f := strings.Fields(r.judge)
		// ok nontrivial <steps> <pairs> <jailwaits> <blocked> <touched>
		if len(f) >= 7 && f[0] == "ok" {
			for _, p := range strings.Split(f[3], ",") {
				if m := reAuthPair.FindStringSubmatch(p); m != nil {
					res.Stats["pair."+m[1]+"."+m[2]]++
					res.Stats["pair-outcome."+m[1]+"."+m[2]+"."+m[3]]++
				}
			}
			res.Stats["jail.attempts-that-had-to-wait"] += atoi(strings.TrimPrefix(f[4], "waits="))
			res.Stats["jail.blocked-replies"] += atoi(strings.TrimPrefix(f[5], "blocked="))
			if f[6] != "touched=-" {
				res.Stats["views.sequences-with-authenticated-effects"]++
			}
			res.DistinctNontrivial++
		}
	}

	if *replay != "" {
		b, err := os.ReadFile(*replay)
		if err != nil {
			fmt.Fprintln(os.Stderr, err)
			return 1
		}
		q, err := parseAuthSeq(string(b))
		if err != nil {
			fmt.Fprintln(os.Stderr, err)
			return 1
		}
		r := runAuthSeq(q, true)
		runs := []*authRun{r}
		if err := judgeAll(runs); err != nil {
			fmt.Fprintln(os.Stderr, "lean judge:", err)
			return 1
		}
		fmt.Fprintln(os.Stderr, "judge:", r.judge)
		if r.setupErr == nil && r.hang == "" {
			account(r)
		}
		if v := verdict(r); v != "" {
			report(r, q, v, "replayed")
		}
		if *out != "" {
			writeResult(*out, res)
		}
		for _, v := range res.Violations {
			fmt.Fprintln(os.Stderr, "VIOL", v.Desc, v.Replay)
		}
		return 0
	}

	// offline generation, in order (the coverage deck is shared), then parallel execution
	rng := NewRng(*seed)
	g := &authGen{deck: map[string]int{}, stat: map[string]int{}, hostile: *hostile}
	// directed scenarios and past failures first: $VERIF_CORPUS/*.txt in the replay-file format
	var seqs []*authSeq
	var origin []string
	if dir := os.Getenv("VERIF_CORPUS"); dir != "" {
		files, _ := filepath.Glob(filepath.Join(dir, "*.txt"))
		sort.Strings(files)
		for _, f := range files {
			b, err := os.ReadFile(f)
			if err != nil || !strings.HasPrefix(string(b), "oracle c18auth") {
				continue
			}
			q, err := parseAuthSeq(string(b))
			if err != nil {
				res.Violations = append(res.Violations, OracleViol{Desc: "C18: harness: corpus file " + f + ": " + err.Error()})
				continue
			}
			res.Stats["corpus-files"]++
			seqs = append(seqs, q)
			origin = append(origin, "corpus "+filepath.Base(f))
		}
	}
	if *directed {
		ds, do := authDirectedIDSeqs(*jail, *hostile)
		seqs = append(seqs, ds...)
		origin = append(origin, do...)
		res.Stats["directed-id-sequences"] = len(ds)
	}
	for i := 0; i < *n; i++ {
		seqs = append(seqs, g.genAuthSeq(rng.Fork(), *jail))
		origin = append(origin, fmt.Sprintf("seed %d, sequence %d", *seed, i))
	}
	for _, k := range sortedKeys(g.stat) {
		res.Stats[k] = g.stat[k]
	}
	runs := make([]*authRun, len(seqs))
	var wg sync.WaitGroup
	next := make(chan int)
	for w := 0; w < *workers; w++ {
		wg.Add(1)
		go func() {
			defer wg.Done()
			for i := range next {
				runs[i] = runAuthSeq(seqs[i], false)
				if runs[i].setupErr != nil {
					// environment (ports, disk): one more try before it is reported
					runs[i] = runAuthSeq(seqs[i], false)
				}
			}
		}()
	}
	for i := range seqs {
		next <- i
	}
	close(next)
	wg.Wait()
	if err := judgeAll(runs); err != nil {
		fmt.Fprintln(os.Stderr, "lean judge:", err)
		res.Violations = append(res.Violations, OracleViol{Desc: "C18: the Lean judge could not be run: " + err.Error()})
		if *out != "" {
			writeResult(*out, res)
		}
		return 0
	}
	reported := 0
	for i, r := range runs {
		if r.setupErr == nil && r.hang == "" {
			account(r)
		}
		v := verdict(r)
		if v == "" {
			continue
		}
		res.Stats["sequences.failed"]++
		res.Stats["sequences.failed."+strings.Join(strings.Fields(verdictKind(v)), "_")]++
		if reported >= 3 {
			continue
		}
		reported++
		// minimise: drop chunks of steps while the same kind of verdict persists
		q := seqs[i]
		kind := verdictKind(v)
		fails := func(steps []authStep) (*authRun, bool) {
			q2 := q.withSteps(steps)
			r2 := runAuthSeq(q2, false)
			if err := judgeAll([]*authRun{r2}); err != nil {
				return nil, false
			}
			return r2, verdictKind(verdict(r2)) == kind
		}
		cur, curRun := q.Steps, r
		budget := 25
		for chunk := len(cur) / 2; chunk >= 1 && budget > 0; {
			removed := false
			for k := 0; k+chunk <= len(cur) && budget > 0; {
				cand := append(append([]authStep{}, cur[:k]...), cur[k+chunk:]...)
				budget--
				if r2, bad := fails(cand); bad {
					cur, curRun, removed = cand, r2, true
				} else {
					k += chunk
				}
			}
			if !removed || chunk > 1 {
				chunk /= 2
			}
		}
		qs := q.withSteps(cur)
		report(curRun, qs, verdict(curRun), fmt.Sprintf("minimised from %d steps (%s)", len(q.Steps), origin[i]))
	}
	// coverage of the (state, command) matrix, by the judge's own labels
	missing := 0
	for _, l := range authLabels {
		for _, ty := range authAllTypes {
			if res.Stats["pair."+l+"."+ty] == 0 {
				missing++
				if missing <= 20 {
					res.Stats["pair-missing."+l+"."+ty] = 1
				}
			}
		}
	}
	res.Stats["pairs.total"] = len(authLabels) * len(authAllTypes)
	res.Stats["pairs.covered"] = len(authLabels)*len(authAllTypes) - missing
	if len(runs) > 0 && runs[0].setupErr == nil {
		var steps []string
		for _, s := range runs[0].seq.Steps {
			steps = append(steps, s.String())
		}
		res.Samples = append(res.Samples, map[string]any{"sequence": steps, "judge": runs[0].judge})
	}
	if *out != "" {
		writeResult(*out, res)
	}
	if *verbose {
		for _, k := range sortedKeys(res.Stats) {
			fmt.Fprintf(os.Stderr, "%s=%d\n", k, res.Stats[k])
		}
	}
	for _, v := range res.Violations {
		fmt.Fprintln(os.Stderr, "VIOL", v.Desc, v.Replay)
	}
	return 0
}

// verdictKind: the part of a verdict that identifies the kind of failure (for minimisation)
func verdictKind(v string) string {
	f := strings.Fields(v)
	var keep []string
	for _, w := range f {
		if strings.HasPrefix(w, "step=") || strings.HasPrefix(w, "conn=") || strings.HasPrefix(w, "recv=") || strings.HasPrefix(w, "earliest=") {
			continue
		}
		keep = append(keep, w)
	}
	if len(keep) > 6 {
		keep = keep[:6]
	}
	return strings.Join(keep, " ")
}

func init() { RegisterOracle(&Oracle{Name: "c18auth", Run: runAuthOracle}) }
