package main

// Oracle `c18auth` (C18): wire-level tie of the session-protocol model GluonModel/Model/Auth.lean to a
// whole gluon server with 2-3 users (each its own connector / database / store), and the property
// oracle for authentication gating, user isolation and the login jail.
//
// One *sequence* = one fresh server + a list of steps over several client connections.  Every step is
// one IMAP command on one connection; the harness records per step the completion class of the
// reply (ok / no / bad / bye / byeonly / none), which users' markers were visible in the untagged data,
// send / receive times and whether the text was "too many login attempts".  The whole trace goes to
// the Lean judge `judge-c18-wire` (Driver/DJudgeAuth.lean) which runs `Gluon.Auth.step` with the
// regenerated dispatch facts over it: the model predicts class and protocol state for every step,
// the jail arithmetic (`Gluon.Auth.attempt`) bounds the reply times from below, and the users whose
// before/after snapshots differ must be users the model says a handled command ran for.
//
// Replay file:
//   oracle c18auth
//   cfg users=<n> jail=<ms>
//   user <k> <name> <password>                      (quoted when empty or not an atom)
//   C<conn> <PayloadType> <wire command | LOGIN user pass | APPEND mailbox marker>
//   ADMIN remove <k> | ADMIN add <k> <password>     (Server.RemoveUser / Server.LoadUser with the same user id and a fresh connector)
//
// Credentials: user names of one server may be prefixes of one another, differ in letter case only, or be built so
// that two valid pairs collide when name and password are joined (with or without a separator); besides the plain wrong
// kinds the generator derives adversarial pairs from valid ones (every other split of name||password, separator
// variants, truncations, empty password, swapped, other user's password / name) and presents them before and after the
// owner of the valid pair has logged in (same server, other connection), after its logout, after the user was removed
// and after it was added again (with the same or a new password).  Which connector accepts a pair is the harness'
// table (the rule of connector.Dummy.Authorize over the users currently on the server).  After every LOGIN that is
// answered OK the harness itself issues the identity probe `LIST "" "*"` on that session: the judge requires the
// listing to show the marker mailboxes of exactly the user whose connector accepts the presented pair.
//
// Generation is offline (no feedback from the server), deterministic from the seed; sequences are
// executed by a pool of workers (each sequence has its own server; every timing check is a lower
// bound, so load can only make replies later, never cause an alarm).

import (
	"context"
	"flag"
	"fmt"
	"net"
	"os"
	"path/filepath"
	"regexp"
	"sort"
	"strconv"
	"strings"
	"sync"
	"time"

	"github.com/ProtonMail/gluon"
	"github.com/ProtonMail/gluon/connector"
	"github.com/ProtonMail/gluon/imap"
)

// ---- server with several users -------------------------------------------------------------

type authUser struct {
	Name, Pass string
	ID         string
	Conn       *connector.Dummy
	Removed    bool
}

type authSys struct {
	srv    *gluon.Server
	users  []*authUser
	addr   string
	dir    string
	ctx    context.Context
	cancel context.CancelFunc
	panics *panicRecorder
}

func authAllFlags() imap.FlagSet {
	return imap.NewFlagSet(imap.FlagSeen, imap.FlagFlagged, imap.FlagDeleted, imap.FlagAnswered, imap.FlagDraft)
}

// removeUser: Server.RemoveUser (files stay); blocks until the user's sessions have released their states.
func (a *authSys) removeUser(k int) error {
	u := a.users[k]
	if u.Removed {
		return fmt.Errorf("user %d is not on the server", k)
	}
	ctx, c := context.WithTimeout(a.ctx, 20*time.Second)
	defer c()
	done := make(chan error, 1)
	go func() { done <- a.srv.RemoveUser(ctx, u.ID, false) }()
	select {
	case err := <-done:
		if err != nil {
			return err
		}
	case <-time.After(25 * time.Second):
		return fmt.Errorf("RemoveUser did not return within 25s")
	}
	u.Removed = true
	return nil
}

// addUser: the removed user comes back under its id with a fresh connector that accepts (name, pass).
func (a *authSys) addUser(k int, pass string) error {
	u := a.users[k]
	if !u.Removed {
		return fmt.Errorf("user %d is on the server", k)
	}
	all := authAllFlags()
	conn := connector.NewDummy([]string{u.Name}, []byte(pass), time.Hour, all, all, imap.NewFlagSet())
	conn.SetUpdatesAllowedToFail(true)
	if _, err := a.srv.LoadUser(a.ctx, conn, u.ID, []byte("passphrase-"+u.Name)); err != nil {
		return err
	}
	u.Conn, u.Pass, u.Removed = conn, pass, false
	return nil
}

func authMarker(k int) string { return fmt.Sprintf("mk%dk", k) }

var reAuthMarker = regexp.MustCompile(`mk(\d)k`)

func authStable(k int) []string {
	return []string{"INBOX", authMarker(k) + "box", authMarker(k) + "arc"}
}

func newAuthSys(names, passes []string, jail time.Duration) (*authSys, error) {
	dir, err := os.MkdirTemp("", "vh-auth-")
	if err != nil {
		return nil, err
	}
	rec := &panicRecorder{}
	srv, err := gluon.New(
		gluon.WithDataDir(filepath.Join(dir, "store")),
		gluon.WithDatabaseDir(filepath.Join(dir, "db")),
		gluon.WithDelimiter("/"),
		gluon.WithPanicHandler(rec),
		gluon.WithLoginJailTime(jail),
	)
	if err != nil {
		_ = os.RemoveAll(dir)
		return nil, err
	}
	ctx, cancel := context.WithCancel(context.Background())
	a := &authSys{srv: srv, dir: dir, ctx: ctx, cancel: cancel, panics: rec}
	fail := func(err error) (*authSys, error) {
		a.Close()
		return nil, err
	}
	all := authAllFlags()
	for k := range names {
		// every user gets its own connector (own credentials) => own database and store in the backend
		conn := connector.NewDummy([]string{names[k]}, []byte(passes[k]), time.Hour, all, all, imap.NewFlagSet())
		conn.SetUpdatesAllowedToFail(true)
		id, err := srv.AddUser(ctx, conn, []byte("passphrase-"+names[k]))
		if err != nil {
			return fail(err)
		}
		if err := conn.Sync(ctx); err != nil {
			return fail(err)
		}
		u := &authUser{Name: names[k], Pass: passes[k], ID: id, Conn: conn}
		a.users = append(a.users, u)
		// distinguishable content: mailboxes and subjects carry the user's marker
		mk := authMarker(k)
		for _, mb := range authStable(k)[1:] {
			if err := conn.MailboxCreated(imap.Mailbox{ID: imap.MailboxID(mb), Name: []string{mb}, Flags: all, PermanentFlags: all, Attributes: imap.NewFlagSet()}); err != nil {
				return fail(err)
			}
		}
		n := 0
		for _, mb := range authStable(k) {
			cnt := 2
			if strings.HasSuffix(mb, "arc") {
				cnt = 1
			}
			for j := 0; j < cnt; j++ {
				n++
				marker := fmt.Sprintf("%ssubj%d", mk, n)
				fl := imap.NewFlagSet()
				if j == 1 {
					fl = imap.NewFlagSet(imap.FlagSeen)
				}
				if err := conn.MessageCreated(imap.Message{ID: imap.MessageID(marker), Flags: fl, Date: time.Unix(1136214245, 0).UTC()},
					SimpleMessage(marker, "body of "+marker), []imap.MailboxID{mboxID(mb)}); err != nil {
					return fail(err)
				}
			}
		}
		conn.Flush()
	}
	ln, err := net.Listen("tcp", "127.0.0.1:0")
	if err != nil {
		return fail(err)
	}
	if err := srv.Serve(ctx, ln); err != nil {
		return fail(err)
	}
	go func() {
		for range srv.GetErrorCh() {
		}
	}()
	a.addr = ln.Addr().String()
	return a, nil
}

func (a *authSys) Close() {
	ctx, c := context.WithTimeout(context.Background(), 20*time.Second)
	defer c()
	done := make(chan struct{})
	go func() {
		_ = a.srv.Close(ctx)
		close(done)
	}()
	select {
	case <-done:
	case <-time.After(5 * time.Second):
		// Server.Close waits for every session state to be released; a state leaked by the server under test
		// would block it for ever. The run has its verdict already: abandon the server.
	}
	a.cancel()
	_ = os.RemoveAll(a.dir)
}

func (a *authSys) dial(name string) (*Client, error) {
	s := &Sys{Addr: a.addr}
	c, err := s.Dial(name)
	if c != nil {
		c.Timeout = 30 * time.Second
	}
	return c, err
}

// ---- snapshots through fresh sessions ------------------------------------------------------

var (
	reAuthList    = regexp.MustCompile(`^\* (LIST|LSUB) \(([^)]*)\) "?([^" ]*)"? (.*)$`)
	reAuthSubject = regexp.MustCompile(`(?i)Subject: *([^\r\n]*)`)
	reAuthStatus  = regexp.MustCompile(`^\* STATUS .*\((.*)\)$`)
)

func authUnquote(s string) string {
	s = strings.TrimSpace(s)
	if len(s) >= 2 && s[0] == '"' && s[len(s)-1] == '"' {
		return s[1 : len(s)-1]
	}
	return s
}

// snapshot: the user's whole view through a fresh session — LIST, LSUB, and per mailbox STATUS +
// EXAMINE + FETCH 1:* (UID FLAGS BODY.PEEK[HEADER.FIELDS (Subject)]), canonicalised (sorted, no \Recent).
func (a *authSys) snapshot(k int) (string, error) {
	c, err := a.dial(fmt.Sprintf("snap%d", k))
	if err != nil {
		return "", err
	}
	defer c.Close()
	u := a.users[k]
	if rep := c.Cmd(authLoginArg(u.Name, u.Pass, false)); rep.Status != "OK" {
		return "", fmt.Errorf("snapshot login of user %d failed: %q %v", k, rep.Tagged, rep.Err)
	}
	var out []string
	var names []string
	for _, cmd := range []string{"LIST", "LSUB"} {
		rep := c.Cmd(cmd + ` "" "*"`)
		if rep.Status != "OK" {
			return "", fmt.Errorf("snapshot %s failed: %q %v", cmd, rep.Tagged, rep.Err)
		}
		var ls []string
		for _, l := range rep.Untagged {
			if m := reAuthList.FindStringSubmatch(l); m != nil {
				attrs := strings.Fields(strings.ToLower(m[2]))
				sort.Strings(attrs)
				name := authUnquote(m[4])
				ls = append(ls, fmt.Sprintf("%s %s (%s)", strings.ToLower(m[1]), name, strings.Join(attrs, " ")))
				if cmd == "LIST" && !strings.Contains(strings.ToLower(m[2]), `\noselect`) {
					names = append(names, name)
				}
			}
		}
		sort.Strings(ls)
		out = append(out, ls...)
	}
	sort.Strings(names)
	for _, name := range names {
		q := `"` + name + `"`
		rep := c.Cmd("STATUS " + q + " (MESSAGES UIDNEXT UIDVALIDITY UNSEEN)")
		st := "?"
		for _, l := range rep.Untagged {
			if m := reAuthStatus.FindStringSubmatch(l); m != nil {
				st = m[1]
			}
		}
		out = append(out, fmt.Sprintf("status %s %s %s", name, rep.Status, st))
		if rep := c.Cmd("EXAMINE " + q); rep.Status != "OK" {
			out = append(out, fmt.Sprintf("examine %s %s", name, rep.Status))
			continue
		}
		rep = c.Cmd("FETCH 1:* (UID FLAGS BODY.PEEK[HEADER.FIELDS (Subject)])")
		var ms []string
		for _, l := range rep.Untagged {
			if !strings.Contains(l, " FETCH (") {
				continue
			}
			uid, flags, subj := "?", "", ""
			if x := reUID.FindStringSubmatch(l); x != nil {
				uid = x[1]
			}
			if x := reFlags.FindStringSubmatch(l); x != nil {
				var fl []string
				for _, f := range strings.Fields(strings.ToLower(x[1])) {
					if f != `\recent` {
						fl = append(fl, f)
					}
				}
				sort.Strings(fl)
				flags = strings.Join(fl, ",")
			}
			if x := reAuthSubject.FindStringSubmatch(l); x != nil {
				subj = strings.TrimSpace(x[1])
			}
			n, _ := strconv.Atoi(uid)
			ms = append(ms, fmt.Sprintf("%08d msg %s uid=%s flags=%s subject=%s", n, name, uid, flags, subj))
		}
		sort.Strings(ms)
		for _, m := range ms {
			out = append(out, m[9:])
		}
		// (a mailbox with no message answers FETCH 1:* with BAD/NO: the status is part of the view, the text is not)
		out = append(out, fmt.Sprintf("fetch %s %s %d", name, rep.Status, len(ms)))
	}
	c.Cmd("LOGOUT")
	return strings.Join(out, "\n"), nil
}

// ---- steps ---------------------------------------------------------------------------------

type authStep struct {
	Conn int
	Ty   string // Go payload type name = the model's Cmd.ty
	Arg  string
}

func (s authStep) String() string {
	switch s.Ty {
	case "AdminRemove":
		return "ADMIN remove " + s.Arg
	case "AdminAdd":
		return "ADMIN add " + s.Arg
	}
	if s.Arg == "" {
		return fmt.Sprintf("C%d %s", s.Conn, s.Ty)
	}
	return fmt.Sprintf("C%d %s %s", s.Conn, s.Ty, s.Arg)
}

func parseAuthStep(l string) (authStep, error) {
	if strings.HasPrefix(l, "ADMIN remove ") {
		return authStep{Conn: -1, Ty: "AdminRemove", Arg: strings.TrimSpace(l[len("ADMIN remove "):])}, nil
	}
	if strings.HasPrefix(l, "ADMIN add ") {
		return authStep{Conn: -1, Ty: "AdminAdd", Arg: strings.TrimSpace(l[len("ADMIN add "):])}, nil
	}
	f := strings.SplitN(l, " ", 3)
	if len(f) < 2 || !strings.HasPrefix(f[0], "C") {
		return authStep{}, fmt.Errorf("bad step %q", l)
	}
	c, err := strconv.Atoi(f[0][1:])
	if err != nil {
		return authStep{}, fmt.Errorf("bad step %q", l)
	}
	st := authStep{Conn: c, Ty: f[1]}
	if len(f) == 3 {
		st.Arg = f[2]
	}
	return st, nil
}

type authSeq struct {
	Names, Passes []string
	JailMS        int
	Steps         []authStep
}

func (q *authSeq) text() string {
	var b strings.Builder
	fmt.Fprintf(&b, "oracle c18auth\ncfg users=%d jail=%d\n", len(q.Names), q.JailMS)
	for k := range q.Names {
		fmt.Fprintf(&b, "user %d %s %s\n", k, authWord(q.Names[k], false), authWord(q.Passes[k], false))
	}
	for _, s := range q.Steps {
		b.WriteString(s.String() + "\n")
	}
	return b.String()
}

func parseAuthSeq(text string) (*authSeq, error) {
	q := &authSeq{JailMS: 300}
	for i, l := range strings.Split(text, "\n") {
		l = strings.TrimRight(l, "\r")
		if i == 0 || l == "" || strings.HasPrefix(l, "#") {
			continue
		}
		f := authSplitArgs(l)
		if len(f) == 0 {
			continue
		}
		switch {
		case f[0] == "cfg":
			for _, kv := range f[1:] {
				if strings.HasPrefix(kv, "jail=") {
					q.JailMS, _ = strconv.Atoi(kv[5:])
				}
			}
		case f[0] == "user" && len(f) == 4:
			q.Names = append(q.Names, f[2])
			q.Passes = append(q.Passes, f[3])
		default:
			st, err := parseAuthStep(l)
			if err != nil {
				return nil, err
			}
			q.Steps = append(q.Steps, st)
		}
	}
	if len(q.Names) == 0 {
		return nil, fmt.Errorf("replay file declares no users")
	}
	return q, nil
}

// what the harness observed for one step
type authObs struct {
	Status  string // ok no bad bye byeonly none
	Seen    []int  // users whose markers occurred in the untagged data
	Sent    int64  // ms since the start of the run, taken just before the first byte was written
	Recv    int64  // ms, taken after the completion was read
	Blocked bool   // text "too many login attempts"
	Full    bool   // the command was the full listing LIST "" "*"
	Untag   bool   // the completion was an untagged NO/BAD (the line had no tag: DONE outside IDLE)
	Acc     []int  // LOGIN: users whose connector accepts the credentials (from the harness' credential table)
	Probed  bool   // LOGIN answered OK: the harness issued the identity probe LIST "" "*" on the session
	Who     []int  // users whose markers the identity probe showed
	Admin   bool   // not a command: ADMIN remove / add
	Raw     string
}

type authRun struct {
	seq      *authSeq
	obs      []authObs
	changed  []int
	before   []string
	after    []string
	panics   []string
	judge    string // judge answer
	judgeIn  string
	setupErr error
	hang     string // a command got no completion within the client timeout: the run stops there
}

func authClass(rep Reply) string {
	bye := false
	for _, u := range rep.Untagged {
		if strings.HasPrefix(u, "* BYE") {
			bye = true
		}
	}
	if rep.Tagged == "" {
		if bye {
			return "byeonly" // the server said BYE and hung up without completing the command
		}
		return "none"
	}
	if bye {
		return "bye"
	}
	switch rep.Status {
	case "OK":
		return "ok"
	case "NO":
		return "no"
	case "BAD":
		return "bad"
	}
	return "other:" + rep.Status
}

func authSeen(untagged []string) []int {
	set := map[int]bool{}
	for _, u := range untagged {
		for _, m := range reAuthMarker.FindAllStringSubmatch(u, -1) {
			k, _ := strconv.Atoi(m[1])
			set[k] = true
		}
	}
	var out []int
	for k := range set {
		out = append(out, k)
	}
	sort.Ints(out)
	return out
}

// execStep runs one step on its connection.
func execAuthStep(c *Client, st authStep) Reply {
	switch st.Ty {
	case "Append":
		f := strings.Fields(st.Arg)
		if len(f) != 2 {
			return Reply{Err: fmt.Errorf("bad APPEND step")}
		}
		return c.Append(f[0], "", SimpleMessage(f[1], "appended "+f[1]))
	case "Idle":
		// IDLE, and DONE as soon as the server has sent the continuation
		c.tagN++
		tag := fmt.Sprintf("%s%d", c.Name, c.tagN)
		_ = c.conn.SetWriteDeadline(time.Now().Add(c.Timeout))
		if _, err := c.conn.Write([]byte(tag + " IDLE\r\n")); err != nil {
			return Reply{Tag: tag, Err: err}
		}
		rep := Reply{Tag: tag}
		for {
			b, err := c.readLogical()
			if err != nil {
				rep.Err = err
				return rep
			}
			s := string(b)
			if strings.HasPrefix(s, "+") {
				break
			}
			if strings.HasPrefix(s, tag+" ") {
				rep.Tagged = s
				if f := strings.Fields(s); len(f) > 1 {
					rep.Status = f[1]
				}
				return rep
			}
			rep.Untagged = append(rep.Untagged, s)
		}
		if _, err := c.conn.Write([]byte("DONE\r\n")); err != nil {
			rep.Err = err
			return rep
		}
		r2 := c.readReply(tag)
		r2.Untagged = append(rep.Untagged, r2.Untagged...)
		return r2
	case "Done":
		// a stray DONE line has no tag: the server answers it with an untagged `* NO bad command` (a response
		// to a line without a parsable tag is untagged) and no tagged completion follows.  That untagged
		// NO / BAD is the completion of this step.  (The older form with an empty tag, " NO …", is read the same way.)
		_ = c.conn.SetWriteDeadline(time.Now().Add(c.Timeout))
		if _, err := c.conn.Write([]byte("DONE\r\n")); err != nil {
			return Reply{Err: err}
		}
		rep := Reply{}
		for {
			b, err := c.readLogical()
			if err != nil {
				rep.Err = err
				return rep
			}
			s := string(b)
			f := strings.Fields(s)
			if len(f) >= 2 && f[0] == "*" && (f[1] == "NO" || f[1] == "BAD") {
				rep.Tagged, rep.Status = s, f[1]
				return rep
			}
			if strings.HasPrefix(s, "* ") {
				rep.Untagged = append(rep.Untagged, s)
				continue
			}
			rep.Tagged = s
			if len(f) > 0 {
				rep.Status = f[0]
			}
			return rep
		}
	default:
		return c.Cmd(st.Arg)
	}
}

// authSplitArgs: the words of a line; a word in double quotes may be empty or contain spaces (no escapes: the
// generator never puts `"` or `\` into a name or password).
func authSplitArgs(l string) []string {
	var out []string
	for i := 0; i < len(l); {
		switch {
		case l[i] == ' ':
			i++
		case l[i] == '"':
			j := strings.IndexByte(l[i+1:], '"')
			if j < 0 {
				out = append(out, l[i+1:])
				return out
			}
			out = append(out, l[i+1:i+1+j])
			i += j + 2
		default:
			j := strings.IndexByte(l[i:], ' ')
			if j < 0 {
				j = len(l) - i
			}
			out = append(out, l[i:i+j])
			i += j
		}
	}
	return out
}

// authWord: an IMAP astring for s - an atom when it can be one (and quoting is not asked for), else a quoted string
func authWord(s string, quote bool) string {
	atom := s != ""
	for _, c := range []byte(s) {
		if !(c >= 'a' && c <= 'z' || c >= 'A' && c <= 'Z' || c >= '0' && c <= '9') {
			atom = false
		}
	}
	if atom && !quote {
		return s
	}
	return `"` + s + `"`
}

func authLoginArg(user, pass string, quote bool) string {
	return "LOGIN " + authWord(user, quote) + " " + authWord(pass, quote)
}

// authCreds: the pair a LOGIN step presents
func authCreds(arg string) (user, pass string, ok bool) {
	f := authSplitArgs(arg)
	if len(f) != 3 {
		return "", "", false
	}
	return f[1], f[2], true
}

// authAccepting: the users whose connector accepts the pair - the rule of connector.Dummy.Authorize (exact user name
// of that connector and its password) over the users that are on the server
func authAccepting(names, passes []string, removed []bool, arg string) []int {
	var out []int
	user, pass, ok := authCreds(arg)
	if !ok {
		return out
	}
	for k := range names {
		if (removed == nil || !removed[k]) && names[k] == user && passes[k] == pass {
			out = append(out, k)
		}
	}
	return out
}

func (q *authSeq) accepting(arg string) []int { return authAccepting(q.Names, q.Passes, nil, arg) }

func runAuthSeq(q *authSeq, verbose bool) *authRun {
	run := &authRun{seq: q}
	a, err := newAuthSys(q.Names, q.Passes, time.Duration(q.JailMS)*time.Millisecond)
	if err != nil {
		run.setupErr = err
		return run
	}
	defer a.Close()
	for k := range q.Names {
		s, err := a.snapshot(k)
		if err != nil {
			run.setupErr = err
			return run
		}
		// a session opened with user k's own valid pair must show user k's data and nobody else's
		for _, m := range reAuthMarker.FindAllStringSubmatch(s, -1) {
			if x, _ := strconv.Atoi(m[1]); x != k {
				run.before = append(run.before, s)
				run.panics = append(run.panics, fmt.Sprintf("property identity login-bound-to-another-user: before any step, the session opened with the valid pair of user %d (%s) shows the data of user %d (marker %s); users logged in before it: 0..%d", k, authLoginArg(q.Names[k], q.Passes[k], true), x, m[0], k-1))
				return run
			}
		}
		// the fixture must be what the generator assumes: every stable mailbox, only this user's markers
		for _, mb := range authStable(k) {
			if !strings.Contains(s, "list "+mb+" ") {
				run.setupErr = fmt.Errorf("fixture: user %d has no mailbox %s:\n%s", k, mb, s)
				return run
			}
		}
		if n := strings.Count(s, "subject="+authMarker(k)+"subj"); n != 5 {
			run.setupErr = fmt.Errorf("fixture: user %d shows %d of its 5 messages:\n%s", k, n, s)
			return run
		}
		run.before = append(run.before, s)
	}
	conns := map[int]*Client{}
	defer func() {
		for _, c := range conns {
			c.Close()
		}
	}()
	t0 := time.Now()
	ms := func() int64 { return int64(time.Since(t0) / time.Millisecond) }
	// the credential table follows ADMIN steps
	curPass := append([]string{}, q.Passes...)
	removed := make([]bool, len(q.Names))
	for i, st := range q.Steps {
		if st.Conn < 0 {
			o := authObs{Admin: true, Status: "admin", Sent: ms()}
			f := authSplitArgs(st.Arg)
			k := -1
			if len(f) >= 1 {
				k, _ = strconv.Atoi(f[0])
			}
			var err error
			switch {
			case k < 0 || k >= len(q.Names):
				err = fmt.Errorf("no such user")
			case st.Ty == "AdminRemove":
				if err = a.removeUser(k); err == nil {
					removed[k] = true
				}
			case st.Ty == "AdminAdd" && len(f) == 2:
				if err = a.addUser(k, f[1]); err == nil {
					removed[k], curPass[k] = false, f[1]
				}
			default:
				err = fmt.Errorf("bad ADMIN step")
			}
			o.Recv = ms()
			o.Raw = "done"
			if err != nil {
				o.Raw = "<" + err.Error() + ">"
				run.panics = append(run.panics, fmt.Sprintf("admin step=%d %s failed: %v", i, st.String(), err))
			}
			run.obs = append(run.obs, o)
			if verbose {
				fmt.Fprintf(os.Stderr, "  %-60s => %s\n", st.String(), o.Raw)
			}
			continue
		}
		c := conns[st.Conn]
		if c == nil {
			c, err = a.dial(fmt.Sprintf("c%dx", st.Conn))
			if err != nil {
				run.setupErr = fmt.Errorf("step %d: cannot connect: %w", i, err)
				return run
			}
			conns[st.Conn] = c
		}
		o := authObs{}
		if st.Ty == "Login" {
			o.Acc = authAccepting(q.Names, curPass, removed, st.Arg)
		}
		o.Full = st.Ty == "List" && st.Arg == `LIST "" "*"`
		o.Sent = ms()
		rep := execAuthStep(c, st)
		o.Recv = ms()
		o.Status = authClass(rep)
		o.Seen = authSeen(rep.Untagged)
		o.Blocked = strings.Contains(rep.Tagged, "too many login attempts")
		o.Untag = strings.HasPrefix(rep.Tagged, "* ")
		o.Raw = rep.Tagged
		if rep.Tagged == "" && rep.Err != nil {
			o.Raw = "<" + rep.Err.Error() + ">"
		}
		if st.Ty == "Login" && o.Status == "ok" {
			// identity probe: whose mailboxes does the session that was just accepted list?
			pr := c.Cmd(`LIST "" "*"`)
			o.Probed = true
			o.Who = authSeen(pr.Untagged)
			if pr.Status != "OK" {
				o.Who = append(o.Who, 9) // not a user: the probe itself was refused
			}
		}
		run.obs = append(run.obs, o)
		if verbose {
			fmt.Fprintf(os.Stderr, "  %-60s => %-4s seen=%v %dms %q", st.String(), o.Status, o.Seen, o.Recv-o.Sent, o.Raw)
			if o.Probed {
				fmt.Fprintf(os.Stderr, " accepted-by=%v session-lists-mailboxes-of=%v", o.Acc, o.Who)
			}
			fmt.Fprintln(os.Stderr)
		}
		if ne, ok := rep.Err.(net.Error); ok && ne.Timeout() && rep.Tagged == "" {
			// the connection is open and the server does not answer: stop (every further command would wait as long)
			run.hang = fmt.Sprintf("no-completion-within-%s step=%d %s", c.Timeout, i, st.String())
			for _, p := range a.panics.Take() {
				run.panics = append(run.panics, "server-panic (fatal for the whole process with the default panic handler): "+p)
			}
			return run
		}
	}
	for _, c := range conns {
		c.Close()
	}
	conns = map[int]*Client{}
	for k := range q.Names {
		if removed[k] {
			// a sequence that ends with a user removed: its view is taken after it has come back
			if err := a.addUser(k, curPass[k]); err != nil {
				run.panics = append(run.panics, fmt.Sprintf("admin: user %d cannot be added back at the end: %v", k, err))
			}
		}
		s, err := a.snapshot(k)
		if err != nil {
			// the view of a user can no longer be taken: that is a change
			s = "snapshot failed: " + err.Error()
		}
		run.after = append(run.after, s)
		if s != run.before[k] {
			run.changed = append(run.changed, k)
		}
		// a user's own view must never contain another user's markers
		for _, m := range reAuthMarker.FindAllStringSubmatch(s, -1) {
			if x, _ := strconv.Atoi(m[1]); x != k {
				run.panics = append(run.panics, fmt.Sprintf("isolation: the fresh view of user %d contains marker %s of another user", k, m[0]))
				break
			}
		}
	}
	for _, p := range a.panics.Take() {
		run.panics = append(run.panics, "server-panic (fatal for the whole process with the default panic handler): "+p)
	}
	run.judgeIn = run.judgeLine()
	return run
}

func digits(xs []int) string {
	if len(xs) == 0 {
		return "-"
	}
	var b strings.Builder
	for _, x := range xs {
		b.WriteString(strconv.Itoa(x))
	}
	return b.String()
}

// judgeLine: `judge-c18-wire <jail ms> <nusers> <events>`; event = conn,type,accepting,status,seen,sent,recv,flags,probe
// (probe: `-` none, `p<users>` = the identity probe after an accepted LOGIN listed these users' mailboxes); `A,<what>` = ADMIN step
func (r *authRun) judgeLine() string {
	var ev []string
	for i, st := range r.seq.Steps {
		o := r.obs[i]
		if o.Admin {
			ev = append(ev, "A,"+st.Ty)
			continue
		}
		fl := ""
		if o.Blocked {
			fl += "b"
		}
		if o.Full {
			fl += "f"
		}
		if o.Untag {
			fl += "u"
		}
		if fl == "" {
			fl = "-"
		}
		who := "-"
		if o.Probed {
			who = "p" + strings.TrimPrefix(digits(o.Who), "-")
		}
		ev = append(ev, fmt.Sprintf("%d,%s,%s,%s,%s,%d,%d,%s,%s", st.Conn, st.Ty, digits(o.Acc), o.Status, digits(o.Seen), o.Sent, o.Recv, fl, who))
	}
	ev = append(ev, "E,"+digits(r.changed))
	return fmt.Sprintf("judge-c18-wire %d %d %s", r.seq.JailMS, len(r.seq.Names), strings.Join(ev, ";"))
}

// ---- generator -----------------------------------------------------------------------------

var authAllTypes = []string{"Append", "Capability", "Check", "Close", "Copy", "Create", "Delete", "Done", "Examine", "Expunge", "Fetch",
	"IDGet", "IDSet", "Idle", "LSub", "List", "Login", "Logout", "Move", "Noop", "Rename", "Search", "Select", "StartTLS", "Status",
	"Store", "Subscribe", "UID", "UIDExpunge", "Unselect", "Unsubscribe"}

// protocol-state labels (the judge computes the authoritative ones from the model's run; these steer the generator):
// N0 not authenticated, NF not authenticated after a failed LOGIN, A authenticated, S selected,
// AC authenticated after CLOSE/UNSELECT, X connection ended by LOGOUT
var authLabels = []string{"N0", "NF", "A", "S", "AC", "X"}

type authGen struct {
	r       *Rng
	deck    map[string]int // label/type -> times generated
	stat    map[string]int // what was generated (credential kinds, connections)
	scratch int
	appN    int
}

func (g *authGen) pickType(label string, exclude map[string]bool) string {
	best, bestN := []string{}, 1<<30
	for _, ty := range authAllTypes {
		if exclude[ty] {
			continue
		}
		n := g.deck[label+"/"+ty]
		if n < bestN {
			best, bestN = []string{ty}, n
		} else if n == bestN {
			best = append(best, ty)
		}
	}
	ty := Pick(g.r, best)
	g.deck[label+"/"+ty]++
	return ty
}

type authConnPlan struct {
	owner  int
	victim int
	label  string
	steps  []authStep
	conn   int
	known  []string // scratch mailboxes this connection believes to exist
}

func (g *authGen) mailboxArg(p *authConnPlan, allowOther bool) string {
	r := g.r
	c := r.Intn(100)
	switch {
	case c < 60:
		return Pick(r, authStable(p.owner))
	case c < 80 && allowOther:
		return Pick(r, authStable(p.victim)[1:])
	case c < 90 && len(p.known) > 0:
		return Pick(r, p.known)
	default:
		return "nosuchbox"
	}
}

func (g *authGen) newScratch(p *authConnPlan) string {
	g.scratch++
	return fmt.Sprintf("%stmp%d", authMarker(p.owner), g.scratch)
}

// credsFrom builds the pair of the given kind out of the valid pair of user `base` (other = another user of the
// server).  Every kind but "right" is meant to be refused: should the construction hit a configured pair (colliding
// names are generated on purpose), the password is extended until it does not.
func (g *authGen) credsFrom(q *authSeq, base, other int, kind, label string) string {
	r := g.r
	user, pass := q.Names[base], q.Passes[base]
	g.stat["gen.credentials."+kind+"."+label]++
	switch kind {
	case "right":
	case "wrongpw":
		pass = pass + "x"
	case "unknown":
		user = "nobody" + strconv.Itoa(r.Intn(3))
		if r.Bool() {
			pass = "whatever"
		}
	case "otherpw":
		pass = q.Passes[other]
	case "case":
		switch {
		case strings.ToUpper(user) != user && r.Bool():
			user = strings.ToUpper(user)
		case strings.ToLower(user) != user:
			user = strings.ToLower(user)
		default:
			user = strings.ToUpper(user[:1]) + user[1:]
		}
	case "othername":
		user, pass = q.Names[other], q.Passes[base]
	case "split":
		// another split of the same bytes name||password; half of the time one whose first part is a configured user name
		cat := user + pass
		var named, any []int
		for i := 1; i <= len(cat); i++ {
			if i == len(user) {
				continue
			}
			any = append(any, i)
			for _, n := range q.Names {
				if cat[:i] == n {
					named = append(named, i)
				}
			}
		}
		i := Pick(r, any)
		if len(named) > 0 && r.Bool() {
			i = Pick(r, named)
			g.stat["gen.credentials.split.first-part-is-a-user-name"]++
		}
		user, pass = cat[:i], cat[i:]
	case "sep":
		sep := Pick(r, []string{":", " ", ".", "|", "/", "=", "%", "*"})
		switch r.Intn(4) {
		case 0:
			user = user + sep
		case 1:
			pass = sep + pass
		case 2:
			user, pass = user+sep+pass, ""
		default:
			user, pass = user+sep, sep+pass
		}
	case "emptypw":
		pass = ""
	case "trunc":
		switch r.Intn(3) {
		case 0:
			user = user[:len(user)-1]
		case 1:
			pass = pass[:len(pass)-1]
		default:
			user = user[1:]
		}
		if user == "" {
			user = "x"
		}
	case "swap":
		user, pass = pass, user
	}
	if kind != "right" {
		for len(authAccepting(q.Names, q.Passes, nil, authLoginArg(user, pass, true))) > 0 {
			pass += "x"
			g.stat["gen.credentials.derived-pair-was-valid-extended"]++
		}
	}
	return authLoginArg(user, pass, r.Chance(1, 4))
}

func (g *authGen) creds(q *authSeq, p *authConnPlan, kind string) string {
	other := (p.owner + 1 + g.r.Intn(len(q.Names)-1)) % len(q.Names)
	base := p.owner
	if kind == "split" && g.r.Bool() {
		base, other = other, base // the bytes of somebody else's valid pair
	}
	return g.credsFrom(q, base, other, kind, p.label)
}

var authWrongKinds = []string{"wrongpw", "unknown", "otherpw", "case", "othername", "split", "split", "sep", "emptypw", "trunc", "swap"}

// kinds derived from one valid pair (the probes below present them after that pair has been accepted)
var authDerivedKinds = []string{"split", "split", "split", "sep", "emptypw", "trunc", "case", "otherpw", "othername", "wrongpw", "swap"}

// command builds one valid wire command of the payload type.
func (g *authGen) command(q *authSeq, p *authConnPlan, ty string) authStep {
	r := g.r
	st := authStep{Conn: p.conn, Ty: ty}
	authed := p.label == "A" || p.label == "S" || p.label == "AC"
	switch ty {
	case "Capability":
		st.Arg = "CAPABILITY"
	case "Noop":
		st.Arg = "NOOP"
	case "IDGet":
		st.Arg = "ID NIL"
	case "IDSet":
		st.Arg = `ID ("name" "vh" "version" "1")`
	case "Logout":
		st.Arg = "LOGOUT"
	case "StartTLS":
		st.Arg = "STARTTLS"
	case "Login":
		kind := Pick(r, authWrongKinds)
		if authed && r.Bool() {
			kind = "right" // already authenticated: even the right credentials are refused (BAD) and must not count
		}
		st.Arg = g.creds(q, p, kind)
	case "Select":
		st.Arg = "SELECT " + g.mailboxArg(p, true)
	case "Examine":
		st.Arg = "EXAMINE " + g.mailboxArg(p, true)
	case "Create":
		n := g.newScratch(p)
		if authed {
			p.known = append(p.known, n)
		}
		st.Arg = "CREATE " + n
	case "Delete":
		// never a stable mailbox of the owner (another session may have it selected); other users' names must be refused
		switch {
		case len(p.known) > 0 && r.Chance(1, 2):
			i := r.Intn(len(p.known))
			st.Arg = "DELETE " + p.known[i]
			if authed {
				p.known = append(p.known[:i], p.known[i+1:]...)
			}
		case r.Chance(1, 2):
			st.Arg = "DELETE " + Pick(r, authStable(p.victim)[1:])
		default:
			st.Arg = "DELETE nosuchbox"
		}
	case "Rename":
		n := g.newScratch(p)
		switch {
		case len(p.known) > 0 && r.Chance(1, 2):
			i := r.Intn(len(p.known))
			st.Arg = "RENAME " + p.known[i] + " " + n
			if authed {
				p.known[i] = n
			}
		case r.Chance(1, 2):
			st.Arg = "RENAME " + Pick(r, authStable(p.victim)[1:]) + " " + n
		default:
			st.Arg = "RENAME nosuchbox " + n
		}
	case "Subscribe", "Unsubscribe":
		st.Arg = strings.ToUpper(ty) + " " + g.mailboxArg(p, false)
	case "List", "LSub":
		cmd := "LIST"
		if ty == "LSub" {
			cmd = "LSUB"
		}
		switch r.Intn(4) {
		case 0:
			st.Arg = cmd + ` "" "*"`
		case 1:
			st.Arg = cmd + ` "" "%"`
		case 2:
			st.Arg = cmd + ` "" "` + authMarker(p.victim) + `*"`
		default:
			st.Arg = cmd + ` "` + authMarker(p.victim) + `box" "*"`
		}
	case "Status":
		st.Arg = "STATUS " + g.mailboxArg(p, true) + " (MESSAGES UIDNEXT UNSEEN)"
	case "Append":
		g.appN++
		st.Arg = fmt.Sprintf("%s %sapp%d", g.mailboxArg(p, true), authMarker(p.owner), g.appN)
	case "Check":
		st.Arg = "CHECK"
	case "Close":
		st.Arg = "CLOSE"
	case "Unselect":
		st.Arg = "UNSELECT"
	case "Expunge":
		st.Arg = "EXPUNGE"
	case "UIDExpunge":
		st.Arg = "UID EXPUNGE " + Pick(r, []string{"1:*", "1", "2:3"})
	case "Search":
		st.Arg = Pick(r, []string{"SEARCH ALL", "SEARCH UNSEEN", `SEARCH SUBJECT "` + authMarker(p.victim) + `"`, `SEARCH SUBJECT "` + authMarker(p.owner) + `"`})
	case "Fetch":
		st.Arg = "FETCH " + Pick(r, []string{"1:*", "1", "2"}) + " " + Pick(r, []string{"(UID FLAGS)", "(UID FLAGS BODY.PEEK[HEADER.FIELDS (Subject)])", "(BODY[])", "(ENVELOPE)"})
	case "Store":
		st.Arg = "STORE " + Pick(r, []string{"1:*", "1", "2"}) + " " + Pick(r, []string{"+FLAGS", "-FLAGS", "FLAGS", "+FLAGS.SILENT"}) + " (" + Pick(r, []string{`\Flagged`, `\Seen`, `\Answered`, `\Deleted`}) + ")"
	case "Copy":
		st.Arg = "COPY " + Pick(r, []string{"1:*", "1"}) + " " + g.mailboxArg(p, true)
	case "Move":
		st.Arg = "MOVE " + Pick(r, []string{"1", "2"}) + " " + g.mailboxArg(p, true)
	case "UID":
		switch r.Intn(5) {
		case 0:
			st.Arg = "UID FETCH 1:* (FLAGS BODY.PEEK[HEADER.FIELDS (Subject)])"
		case 1:
			st.Arg = `UID STORE 1:* +FLAGS.SILENT (\Answered)`
		case 2:
			st.Arg = "UID COPY 1:* " + g.mailboxArg(p, true)
		case 3:
			st.Arg = "UID MOVE 1 " + g.mailboxArg(p, true)
		default:
			st.Arg = "UID SEARCH ALL"
		}
	case "Idle", "Done":
	}
	return st
}

func (g *authGen) emit(q *authSeq, p *authConnPlan, ty string) {
	p.steps = append(p.steps, g.command(q, p, ty))
}

// block: n commands chosen by the coverage deck for the connection's current label; none of them moves the label
func (g *authGen) block(q *authSeq, p *authConnPlan, n int) {
	for i := 0; i < n; i++ {
		ex := map[string]bool{"Logout": p.label != "X"}
		switch p.label {
		case "N0":
			ex["Login"] = true // a LOGIN in N0 moves the label: scheduled by the plan
		case "A", "AC":
			ex["Select"], ex["Examine"] = true, true
		case "S":
			ex["Close"], ex["Unselect"] = true, true
		}
		ty := g.pickType(p.label, ex)
		if (ty == "Select" || ty == "Examine") && p.label == "S" {
			// re-select inside the selected state: stays selected whatever the outcome
			p.steps = append(p.steps, g.command(q, p, ty))
			continue
		}
		g.emit(q, p, ty)
	}
}

func (g *authGen) count(label, ty string) { g.deck[label+"/"+ty]++ }

// planConn: one connection's walk through the protocol states, ending in the state `end` with the terminal `term`.
func (g *authGen) planConn(q *authSeq, p *authConnPlan, end string, term string, noAuth bool) {
	r := g.r
	terminal := func() {
		if term != "" {
			g.count(p.label, term)
			g.emit(q, p, term)
			p.label = "X"
			g.block(q, p, r.Range(1, 4))
		}
	}
	p.label = "N0"
	g.block(q, p, r.Range(1, 4))
	if end == "N0" {
		terminal()
		return
	}
	fails := 0
	if end == "NF" || noAuth || r.Chance(1, 2) {
		fails = r.Range(1, 4)
	}
	for i := 0; i < fails; i++ {
		g.count(p.label, "Login")
		p.steps = append(p.steps, authStep{Conn: p.conn, Ty: "Login", Arg: g.creds(q, p, Pick(r, authWrongKinds))})
		p.label = "NF"
		if r.Chance(2, 3) {
			g.block(q, p, r.Range(1, 3))
		}
	}
	if end == "NF" || noAuth {
		terminal()
		return
	}
	g.count(p.label, "Login")
	p.steps = append(p.steps, authStep{Conn: p.conn, Ty: "Login", Arg: g.creds(q, p, "right")})
	p.label = "A"
	g.count(p.label, "List")
	p.steps = append(p.steps, authStep{Conn: p.conn, Ty: "List", Arg: `LIST "" "*"`})
	g.block(q, p, r.Range(1, 5))
	if end == "A" {
		terminal()
		return
	}
	rounds := r.Range(1, 2)
	for k := 0; k < rounds; k++ {
		ty := Pick(r, []string{"Select", "Select", "Examine"})
		g.count(p.label, ty)
		p.steps = append(p.steps, authStep{Conn: p.conn, Ty: ty, Arg: strings.ToUpper(ty) + " " + Pick(r, authStable(p.owner))})
		p.label = "S"
		g.block(q, p, r.Range(2, 6))
		if end == "S" && k == rounds-1 {
			terminal()
			return
		}
		ty = Pick(r, []string{"Close", "Unselect"})
		g.count(p.label, ty)
		g.emit(q, p, ty)
		p.label = "AC"
		g.block(q, p, r.Range(1, 5))
	}
	terminal()
}

func (g *authGen) letters(n int) string {
	b := make([]byte, n)
	for i := range b {
		b[i] = byte('a' + g.r.Intn(26))
	}
	return string(b)
}

// genUsers: user names and passwords of one server.  Besides unrelated names: a name that is a prefix of another,
// names that differ in letter case only (with different or with the same password), and two valid pairs that become
// the same bytes when name and password are joined with a separator (or with none).
func (g *authGen) genUsers(q *authSeq, nu int) {
	r := g.r
	pw := func(k int) string { return fmt.Sprintf("pw%d%04x", k, r.Intn(1<<16)) }
	scheme := Pick(r, []string{"plain", "prefix", "collide", "case"})
	g.stat["gen.users."+scheme]++
	names, passes := make([]string, nu), make([]string, nu)
	switch scheme {
	case "plain":
		for k := 0; k < nu; k++ {
			names[k], passes[k] = fmt.Sprintf("usr%d", k), pw(k)
		}
	case "prefix":
		n := "u" + g.letters(2)
		for k := 0; k < nu; k++ {
			names[k], passes[k] = n, pw(k)
			n += g.letters(r.Range(1, 2))
		}
	case "collide":
		// (stem, ext+sep+p) and (stem+sep+ext, p)
		sep := Pick(r, []string{"", "", "", ":", " ", ".", "|", "/"})
		stem, ext, p := "u"+g.letters(2), g.letters(2), pw(0)
		names[0], passes[0] = stem, ext+sep+p
		names[1], passes[1] = stem+sep+ext, p
		if nu > 2 {
			names[2], passes[2] = "usr2", pw(2)
			if r.Bool() {
				names[2] = stem + sep + ext + sep + p // the whole joined string as a name
			}
		}
		if sep != "" {
			g.stat["gen.users.collide.with-separator"]++
		}
	case "case":
		n := "u" + g.letters(3)
		vs := []string{n, strings.ToUpper(n), strings.ToUpper(n[:2]) + n[2:]}
		same := r.Bool()
		for k := 0; k < nu; k++ {
			names[k], passes[k] = vs[k], pw(k)
			if same {
				passes[k] = passes[0]
			}
		}
		if same {
			g.stat["gen.users.case.same-password"]++
		}
	}
	// which index (marker, fixture) gets which pair must not matter
	perm := make([]int, nu)
	for i := range perm {
		perm[i] = i
	}
	for i := nu - 1; i > 0; i-- {
		j := r.Intn(i + 1)
		perm[i], perm[j] = perm[j], perm[i]
	}
	for k := 0; k < nu; k++ {
		q.Names = append(q.Names, names[perm[k]])
		q.Passes = append(q.Passes, passes[perm[k]])
	}
}

// remembered-login probe: user o logs in on one connection (and, sometimes, out again); then a *fresh* connection
// presents pairs derived from o's valid pair - none of which any connector accepts - each followed by the full
// listing (refused: not authenticated), and at the end sometimes the right pair of another user (whose session must
// then list that user's mailboxes, not o's).  With `admin`, o is then removed from the server: its own right pair and
// the derived ones must be refused; it comes back with the same or a new password: the old one must be refused once
// it has changed, the new one accepted and bound to o's data.
func (g *authGen) probePlan(q *authSeq, o int, others []int, conn int, admin bool) *authConnPlan {
	r := g.r
	nu := len(q.Names)
	oth := (o + 1 + r.Intn(nu-1)) % nu
	p := &authConnPlan{owner: o, victim: oth, conn: conn, label: "N0"}
	add := func(c int, ty, arg string) { p.steps = append(p.steps, authStep{Conn: c, Ty: ty, Arg: arg}) }
	list := func(c int) { add(c, "List", `LIST "" "*"`) }
	derived := func(c, n int, label string) {
		for i := 0; i < n; i++ {
			add(c, "Login", g.credsFrom(q, o, oth, Pick(r, authDerivedKinds), label))
			if r.Chance(2, 3) {
				list(c)
			}
		}
	}
	add(conn, "Login", g.credsFrom(q, o, oth, "right", "probe"))
	list(conn)
	loggedOut := admin || r.Chance(1, 3)
	if loggedOut {
		add(conn, "Logout", "LOGOUT")
	}
	derived(conn+1, r.Range(1, 2), "probe-after-login")
	if len(others) > 0 && r.Chance(1, 2) {
		w := Pick(r, others)
		add(conn+1, "Login", g.credsFrom(q, w, o, "right", "probe"))
		list(conn + 1)
		add(conn+1, "Logout", "LOGOUT")
	}
	if !admin {
		return p
	}
	g.stat["gen.sequences.with-remove-and-add-user"]++
	p.steps = append(p.steps, authStep{Conn: -1, Ty: "AdminRemove", Arg: strconv.Itoa(o)})
	add(conn+2, "Login", g.credsFrom(q, o, oth, "right", "probe-removed")) // nobody's pair now
	list(conn + 2)
	derived(conn+2, r.Range(0, 1), "probe-removed")
	newPass := q.Passes[o]
	if r.Bool() {
		newPass = fmt.Sprintf("np%d%04x", o, r.Intn(1<<16))
		g.stat["gen.sequences.with-password-change"]++
	}
	p.steps = append(p.steps, authStep{Conn: -1, Ty: "AdminAdd", Arg: fmt.Sprintf("%d %s", o, authWord(newPass, false))})
	if newPass != q.Passes[o] {
		add(conn+2, "Login", g.credsFrom(q, o, oth, "right", "probe-old-password"))
		list(conn + 2)
	}
	add(conn+3, "Login", authLoginArg(q.Names[o], newPass, r.Chance(1, 4)))
	list(conn + 3)
	add(conn+3, "Logout", "LOGOUT")
	return p
}

// genAuthSeq: one sequence (users, passwords, interleaved steps of 2-4 connections).
func (g *authGen) genAuthSeq(r *Rng, jailMS int) *authSeq {
	g.r = r
	g.scratch, g.appN = 0, 0
	nu := r.Range(2, 3)
	q := &authSeq{JailMS: jailMS}
	g.genUsers(q, nu)
	// the victim never gets an authenticated session in this sequence: its view must stay identical
	victim := r.Intn(nu)
	unauthOnly := r.Chance(1, 5) // nobody logs in successfully: every view must stay identical
	nc := r.Range(2, 4)
	var plans []*authConnPlan
	for c := 0; c < nc; c++ {
		owner := r.Intn(nu)
		if c == 1 && r.Chance(1, 2) {
			owner = plans[0].owner // two connections of the same user
		}
		noAuth := unauthOnly || owner == victim
		// cross-user attempts aim at the victim (for the victim's own connections: at the next user)
		p := &authConnPlan{owner: owner, victim: victim, conn: c}
		if p.victim == p.owner {
			p.victim = (owner + 1) % nu
		}
		// end state and terminal: the least exercised (label, terminal) pair among those this connection can reach
		ends := []string{"N0", "NF", "A", "S", "AC"}
		if noAuth {
			ends = []string{"N0", "NF"}
		}
		best, bestN := [][2]string{}, 1<<30
		for _, e := range ends {
			for _, t := range []string{"Logout"} {
				n := g.deck[e+"/"+t]
				if n < bestN {
					best, bestN = [][2]string{{e, t}}, n
				} else if n == bestN {
					best = append(best, [2]string{e, t})
				}
			}
		}
		et := Pick(r, best)
		if r.Chance(1, 4) {
			et = [2]string{Pick(r, ends), ""} // stays connected to the end
			if !noAuth {
				et[0] = "AC"
			}
		}
		g.planConn(q, p, et[0], et[1], noAuth)
		for _, o := range plans {
			if o.owner == p.owner {
				g.stat["gen.connection-pairs.same-user"]++
			} else {
				g.stat["gen.connection-pairs.different-users"]++
			}
		}
		g.stat["gen.connections"]++
		plans = append(plans, p)
	}
	// a dedicated jail probe in some sequences: three failures in a row, then one more attempt (right or wrong), then again
	if unauthOnly {
		g.stat["gen.sequences.nobody-authenticates"]++
	}
	if r.Chance(1, 3) {
		g.stat["gen.sequences.with-jail-probe"]++
		owner := r.Intn(nu)
		p := &authConnPlan{owner: owner, victim: (owner + 1) % nu, conn: nc, label: "N0"}
		right := "wrongpw"
		if !unauthOnly && owner != victim {
			right = "right"
		}
		kinds := []string{Pick(r, authWrongKinds), Pick(r, authWrongKinds), Pick(r, authWrongKinds), Pick(r, []string{right, "wrongpw"})}
		if r.Chance(1, 3) && right == "right" {
			// a success in between resets the counter: the third failure after it is the blocked one
			kinds = []string{Pick(r, authWrongKinds), Pick(r, authWrongKinds), "right"}
		}
		for _, k := range kinds {
			g.count(p.label, "Login")
			p.steps = append(p.steps, authStep{Conn: p.conn, Ty: "Login", Arg: g.creds(q, p, k)})
			if k == "right" {
				p.label = "A"
			} else if p.label == "N0" {
				p.label = "NF"
			}
		}
		plans = append(plans, p)
	}
	// remembered-login probe (one plan over several fresh connections: its own order is kept by the interleaving)
	if !unauthOnly && r.Chance(1, 2) {
		var cands []int
		for k := 0; k < nu; k++ {
			if k != victim {
				cands = append(cands, k)
			}
		}
		// remove / add only a user no other connection of this sequence belongs to (RemoveUser ends its sessions)
		var alone []int
		for _, k := range cands {
			used := false
			for _, pl := range plans {
				if pl.owner == k {
					used = true
				}
			}
			if !used {
				alone = append(alone, k)
			}
		}
		o, admin := Pick(r, cands), false
		if len(alone) > 0 && r.Chance(2, 3) {
			o, admin = Pick(r, alone), true
		}
		var others []int
		for _, k := range cands {
			if k != o {
				others = append(others, k)
			}
		}
		g.stat["gen.sequences.with-remembered-login-probe"]++
		plans = append(plans, g.probePlan(q, o, others, nc+1, admin))
	}
	// random interleaving that keeps every connection's own order
	idx := make([]int, len(plans))
	for {
		var live []int
		for i, p := range plans {
			if idx[i] < len(p.steps) {
				live = append(live, i)
			}
		}
		if len(live) == 0 {
			break
		}
		i := Pick(r, live)
		// a connection tends to issue a few commands in a row
		burst := r.Range(1, 3)
		for b := 0; b < burst && idx[i] < len(plans[i].steps); b++ {
			q.Steps = append(q.Steps, plans[i].steps[idx[i]])
			idx[i]++
		}
	}
	return q
}

// ---- oracle ------------------------------------------------------------------------------

var reAuthPair = regexp.MustCompile(`^([A-Z0-9]+):([A-Za-z]+)>([a-z-]+)$`)

func runAuthOracle(args []string) int {
	fs := flag.NewFlagSet("c18auth", flag.ExitOnError)
	seed := fs.Uint64("seed", 1, "")
	out := fs.String("out", "", "")
	replayDir := fs.String("replaydir", ".", "")
	replay := fs.String("replay", "", "")
	n := fs.Int("n", 100, "sequences")
	jail := fs.Int("jail", 300, "login jail time in ms")
	workers := fs.Int("workers", 8, "")
	verbose := fs.Bool("v", false, "")
	_ = fs.Parse(args)
	res := &OracleResult{Stats: map[string]int{}, Samples: []any{}, Violations: []OracleViol{}}

	judgeAll := func(runs []*authRun) error {
		var lines []string
		var idx []int
		for i, r := range runs {
			if r.setupErr == nil && r.hang == "" && r.judgeIn != "" {
				lines = append(lines, r.judgeIn)
				idx = append(idx, i)
			}
		}
		if len(lines) == 0 {
			return nil
		}
		ans, err := leanJudge(lines)
		if err != nil {
			return err
		}
		if len(ans) != len(lines) {
			return fmt.Errorf("lean judge answered %d lines for %d traces", len(ans), len(lines))
		}
		for j, i := range idx {
			runs[i].judge = ans[j]
		}
		return nil
	}
	verdict := func(r *authRun) string {
		switch {
		case r.setupErr != nil:
			return "harness: " + r.setupErr.Error()
		case len(r.panics) > 0:
			return r.panics[0]
		case r.hang != "":
			return r.hang
		case !strings.HasPrefix(r.judge, "ok"):
			return r.judge
		}
		return ""
	}
	report := func(r *authRun, q *authSeq, why, note string) {
		text := q.text()
		text += fmt.Sprintf("# property C18: %s\n# %s\n", why, note)
		if r != nil {
			for i, st := range r.seq.Steps {
				if i < len(r.obs) {
					text += fmt.Sprintf("#   %-3d %-64s => %-4s seen=%s %q", i, st.String(), r.obs[i].Status, digits(r.obs[i].Seen), r.obs[i].Raw)
					if r.obs[i].Probed {
						text += fmt.Sprintf(" pair-accepted-by-connector-of=%s session-lists-mailboxes-of=%s", digits(r.obs[i].Acc), digits(r.obs[i].Who))
					}
					text += "\n"
				}
			}
			for _, k := range r.changed {
				text += fmt.Sprintf("# view of user %d changed:\n#   before: %s\n#   after:  %s\n", k, strings.ReplaceAll(r.before[k], "\n", " | "), strings.ReplaceAll(r.after[k], "\n", " | "))
			}
		}
		text += "# replay: ./check C18 --replay <this file>\n"
		name := fmt.Sprintf("C18-auth-%d-%d.txt", *seed, len(res.Violations))
		path := filepath.Join(*replayDir, name)
		_ = os.MkdirAll(*replayDir, 0o755)
		_ = os.WriteFile(path, []byte(text), 0o644)
		res.Violations = append(res.Violations, OracleViol{Desc: "C18: " + why, Replay: path})
	}
	account := func(r *authRun) {
		res.Evaluations += len(r.seq.Steps)
		res.Stats["sequences"]++
		res.Stats["steps"] += len(r.seq.Steps)
		res.Stats[fmt.Sprintf("users.%d", len(r.seq.Names))]++
		if len(r.changed) == 0 {
			res.Stats["views.all-unchanged"]++
		}
		res.Stats["views.changed-users"] += len(r.changed)
		f := strings.Fields(r.judge)
		// ok nontrivial <steps> <pairs> <jailwaits> <blocked> <touched>
		if len(f) >= 7 && f[0] == "ok" {
			for _, p := range strings.Split(f[3], ",") {
				if m := reAuthPair.FindStringSubmatch(p); m != nil {
					res.Stats["pair."+m[1]+"."+m[2]]++
					res.Stats["pair-outcome."+m[1]+"."+m[2]+"."+m[3]]++
				}
			}
			res.Stats["jail.attempts-that-had-to-wait"] += atoi(strings.TrimPrefix(f[4], "waits="))
			res.Stats["jail.blocked-replies"] += atoi(strings.TrimPrefix(f[5], "blocked="))
			if f[6] != "touched=-" {
				res.Stats["views.sequences-with-authenticated-effects"]++
			}
			res.DistinctNontrivial++
		}
	}

	if *replay != "" {
		b, err := os.ReadFile(*replay)
		if err != nil {
			fmt.Fprintln(os.Stderr, err)
			return 1
		}
		q, err := parseAuthSeq(string(b))
		if err != nil {
			fmt.Fprintln(os.Stderr, err)
			return 1
		}
		r := runAuthSeq(q, true)
		runs := []*authRun{r}
		if err := judgeAll(runs); err != nil {
			fmt.Fprintln(os.Stderr, "lean judge:", err)
			return 1
		}
		fmt.Fprintln(os.Stderr, "judge:", r.judge)
		if r.setupErr == nil && r.hang == "" {
			account(r)
		}
		if v := verdict(r); v != "" {
			report(r, q, v, "replayed")
		}
		if *out != "" {
			writeResult(*out, res)
		}
		for _, v := range res.Violations {
			fmt.Fprintln(os.Stderr, "VIOL", v.Desc, v.Replay)
		}
		return 0
	}

	// offline generation, in order (the coverage deck is shared), then parallel execution
	rng := NewRng(*seed)
	g := &authGen{deck: map[string]int{}, stat: map[string]int{}}
	// directed scenarios and past failures first: $VERIF_CORPUS/*.txt in the replay-file format
	var seqs []*authSeq
	var origin []string
	if dir := os.Getenv("VERIF_CORPUS"); dir != "" {
		files, _ := filepath.Glob(filepath.Join(dir, "*.txt"))
		sort.Strings(files)
		for _, f := range files {
			b, err := os.ReadFile(f)
			if err != nil || !strings.HasPrefix(string(b), "oracle c18auth") {
				continue
			}
			q, err := parseAuthSeq(string(b))
			if err != nil {
				res.Violations = append(res.Violations, OracleViol{Desc: "C18: harness: corpus file " + f + ": " + err.Error()})
				continue
			}
			res.Stats["corpus-files"]++
			seqs = append(seqs, q)
			origin = append(origin, "corpus "+filepath.Base(f))
		}
	}
	for i := 0; i < *n; i++ {
		seqs = append(seqs, g.genAuthSeq(rng.Fork(), *jail))
		origin = append(origin, fmt.Sprintf("seed %d, sequence %d", *seed, i))
	}
	for _, k := range sortedKeys(g.stat) {
		res.Stats[k] = g.stat[k]
	}
	runs := make([]*authRun, len(seqs))
	var wg sync.WaitGroup
	next := make(chan int)
	for w := 0; w < *workers; w++ {
		wg.Add(1)
		go func() {
			defer wg.Done()
			for i := range next {
				runs[i] = runAuthSeq(seqs[i], false)
				if runs[i].setupErr != nil {
					// environment (ports, disk): one more try before it is reported
					runs[i] = runAuthSeq(seqs[i], false)
				}
			}
		}()
	}
	for i := range seqs {
		next <- i
	}
	close(next)
	wg.Wait()
	if err := judgeAll(runs); err != nil {
		fmt.Fprintln(os.Stderr, "lean judge:", err)
		res.Violations = append(res.Violations, OracleViol{Desc: "C18: the Lean judge could not be run: " + err.Error()})
		if *out != "" {
			writeResult(*out, res)
		}
		return 0
	}
	reported := 0
	for i, r := range runs {
		if r.setupErr == nil && r.hang == "" {
			account(r)
		}
		v := verdict(r)
		if v == "" {
			continue
		}
		res.Stats["sequences.failed"]++
		if reported >= 3 {
			continue
		}
		reported++
		// minimise: drop chunks of steps while the same kind of verdict persists
		q := seqs[i]
		kind := verdictKind(v)
		fails := func(steps []authStep) (*authRun, bool) {
			q2 := &authSeq{Names: q.Names, Passes: q.Passes, JailMS: q.JailMS, Steps: steps}
			r2 := runAuthSeq(q2, false)
			if err := judgeAll([]*authRun{r2}); err != nil {
				return nil, false
			}
			return r2, verdictKind(verdict(r2)) == kind
		}
		cur, curRun := q.Steps, r
		budget := 25
		for chunk := len(cur) / 2; chunk >= 1 && budget > 0; {
			removed := false
			for k := 0; k+chunk <= len(cur) && budget > 0; {
				cand := append(append([]authStep{}, cur[:k]...), cur[k+chunk:]...)
				budget--
				if r2, bad := fails(cand); bad {
					cur, curRun, removed = cand, r2, true
				} else {
					k += chunk
				}
			}
			if !removed || chunk > 1 {
				chunk /= 2
			}
		}
		qs := &authSeq{Names: q.Names, Passes: q.Passes, JailMS: q.JailMS, Steps: cur}
		report(curRun, qs, verdict(curRun), fmt.Sprintf("minimised from %d steps (%s)", len(q.Steps), origin[i]))
	}
	// coverage of the (state, command) matrix, by the judge's own labels
	missing := 0
	for _, l := range authLabels {
		for _, ty := range authAllTypes {
			if res.Stats["pair."+l+"."+ty] == 0 {
				missing++
				if missing <= 20 {
					res.Stats["pair-missing."+l+"."+ty] = 1
				}
			}
		}
	}
	res.Stats["pairs.total"] = len(authLabels) * len(authAllTypes)
	res.Stats["pairs.covered"] = len(authLabels)*len(authAllTypes) - missing
	if len(runs) > 0 && runs[0].setupErr == nil {
		var steps []string
		for _, s := range runs[0].seq.Steps {
			steps = append(steps, s.String())
		}
		res.Samples = append(res.Samples, map[string]any{"sequence": steps, "judge": runs[0].judge})
	}
	if *out != "" {
		writeResult(*out, res)
	}
	if *verbose {
		for _, k := range sortedKeys(res.Stats) {
			fmt.Fprintf(os.Stderr, "%s=%d\n", k, res.Stats[k])
		}
	}
	for _, v := range res.Violations {
		fmt.Fprintln(os.Stderr, "VIOL", v.Desc, v.Replay)
	}
	return 0
}

// verdictKind: the part of a verdict that identifies the kind of failure (for minimisation)
func verdictKind(v string) string {
	f := strings.Fields(v)
	var keep []string
	for _, w := range f {
		if strings.HasPrefix(w, "step=") || strings.HasPrefix(w, "conn=") || strings.HasPrefix(w, "recv=") || strings.HasPrefix(w, "earliest=") {
			continue
		}
		keep = append(keep, w)
	}
	if len(keep) > 6 {
		keep = keep[:6]
	}
	return strings.Join(keep, " ")
}

func init() { RegisterOracle(&Oracle{Name: "c18auth", Run: runAuthOracle}) }
